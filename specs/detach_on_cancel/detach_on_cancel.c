/* C19 (+ C02: detached state freed exactly once, never touched after): include/unifex/detach_on_cancel.hpp --
 * detached_state::{request_stop, try_get_op, init_refcount, parent_op_ptr, ref_count}, _receiver::{set_value, set_error, set_done},
 * cancel_callback::operator(), tag_invoke(start, type&).  Bodies marked @BODY/@EXPR are extracted from /repo on every run.
 *
 * parentOp_ = (parent pointer | 2-bit count).  (P,1) initially.
 *   K  the stop callback:   CAS (P,1) -> (0,2): K owns the parent op and will complete it with done; later fetch_sub(1)
 *   C  the child completion: fetch_sub(1): from (P,1): C owns the parent op and completes it with the child's result;
 *                                          from (0,2): lost, K completes;  from (0,1): K detached, C frees the state
 * After K's CAS two decrements follow (K's and C's, any order); the one that reaches 0 frees the detached state
 * (K: op->state_.reset(), C: delete this), the other one lets go (K: op->state_.release(), C: nothing). */
#include <stddef.h>
#include <stdint.h>

struct detached_state;
struct parent_op { struct detached_state* state_; int callback_; int receiver_; };
struct detached_state { uintptr_t parentOp_; int stopSource_; int childOp_; };
struct ds_receiver { struct detached_state* state_; };
struct cancel_callback { struct detached_state* state_; };

enum { KP_IDLE, KP_LOST, KP_WON, KP_SUBBED };   /* stop callback: not run (or before its CAS) / found the child had completed / CAS done / fetch_sub done */
enum { CP_IDLE, CP_WON, CP_LOST, CP_LAST };     /* child completion: not yet / decremented (P,1): owns the parent / decremented (0,2) / decremented (0,1): frees */
enum { CB_NONE, CB_LIVE, CB_DESTROYED };
enum { P_K, P_C, P_S };

struct proto {
  uintptr_t w;
  uint8_t kp, cp, cb;
  _Bool child_started;
  _Bool freed;            /* the detached state has been freed (reset() or delete this) */
  _Bool released;         /* the parent's unique_ptr has let go of it */
  _Bool completed;        /* the downstream receiver has been completed */
  _Bool parent_dead;      /* ... and has destroyed the parent operation */
};
struct vf_ghost {
  int me;
  uint8_t kp, cp, cb;
  _Bool child_started, freed, released, completed, parent_dead;
  _Bool state_dead;       /* = freed, or destroyed together with the parent that still owned it */
  struct detached_state ds_snap; struct parent_op pop_snap;
  uintptr_t lin_old, lin_new; unsigned lin_count;      /* my last write to parentOp_ */
  uintptr_t sub_old; _Bool subbed; _Bool cas_ok;
  unsigned stop_child_calls, cb_destructs, cb_constructs, resets, releases, deletes, down_value, down_error, down_done, try_get_calls, request_stop_calls, child_starts;
  _Bool value_threw;
  _Bool c_won_by_me;      /* receiver units: try_get_op (stub) returned the parent */
};
static struct vf_ghost G;
static struct parent_op POP;
static struct detached_state DS;
static struct ds_receiver RCV;
static struct cancel_callback CBK;

static void vf_guar(void* p, uint64_t o, uint64_t n);
#define VF_G(p, o, n) vf_guar((void*)(p), (uint64_t)(o), (uint64_t)(n))
#include "vf.h"

static const uintptr_t mask = /*@EXPR mask*/;
static uintptr_t DS_init_refcount(struct parent_op* parentOp)
/*@BODY init_refcount*/
static struct parent_op* DS_parent_op_ptr(uintptr_t parentOp)
/*@BODY parent_op_ptr*/
static uintptr_t DS_ref_count(uintptr_t parentOp)
/*@BODY ref_count*/

/* ---------------- protocol predicates (specification) ---------------- */
#define IMP(a, b) (!(a) || (b))
#define W_P1 (((uintptr_t)&POP) | (uintptr_t)1)     /* (P,1): nobody has decided */
#define W_P0 ((uintptr_t)&POP)                       /* (P,0): the child completion owns the parent */
#define W_2 ((uintptr_t)2)                           /* (0,2): the callback owns the parent, neither has decremented */
#define W_1 ((uintptr_t)1)
#define W_0 ((uintptr_t)0)
#define INVV(w, kp, cp, cb, cs, fr, re, co, pd) ( (kp) <= KP_SUBBED && (cp) <= CP_LAST && (cb) <= CB_DESTROYED \
  && ((w) == W_P1 || (w) == W_P0 || (w) == W_2 || (w) == W_1 || (w) == W_0) \
  && (((w) == W_P1) == (((kp) == KP_IDLE) && (cp) == CP_IDLE)) \
  && (((w) == W_P0) == ((cp) == CP_WON)) \
  && IMP((cp) == CP_WON, (kp) == KP_IDLE || (kp) == KP_LOST) && IMP((kp) == KP_LOST, (cp) == CP_WON) \
  && (((w) == W_2) == ((kp) == KP_WON && (cp) == CP_IDLE)) \
  && (((w) == W_1) == (((kp) == KP_WON && (cp) == CP_LOST) || ((kp) == KP_SUBBED && (cp) == CP_IDLE))) \
  && (((w) == W_0) == ((kp) == KP_SUBBED && ((cp) == CP_LOST || (cp) == CP_LAST))) \
  && IMP((cp) != CP_IDLE, (cs)) && IMP((cs) || (kp) != KP_IDLE, (cb) != CB_NONE) \
  && IMP((fr), (w) == W_0) && IMP((re), (kp) == KP_SUBBED && (cp) != CP_LOST) && !((fr) && (re) && (cp) == CP_IDLE) \
  && IMP((cb) == CB_DESTROYED, (cp) == CP_WON || (kp) == KP_SUBBED) \
  && IMP((co), (cb) == CB_DESTROYED) && IMP((pd), (co)) \
  && IMP((co) && (kp) == KP_SUBBED, ((cp) == CP_LOST) ? (fr) : (re)) )   /* the callback settles the ownership of the state before it completes */
#define INV(p) INVV((p).w, (p).kp, (p).cp, (p).cb, (p).child_started, (p).freed, (p).released, (p).completed, (p).parent_dead)
#define INV_NOW INVV(DS.parentOp_, G.kp, G.cp, G.cb, G.child_started, G.freed, G.released, G.completed, G.parent_dead)

#define MONO(a, b) ( (b).kp >= (a).kp && (b).cp >= (a).cp && (b).cb >= (a).cb && IMP((a).child_started, (b).child_started) && IMP((a).freed, (b).freed) \
  && IMP((a).released, (b).released) && IMP((a).completed, (b).completed) && IMP((a).parent_dead, (b).parent_dead) \
  && IMP((a).kp != KP_IDLE, (b).kp != KP_LOST || (a).kp == KP_LOST) && IMP((a).cp != CP_IDLE, (b).cp == (a).cp) && IMP((a).kp == KP_LOST, (b).kp == KP_LOST) )

/* environment of the running STOP CALLBACK: the child completion (one fetch_sub, then what try_get_op / the receiver do with the
 * outcome).  If the child completion won, its destructor call on my callback waits for me: no downstream completion yet.
 * The child completion frees the state only when its decrement found (0,1), i.e. after my own decrement. */
#define RELY_K(a, b) ( MONO(a, b) && INV(b) && (b).kp == (a).kp && (b).cb == (a).cb && (b).released == (a).released \
  && (b).completed == (a).completed && (b).parent_dead == (a).parent_dead && (b).child_started == (a).child_started \
  && IMP((b).freed && !(a).freed, (b).cp == CP_LAST) && IMP((a).cp == CP_IDLE && !(a).child_started, (b).cp == CP_IDLE) )

/* environment of the CHILD COMPLETION (try_get_op and the receiver around it): the stop callback, start to finish.
 * The callback frees the state only when its decrement found (0,1), i.e. after mine; it completes the parent only after its decrement. */
#define RELY_C(a, b) ( MONO(a, b) && INV(b) && (b).cp == (a).cp && (b).child_started == (a).child_started \
  && IMP((b).freed && !(a).freed, (b).kp == KP_SUBBED && (b).cp == CP_LOST) \
  && IMP((b).cb != (a).cb, (b).kp == KP_SUBBED) && IMP((b).completed && !(a).completed, (b).kp == KP_SUBBED && (b).cb == CB_DESTROYED) \
  && IMP((b).released && !(a).released, (b).kp == KP_SUBBED) )

/* environment of START (after the callback was constructed, before the child is started): the stop callback only */
#define RELY_S(a, b) ( MONO(a, b) && INV(b) && (b).cp == (a).cp && (b).child_started == (a).child_started && !(b).freed \
  && IMP((b).cb != (a).cb, (b).kp == KP_SUBBED) && IMP((b).completed && !(a).completed, (b).kp == KP_SUBBED && (b).cb == CB_DESTROYED) \
  && IMP((b).released && !(a).released, (b).kp == KP_SUBBED) && IMP((a).cb == CB_NONE, (b).kp == KP_IDLE && (b).cb == CB_NONE) )

static void vf_state_dies(void) {
  struct detached_state f;
  DS.parentOp_ = f.parentOp_; DS.stopSource_ = f.stopSource_; DS.childOp_ = f.childOp_;
  G.ds_snap = DS; G.state_dead = 1;
}
static void vf_parent_dies(void) {
  struct parent_op f;
  POP.callback_ = f.callback_; POP.receiver_ = f.receiver_;
  POP.state_ = VF_nondet_bool() ? &DS : NULL;
  G.pop_snap = POP; G.parent_dead = 1;
  if (!G.released && !G.state_dead) vf_state_dies();   /* ~type: the unique_ptr still owns the detached state */
}
#define DS_EQ_SNAP (DS.parentOp_ == G.ds_snap.parentOp_ && DS.stopSource_ == G.ds_snap.stopSource_ && DS.childOp_ == G.ds_snap.childOp_)
#define POP_EQ_SNAP (POP.state_ == G.pop_snap.state_ && POP.callback_ == G.pop_snap.callback_ && POP.receiver_ == G.pop_snap.receiver_)
#define PROTO_NOW(p) do { (p).w = DS.parentOp_; (p).kp = G.kp; (p).cp = G.cp; (p).cb = G.cb; (p).child_started = G.child_started; (p).freed = G.freed; \
  (p).released = G.released; (p).completed = G.completed; (p).parent_dead = G.parent_dead; } while (0)

static uintptr_t nondet_word(void) {
  switch (VF_nondet_u8() & 7) { case 0: return W_P1; case 1: return W_P0; case 2: return W_2; case 3: return W_1; default: return W_0; }
}
static void vf_interfere(void) {
  if (G.state_dead) return;                 /* the word is gone */
  struct proto a, b;
  PROTO_NOW(a);
  b.w = nondet_word(); b.kp = VF_nondet_u8(); b.cp = VF_nondet_u8(); b.cb = VF_nondet_u8(); b.child_started = VF_nondet_bool();
  b.freed = VF_nondet_bool(); b.released = VF_nondet_bool(); b.completed = VF_nondet_bool(); b.parent_dead = VF_nondet_bool();
  if (G.me == P_K) __CPROVER_assume(RELY_K(a, b)); else if (G.me == P_C) __CPROVER_assume(RELY_C(a, b)); else __CPROVER_assume(RELY_S(a, b));
  DS.parentOp_ = b.w; G.kp = b.kp; G.cp = b.cp; G.cb = b.cb; G.child_started = b.child_started; G.released = b.released; G.completed = b.completed;
  if (b.parent_dead && !a.parent_dead) vf_parent_dies();
  if (b.freed && !a.freed) { G.freed = 1; if (!G.state_dead) vf_state_dies(); }
}

static void vf_guar(void* p, uint64_t o, uint64_t n) {
  if (p == (void*)&DS.parentOp_) {
    VF_P(!G.state_dead, "no write to parentOp_ of a freed detached state");
    if (G.me == P_K) {
      if (G.kp == KP_IDLE) {
        VF_P(o == W_P1 && n == W_2, "guarantee: the stop callback claims the parent only by (P,1) -> (0,2)");
        VF_P(!G.cas_ok && G.lin_count == 0, "the stop callback claims once");
        G.kp = KP_WON; G.cas_ok = 1;
      } else {
        VF_P(G.kp == KP_WON && !G.subbed && (o == W_2 || o == W_1) && n == o - 1, "guarantee: after claiming, the stop callback decrements the count exactly once");
        G.kp = KP_SUBBED; G.subbed = 1; G.sub_old = (uintptr_t)o;
      }
    } else if (G.me == P_C) {
      VF_P(G.cp == CP_IDLE && !G.subbed && (o == W_P1 || o == W_2 || o == W_1) && n == o - 1, "guarantee: the child completion decrements the count exactly once, from a count >= 1");
      G.cp = (o == W_P1) ? CP_WON : (o == W_2 ? CP_LOST : CP_LAST); G.subbed = 1; G.sub_old = (uintptr_t)o;
    } else {
      VF_P(0, "guarantee: start() does not write parentOp_");
    }
    G.lin_old = (uintptr_t)o; G.lin_new = (uintptr_t)n; G.lin_count++;
  } else {
    VF_P(0, "atomic write to an unexpected location");
  }
}
#define VF_ALIVE(p) ({ VF_P(!G.state_dead, "no access to the detached state (or the child operation / receiver inside it) after it may have been freed"); (p); })
#define VF_PARENT(p) ({ VF_P(!G.parent_dead, "no access to the parent operation after its receiver was completed (it may be destroyed)"); (p); })

/* ---------------- event stubs ---------------- */
/* stopSource_.request_stop(): the child may complete inline (or concurrently) */
static void EV_stop_child(struct detached_state* self) {
  VF_CANARY("child stop request reachable");
  VF_P(self == &DS && !G.state_dead, "stop is forwarded on the live detached state");
  VF_P(G.me == P_K && G.cas_ok && !G.subbed, "the child is stopped only by the callback that claimed the parent, before it gives up its count (the state cannot be freed under it)");
  VF_P(G.stop_child_calls == 0, "the child is asked to stop at most once");
  G.stop_child_calls++;
  vf_interfere();
}
static void EV_cb_destruct(struct parent_op* op) {
  VF_CANARY("callback destruction reachable");
  VF_P(op == &POP && !G.parent_dead, "the callback is destroyed in the live parent operation");
  VF_P(G.cb == CB_LIVE && G.cb_destructs == 0, "the stop callback is destroyed exactly once (constructed, not yet destroyed)");
  VF_P((G.me == P_K && G.cas_ok && G.subbed) || (G.me == P_C && G.subbed && G.sub_old == W_P1), "the stop callback is destroyed only by the owner of the parent operation");
  vf_interfere();                           /* the destructor waits for a run in progress elsewhere */
  if (G.me == P_C && G.kp == KP_IDLE) { /* it can no longer fire */ }
  G.cb = CB_DESTROYED; G.cb_destructs++;
}
static void vf_free_state(void) {
  VF_P(!G.freed && !G.state_dead, "the detached state is freed exactly once");
  VF_P(G.subbed && G.lin_new == W_0, "the detached state is freed only by the party whose decrement brought the count to 0 (nobody else will touch it)");
  G.freed = 1;
  vf_state_dies();
}
static void EV_state_reset(struct parent_op* op, struct detached_state* self) {
  VF_CANARY("state_.reset() reachable");
  VF_P(op == &POP && !G.parent_dead && POP.state_ == self, "reset() on the live parent's unique_ptr, which still owns this state");
  VF_P(!G.released, "reset() only while the unique_ptr still owns the state");
  G.resets++;
  vf_free_state();
  POP.state_ = NULL;
}
static void EV_state_release(struct parent_op* op, struct detached_state* self) {
  VF_CANARY("state_.release() reachable");
  VF_P(op == &POP && !G.parent_dead, "release() on the live parent's unique_ptr");
  VF_P(!G.released && G.releases == 0, "the unique_ptr lets go at most once");
  VF_P(G.me == P_K && G.subbed && G.sub_old == W_2, "the callback detaches the state only when the child completion has not decremented yet (it will free it)");
  G.released = 1; G.releases++;
  POP.state_ = NULL;
  vf_interfere();                           /* from now on the child completion may find (0,1) and free the state */
}
static void EV_delete_this(struct detached_state* self) {
  VF_CANARY("delete this reachable");
  VF_P(self == &DS && G.me == P_C, "delete this from the child completion");
  VF_P(G.subbed && G.sub_old == W_1 && G.cp == CP_LAST, "delete this only when the child completion's decrement found (0,1): the callback decremented from 2, so it detaches (release()) and never frees");
  G.deletes++;
  vf_free_state();
}
static void vf_down(struct parent_op* op) {
  VF_P(op == &POP && !G.parent_dead, "completion of the live parent's receiver");
  VF_P(!G.completed && G.down_value + G.down_error + G.down_done == 0, "the downstream receiver is completed exactly once");
  VF_P(G.cb == CB_DESTROYED, "the stop callback is destroyed before the downstream receiver is completed");
  VF_P((G.me == P_K && G.cas_ok && G.subbed) || (G.me == P_C && G.c_won_by_me), "only the owner of the parent operation (callback that claimed it / child completion that got it from try_get_op) completes the receiver");
  VF_P(G.me != P_K || G.resets + G.releases == 1, "the callback settles the ownership of the detached state before it completes the receiver (the parent may be destroyed right after)");
}
static _Bool EV_down_set_value(struct parent_op* op) {
  VF_CANARY("downstream set_value reachable");
  VF_P(G.me == P_C, "values come from the child only");
  vf_down(op);
  if (VF_nondet_bool()) { G.value_threw = 1; return 1; }
  G.down_value++; G.completed = 1;
  if (VF_nondet_bool()) vf_parent_dies();
  return 0;
}
static void EV_down_set_error(struct parent_op* op) {
  VF_CANARY("downstream set_error reachable");
  VF_P(G.me == P_C, "errors come from the child only");
  vf_down(op);
  G.down_error++; G.completed = 1;
  if (VF_nondet_bool()) vf_parent_dies();
}
static void EV_down_set_done(struct parent_op* op) {
  VF_CANARY("downstream set_done reachable");
  vf_down(op);
  G.down_done++; G.completed = 1;
  if (VF_nondet_bool()) vf_parent_dies();
}
static void EV_cb_construct(struct parent_op* op, struct detached_state* st) {
  VF_CANARY("callback construction reachable");
  VF_P(op == &POP && st == &DS && G.cb == CB_NONE && G.cb_constructs == 0, "the stop callback is constructed exactly once, pointing at the detached state");
  VF_P(!G.child_started, "the stop callback is registered before the child is started");
  G.cb = CB_LIVE; G.cb_constructs++;
  vf_interfere();                           /* it may fire inline / concurrently: the parent may be completed and destroyed */
}
static void EV_child_start(int* child) {
  VF_CANARY("child start reachable");
  VF_P(child == &DS.childOp_ && !G.state_dead, "the child operation inside the live detached state is started");
  VF_P(G.child_starts == 0 && !G.child_started, "the child is started exactly once");
  VF_P(G.cb != CB_NONE, "the child is started after the stop callback was registered");
  G.child_starts++; G.child_started = 1;
  /* the child may complete at once (inline or on another thread): the parent may be completed and destroyed, the state freed */
  if (!G.parent_dead && VF_nondet_bool()) { G.completed = 1; vf_parent_dies(); }
  if (!G.state_dead && VF_nondet_bool()) vf_state_dies();
}

/* ---------------- functions under contract ---------------- */
#define COUNTERS_ZERO (G.lin_count == 0 && !G.subbed && !G.cas_ok && G.stop_child_calls == 0 && G.cb_destructs == 0 && G.cb_constructs == 0 && G.resets == 0 && G.releases == 0 && G.deletes == 0 \
   && G.down_value == 0 && G.down_error == 0 && G.down_done == 0 && G.try_get_calls == 0 && G.request_stop_calls == 0 && G.child_starts == 0 && !G.value_threw && !G.c_won_by_me)

/* K: detached_state::request_stop */
#ifndef VF_STUB_REQUEST_STOP
void DS_request_stop(struct detached_state* self)
__CPROVER_requires(self == &DS && G.me == P_K && INV_NOW && COUNTERS_ZERO && !G.state_dead && !G.parent_dead && !G.completed)
__CPROVER_requires(G.kp == KP_IDLE && G.cb == CB_LIVE && POP.state_ == &DS && !G.released && !G.freed)
__CPROVER_assigns(DS, POP, G)
/* the callback completes the parent with done iff its CAS claimed it; then: child stopped, count given up, callback destroyed, ownership of the state settled, all exactly once */
__CPROVER_ensures(G.cas_ok == (G.down_done == 1) && G.down_value == 0 && G.down_error == 0)
__CPROVER_ensures(G.cas_ok ==> (G.stop_child_calls == 1 && G.subbed && G.cb_destructs == 1))
__CPROVER_ensures((G.cas_ok && G.sub_old == W_1) ==> (G.resets == 1 && G.releases == 0 && G.freed))       /* child completion already gave up: the callback frees the state */
__CPROVER_ensures((G.cas_ok && G.sub_old == W_2) ==> (G.resets == 0 && G.releases == 1))                 /* child still running: detached, the child completion frees it */
__CPROVER_ensures(!G.cas_ok ==> (G.lin_count == 0 && G.stop_child_calls == 0 && G.cb_destructs == 0 && G.resets == 0 && G.releases == 0 && !G.subbed)) /* lost: touches nothing */
__CPROVER_ensures(G.deletes == 0)
__CPROVER_ensures(!G.state_dead || DS_EQ_SNAP)                                                            /* the freed state is never written */
__CPROVER_ensures(!G.parent_dead || POP_EQ_SNAP)
/*@BODY request_stop*/
#else
static void DS_request_stop(struct detached_state* self) {
  VF_P(self == &DS, "the callback forwards to its own detached state");
  VF_P(G.request_stop_calls == 0, "a callback run calls request_stop() once");
  G.request_stop_calls++;
}
#endif

/* C: detached_state::try_get_op */
#define TRY_GET_OP_REQ(self) ((self) == &DS && G.me == P_C && INV_NOW && !G.state_dead && G.cp == CP_IDLE && G.child_started && !G.subbed && G.lin_count == 0 \
   && G.cb_destructs == 0 && G.deletes == 0 && G.resets == 0 && G.releases == 0 && !G.c_won_by_me)
#ifndef VF_STUB_TRY_GET_OP
struct parent_op* DS_try_get_op(struct detached_state* self)
__CPROVER_requires(TRY_GET_OP_REQ(self) && COUNTERS_ZERO && IMP(!G.parent_dead, G.released || POP.state_ == &DS))
__CPROVER_assigns(DS, POP, G)
__CPROVER_ensures(G.lin_count == 1 && G.subbed && G.lin_new == G.lin_old - 1)                             /* exactly one decrement */
__CPROVER_ensures((__CPROVER_return_value != NULL) == (G.sub_old == W_P1))                                /* gets the parent iff it decremented (P,1), i.e. before the callback claimed */
__CPROVER_ensures(__CPROVER_return_value != NULL ==> (__CPROVER_return_value == &POP && G.cb_destructs == 1 && G.deletes == 0 && !G.parent_dead)) /* ... after destroying the callback */
__CPROVER_ensures(G.sub_old == W_2 ==> (G.deletes == 0 && G.cb_destructs == 0))                           /* lost against a callback that has not decremented: nothing */
__CPROVER_ensures(G.sub_old == W_1 ==> (G.deletes == 1 && G.freed && G.cb_destructs == 0))                /* callback detached: the child completion frees the state */
__CPROVER_ensures(G.resets == 0 && G.releases == 0 && G.down_done + G.down_value + G.down_error == 0)
__CPROVER_ensures(!G.state_dead || DS_EQ_SNAP)
__CPROVER_ensures(!G.parent_dead || POP_EQ_SNAP)
/*@BODY try_get_op*/
#else
/* contract stub for the receivers: asserts the requires, performs one of the three outcomes */
static struct parent_op* DS_try_get_op(struct detached_state* self) {
  VF_P(G.try_get_calls == 0, "a child completion calls try_get_op() exactly once");
  G.try_get_calls++;
  VF_A(TRY_GET_OP_REQ(self), "precondition of try_get_op at the call site");
  vf_interfere();
  G.subbed = 1;
  if (DS.parentOp_ == W_P1) { DS.parentOp_ = W_P0; G.cp = CP_WON; G.sub_old = W_P1; vf_interfere(); G.cb = CB_DESTROYED; G.c_won_by_me = 1; return &POP; }
  if (DS.parentOp_ == W_2) { DS.parentOp_ = W_1; G.cp = CP_LOST; G.sub_old = W_2; vf_interfere(); return NULL; }
  __CPROVER_assume(DS.parentOp_ == W_1);
  DS.parentOp_ = W_0; G.cp = CP_LAST; G.sub_old = W_1; G.freed = 1; vf_state_dies();
  return NULL;
}
#endif

/* _receiver::set_value / set_error / set_done */
#define RCV_REQ(self) ((self) == &RCV && RCV.state_ == &DS && TRY_GET_OP_REQ(&DS) && COUNTERS_ZERO && IMP(!G.parent_dead, G.released || POP.state_ == &DS))
#define RCV_ENS_COMMON (G.try_get_calls == 1 && (!G.state_dead || DS_EQ_SNAP) && (!G.parent_dead || POP_EQ_SNAP) && G.cb_destructs == 0 && G.resets == 0 && G.releases == 0 && G.deletes == 0)
void ds_receiver_set_value(struct ds_receiver* self)
__CPROVER_requires(RCV_REQ(self))
__CPROVER_assigns(DS, POP, G)
__CPROVER_ensures(RCV_ENS_COMMON)
__CPROVER_ensures(G.c_won_by_me ==> (G.down_value + G.down_error == 1 && G.down_done == 0 && (G.down_error == 1) == G.value_threw))  /* owner: the child's value (or the error if delivering it threw), once */
__CPROVER_ensures(!G.c_won_by_me ==> (G.down_value + G.down_error + G.down_done == 0 && !G.value_threw))                              /* not the owner: the result is dropped */
/*@BODY rcv_set_value*/

void ds_receiver_set_error(struct ds_receiver* self)
__CPROVER_requires(RCV_REQ(self))
__CPROVER_assigns(DS, POP, G)
__CPROVER_ensures(RCV_ENS_COMMON)
__CPROVER_ensures(G.c_won_by_me ==> (G.down_error == 1 && G.down_value == 0 && G.down_done == 0))
__CPROVER_ensures(!G.c_won_by_me ==> (G.down_value + G.down_error + G.down_done == 0))
/*@BODY rcv_set_error*/

void ds_receiver_set_done(struct ds_receiver* self)
__CPROVER_requires(RCV_REQ(self))
__CPROVER_assigns(DS, POP, G)
__CPROVER_ensures(RCV_ENS_COMMON)
__CPROVER_ensures(G.c_won_by_me ==> (G.down_done == 1 && G.down_value == 0 && G.down_error == 0))
__CPROVER_ensures(!G.c_won_by_me ==> (G.down_value + G.down_error + G.down_done == 0))
/*@BODY rcv_set_done*/

/* cancel_callback::operator() */
void cancel_callback_call(struct cancel_callback* self)
__CPROVER_requires(self == &CBK && CBK.state_ == &DS && !G.state_dead && G.request_stop_calls == 0)
__CPROVER_assigns(G)
__CPROVER_ensures(G.request_stop_calls == 1)
/*@BODY cancel_callback_call*/

/* tag_invoke(start, type&) */
void parent_op_start(struct parent_op* op)
__CPROVER_requires(op == &POP && POP.state_ == &DS && G.me == P_S && INV_NOW && COUNTERS_ZERO && !G.state_dead && !G.parent_dead && !G.completed)
__CPROVER_requires(DS.parentOp_ == DS_init_refcount(&POP) && G.kp == KP_IDLE && G.cp == CP_IDLE && G.cb == CB_NONE && !G.child_started && !G.freed && !G.released)
__CPROVER_assigns(DS, POP, G)
__CPROVER_ensures(G.cb_constructs == 1 && G.child_starts == 1)                                            /* callback registered, then the child started, once each */
__CPROVER_ensures(G.lin_count == 0)
__CPROVER_ensures(!G.parent_dead || POP_EQ_SNAP)                                                          /* a callback that fired during registration may have completed (destroyed) the parent: not touched afterwards */
__CPROVER_ensures(!G.state_dead || DS_EQ_SNAP)
/*@BODY start*/

/* ---------------- harnesses ---------------- */
static void h_zero(int me) {
  G.me = me; G.state_dead = 0; G.lin_count = 0; G.subbed = 0; G.cas_ok = 0; G.sub_old = 0; G.stop_child_calls = 0; G.cb_destructs = 0; G.cb_constructs = 0;
  G.resets = 0; G.releases = 0; G.deletes = 0; G.down_value = 0; G.down_error = 0; G.down_done = 0; G.try_get_calls = 0; G.request_stop_calls = 0; G.child_starts = 0;
  G.value_threw = 0; G.c_won_by_me = 0;
  RCV.state_ = &DS; CBK.state_ = &DS; POP.state_ = &DS;
}
static void h_any_state(void) {
  DS.parentOp_ = nondet_word(); G.kp = VF_nondet_u8(); G.cp = VF_nondet_u8(); G.cb = VF_nondet_u8(); G.child_started = VF_nondet_bool();
  G.freed = VF_nondet_bool(); G.released = VF_nondet_bool(); G.completed = VF_nondet_bool(); G.parent_dead = VF_nondet_bool();
  __CPROVER_assume(INV_NOW);
}
void h_request_stop(void) {
  h_zero(P_K);
  h_any_state();
  __CPROVER_assume(G.kp == KP_IDLE && G.cb == CB_LIVE && !G.parent_dead && !G.completed && !G.released && !G.freed);
#ifndef VF_STUB_REQUEST_STOP
  DS_request_stop(&DS);
#endif
  VF_CANARY("after request_stop");
  if (G.cas_ok && G.resets) { VF_CANARY("the callback can free the state"); }
  if (G.cas_ok && G.releases) { VF_CANARY("the callback can detach the state"); }
  if (!G.cas_ok) { VF_CANARY("the callback can lose"); }
  if (G.state_dead && !G.resets) { VF_CANARY("the child completion can free the state under the returning callback"); }
}
static void h_child_pre(void) {
  h_zero(P_C);
  h_any_state();
  __CPROVER_assume(G.cp == CP_IDLE && G.child_started && !G.freed);
  if (G.parent_dead) { struct parent_op f; POP.callback_ = f.callback_; POP.receiver_ = f.receiver_; POP.state_ = NULL; G.pop_snap = POP; __CPROVER_assume(G.released); }
  else if (G.released) POP.state_ = NULL;
}
void h_try_get_op(void) {
  h_child_pre();
#ifndef VF_STUB_TRY_GET_OP
  struct parent_op* r = DS_try_get_op(&DS);
  VF_CANARY("after try_get_op");
  if (r) { VF_CANARY("the child completion can own the parent"); }
  if (G.sub_old == W_2 && G.subbed) { VF_CANARY("the child completion can lose against a callback that has not decremented"); }
  if (G.deletes) { VF_CANARY("the child completion can free the state"); }
#endif
}
void h_rcv_set_value(void) { h_child_pre(); ds_receiver_set_value(&RCV); VF_CANARY("after _receiver::set_value"); if (G.down_value) { VF_CANARY("value forwarded"); } if (G.value_threw) { VF_CANARY("throwing set_value turns into set_error"); } if (!G.c_won_by_me) { VF_CANARY("value dropped"); } }
void h_rcv_set_error(void) { h_child_pre(); ds_receiver_set_error(&RCV); VF_CANARY("after _receiver::set_error"); if (G.down_error) { VF_CANARY("error forwarded"); } }
void h_rcv_set_done(void) { h_child_pre(); ds_receiver_set_done(&RCV); VF_CANARY("after _receiver::set_done"); if (G.down_done) { VF_CANARY("done forwarded"); } }
void h_cancel_callback(void) { h_zero(P_K); cancel_callback_call(&CBK); VF_CANARY("after cancel_callback::operator()"); }
void h_start(void) {
  h_zero(P_S);
  DS.parentOp_ = DS_init_refcount(&POP); G.kp = KP_IDLE; G.cp = CP_IDLE; G.cb = CB_NONE; G.child_started = 0; G.freed = 0; G.released = 0; G.completed = 0; G.parent_dead = 0;
  parent_op_start(&POP);
  VF_CANARY("after start");
  if (G.parent_dead) { VF_CANARY("a callback firing during registration can complete and destroy the parent before the child is started"); }
}

/* ---------------- M4 lemmas over the contracts ---------------- */
static struct proto any_proto(void) {
  struct proto p;
  p.w = nondet_word(); p.kp = VF_nondet_u8(); p.cp = VF_nondet_u8(); p.cb = VF_nondet_u8(); p.child_started = VF_nondet_bool();
  p.freed = VF_nondet_bool(); p.released = VF_nondet_bool(); p.completed = VF_nondet_bool(); p.parent_dead = VF_nondet_bool();
  return p;
}
enum { ST_S_CONSTRUCT, ST_S_CHILD_START, ST_K_LOSE, ST_K_CAS, ST_K_SUB, ST_K_CB, ST_K_SETTLE, ST_K_DONE, ST_C_SUB, ST_C_CB, ST_C_DELETE, ST_C_DOWN, ST_R_DIE, ST_NKINDS };
/* steps as the guarantee (vf_guar), the event stubs and the contracts of request_stop / try_get_op / the receivers describe them.
 * k_done / c_done: who completed downstream; frees: number of frees */
static _Bool step(int kind, struct proto a, struct proto* out, unsigned* frees, _Bool* k_done, _Bool* c_done) {
  struct proto b = a;
  _Bool en = 0;
  switch (kind) {
  case ST_S_CONSTRUCT:  en = a.cb == CB_NONE && !a.child_started; b.cb = CB_LIVE; break;
  case ST_S_CHILD_START: en = a.cb != CB_NONE && !a.child_started; b.child_started = 1; break;
  case ST_K_LOSE:  en = a.kp == KP_IDLE && a.cb == CB_LIVE && a.w == W_P0; b.kp = KP_LOST; break;                              /* load / failed CAS found (P,0) */
  case ST_K_CAS:   en = a.kp == KP_IDLE && a.cb == CB_LIVE && a.w == W_P1; b.w = W_2; b.kp = KP_WON; break;
  case ST_K_SUB:   en = a.kp == KP_WON; b.w = a.w - 1; b.kp = KP_SUBBED; break;
  case ST_K_CB:    en = a.kp == KP_SUBBED && a.cb == CB_LIVE; b.cb = CB_DESTROYED; break;
  case ST_K_SETTLE: en = a.kp == KP_SUBBED && a.cb == CB_DESTROYED && !a.completed && !a.released && !(a.freed && a.cp == CP_LOST);   /* reset() if its decrement found (0,1), else release() */
                   if (a.cp == CP_LOST) { b.freed = 1; (*frees)++; } else { b.released = 1; } break;
  case ST_K_DONE:  en = a.kp == KP_SUBBED && a.cb == CB_DESTROYED && !a.completed && (a.released || (a.freed && a.cp == CP_LOST)); b.completed = 1; *k_done = 1; break;
  case ST_C_SUB:   en = a.cp == CP_IDLE && a.child_started && a.w != W_P0 && a.w != W_0; b.w = a.w - 1;
                   b.cp = (a.w == W_P1) ? CP_WON : (a.w == W_2 ? CP_LOST : CP_LAST); break;
  case ST_C_CB:    en = a.cp == CP_WON && a.cb == CB_LIVE; b.cb = CB_DESTROYED; break;                                           /* waits for a running callback, which can only end in KP_LOST */
  case ST_C_DELETE: en = a.cp == CP_LAST && !a.freed; b.freed = 1; (*frees)++; break;
  case ST_C_DOWN:  en = a.cp == CP_WON && a.cb == CB_DESTROYED && !a.completed; b.completed = 1; *c_done = 1; break;
  case ST_R_DIE:   en = a.completed && !a.parent_dead; b.parent_dead = 1; break;
  default: en = 0;
  }
  *out = b;
  return en;
}
#define PARTY_OF(k) ((k) <= ST_S_CHILD_START ? P_S : ((k) <= ST_K_DONE ? P_K : ((k) <= ST_C_DOWN ? P_C : 99)))
void lemma_doc_protocol(void) {
  struct proto a = any_proto(), b;
  int kind = VF_nondet_int();
  __CPROVER_assume(kind >= 0 && kind < ST_NKINDS);
  __CPROVER_assume(INV(a));
  /* history: who has completed downstream so far, how many frees */
  _Bool k_done = VF_nondet_bool(), c_done = VF_nondet_bool();
  unsigned frees = a.freed ? 1 : 0;
  __CPROVER_assume(a.completed == (k_done || c_done) && !(k_done && c_done) && IMP(k_done, a.kp == KP_SUBBED) && IMP(c_done, a.cp == CP_WON));
  _Bool en = step(kind, a, &b, &frees, &k_done, &c_done);
  __CPROVER_assume(en);
  VF_CANARY("lemma premises satisfiable");
  if (kind == ST_C_DELETE) { VF_CANARY("lemma: the child completion can free"); }
  if (kind == ST_K_SETTLE && b.freed) { VF_CANARY("lemma: the callback can free"); }
  VF_P(INV(b), "lemma: every step of every party preserves the protocol invariant");
  VF_P(MONO(a, b), "lemma: every step is monotone");
  /* guarantee => rely */
  if (PARTY_OF(kind) == P_C && (a.kp == KP_IDLE || a.kp == KP_WON || a.kp == KP_SUBBED) && a.cb == CB_LIVE && kind != ST_C_CB && kind != ST_C_DOWN)
    VF_P(RELY_K(a, b), "lemma: while the callback runs, the child completion's steps (except destroying the callback and what follows, which wait for it: C03) are allowed by the callback's rely");
  if (PARTY_OF(kind) == P_K && a.child_started)
    VF_P(RELY_C(a, b), "lemma: the stop callback's steps are allowed by the child completion's rely");
  if (PARTY_OF(kind) == P_K && !a.child_started && a.cb != CB_NONE)
    VF_P(RELY_S(a, b), "lemma: before the child is started the stop callback's steps are allowed by start()'s rely");
  /* consequences */
  VF_P(!(k_done && c_done), "lemma: never both the stop path and the child completion complete the downstream receiver");
  VF_P(IMP(kind == ST_K_DONE || kind == ST_C_DOWN, !a.completed), "lemma: the downstream receiver is completed at most once");
  VF_P(frees <= 1, "lemma: the detached state is freed at most once by the two parties");
  VF_P(IMP(b.freed, b.w == W_0 && b.kp == KP_SUBBED && b.cp != CP_IDLE), "lemma: when the state is freed both parties have decremented: nobody touches it afterwards");
  VF_P(IMP(b.cp == CP_WON, !b.freed && !b.released), "lemma: if the child completion owns the parent, the state stays with the parent's unique_ptr (freed by ~type, once)");
  /* no leak, no double owner: the callback completes only after settling the ownership; the last decrementer frees */
  VF_P(IMP(b.completed && b.kp == KP_SUBBED && b.cp == CP_LOST, b.freed), "lemma: a callback whose decrement was the last one has freed the state before it completes the receiver");
  VF_P(IMP(b.completed && b.kp == KP_SUBBED && b.cp != CP_LOST, b.released), "lemma: a callback whose decrement was not the last one has detached the state before it completes the receiver (the parent's destructor will not free it)");
  VF_P(IMP(kind == ST_K_SETTLE && b.freed && !a.freed, !a.released && a.cp == CP_LOST), "lemma: the callback never frees a state it has detached");
  VF_P(IMP(kind == ST_C_DELETE, a.kp == KP_SUBBED && a.cp == CP_LAST && !a.freed), "lemma: the child completion frees only when the callback decremented first (which makes the callback detach, never free)");
}
void lemma_doc_rely(void) {
  struct proto a = any_proto(), b = any_proto(), c = any_proto();
  __CPROVER_assume(INV(a));
  int who = VF_nondet_int();
  __CPROVER_assume(who >= P_K && who <= P_S);
  if (who == P_K) {
    VF_P(RELY_K(a, a), "lemma: RELY_K reflexive");
    __CPROVER_assume(RELY_K(a, b) && RELY_K(b, c));
    VF_CANARY("RELY_K premises satisfiable");
    VF_P(RELY_K(a, c), "lemma: RELY_K transitive");
  } else if (who == P_C) {
    VF_P(RELY_C(a, a), "lemma: RELY_C reflexive");
    __CPROVER_assume(RELY_C(a, b) && RELY_C(b, c));
    VF_CANARY("RELY_C premises satisfiable");
    VF_P(RELY_C(a, c), "lemma: RELY_C transitive");
  } else {
    __CPROVER_assume(!a.freed);
    VF_P(RELY_S(a, a), "lemma: RELY_S reflexive");
    __CPROVER_assume(RELY_S(a, b) && RELY_S(b, c));
    VF_CANARY("RELY_S premises satisfiable");
    VF_P(RELY_S(a, c), "lemma: RELY_S transitive");
  }
}
/* the tagged word: helpers extracted from the code agree with the specification's reading of it */
void lemma_doc_word(void) {
  VF_P(mask == ~(uintptr_t)3, "lemma: the count lives in the two low bits");
  uintptr_t w0 = DS_init_refcount(&POP);
  VF_P(w0 == W_P1, "lemma: a fresh detached state holds (parent, 1)");
  VF_P(DS_ref_count(w0) == 1 && DS_parent_op_ptr(w0) == &POP, "lemma: count and pointer are recovered from the initial word (alignment leaves the low bits free)");
  VF_P(DS_ref_count(W_P0) == 0 && DS_parent_op_ptr(W_P0) == &POP, "lemma: (P,0)");
  VF_P(DS_ref_count(W_2) == 2 && DS_parent_op_ptr(W_2) == NULL && DS_ref_count(W_1) == 1 && DS_parent_op_ptr(W_1) == NULL && DS_ref_count(W_0) == 0, "lemma: (0,2), (0,1), (0,0)");
  VF_P(W_P1 - 1 == W_P0 && W_2 - 1 == W_1 && W_1 - 1 == W_0, "lemma: fetch_sub(1) moves along (P,1)->(P,0) and (0,2)->(0,1)->(0,0)");
  VF_P(W_P1 != W_1 && W_P0 != W_0 && W_P1 != W_2 && W_P0 != W_2, "lemma: a live parent pointer is distinguishable from the null pointer in every count");
  struct proto p; p.w = w0; p.kp = KP_IDLE; p.cp = CP_IDLE; p.cb = CB_NONE; p.child_started = 0; p.freed = 0; p.released = 0; p.completed = 0; p.parent_dead = 0;
  VF_P(INV(p), "lemma: a freshly constructed operation satisfies the protocol invariant");
  VF_CANARY("lemma_doc_word reachable");
}
