H = 'include/unifex/detach_on_cancel.hpp'
DS = r'struct operation_state<UpstreamSender, DownstreamReceiver>::detached_state\s+final \{'
RCV = r'struct operation_state<UpstreamSender, DownstreamReceiver>::_receiver final \{'
CBK = r'struct cancel_callback final \{'
TYPE = r'struct type final \{'

TRY_CATCH = [(r'UNIFEX_TRY\s*\{', '{'), (r'\}\s*UNIFEX_CATCH\s*\(\.\.\.\)\s*\{', '} if (0) { vf_catch:')]
PRE = [
    (r'std::uintptr_t\{(\w+)\}', r'((uintptr_t)\1)'),
    # static helpers of detached_state (extracted as plain C functions)
    (r'(?<![\w.>])ref_count\(', 'DS_ref_count('),
    (r'(?<![\w.>])parent_op_ptr\(', 'DS_parent_op_ptr('),
    # request_stop / try_get_op: C++-only callees
    (r'stopSource_\.request_stop\(\)', 'EV_stop_child(this)'),
    (r'(\w+)->callback_\.destruct\(\)', r'EV_cb_destruct(\1)'),
    (r'(\w+)->state_\.reset\(\)', r'EV_state_reset(\1, this)'),
    (r'\(void\)(\w+)->state_\.release\(\)', r'EV_state_release(\1, this)'),
    (r'delete this', 'EV_delete_this(this)'),
    # downstream completion signals (payload dropped)
    (r'unifex::set_value\(std::move\(op->receiver_\), \(Values &&\) values\.\.\.\);', 'if (EV_down_set_value(op)) goto vf_catch;'),
    (r'unifex::set_error\(std::move\(op->receiver_\), std::current_exception\(\)\)', 'EV_down_set_error(op)'),
    (r'unifex::set_error\(std::move\(op->receiver_\), \(Error &&\) error\)', 'EV_down_set_error(op)'),
    (r'unifex::set_done\(std::move\(op->receiver_\)\)', 'EV_down_set_done(op)'),
] + TRY_CATCH
# instrumentation: accesses through self-> assert the detached state (and, for a receiver, the child op it lives in) is alive
POST = [(r'\bself->', 'VF_ALIVE(self)->')]
TYPEMAP = [(r'\bparent_op_t\s*\*', 'struct parent_op*')]

ctx = dict(cls='DS', members=['parentOp_'], methods=[], pre=PRE, post=POST, typemap=TYPEMAP)
rcv_ctx = dict(cls='ds_receiver', members=['state_'], obj_methods={'try_get_op': 'DS_try_get_op'})
cbk_ctx = dict(cls='cancel_callback', members=['state_'], obj_methods={'request_stop': 'DS_request_stop'})
start_ctx = dict(cls='parent_op', members=[],
                 pre=[(r'\bop\.', 'op->'),
                      (r'op->callback_\.construct\(\s*get_stop_token\(op->receiver_\), cancel_callback\{op->state_\.get\(\)\}\);', 'EV_cb_construct(op, VF_PARENT(op)->state_);'),
                      (r'unifex::start\(childOp\)', 'EV_child_start(&childOp)')],
                 post=[(r'(?<!VF_PARENT\()\bop->', 'VF_PARENT(op)->')])

SPEC = dict(
    properties=['C19', 'C02'],
    ctx=ctx,
    extracts={
        'mask': dict(file=H, kind='expr', sig=r'static constexpr std::uintptr_t mask = ([^;]*);'),
        'init_refcount': dict(file=H, sig=r'static std::uintptr_t init_refcount\(parent_op_t& parentOp\) noexcept', within=DS,
                              ctx=dict(pre=[(r'&parentOp\b', 'parentOp')])),
        'parent_op_ptr': dict(file=H, sig=r'static parent_op_t\* parent_op_ptr\(std::uintptr_t parentOp\) noexcept', within=DS),
        'ref_count': dict(file=H, sig=r'static std::uintptr_t ref_count\(std::uintptr_t parentOp\) noexcept', within=DS),
        'request_stop': dict(file=H, sig=r'void request_stop\(\) noexcept', within=DS, must_contain=[r'parentOp_']),
        'try_get_op': dict(file=H, sig=r'parent_op_t\* try_get_op\(\) noexcept', within=DS, must_contain=[r'parentOp_']),
        'rcv_set_value': dict(file=H, sig=r'void set_value\(Values&&\.\.\. values\) noexcept', within=RCV, ctx=rcv_ctx),
        'rcv_set_error': dict(file=H, sig=r'void set_error\(Error&& error\) noexcept', within=RCV, ctx=rcv_ctx),
        'rcv_set_done': dict(file=H, sig=r'void set_done\(\) noexcept', within=RCV, ctx=rcv_ctx),
        'cancel_callback_call': dict(file=H, sig=r'void operator\(\)\(\) noexcept', within=CBK, ctx=cbk_ctx),
        'start': dict(file=H, sig=r'friend void tag_invoke\(tag_t<unifex::start>, type& op\) noexcept', within=TYPE, ctx=start_ctx),
    },
    closed_world=[dict(file=H, members=['parentOp_'], within=DS,
                       allow=[r': parentOp_\(init_refcount\(op\)\)', r'std::atomic_uintptr_t parentOp_;'])],
    units=[
        dict(name='request_stop', harness='h_request_stop', enforce='DS_request_stop', props=['C19', 'C02']),
        dict(name='try_get_op', harness='h_try_get_op', enforce='DS_try_get_op', props=['C19', 'C02']),
        dict(name='rcv_set_value', harness='h_rcv_set_value', enforce='ds_receiver_set_value', defines=['VF_STUB_TRY_GET_OP'], props=['C19']),
        dict(name='rcv_set_error', harness='h_rcv_set_error', enforce='ds_receiver_set_error', defines=['VF_STUB_TRY_GET_OP'], props=['C19']),
        dict(name='rcv_set_done', harness='h_rcv_set_done', enforce='ds_receiver_set_done', defines=['VF_STUB_TRY_GET_OP'], props=['C19']),
        dict(name='cancel_callback', harness='h_cancel_callback', enforce='cancel_callback_call', defines=['VF_STUB_REQUEST_STOP', 'VF_STUB_TRY_GET_OP'], props=['C19']),
        dict(name='start', harness='h_start', enforce='parent_op_start', props=['C19', 'C02']),
        dict(name='lemma_doc_protocol', harness='lemma_doc_protocol', mode='lemma', props=['C19', 'C02']),
        dict(name='lemma_doc_rely', harness='lemma_doc_rely', mode='lemma', props=['C19']),
        dict(name='lemma_doc_word', harness='lemma_doc_word', mode='lemma', props=['C19']),
    ],
    assumptions=[
        'the child operation completes exactly once (C01), only after it was started, through exactly one of _receiver::set_value/set_error/set_done',
        'the stop callback runs at most once, only while registered; its destructor waits for a run in progress on another thread and is a no-op from inside that run, also when the run happens inline in the constructor (C03, specs/stop_token)',
        'alignof(operation_state::type) > 2 (static_assert in the header): the two low bits of the parent pointer are free',
        'if the child completion wins (try_get_op returns the parent), the detached state stays owned by the parent\'s unique_ptr and is freed by ~type when the downstream receiver destroys the operation (not extracted: std::unique_ptr destructor)',
        'the downstream receiver may destroy the parent operation as soon as it has been completed; a throwing downstream set_value has not completed it (set_error follows)',
        'atomics sequentially consistent',
    ],
    drops=['memory orders (incl. the relaxed load / relaxed failure order in request_stop)', 'template genericity (UpstreamSender, DownstreamReceiver, Values..., Error)',
           'payload of the completion signals', 'stopSource_.request_stop() -> EV_stop_child (the child may complete inline)',
           'callback_.construct/destruct, state_.reset()/release(), delete this -> event stubs with freed-exactly-once / never-touched-after ghosts',
           'unifex::start(childOp) -> EV_child_start; reference childOp -> pointer', 'UNIFEX_TRY/CATCH in set_value made explicit by spec-level regexes',
           'constructors (parentOp_ initial value: init_refcount is extracted), get_stop_token(_receiver), the sender type'],
)
