/* Contracts of io_uring_context's scheduling / submission entry points as macros, so that
 *   - specs/uring_queue/uring_queue.c ENFORCES them on the extracted bodies (schedule_local / schedule_remote /
 *     schedule_pending_io / try_submit_io), and
 *   - client groups (specs/uring_io, specs/uring_timer) check exactly the same precondition text at their call sites
 *     (event stubs EV_schedule_* / EV_try_submit_io) and may rely on exactly the same postcondition text.
 * No library code in here.
 * struct operation_base { struct operation_base* next_; void (*execute_)(struct operation_base*); }   (io_uring_context has no enqueued_ flag:
 * "in no queue of the context" is a ghost of the client) */
#ifndef UQ_CONTRACT_H
#define UQ_CONTRACT_H

/* an item may be handed to the context (local / remote / pending-I/O queue) only with a continuation; the caller owns it
 * (it is in no queue of the context and no SQE in flight carries it as user_data): the intrusive link next_ is about to be overwritten */
#define UQ_REQ_SCHEDULE(op)   ((op) != NULL && (op)->execute_ != NULL)

/* the loop executes an item through the continuation it carried when it was queued, after unlinking it */
#define UQ_AT_EXECUTE(item, fn, carried)  ((fn) == (carried) && (fn) != NULL)

/* try_submit_io(populate): room = a free SQE slot AND a completion-queue slot for its CQE.
 *   used    = *sqTail - *sqHead (== sqUnflushedCount_),  pending = cqPendingCount_ + sqUnflushedCount_
 * returns true  <=> there was room and populate accepted (a void populate always accepts): populate ran exactly once on the
 *                   zeroed SQE at index tail & mask, then the SQE was published (index array, tail + 1, sqUnflushedCount_ + 1)
 * returns false <=> nothing was published; a void populate did not run at all */
#define UQ_ROOM(used, sq_entries, pending, cq_entries)   ((pending) < (cq_entries) && (used) < (sq_entries))
#define UQ_ENS_TRY_SUBMIT(rv, room, populate_calls, accepted, populate_is_void) \
  (((rv) == 0 || (rv) == 1) && (rv) == ((room) && (accepted)) \
   && (populate_calls) == ((room) ? 1 : 0) && ((populate_is_void) ==> ((populate_calls) == ((rv) ? 1 : 0))))
#endif
