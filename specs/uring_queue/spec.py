CPP = 'source/linux/io_uring_context.cpp'
H = 'include/unifex/linux/io_uring_context.hpp'
AQ = 'include/unifex/detail/atomic_intrusive_queue.hpp'
IQ = 'include/unifex/detail/intrusive_queue.hpp'
IQC = r'class intrusive_queue \{'
CTXC = r'class io_uring_context \{'
OPBASE = r'struct operation_base \{'
STOPOP = r'struct stop_operation : operation_base \{'

TYPEMAP = [(r'\boperation_base\b', 'struct item'), (r'\bcompletion_base\b', 'struct item'), (r'\boperation_queue\b', 'struct iqueue'),
           (r'\bItem\b', 'struct item'), (r'(?<!struct )\bio_uring_sqe\b', 'struct io_uring_sqe'), (r'(?<!struct )\bio_uring_cqe\b', 'struct io_uring_cqe')]

# logging macros expand to nothing in the build that is shipped (LOGGING_ENABLED is not defined)
LOGS = [(r'\bLOGX?\((?:[^;"]|"[^"]*")*\);', '')]

MEMBERS = ['localQueue_', 'pendingIoQueue_', 'remoteQueueReadSubmitted_', 'timersAreDirty_', 'remoteQueue_', 'remoteQueueEventFd_', 'iouringFd_', 'timers_',
           'currentDueTime_', 'sqUnflushedCount_', 'cqPendingCount_', 'sqEntryCount_', 'cqEntryCount_', 'sqMask_', 'cqMask_', 'sqEntries_', 'sqIndexArray_',
           'sqHead_', 'sqTail_', 'cqEntries_', 'cqHead_', 'cqTail_', 'activeTimerCount_']

ctx = dict(
    cls='CTX',
    members=MEMBERS,
    methods=['is_running_on_io_thread', 'schedule_remote', 'signal_remote_queue', 'execute_pending_local', 'update_timers',
             'acquire_completion_queue_items', 'acquire_remote_queued_items', 'try_register_remote_queue_notification',
             'can_submit_io', 'pending_operation_count', 'timer_user_data', 'remove_timer_user_data'],
    obj_methods={'push_back': 'IQ_push_back', 'push_front': 'IQ_push_front', 'append': 'IQ_append', 'empty': 'IQ_empty', 'pop_front': 'IQ_pop_front',
                 'enqueue': 'AQ_enqueue', 'dequeue_all': 'AQ_dequeue_all', 'try_mark_inactive_or_dequeue_all': 'AQ_try_mark_inactive_or_dequeue_all'},
    atomic=['cqHead_', 'cqTail_', 'sqHead_', 'sqTail_'],
    typemap=TYPEMAP,
    pre=LOGS + [
        # overload set schedule_local(operation_base*) / schedule_local(operation_queue): one C name each
        (r'\bschedule_local\(std::move\((\w+)\)\)', r'CTX_schedule_local_q(this, \1)'),
        (r'\bschedule_local\((\w+)\)', r'CTX_schedule_local(this, \1)'),
        # safe_file_descriptor::get()
        (r'\b(remoteQueueEventFd_|iouringFd_)\.get\(\)', r'\1'),
        # syscalls
        (r'\bwrite\(remoteQueueEventFd_, &value, sizeof\(value\)\)', 'EV_eventfd_write(this, value, sizeof(value))'),
        (r'\bread\(remoteQueueEventFd_, &buffer, sizeof\(buffer\)\)', 'EV_eventfd_read(this, &buffer, sizeof(buffer))'),
        (r'throw_\(std::system_error\{errorCode, std::system_category\(\)\}\);', '{ EV_throw(errorCode); return; }'),
    ],
    # ring accesses carry their index obligation (the index must lie within the mapped ring)
    post=[(r'self->cqEntries_\[([^\]]*)\]', r'self->cqEntries_[VF_CQ_INDEX(\1)]'), (r'self->sqEntries_\[([^\]]*)\]', r'self->sqEntries_[VF_SQ_INDEX(\1)]'),
          (r'self->sqIndexArray_\[([^\]]*)\]', r'self->sqIndexArray_[VF_SQ_INDEX(\1)]')],
)
iq_ctx = dict(cls='IQ', members=['head_', 'tail_'], methods=['empty'], obj_methods={'empty': 'IQ_empty'}, ptrmem={'Next': 'next_'},
              typemap=TYPEMAP, atomic=[], post=[], pre=[(r'\bintrusive_queue other\b', 'struct iqueue other'), (r'\bother\.', 'other->')])
iq_val_ctx = dict(iq_ctx, pre=[(r'\bintrusive_queue other\b', 'struct iqueue other')])

# execute_pending_local: the local `pending` queue is shared by the loop segments (cut points): lifted to the static object PENDING;
# the log-only counter is dropped with the log statement that prints it
epl_ctx = dict(pre=[
    (r'size_t count = 0;', ''), (r'\+\+count;', ''),
    (r'auto pending = std::move\(localQueue_\);', 'PENDING = IQ_move(&localQueue_);'),
    (r'\bpending\.', 'PENDING.'),
    (r'\bitem->execute_\(item\);', 'EV_execute(item, item->execute_);'),
])
# run_impl: scope_guard g = [=]() noexcept { B }; ... }   ->   ... { B } }   (the guard runs when the function is left; exceptions dropped);
# the reference parameter shouldStop becomes a pointer; io_uring_enter -> stub
run_ctx = dict(pre=[
    (r'(?s)scope_guard g = \[=\]\(\) noexcept \{(.*?)\};(.*)\}\s*$', r'\2 { \1 } }'),
    (r'\bshouldStop\b', '(*shouldStop)'),
    (r'\bitem->execute_\(item\);', 'EV_execute_io(item, item->execute_);'),
    (r'(?s)io_uring_enter\(\s*iouringFd_\.get\(\),\s*([^,;]*),\s*([^,;]*),\s*([^,;]*),\s*nullptr\)', r'EV_io_uring_enter(this, \1, \2, \3)'),
    (r'throw_\(std::system_error\{errorCode, std::system_category\(\)\}\);', '{ EV_throw(errorCode); return; }'),
])
# acquire_completion_queue_items: the completion queue local is shared by the loop segments: lifted to a static of the same name;
# the unused local `operation_base head;` is dropped; read(eventfd) / currentDueTime_.reset() -> stubs
acq_ctx = dict(pre=[
    (r'operation_base head;', ''),
    (r'operation_queue completionQueue;', 'completionQueue = IQ_default();'),
    (r'currentDueTime_\.reset\(\);', 'EV_currentDueTime_reset(this);'),
])
# try_submit_io<PopulateFn>: the callable is a selector (which lambda); calling it is an event stub that dispatches to the extracted lambda body
tsi_ctx = dict(pre=[
    (r'static_assert\(noexcept\(populateSqe\(sqe\)\)\);', ''),
    (r'if constexpr \(std::is_void_v<decltype\(populateSqe\(sqe\)\)>\)', 'if (VF_POPULATE_IS_VOID(populateSqe))'),
    (r'\bpopulateSqe\(sqe\)', 'EV_populate(this, populateSqe, &sqe)'),
    (r'std::memset\(', 'memset('),
], methods=['is_running_on_io_thread', 'pending_operation_count'])
# try_register_remote_queue_notification: the lambda is extracted on its own (TRQ_populate) and deleted from the enclosing body
LAMBDA = r'const auto populateRemoteQueuePollSqe = \[this\]\(io_uring_sqe& sqe\) noexcept '
trq_ctx = dict(pre=[
    (r'(?s)' + LAMBDA + r'\{.*?\n  \};', ''),
    (r'\btry_submit_io\(populateRemoteQueuePollSqe\)', 'CTX_try_submit_io(this, POP_REMOTE_POLL)'),
])
trq_lambda_ctx = dict(pre=[(r'\bsqe\.', 'sqe_p->')])

TRQ = r'bool io_uring_context::try_register_remote_queue_notification\(\) noexcept'

SPEC = dict(
    properties=['C14'],
    ctx=ctx,
    extracts={
        'ob_next_init': dict(file=H, kind='expr', within=[CTXC, OPBASE], sig=r'operation_base\* next_\s*(=?[^;]*);'),
        'ob_execute_init': dict(file=H, kind='expr', within=[CTXC, OPBASE], sig=r'void \(\*execute_\)\(operation_base\*\) noexcept\s*(=?[^;]*);'),
        'rqrs_init': dict(file=H, kind='expr', within=CTXC, sig=r'bool remoteQueueReadSubmitted_ = ([^;]*);'),
        'sq_unflushed_init': dict(file=H, kind='expr', within=CTXC, sig=r'std::uint32_t sqUnflushedCount_ = ([^;]*);'),
        'cq_pending_init': dict(file=H, kind='expr', within=CTXC, sig=r'std::uint32_t cqPendingCount_ = ([^;]*);'),
        'timers_dirty_init': dict(file=H, kind='expr', within=CTXC, sig=r'bool timersAreDirty_ = ([^;]*);'),
        'active_timers_init': dict(file=H, kind='expr', within=CTXC, sig=r'std::uint32_t activeTimerCount_ = ([^;]*);'),
        'iq_head_init': dict(file=IQ, kind='expr', sig=r'Item\* head_ = ([^;]*);', within=IQC),
        'iq_tail_init': dict(file=IQ, kind='expr', sig=r'Item\* tail_ = ([^;]*);', within=IQC),
        'aq_ctor_default': dict(file=AQ, kind='expr', sig=r'atomic_intrusive_queue\(\) noexcept : head_\(([^)]*)\) \{\}'),
        'sq_entries_requested': dict(file=CPP, kind='expr', sig=r'int ret = io_uring_setup\((\d+), &params\);'),
        'remote_queue_event_user_data': dict(file=CPP, kind='expr', sig=r'static constexpr __u64 remote_queue_event_user_data = ([^;]*);'),
        # the single-owner queue operations used by the context (also verified on their own in group thread_pool); inlined here
        'iq_empty': dict(file=IQ, sig=r'bool empty\(\) const noexcept', within=IQC, ctx=iq_ctx),
        'iq_pop_front': dict(file=IQ, sig=r'Item\* pop_front\(\) noexcept', within=IQC, ctx=iq_ctx),
        'iq_push_back': dict(file=IQ, sig=r'void push_back\(Item\* item\) noexcept', within=IQC, ctx=iq_ctx),
        'iq_push_front': dict(file=IQ, sig=r'void push_front\(Item\* item\) noexcept', within=IQC, ctx=iq_ctx),
        'iq_append': dict(file=IQ, sig=r'void append\(intrusive_queue other\) noexcept', within=IQC, ctx=iq_val_ctx),
        'iq_move_head': dict(file=IQ, kind='expr', within=IQC, ctx=iq_ctx, sig=r'intrusive_queue\(intrusive_queue&& other\) noexcept\s*: head_\((std::exchange\(other\.head_, nullptr\))\)'),
        'iq_move_tail': dict(file=IQ, kind='expr', within=IQC, ctx=iq_ctx, sig=r', tail_\((std::exchange\(other\.tail_, nullptr\))\) \{\}'),
        # the context
        'is_running_on_io_thread': dict(file=CPP, sig=r'bool io_uring_context::is_running_on_io_thread\(\) const noexcept'),
        'schedule_impl': dict(file=CPP, sig=r'void io_uring_context::schedule_impl\(operation_base\* op\)'),
        'schedule_local': dict(file=CPP, sig=r'void io_uring_context::schedule_local\(operation_base\* op\) noexcept'),
        'schedule_local_q': dict(file=CPP, sig=r'void io_uring_context::schedule_local\(operation_queue ops\) noexcept'),
        'schedule_remote': dict(file=CPP, sig=r'void io_uring_context::schedule_remote\(operation_base\* op\) noexcept'),
        'schedule_pending_io': dict(file=CPP, sig=r'void io_uring_context::schedule_pending_io\(operation_base\* op\) noexcept'),
        'reschedule_pending_io': dict(file=CPP, sig=r'void io_uring_context::reschedule_pending_io\(operation_base\* op\) noexcept'),
        'signal_remote_queue': dict(file=CPP, sig=r'void io_uring_context::signal_remote_queue\(\)'),
        'execute_pending_local': dict(file=CPP, sig=r'void io_uring_context::execute_pending_local\(\) noexcept', ctx=epl_ctx, outline={0: 'VF_EPL_LOOP;'}),
        'acquire_remote': dict(file=CPP, sig=r'void io_uring_context::acquire_remote_queued_items\(\) noexcept'),
        'try_register': dict(file=CPP, sig=TRQ, ctx=trq_ctx),
        'trq_populate': dict(file=CPP, sig=LAMBDA, within=TRQ, ctx=trq_lambda_ctx),
        'pending_operation_count': dict(file=H, sig=r'std::uint32_t pending_operation_count\(\) const noexcept', within=CTXC),
        'can_submit_io': dict(file=H, sig=r'bool can_submit_io\(\) const noexcept', within=CTXC),
        'timer_user_data': dict(file=H, sig=r'std::uintptr_t timer_user_data\(\) const', within=CTXC),
        'remove_timer_user_data': dict(file=H, sig=r'std::uintptr_t remove_timer_user_data\(\) const', within=CTXC),
        'try_submit_io': dict(file=H, sig=r'bool io_uring_context::try_submit_io\(PopulateFn populateSqe\) noexcept', ctx=tsi_ctx),
        'acquire': dict(file=CPP, sig=r'void io_uring_context::acquire_completion_queue_items\(\) noexcept', ctx=dict(acq_ctx, post=list(acq_ctx.get('post', [])) + [(r'\A\{', '{ G.acq_calls++;')]), outline={0: 'VF_ACQ_LOOP;'}),   # entry hook: ghost call counter (no statement changed)
        'run_impl': dict(file=CPP, sig=r'void io_uring_context::run_impl\(const bool& shouldStop\)', ctx=run_ctx, outline={0: 'VF_RUN_LOOP;', 1: 'VF_PIO_LOOP;'}),
    },
    closed_world=[
        dict(file=CPP, members=['remoteQueueReadSubmitted_', 'remoteQueue_', 'localQueue_', 'pendingIoQueue_', 'sqUnflushedCount_', 'cqPendingCount_',
                                'sqTail_', 'sqHead_', 'cqTail_', 'cqHead_'],
             allow=[r'(?s)io_uring_context::io_uring_context\(\) \{.*?\n\}']),          # constructor: maps the rings, reads the geometry (assumption: SIZES_OK)
        # the whole header (the sender classes are friends of the context): declarations only, plus the three extracted members
        dict(file=H, members=['remoteQueueReadSubmitted_', 'remoteQueue_', 'localQueue_', 'pendingIoQueue_', 'sqUnflushedCount_', 'cqPendingCount_',
                              'sqTail_', 'sqHead_', 'cqTail_', 'cqHead_'],
             allow=[r'operation_queue localQueue_;', r'operation_queue pendingIoQueue_;', r'bool remoteQueueReadSubmitted_ = false;',
                    r'std::uint32_t sqUnflushedCount_ = 0;', r'std::uint32_t cqPendingCount_ = 0;',
                    r'const std::atomic<unsigned>\* sqHead_;', r'std::atomic<unsigned>\* sqTail_;', r'std::atomic<unsigned>\* cqHead_;', r'const std::atomic<unsigned>\* cqTail_;',
                    r'atomic_intrusive_queue<operation_base, &operation_base::next_> remoteQueue_;']),
    ],
    units=[
        dict(name='schedule_impl', harness='h_schedule_impl', enforce='CTX_schedule_impl', replace=['CTX_schedule_local', 'CTX_schedule_remote']),
        dict(name='schedule_local', harness='h_schedule_local', enforce='CTX_schedule_local'),
        dict(name='schedule_local_q', harness='h_schedule_local_q', enforce='CTX_schedule_local_q'),
        dict(name='schedule_remote', harness='h_schedule_remote', enforce='CTX_schedule_remote', replace=['CTX_signal_remote_queue']),
        dict(name='signal_remote_queue', harness='h_signal_remote_queue', enforce='CTX_signal_remote_queue'),
        dict(name='schedule_pending_io', harness='h_schedule_pending_io', enforce='CTX_schedule_pending_io'),
        dict(name='reschedule_pending_io', harness='h_reschedule_pending_io', enforce='CTX_reschedule_pending_io'),
        dict(name='execute_pending_local', harness='h_execute_pending_local', enforce='CTX_execute_pending_local'),
        dict(name='execute_pending_local_body', harness='h_epl_loop0_body', enforce='epl__loop0_body'),
        dict(name='can_submit_io', harness='h_can_submit_io', enforce='CTX_can_submit_io'),
        dict(name='try_submit_io', harness='h_try_submit_io', enforce='CTX_try_submit_io'),
        dict(name='try_register', harness='h_try_register', enforce='CTX_try_register_remote_queue_notification', replace=['CTX_schedule_local_q']),
        dict(name='acquire_remote', harness='h_acquire_remote', enforce='CTX_acquire_remote_queued_items', replace=['CTX_schedule_local_q']),
        dict(name='acquire', harness='h_acquire', enforce='CTX_acquire_completion_queue_items', replace=['CTX_schedule_local_q']),
        dict(name='acquire_body', harness='h_acq_loop0_body', enforce='acq__loop0_body'),
        dict(name='run_impl', harness='h_run_impl', enforce='CTX_run_impl'),
        dict(name='run_impl_body', harness='h_run_loop0_body', enforce='run__loop0_body',
             replace=['CTX_execute_pending_local', 'CTX_acquire_completion_queue_items', 'CTX_acquire_remote_queued_items',
                      'CTX_try_register_remote_queue_notification']),
        # C14-1 in full ("the loop blocks only after marking the remote queue inactive and submitting the eventfd poll"): fails on the current
        # tree (genuine defect: probes/native/uring_cq_full_blocks_without_wakeup.cpp): thorough tier only until it is fixed or recorded
        dict(name='run_impl_body_wakeup', harness='h_run_loop0_body', enforce='run__loop0_body', defines=['VF_STRICT_WAKEUP'],
             replace=['CTX_execute_pending_local', 'CTX_acquire_completion_queue_items', 'CTX_acquire_remote_queued_items',
                      'CTX_try_register_remote_queue_notification']),
        dict(name='run_pending_io_body', harness='h_pio_loop1_body', enforce='pio__loop1_body', replace=['CTX_can_submit_io']),
        dict(name='lemma_uring_init', harness='lemma_uring_init', mode='lemma'),
        dict(name='lemma_uring_ring', harness='lemma_uring_ring', mode='lemma'),
        dict(name='lemma_uring_wake', harness='lemma_uring_wake', mode='lemma'),
        dict(name='lemma_uring_dequeue_stub', harness='lemma_uring_dequeue_stub', mode='lemma'),
    ],
    assumptions=[
        'the contracts of atomic_intrusive_queue (specs/atomic_queue/aq_contract.h, enforced on the real bodies in group atomic_queue, with its lemmas '
        '"one waker per idle period" and "no lost item") stand for remoteQueue_.enqueue / dequeue_all / try_mark_inactive_or_dequeue_all here; the I/O thread '
        'inside run() is the single consumer; dequeue_all\'s linearisation is recorded in its own ghosts (dq_*) so that one loop iteration may contain both a '
        'dequeue_all and a try_mark_inactive_or_dequeue_all (lemma_uring_dequeue_stub ties the stub to the shared contract text)',
        'an item is handed to the context by one party at a time and is in no other queue of the context / carried by no SQE in flight (io_uring_context has no '
        'enqueued_ flag to assert this; groups uring_io / uring_timer check it with ghosts at their call sites: UQ_REQ_SCHEDULE)',
        'kernel model (faithful to io_uring without IORING_SETUP_SQPOLL): the kernel consumes SQEs only inside io_uring_enter, which returns the number consumed '
        '(0..to_submit) or -1 with errno; every consumed SQE produces exactly one CQE at some later time (cq tail advances by at most the number of operations in flight: '
        'ghost k_inflight); with min_complete >= 1 io_uring_enter returns only when that many CQEs are available; CQEs carry user_data + res; a CQE with the eventfd-poll '
        'user_data appears only after a producer wrote the eventfd; a CQE with the timer user_data only for a submitted timeout (activeTimerCount_ > 0); a CQE with any other '
        'user_data carries the address of a completion_base that is in no queue of the context; the SQ head / CQ tail words are written only by the kernel, SQ tail / CQ head only by the I/O thread',
        'ring geometry as the constructor reads it from the kernel (constructor not extracted: mmap / io_uring_setup): sq/cq entry counts are powers of two <= 256 / 512 '
        '(io_uring_setup(256) gives 256 / 512), mask == entries - 1 (asserted by the constructor), the ring pointers point at the mapped arrays of that many entries',
        'write() on the eventfd succeeds (a failing write throws out of schedule_remote: the counter would have to overflow 2^64-2); read() on the eventfd succeeds with 8 bytes; '
        'the eventfd is readable only after a producer wrote it, which by schedule_remote\'s contract happens only after that producer replaced the inactive sentinel, and the loop does '
        'not re-install the sentinel while remoteQueueReadSubmitted_ is set (lemma_uring_wake): the stub of read(eventfd) therefore reports the queue word as not-inactive',
        'update_timers is an event stub here (group uring_timer): it may take SQEs (through try_submit_io: ring invariant kept), queue due timers locally and clear timersAreDirty_',
        'M2 meta-argument: the queue windows (empty / one node / head .. tail with opaque middle) enumerate every shape of a well-formed intrusive_queue; appending at the tail and popping '
        'at the head is FIFO; contracts that are replaced inside the run-loop body state their queue precondition abstractly (head == NULL <=> tail == NULL), their own harnesses construct the windows',
        'execute_pending_local / the pending-I/O loop: "every item of the batch is executed" is a cut-point argument (each iteration pops one item and executes exactly that item once); '
        'an executed continuation may destroy its item, schedule further items, take SQEs through try_submit_io (ring invariant kept: try_submit_io\'s contract) and re-queue itself at the BACK of the pending-I/O queue; '
        'termination of the loops is not claimed',
        'thread identity is currentThreadContext == this (thread_local); exceptions out of run_impl (io_uring_enter failure) are dropped',
        'atomics sequentially consistent',
    ],
    drops=['memory orders', 'noexcept / [[maybe_unused]]', 'LOG/LOGX statements and the log-only local `count`',
           'operation_base / completion_base -> struct item (result_ included); operation_queue -> struct iqueue (one instantiation of intrusive_queue)',
           'local `pending` of execute_pending_local lifted to a static object shared by the loop segments; `auto pending = std::move(localQueue_)` -> move constructor written out from its two member initialisers',
           'item->execute_(item) -> event stubs EV_execute / EV_execute_io (the continuation may destroy the item and schedule further items)',
           'scope_guard in run_impl -> its body placed at the function end; const bool& shouldStop -> pointer',
           'write(eventfd) / read(eventfd) / io_uring_enter / throw_(std::system_error) / currentDueTime_.reset() -> event stubs; safe_file_descriptor::get(); ~intrusive_queue assertions (moved-from locals are empty)',
           'try_submit_io<PopulateFn>: the callable parameter -> an integer selector, populateSqe(sqe) -> event stub dispatching to the extracted lambda body (TRQ_populate) or to a generic populate; '
           'if constexpr(is_void_v<...>) -> both branches; static_assert dropped; std::memset -> memset',
           'try_register_remote_queue_notification: the lambda populateRemoteQueuePollSqe is extracted as its own function and deleted from the enclosing body (spec-level regex)',
           'acquire_completion_queue_items: local `completionQueue` lifted to a static shared by the loop segments, unused local `operation_base head` dropped; '
           'the for-loop over the CQEs is verified as one dispatch step for an arbitrary index i < count (cut point)',
           'ring accesses cqEntries_[e] / sqEntries_[e] / sqIndexArray_[e] instrumented with their index obligation (spec-level post regex: e < entry count)'],
)
