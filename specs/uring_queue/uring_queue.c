/* C14 (items 1 and 2) for io_uring_context (source/linux/io_uring_context.cpp, include/unifex/linux/io_uring_context.hpp):
 * schedule_impl, schedule_local (both overloads), schedule_remote, signal_remote_queue, schedule_pending_io, reschedule_pending_io,
 * execute_pending_local, acquire_completion_queue_items, acquire_remote_queued_items, try_register_remote_queue_notification,
 * try_submit_io, can_submit_io, pending_operation_count, the loops of run_impl.
 *
 *   remoteQueue_ (atomic_intrusive_queue)  head_ == INACT  the loop has marked itself inactive: the next producer must write the eventfd
 *                                          NULL / chain    the loop is active and will look at the queue again before it blocks
 *   remoteQueueReadSubmitted_              "I marked the queue inactive AND an IORING_OP_POLL_ADD on the eventfd is in the ring, and I have not consumed its CQE since"
 *   localQueue_ / pendingIoQueue_          FIFO of ready items / of items waiting for ring space, I/O thread only
 *   sqUnflushedCount_                      SQEs published (sq tail advanced) but not yet consumed by the kernel  == *sqTail - *sqHead
 *   cqPendingCount_                        SQEs consumed by the kernel whose CQE the loop has not consumed yet    == in flight + published CQEs
 *   ring safety                            cqPendingCount_ + sqUnflushedCount_ <= cqEntryCount_  (the CQ ring can never overflow), sqUnflushedCount_ <= sqEntryCount_
 * The remote queue's operations are represented by their contracts (specs/atomic_queue/aq_contract.h, enforced in group
 * atomic_queue).  Bodies marked @BODY/@EXPR/@LOOP* are extracted from the source tree on every run; the rest is specification. */
#include <stddef.h>
#include <stdint.h>
#include <string.h>
#include <signal.h>
#include <poll.h>
#include <sys/types.h>
#include <linux/io_uring.h>
#include <errno.h>
#undef errno
#define errno (G.err)

struct item { struct item* next_; void (*execute_)(struct item*); int result_; };   /* io_uring_context::operation_base (+ completion_base::result_) */
typedef void (*exec_fn)(struct item*);
struct aq { void* head_; };
struct iqueue { struct item* head_; struct item* tail_; };
struct istack { struct item* head_; };
struct io_uring_context {
  uint32_t sqEntryCount_; uint32_t sqMask_; struct io_uring_sqe* sqEntries_; unsigned* sqIndexArray_; unsigned* sqHead_; unsigned* sqTail_;
  uint32_t cqEntryCount_; uint32_t cqMask_; struct io_uring_cqe* cqEntries_; unsigned* cqHead_; unsigned* cqTail_;
  int iouringFd_; int remoteQueueEventFd_;
  struct iqueue localQueue_; struct iqueue pendingIoQueue_; int timers_; int currentDueTime_;
  uint32_t sqUnflushedCount_; uint32_t cqPendingCount_; _Bool remoteQueueReadSubmitted_; _Bool timersAreDirty_; uint32_t activeTimerCount_;
  struct aq remoteQueue_;
};
struct kernel_ring { unsigned sqHead, sqTail, cqHead, cqTail; };     /* the four shared index words of the mapped rings */

enum { POP_REMOTE_POLL = 1, POP_VOID = 2, POP_BOOL = 3 };             /* which populate callable try_submit_io was given */
#define VF_POPULATE_IS_VOID(k) ((k) == POP_VOID)

struct vf_ghost {
  /* ghosts of the queue contracts (aq_contract.h) */
  _Bool i_am_consumer; void* lin_old; void* lin_new; unsigned lin_count; struct item* it_next_at_lin; unsigned mr_calls; struct item* mr_arg;
  /* dequeue_all's own linearisation record (see lemma_uring_dequeue_stub) */
  unsigned dq_count; void* dq_old; void* dq_new; unsigned dq_mr_calls; struct item* dq_mr_arg;
  /* this group */
  int err;                          /* errno */
  unsigned k_inflight;              /* kernel: SQEs consumed whose CQE has not been posted yet */
  unsigned eventfd_writes; uint64_t eventfd_value; size_t eventfd_len;
  unsigned exec; struct item* exec_item; exec_fn carried;   /* executions by the verified call; continuation the head item carried */
  struct item* rest_head; struct item* rest_tail;            /* what must be left of the batch / pending queue when its head item is executed */
  _Bool dead; struct item snap;     /* the operand item may have been executed and destroyed by the I/O thread */
  _Bool took;                       /* execute_pending_local took the batch */
  struct iqueue old_local;          /* harness copy of the local queue at entry (canaries only) */
  unsigned timers_calls;
  unsigned eventfd_reads, due_resets, throws;
  struct iqueue cq_in;              /* completionQueue when the loop body was entered */
  _Bool rqrs_in;                    /* remoteQueueReadSubmitted_ when the loop body was entered */
  /* submission */
  unsigned populate_calls; struct io_uring_sqe* populated; _Bool populate_accept; unsigned sq_publishes; unsigned tail_at_entry; _Bool room_at_entry;
  unsigned cq_head_stores; unsigned acq_head; unsigned acq_count; _Bool acq_looped; unsigned acq_calls;
  /* io_uring_enter */
  unsigned enters; unsigned enter_submit; unsigned enter_min; unsigned enter_flags; int enter_result; _Bool enter_local_empty; _Bool enter_rqrs; _Bool enter_cq_full;
  unsigned unflushed_before_enter, pending_before_enter;
};
static struct vf_ghost G;
static struct io_uring_context S;
static struct kernel_ring K;
static struct io_uring_sqe SQE_BEFORE, SQE_AFTER;      /* ghost: the slot as the populate callable found it / left it */
static struct io_uring_context* currentThreadContext;   /* static thread_local in the .cpp */
enum { VF_SQ_REQUESTED = /*@EXPR sq_entries_requested*/ };   /* io_uring_setup(N): the kernel grants roundup_pow_of_two(N) submission entries and twice as many completion entries */
enum { VF_SQ_MAX = 4, VF_CQ_MAX = 2 * VF_SQ_MAX };          /* model bound on the ring geometry (any power of two up to this; the code sees the size only through count and mask) */
static struct io_uring_sqe SQES[VF_SQ_MAX];             /* mapped at IORING_OFF_SQES */
static unsigned SQARR[VF_SQ_MAX];                       /* SQ index array */
static struct io_uring_cqe CQES[VF_CQ_MAX];             /* CQE array */
static struct item IT;             /* the operand item */
static struct item W0, WT;         /* local queue window: head / tail */
static struct item P0, PT;         /* pending-I/O queue window: head / tail */
static struct item X0, XT;         /* window of a batch handed to schedule_local(queue) / of the completion queue */
static struct item R0, R1;         /* items of other producers in the remote queue (oldest / newest of a batch) */
static struct item C0;             /* a completion_base whose CQE is being dispatched */
static struct iqueue PENDING;      /* execute_pending_local's local `pending` */
static struct iqueue completionQueue;                  /* acquire_completion_queue_items' local queue of newly completed items */
static const uint64_t remote_queue_event_user_data = /*@EXPR remote_queue_event_user_data*/;
static _Bool SHOULD_STOP;          /* stop_operation::shouldStop_ (run_impl's reference parameter) */
#define ON_IO (currentThreadContext == &S)   /* thread identity: is_running_on_io_thread() */
static char vf_opaque_obj;
#define OPAQUE ((struct item*)&vf_opaque_obj)

static void vf_guarantee(void* p, uint64_t o, uint64_t n);
#define VF_G(p, o, n) vf_guarantee((void*)(p), (uint64_t)(o), (uint64_t)(n))
#include "vf.h"
#include "../atomic_queue/aq_contract.h"
#include "uq_contract.h"
#define RQ (&S.remoteQueue_)
#define INACT AQ_INACT(RQ)

/* ---------------- ring geometry and the accounting invariant ---------------- */
#define POW2(n) ((n) != 0 && (((n) & ((n) - 1)) == 0))
#define SIZES_OK (POW2(S.sqEntryCount_) && S.sqEntryCount_ <= VF_SQ_MAX && S.sqMask_ == S.sqEntryCount_ - 1 \
                  && POW2(S.cqEntryCount_) && S.cqEntryCount_ <= VF_CQ_MAX && S.cqMask_ == S.cqEntryCount_ - 1 \
                  && S.sqEntries_ == SQES && S.sqIndexArray_ == SQARR && S.cqEntries_ == CQES \
                  && S.sqHead_ == &K.sqHead && S.sqTail_ == &K.sqTail && S.cqHead_ == &K.cqHead && S.cqTail_ == &K.cqTail)
#define SQ_USED  ((unsigned)(K.sqTail - K.sqHead))
#define CQ_READY ((unsigned)(K.cqTail - K.cqHead))
#define PENDING_OPS (S.cqPendingCount_ + S.sqUnflushedCount_)
/* C14 "ring counters never exceed the ring sizes": the library's counters are exactly the ring occupancy, and every operation that has
 * been given an SQE has a CQE slot reserved for it */
#define RING_OK (SQ_USED == S.sqUnflushedCount_ && S.sqUnflushedCount_ <= S.sqEntryCount_ \
                 && G.k_inflight <= VF_CQ_MAX && CQ_READY <= VF_CQ_MAX && G.k_inflight + CQ_READY == S.cqPendingCount_ \
                 && S.cqPendingCount_ <= S.cqEntryCount_ && S.sqUnflushedCount_ <= S.cqEntryCount_ - S.cqPendingCount_)
#define RING_ROOM UQ_ROOM(SQ_USED, S.sqEntryCount_, PENDING_OPS, S.cqEntryCount_)
/* index obligations at the ring accesses (spliced in by the spec's post rule) */
static unsigned vf_cq_index(unsigned e);
static unsigned vf_sq_index(unsigned e);
#define VF_CQ_INDEX(e) vf_cq_index(e)
#define VF_SQ_INDEX(e) vf_sq_index(e)

/* ring slots are reused after the ring wraps: a published SQE consists of what populate wrote and zeroes, nothing else (all 64 bytes: the field list covers the struct) */
#define SLOT_CLEAN(slot, f) ((slot)->f == SQE_AFTER.f && (SQE_AFTER.f != SQE_BEFORE.f || (slot)->f == 0))
static unsigned vf_cq_index(unsigned e) { VF_P(e < S.cqEntryCount_, "C14 index obligation: (head + i) & mask lies within the CQE array"); return e; }
static unsigned vf_sq_index(unsigned e) { VF_P(e < S.sqEntryCount_, "C14 index obligation: tail & mask lies within the SQE / index arrays"); return e; }

/* guarantee: the I/O thread writes two ring words: the CQ head (only forward, only over entries the kernel has published, once per
 * acquire) and the SQ tail (+1 per published SQE, after the SQE and its index-array slot were written) */
static void vf_guarantee(void* p, uint64_t o, uint64_t n) {
  VF_P(p == (void*)&K.cqHead || p == (void*)&K.sqTail, "guarantee: the only shared ring words written by the library are the CQ head and the SQ tail");
  VF_P(ON_IO, "guarantee: the rings are touched on the I/O thread only");
  if (p == (void*)&K.cqHead) {
    VF_P((unsigned)((unsigned)n - (unsigned)o) <= (unsigned)(K.cqTail - (unsigned)o), "guarantee: the CQ head advances only over entries the kernel has published");
    VF_P(G.acq_looped && (unsigned)n == G.acq_head + G.acq_count && (unsigned)o == G.acq_head, "C14: the CQ head advances exactly over the entries that were dispatched (none skipped, none seen twice)");
    G.cq_head_stores++;
  } else {
    VF_P((unsigned)n == (unsigned)o + 1, "guarantee: the SQ tail advances by one per published SQE");
    VF_P(G.populate_calls == 1 && G.room_at_entry && (unsigned)o == G.tail_at_entry, "C14: an SQE is taken only when there is room for it and for its CQE");
    VF_P(G.populate_calls == 1 && G.populate_accept, "guarantee: an SQE is published only after it was populated (and the populate callable accepted)");
    VF_P(SQARR[(unsigned)o & S.sqMask_] == ((unsigned)o & S.sqMask_), "guarantee: the index-array slot is written before the tail is advanced");
    { struct io_uring_sqe* slot = &SQES[(unsigned)o & S.sqMask_];
      VF_P(SLOT_CLEAN(slot, opcode) && SLOT_CLEAN(slot, flags) && SLOT_CLEAN(slot, ioprio) && SLOT_CLEAN(slot, fd) && SLOT_CLEAN(slot, off) && SLOT_CLEAN(slot, addr) && SLOT_CLEAN(slot, len)
           && SLOT_CLEAN(slot, rw_flags) && SLOT_CLEAN(slot, user_data) && SLOT_CLEAN(slot, buf_index) && SLOT_CLEAN(slot, personality) && SLOT_CLEAN(slot, splice_fd_in) && SLOT_CLEAN(slot, addr3) && SLOT_CLEAN(slot, __pad2[0]),
           "C14 no stale state: a submission entry carries no stale field from a previous use of its slot (every field the populate callable did not set is zero when the entry is published)"); }
    G.sq_publishes++;
  }
}
/* rely: the remote queue's head moves as the other parties' contracts allow; the kernel may post CQEs for operations in flight at any
 * time (cq tail forward); it consumes SQEs only inside io_uring_enter (no SQPOLL); nobody else touches the I/O thread's queues */
static void vf_interfere(void) {
  void* o = S.remoteQueue_.head_;
  int k = VF_nondet_int();
  void* n = k == 0 ? INACT : k == 1 ? NULL : k == 2 ? (void*)&R0 : k == 3 ? (void*)&R1 : o;
  __CPROVER_assume(G.i_am_consumer ? AQ_RELY_CONSUMER(RQ, o, n) : AQ_RELY_PRODUCER(RQ, o, n, &IT));
  S.remoteQueue_.head_ = n;
  unsigned c = VF_nondet_u32();
  __CPROVER_assume(c <= G.k_inflight);
  K.cqTail += c; G.k_inflight -= c;
}

/* ---------------- initial values, from the code ---------------- */
static void item_init(struct item* b) { struct item* vf_n /*@EXPR ob_next_init*/; exec_fn vf_e /*@EXPR ob_execute_init*/; b->next_ = vf_n; b->execute_ = vf_e; }
static void ctx_init(struct io_uring_context* self) {
  self->localQueue_.head_ = /*@EXPR iq_head_init*/; self->localQueue_.tail_ = /*@EXPR iq_tail_init*/;
  self->pendingIoQueue_.head_ = /*@EXPR iq_head_init*/; self->pendingIoQueue_.tail_ = /*@EXPR iq_tail_init*/;
  self->remoteQueueReadSubmitted_ = /*@EXPR rqrs_init*/; self->timersAreDirty_ = /*@EXPR timers_dirty_init*/;
  self->sqUnflushedCount_ = /*@EXPR sq_unflushed_init*/; self->cqPendingCount_ = /*@EXPR cq_pending_init*/; self->activeTimerCount_ = /*@EXPR active_timers_init*/;
  { struct aq* vf_q = &self->remoteQueue_; struct aq* self = vf_q; self->head_ = /*@EXPR aq_ctor_default*/; }
}
/* the geometry the constructor reads from the kernel (constructor not extracted) */
static void ring_geometry(void) {
  S.sqEntryCount_ = VF_nondet_u32(); S.cqEntryCount_ = VF_nondet_u32(); S.sqMask_ = S.sqEntryCount_ - 1; S.cqMask_ = S.cqEntryCount_ - 1;
  S.sqEntries_ = SQES; S.sqIndexArray_ = SQARR; S.cqEntries_ = CQES; S.sqHead_ = &K.sqHead; S.sqTail_ = &K.sqTail; S.cqHead_ = &K.cqHead; S.cqTail_ = &K.cqTail;
  __CPROVER_assume(SIZES_OK);
}
/* an arbitrary reachable ring state */
static void ring_any(void) {
  K.sqHead = VF_nondet_u32(); K.sqTail = VF_nondet_u32(); K.cqHead = VF_nondet_u32(); K.cqTail = VF_nondet_u32();
  S.sqUnflushedCount_ = VF_nondet_u32(); S.cqPendingCount_ = VF_nondet_u32(); G.k_inflight = VF_nondet_u32();
  __CPROVER_assume(RING_OK);
}

/* ---------------- intrusive_queue<operation_base, &operation_base::next_> (extracted, inlined into the callers) ---------------- */
static _Bool IQ_empty(struct iqueue* self)
/*@BODY iq_empty*/
static struct item* IQ_pop_front(struct iqueue* self)
/*@BODY iq_pop_front*/
static void IQ_push_back(struct iqueue* self, struct item* item)
/*@BODY iq_push_back*/
static void IQ_push_front(struct iqueue* self, struct item* item)
/*@BODY iq_push_front*/
static void IQ_append(struct iqueue* self, struct iqueue other)
/*@BODY iq_append*/
static struct iqueue IQ_move(struct iqueue* other) { struct iqueue r; r.head_ = /*@EXPR iq_move_head*/; r.tail_ = /*@EXPR iq_move_tail*/; return r; }
static struct iqueue IQ_default(void) { struct iqueue q; q.head_ = /*@EXPR iq_head_init*/; q.tail_ = /*@EXPR iq_tail_init*/; return q; }

/* well-formed queue, window form: empty | [h] | [h .. t] with an opaque middle; every queued item carries a continuation */
#define QSHAPE(Q, h, t) (((Q).head_ == NULL && (Q).tail_ == NULL) \
   || ((Q).head_ == &(h) && (((Q).tail_ == &(h) && (h).next_ == NULL) || ((Q).tail_ == &(t) && (t).next_ == NULL && ((h).next_ == &(t) || (h).next_ == OPAQUE)))))
#define QITEMS(Q, h, t) (((Q).head_ == NULL || (h).execute_ != NULL) && ((Q).tail_ != &(t) || (t).execute_ != NULL))
#define Q_WF_ABS(Q) (((Q).head_ == NULL) == ((Q).tail_ == NULL))
static void dummy_continuation_a(struct item* i) {}
static void dummy_continuation_b(struct item* i) {}
static exec_fn pick_fn(void) { return VF_nondet_bool() ? &dummy_continuation_a : &dummy_continuation_b; }
static void queue_build(struct iqueue* q, struct item* h, struct item* t) {
  t->next_ = NULL; t->execute_ = pick_fn(); h->execute_ = pick_fn();
  if (VF_nondet_bool()) { q->head_ = NULL; q->tail_ = NULL; }
  else { q->head_ = h; if (VF_nondet_bool()) { h->next_ = NULL; q->tail_ = h; } else { h->next_ = VF_nondet_bool() ? t : OPAQUE; q->tail_ = t; } }
}
/* a queue some callee has changed: all the caller may know is that it is well formed (the window is re-chosen where it is needed) */
static void queue_any(struct iqueue* q) { q->head_ = VF_nondet_bool() ? OPAQUE : NULL; q->tail_ = q->head_; }
/* appended behind the old tail (FIFO): head unchanged, or the first appended node if the queue was empty; the old tail links to
 * the first appended node; interior links untouched */
#define OLD(e) __CPROVER_old(e)
#define Q_APPENDED(Q, h, t, first, last) ((Q).tail_ == (last) && (OLD((Q).head_) == NULL ? (Q).head_ == (first) : (Q).head_ == OLD((Q).head_)) \
   && (OLD((Q).tail_) == &(h) ==> (h).next_ == (first)) && (OLD((Q).tail_) == &(t) ==> ((t).next_ == (first) && (h).next_ == OLD((h).next_))))
#define Q_UNCHANGED(Q) ((Q).head_ == OLD((Q).head_) && (Q).tail_ == OLD((Q).tail_))
#define LOCALQ S.localQueue_
#define PIOQ S.pendingIoQueue_

/* ---------------- event stubs ---------------- */
/* write(remoteQueueEventFd_, &value, 8): makes the eventfd readable: the POLL_ADD completes and wakes the loop */
static ssize_t EV_eventfd_write(struct io_uring_context* self, uint64_t value, size_t len) {
  VF_CANARY("eventfd write reachable");
  VF_P(self == &S, "the context's own eventfd");
  G.eventfd_writes++; G.eventfd_value = value; G.eventfd_len = len;
  /* the loop wakes up and may execute (and thereby destroy) everything in the remote queue, the operand included */
  { struct item f; IT = f; G.dead = 1; G.snap = IT; }
  return (ssize_t)len;
}
static void EV_throw(int code) { G.throws++; }
/* what a continuation run by the loop may do to the context: queue further items (local / pending-I/O), take SQEs through
 * try_submit_io (which keeps RING_OK and only ever adds), touch the timers; it does not touch remoteQueueReadSubmitted_ */
static void continuation_effects(void) {
  queue_any(&S.localQueue_); queue_any(&S.pendingIoQueue_);
  S.timersAreDirty_ = VF_nondet_bool();
  unsigned taken = VF_nondet_u32();
  __CPROVER_assume(taken <= VF_SQ_MAX && S.sqUnflushedCount_ + taken <= S.sqEntryCount_ && S.cqPendingCount_ + S.sqUnflushedCount_ + taken <= S.cqEntryCount_);
  K.sqTail += taken; S.sqUnflushedCount_ += taken;
  if (VF_nondet_bool()) { SHOULD_STOP = 1; }       /* the stop operation's continuation */
}
/* item->execute_(item) in execute_pending_local */
static void EV_execute(struct item* item, exec_fn fn) {
  VF_CANARY("item execution reachable");
  VF_P(ON_IO, "C14: work runs on the thread inside run()");
  VF_P(item == &W0 && G.exec == 0, "C14-2: the item executed is the one popped from the head of the batch, once");
  VF_P(UQ_AT_EXECUTE(item, fn, G.carried), "C14-2: an item is executed through the continuation it carried");
  VF_P(PENDING.head_ == G.rest_head && (PENDING.head_ == NULL ? PENDING.tail_ == NULL : PENDING.tail_ == G.rest_tail), "C14-2: the rest of the batch stays, in order, while its head runs");
  G.exec++; G.exec_item = item;
  { struct item f; *item = f; G.dead = 1; G.snap = *item; }
  continuation_effects();
}
/* item->execute_(item) in the pending-I/O loop of run_impl: the item retries its submission */
static void EV_execute_io(struct item* item, exec_fn fn) {
  VF_CANARY("pending-I/O retry reachable");
  VF_P(ON_IO, "C14: work runs on the thread inside run()");
  VF_P(item == &P0 && G.exec == 0, "C14: the item retried is the one popped from the head of the pending-I/O queue (FIFO), once");
  VF_P(UQ_AT_EXECUTE(item, fn, G.carried), "C14: a pending-I/O item is retried through the continuation it carried");
  VF_P(RING_ROOM, "C14: a pending-I/O item is retried only when an SQE slot and a CQE slot are available for it");
  VF_P(S.pendingIoQueue_.head_ == G.rest_head && (S.pendingIoQueue_.head_ == NULL ? S.pendingIoQueue_.tail_ == NULL : S.pendingIoQueue_.tail_ == G.rest_tail), "C14: the rest of the pending-I/O queue stays, in order (never lost)");
  G.exec++; G.exec_item = item;
  { struct item f; *item = f; G.dead = 1; G.snap = *item; }
  continuation_effects();
}
#define IT_UNTOUCHED (IT.next_ == G.snap.next_ && IT.execute_ == G.snap.execute_ && IT.result_ == G.snap.result_)
#define W0_UNTOUCHED (W0.next_ == G.snap.next_ && W0.execute_ == G.snap.execute_ && W0.result_ == G.snap.result_)
#define P0_UNTOUCHED (P0.next_ == G.snap.next_ && P0.execute_ == G.snap.execute_ && P0.result_ == G.snap.result_)

/* remoteQueue_.enqueue(item): contract stub (aq_contract.h): assert requires; effect by concrete choice; assume ensures.
 * Unless the consumer was inactive (it then sleeps until the eventfd is written) it may take and run the item at once */
static _Bool AQ_enqueue(struct aq* self, struct item* it) {
  VF_A(self == RQ && it == &IT && AQ_REQ_PRODUCER(RQ, &IT), "precondition of atomic_intrusive_queue::enqueue at the call site");
  VF_P(IT.execute_ != NULL, "C14-2: the item has its continuation before it becomes visible to the consumer");
  VF_P(G.eventfd_writes == 0, "the eventfd is written after the item is in the queue, not before");
  vf_interfere();
  void* o = S.remoteQueue_.head_;
  IT.next_ = (o == INACT) ? NULL : (struct item*)o;
  G.lin_old = o; G.lin_new = (void*)&IT; G.lin_count++; G.it_next_at_lin = IT.next_;
  S.remoteQueue_.head_ = (void*)&IT;
  _Bool rv = (o == INACT);
  __CPROVER_assume(AQ_ENS_ENQUEUE(RQ, &IT, rv));
  if (!rv) { struct item f; IT = f; G.dead = 1; G.snap = IT; }
  return rv;
}
static void remote_batch(struct iqueue* r, void** old_head) {
  R0.execute_ = pick_fn(); R1.execute_ = pick_fn();
  if (VF_nondet_bool()) { *old_head = (void*)&R0; R0.next_ = NULL; r->head_ = &R0; r->tail_ = &R0; }
  else { *old_head = (void*)&R1; R1.next_ = NULL; R0.next_ = VF_nondet_bool() ? &R1 : OPAQUE; r->head_ = &R0; r->tail_ = &R1; }
}
/* remoteQueue_.try_mark_inactive_or_dequeue_all(): contract stub (aq_contract.h): assert requires; outcome by concrete choice
 * (sentinel installed over an empty inbox | everything taken, oldest first, the old head last); the word then moves on as
 * the producers' steps allow; assume ensures */
static struct iqueue AQ_try_mark_inactive_or_dequeue_all(struct aq* self) {
  VF_P(G.i_am_consumer, "only the loop (the single consumer) marks the remote queue inactive or takes its contents");
  VF_A(self == RQ && AQ_REQ_CONSUMER(RQ), "precondition of try_mark_inactive_or_dequeue_all at the call site");
  struct iqueue r;
  G.lin_count++; G.it_next_at_lin = NULL;
  if (VF_nondet_bool()) { G.lin_old = NULL; G.lin_new = INACT; G.mr_arg = NULL; r.head_ = NULL; r.tail_ = NULL; }
  else { remote_batch(&r, &G.lin_old); G.lin_new = NULL; G.mr_calls++; G.mr_arg = (struct item*)G.lin_old; }
  S.remoteQueue_.head_ = G.lin_new;
  vf_interfere();
  __CPROVER_assume(AQ_ENS_TMIODA(RQ, r));
  return r;
}
/* remoteQueue_.dequeue_all(): contract stub; its linearisation is recorded in dq_* (lemma_uring_dequeue_stub: with lin_* := dq_*
 * the effect constructed here satisfies AQ_ENS_DEQUEUE_ALL) */
#define DQ_REQ (G.i_am_consumer && S.remoteQueue_.head_ != INACT && G.dq_count == 0 && G.dq_mr_calls == 0)
static struct iqueue AQ_dequeue_all(struct aq* self) {
  VF_P(G.i_am_consumer, "only the loop (the single consumer) takes the contents of the remote queue");
  VF_A(self == RQ && DQ_REQ, "precondition of dequeue_all at the call site: single consumer, queue active");
  struct iqueue r;
  vf_interfere();
  if (S.remoteQueue_.head_ == NULL) { r.head_ = NULL; r.tail_ = NULL; }     /* observed empty: nothing written */
  else { remote_batch(&r, &G.dq_old); G.dq_new = NULL; G.dq_count++; G.dq_mr_calls++; G.dq_mr_arg = (struct item*)G.dq_old; S.remoteQueue_.head_ = NULL; vf_interfere(); }
  return r;
}

/* ---------------- functions under contract: scheduling ---------------- */
#define ENV_ASSIGNS S.remoteQueue_.head_, K.cqTail, G.k_inflight     /* what vf_interfere() may move */
_Bool CTX_is_running_on_io_thread(struct io_uring_context* self)
/*@BODY is_running_on_io_thread*/

#define SCHED_REQ(self, op) ((self) == &S && (op) == &IT && UQ_REQ_SCHEDULE(&IT) && G.eventfd_writes == 0 && G.lin_count == 0 && !G.dead)

/* schedule_local(op): I/O thread only.  The item becomes the tail of the local queue; no wake-up, remote queue untouched */
void CTX_schedule_local(struct io_uring_context* self, struct item* op)
__CPROVER_requires(ON_IO) /*P*/ /* the local queue belongs to the I/O thread */
__CPROVER_requires(SCHED_REQ(self, op) && Q_WF_ABS(LOCALQ))
__CPROVER_assigns(IT.next_, S.localQueue_, W0.next_, WT.next_)
__CPROVER_ensures(Q_APPENDED(LOCALQ, W0, WT, &IT, &IT) && IT.next_ == NULL) /* behind everything already queued (FIFO) */
__CPROVER_ensures(IT.execute_ == __CPROVER_old(IT.execute_)) /* keeps its continuation */
__CPROVER_ensures(G.eventfd_writes == 0 && G.lin_count == 0) /* local scheduling needs no wake-up and does not touch the remote queue */
/*@BODY schedule_local*/

/* schedule_local(queue): the whole batch goes behind the local queue, in order; nothing is dropped */
#define OPS_WF(ops) (((ops).head_ == NULL) == ((ops).tail_ == NULL))
void CTX_schedule_local_q(struct io_uring_context* self, struct iqueue ops)
__CPROVER_requires(self == &S && OPS_WF(ops) && Q_WF_ABS(LOCALQ))
__CPROVER_assigns(S.localQueue_, W0.next_, WT.next_)
__CPROVER_ensures(__CPROVER_old(ops.head_) == NULL ==> (Q_UNCHANGED(LOCALQ) && W0.next_ == __CPROVER_old(W0.next_) && WT.next_ == __CPROVER_old(WT.next_)))
__CPROVER_ensures(__CPROVER_old(ops.head_) != NULL ==> Q_APPENDED(LOCALQ, W0, WT, __CPROVER_old(ops.head_), __CPROVER_old(ops.tail_))) /* the batch's first node follows the old tail, its last node is the new tail */
__CPROVER_ensures(Q_WF_ABS(LOCALQ))
/*@BODY schedule_local_q*/

/* schedule_pending_io(op): I/O thread only; the item waits BEHIND everything already waiting for ring space (FIFO retry order) */
void CTX_schedule_pending_io(struct io_uring_context* self, struct item* op)
__CPROVER_requires(SCHED_REQ(self, op) && Q_WF_ABS(PIOQ) && ON_IO)
__CPROVER_assigns(IT.next_, S.pendingIoQueue_, P0.next_, PT.next_)
__CPROVER_ensures(Q_APPENDED(PIOQ, P0, PT, &IT, &IT) && IT.next_ == NULL) /* C14: retried in FIFO order, never lost */
__CPROVER_ensures(IT.execute_ == __CPROVER_old(IT.execute_))
/*@BODY schedule_pending_io*/

/* reschedule_pending_io(op): the item goes to the FRONT of the pending-I/O queue (it is retried first); nothing else moves */
void CTX_reschedule_pending_io(struct io_uring_context* self, struct item* op)
__CPROVER_requires(SCHED_REQ(self, op) && Q_WF_ABS(PIOQ) && ON_IO)
__CPROVER_assigns(IT.next_, S.pendingIoQueue_)
__CPROVER_ensures(S.pendingIoQueue_.head_ == &IT && IT.next_ == __CPROVER_old(S.pendingIoQueue_.head_)) /* in front of everything already waiting */
__CPROVER_ensures(__CPROVER_old(S.pendingIoQueue_.tail_) == NULL ? S.pendingIoQueue_.tail_ == &IT : S.pendingIoQueue_.tail_ == __CPROVER_old(S.pendingIoQueue_.tail_))
/*@BODY reschedule_pending_io*/

/* signal_remote_queue: exactly one 8-byte write of the value 1 to the eventfd */
void CTX_signal_remote_queue(struct io_uring_context* self)
__CPROVER_requires(self == &S && G.eventfd_writes == 0)
__CPROVER_assigns(G.eventfd_writes, G.eventfd_value, G.eventfd_len, G.err, G.throws, IT, G.dead, G.snap)
__CPROVER_ensures(G.eventfd_writes == 1 && G.eventfd_value == 1 && G.eventfd_len == 8)
__CPROVER_ensures(G.dead && IT_UNTOUCHED)
/*@BODY signal_remote_queue*/

/* schedule_remote(op): ONE enqueue; the eventfd is written iff that enqueue replaced the inactive sentinel (C14-1: with the queue
 * lemmas: exactly one wake-up per idle period, no item stranded); the item is not touched once it is visible to a running consumer */
void CTX_schedule_remote(struct io_uring_context* self, struct item* op)
__CPROVER_requires(SCHED_REQ(self, op) && !G.i_am_consumer && S.remoteQueue_.head_ != (void*)&IT)
__CPROVER_assigns(IT, ENV_ASSIGNS, G.lin_old, G.lin_new, G.lin_count, G.it_next_at_lin, G.eventfd_writes, G.eventfd_value, G.eventfd_len, G.err, G.throws, G.dead, G.snap)
__CPROVER_ensures(G.lin_count == 1 && G.lin_new == (void*)&IT && G.it_next_at_lin == (G.lin_old == INACT ? (struct item*)NULL : (struct item*)G.lin_old)) /* pushed once, in front of the previous chain */
__CPROVER_ensures(G.eventfd_writes == (G.lin_old == INACT ? 1 : 0)) /* C14-1: writes the eventfd iff enqueue reported "consumer inactive" */
__CPROVER_ensures(G.dead && IT_UNTOUCHED) /* the I/O thread may already have run and destroyed the item */
/*@BODY schedule_remote*/

/* schedule_impl: local or remote by thread identity */
void CTX_schedule_impl(struct io_uring_context* self, struct item* op)
__CPROVER_requires(SCHED_REQ(self, op) && !G.i_am_consumer && S.remoteQueue_.head_ != (void*)&IT)
__CPROVER_requires(Q_WF_ABS(LOCALQ))
__CPROVER_assigns(IT, S.localQueue_, W0.next_, WT.next_, ENV_ASSIGNS, G.lin_old, G.lin_new, G.lin_count, G.it_next_at_lin, G.eventfd_writes, G.eventfd_value, G.eventfd_len, G.err, G.throws, G.dead, G.snap)
__CPROVER_ensures(ON_IO ==> (G.lin_count == 0 && G.eventfd_writes == 0 && Q_APPENDED(LOCALQ, W0, WT, &IT, &IT))) /* on the I/O thread: local queue, no wake-up */
__CPROVER_ensures(!ON_IO ==> (G.lin_count == 1 && Q_UNCHANGED(LOCALQ) && G.eventfd_writes == (G.lin_old == INACT ? 1 : 0))) /* from any other thread: remote queue + wake protocol; the local queue (I/O thread only) is not touched */
/*@BODY schedule_impl*/

/* ---------------- execute_pending_local ---------------- */
/* takes the WHOLE local queue (items scheduled while the batch runs wait for the next round) and executes every item of the batch; loop at cut points */
#define EPL_INV (ON_IO && QSHAPE(PENDING, W0, WT) && QITEMS(PENDING, W0, WT) && G.took && SIZES_OK && RING_OK && Q_WF_ABS(LOCALQ) && Q_WF_ABS(PIOQ))
static void epl__loop0(struct io_uring_context* self) {
  VF_P(EPL_INV, "cut point (execute_pending_local loop head): the rest of the batch is a well-formed queue of items with continuations; ring accounting intact");
  /* arbitrary number of iterations later: the executed items may have scheduled new ones and taken SQEs */
  queue_build(&PENDING, &W0, &WT);
  continuation_effects(); vf_interfere();
  __CPROVER_assume(EPL_INV && !(/*@LOOPCOND execute_pending_local.loop0.cond*/));
}
#define VF_EPL_LOOP G.took = 1; epl__loop0(self)
#define EPL_ASSIGNS S.localQueue_, S.pendingIoQueue_, S.timersAreDirty_, S.sqUnflushedCount_, K.sqTail, ENV_ASSIGNS, PENDING, W0, WT, G.took, G.exec, G.exec_item, G.dead, G.snap, SHOULD_STOP

void CTX_execute_pending_local(struct io_uring_context* self)
__CPROVER_requires(self == &S && ON_IO && Q_WF_ABS(LOCALQ) && Q_WF_ABS(PIOQ) && SIZES_OK && RING_OK && !G.took && G.exec == 0 && !G.dead && PENDING.head_ == NULL && PENDING.tail_ == NULL)
__CPROVER_assigns(EPL_ASSIGNS)
__CPROVER_ensures(G.took == (__CPROVER_old(S.localQueue_.head_) != NULL)) /* an empty queue: nothing to do */
__CPROVER_ensures(!G.took ==> (Q_UNCHANGED(LOCALQ) && Q_UNCHANGED(PIOQ) && S.sqUnflushedCount_ == __CPROVER_old(S.sqUnflushedCount_) && K.sqTail == __CPROVER_old(K.sqTail)))
__CPROVER_ensures(PENDING.head_ == NULL && PENDING.tail_ == NULL) /* the loop leaves only when the whole batch has been popped (each pop is followed by exactly one execution: loop body unit) */
__CPROVER_ensures(AQ_RELY_CONSUMER(RQ, __CPROVER_old(S.remoteQueue_.head_), S.remoteQueue_.head_)) /* the remote queue is left to the producers: an active queue stays active */
__CPROVER_ensures(RING_OK && Q_WF_ABS(LOCALQ) && Q_WF_ABS(PIOQ)) /* whatever the items that ran queued or submitted: queues well formed, ring accounting intact */
/*@BODY execute_pending_local*/

int epl__loop0_body(struct io_uring_context* self)
__CPROVER_requires(self == &S && EPL_INV && (/*@LOOPCOND execute_pending_local.loop0.cond*/) && G.exec == 0 && !G.dead && G.carried == W0.execute_ && G.rest_head == W0.next_ && G.rest_tail == PENDING.tail_)
__CPROVER_assigns(EPL_ASSIGNS)
__CPROVER_ensures(__CPROVER_return_value == VF_X_CONTINUE)
__CPROVER_ensures(G.exec == 1 && G.exec_item == &W0) /* C14-2: pops the head, executes exactly that item once (state at the call: checked in EV_execute) */
__CPROVER_ensures(PENDING.head_ == __CPROVER_old(W0.next_) && (PENDING.head_ == NULL ? PENDING.tail_ == NULL : PENDING.tail_ == __CPROVER_old(PENDING.tail_))) /* the rest of the batch stays, in order */
__CPROVER_ensures(G.dead && W0_UNTOUCHED) /* the executed item may be gone: never touched afterwards */
__CPROVER_ensures(RING_OK && Q_WF_ABS(LOCALQ) && Q_WF_ABS(PIOQ))
/*@LOOPBODY execute_pending_local.loop0.body*/

/* ---------------- submission queue ---------------- */
uint32_t CTX_pending_operation_count(struct io_uring_context* self)
/*@BODY pending_operation_count*/

/* can_submit_io: true <=> an SQE slot and a CQE slot are free (what try_submit_io needs) */
_Bool CTX_can_submit_io(struct io_uring_context* self)
__CPROVER_requires(self == &S && SIZES_OK && RING_OK)
__CPROVER_assigns()
__CPROVER_ensures((__CPROVER_return_value == 0 || __CPROVER_return_value == 1) && __CPROVER_return_value == (RING_ROOM ? 1 : 0))
/*@BODY can_submit_io*/

uintptr_t CTX_timer_user_data(struct io_uring_context* self)
/*@BODY timer_user_data*/
uintptr_t CTX_remove_timer_user_data(struct io_uring_context* self)
/*@BODY remove_timer_user_data*/

/* the lambda populateRemoteQueuePollSqe of try_register_remote_queue_notification */
static _Bool TRQ_populate(struct io_uring_context* self, struct io_uring_sqe* sqe_p)
/*@BODY trq_populate*/

/* populateSqe(sqe): the callable try_submit_io was given */
static _Bool EV_populate(struct io_uring_context* self, int kind, struct io_uring_sqe* sqe) {
  VF_CANARY("populate reachable");
  VF_P(self == &S && G.populate_calls == 0, "the populate callable runs at most once per try_submit_io");
  G.tail_at_entry = K.sqTail; G.room_at_entry = RING_ROOM ? 1 : 0;     /* nothing has been published yet: the ring is as try_submit_io found it */
  VF_P(G.room_at_entry, "C14: an SQE slot is handed out only when there is room for the SQE and for its CQE");
  VF_P(sqe == &SQES[G.tail_at_entry & S.sqMask_], "the SQE handed out is the free slot at tail & mask");
  VF_P(sqe->opcode == 0 && sqe->flags == 0 && sqe->ioprio == 0 && sqe->fd == 0 && sqe->off == 0 && sqe->addr == 0 && sqe->len == 0 && sqe->rw_flags == 0 && sqe->user_data == 0, "the SQE is zeroed before it is populated");
  G.populate_calls++; G.populated = sqe; SQE_BEFORE = *sqe;
  _Bool acc;
  if (kind == POP_REMOTE_POLL) { acc = TRQ_populate(self, sqe); }
  else { sqe->opcode = VF_nondet_u8(); sqe->user_data = VF_nondet_u64(); acc = (kind == POP_VOID) ? 1 : VF_nondet_bool(); }
  G.populate_accept = acc; SQE_AFTER = *sqe;
  return acc;
}
#define SUBMIT_FRESH (G.populate_calls == 0 && G.sq_publishes == 0 && !G.populate_accept)
#define OLD_TAIL __CPROVER_old(K.sqTail)
#define OLD_ROOM UQ_ROOM((unsigned)(__CPROVER_old(K.sqTail) - __CPROVER_old(K.sqHead)), S.sqEntryCount_, __CPROVER_old(S.cqPendingCount_) + __CPROVER_old(S.sqUnflushedCount_), S.cqEntryCount_)
#define SUBMIT_ASSIGNS S.sqUnflushedCount_, K.sqTail, __CPROVER_object_whole(SQES), __CPROVER_object_whole(SQARR), G.populate_calls, G.populated, G.populate_accept, G.sq_publishes, SQE_BEFORE, SQE_AFTER, G.tail_at_entry, G.room_at_entry
#define REMOTE_TAKE_ASSIGNS AQ_ASSIGNS_CONSUMER(RQ), S.localQueue_, W0.next_, WT.next_, R0, R1

/* try_submit_io(populate): "an SQE is taken only when there is room for its CQE"; the SQE is zeroed, populated, then published */
_Bool CTX_try_submit_io(struct io_uring_context* self, int populateSqe)
__CPROVER_requires(ON_IO) /*P*/ /* the submission ring belongs to the I/O thread */
__CPROVER_requires(self == &S && (populateSqe == POP_VOID || populateSqe == POP_BOOL) && SIZES_OK && RING_OK && SUBMIT_FRESH)
__CPROVER_assigns(SUBMIT_ASSIGNS, ENV_ASSIGNS)
__CPROVER_ensures(UQ_ENS_TRY_SUBMIT(__CPROVER_return_value, OLD_ROOM, G.populate_calls, (G.populate_calls == 1 && G.populate_accept), VF_POPULATE_IS_VOID(populateSqe))) /* shared contract text (uq_contract.h) */
__CPROVER_ensures(__CPROVER_return_value ==> (G.sq_publishes == 1 && S.sqUnflushedCount_ == __CPROVER_old(S.sqUnflushedCount_) + 1 && K.sqTail == __CPROVER_old(K.sqTail) + 1 \
                   && G.populated == &SQES[OLD_TAIL & S.sqMask_] && SQARR[OLD_TAIL & S.sqMask_] == (OLD_TAIL & S.sqMask_))) /* exactly one SQE published: the populated one */
__CPROVER_ensures(!__CPROVER_return_value ==> (G.sq_publishes == 0 && S.sqUnflushedCount_ == __CPROVER_old(S.sqUnflushedCount_) && K.sqTail == __CPROVER_old(K.sqTail))) /* nothing published */
__CPROVER_ensures(RING_OK) /* ring counters never exceed the ring sizes */
/*@BODY try_submit_io*/

/* try_register_remote_queue_notification: ONE step on the remote queue, and only when the eventfd poll can be put into the ring:
 * marks the loop inactive only over an EMPTY queue and then publishes the POLL_ADD SQE (returns true); otherwise takes EVERYTHING
 * and appends it to the local queue in order, no SQE (returns false); without ring space the remote queue is not touched (false) */
#define POLL_SQE (SQES[OLD_TAIL & S.sqMask_])
_Bool CTX_try_register_remote_queue_notification(struct io_uring_context* self)
__CPROVER_requires(G.i_am_consumer && S.remoteQueue_.head_ != INACT) /*P*/ /* C14-1: only the loop, and only while it is an ACTIVE consumer, looks into the remote queue (an inactive loop waits for its wake-up) */
__CPROVER_requires(self == &S && ON_IO && SIZES_OK && RING_OK && SUBMIT_FRESH && AQ_REQ_CONSUMER(RQ) && Q_WF_ABS(LOCALQ))
__CPROVER_assigns(SUBMIT_ASSIGNS, ENV_ASSIGNS, REMOTE_TAKE_ASSIGNS)
__CPROVER_ensures(__CPROVER_return_value == 0 || __CPROVER_return_value == 1)
__CPROVER_ensures(__CPROVER_return_value == ((G.lin_count == 1 && G.lin_new == INACT) ? 1 : 0)) /* C14-1: true <=> the queue was marked inactive */
__CPROVER_ensures(__CPROVER_return_value ==> (G.lin_old == NULL && Q_UNCHANGED(LOCALQ) && W0.next_ == __CPROVER_old(W0.next_) && WT.next_ == __CPROVER_old(WT.next_))) /* C14-1: the loop marks itself inactive only on an empty queue */
__CPROVER_ensures(__CPROVER_return_value ==> (G.sq_publishes == 1 && S.sqUnflushedCount_ == __CPROVER_old(S.sqUnflushedCount_) + 1 && K.sqTail == __CPROVER_old(K.sqTail) + 1 \
                   && POLL_SQE.opcode == IORING_OP_POLL_ADD && POLL_SQE.fd == S.remoteQueueEventFd_ && POLL_SQE.poll_events == POLL_IN && POLL_SQE.user_data == remote_queue_event_user_data \
                   && SQARR[OLD_TAIL & S.sqMask_] == (OLD_TAIL & S.sqMask_))) /* C14-1: ... and exactly then the eventfd poll is in the ring: the producer's eventfd write will produce a CQE */
__CPROVER_ensures(!__CPROVER_return_value ==> (G.sq_publishes == 0 && S.sqUnflushedCount_ == __CPROVER_old(S.sqUnflushedCount_) && K.sqTail == __CPROVER_old(K.sqTail) && S.remoteQueue_.head_ != INACT)) /* otherwise no SQE, and the loop stays an active consumer */
__CPROVER_ensures(!OLD_ROOM ==> (G.lin_count == 0 && Q_UNCHANGED(LOCALQ))) /* no ring space: the remote queue is not touched */
__CPROVER_ensures((OLD_ROOM && !__CPROVER_return_value) ==> (G.lin_count == 1 && G.lin_new == NULL && G.lin_old != NULL && G.lin_old != INACT && G.mr_calls == 1 && (void*)G.mr_arg == G.lin_old \
                   && S.localQueue_.tail_ == (struct item*)G.lin_old && S.localQueue_.head_ != NULL && (__CPROVER_old(S.localQueue_.head_) != NULL ==> S.localQueue_.head_ == __CPROVER_old(S.localQueue_.head_)))) /* everything that was in the inbox is now at the back of the local queue (newest item last) */
__CPROVER_ensures(RING_OK && Q_WF_ABS(LOCALQ))
/*@BODY try_register*/

/* acquire_remote_queued_items: takes EVERYTHING that is in the inbox (or nothing if it is empty) to the back of the local queue; never marks the loop inactive */
void CTX_acquire_remote_queued_items(struct io_uring_context* self)
__CPROVER_requires(!S.remoteQueueReadSubmitted_ && G.i_am_consumer && S.remoteQueue_.head_ != INACT) /*P*/ /* C14-1: only an ACTIVE consumer looks into the remote queue */
__CPROVER_requires(self == &S && DQ_REQ && Q_WF_ABS(LOCALQ) && SIZES_OK && RING_OK)
__CPROVER_assigns(ENV_ASSIGNS, G.dq_count, G.dq_old, G.dq_new, G.dq_mr_calls, G.dq_mr_arg, S.localQueue_, W0.next_, WT.next_, R0, R1)
__CPROVER_ensures(G.dq_count <= 1)
__CPROVER_ensures(G.dq_count == 0 ==> (Q_UNCHANGED(LOCALQ) && W0.next_ == __CPROVER_old(W0.next_) && WT.next_ == __CPROVER_old(WT.next_)))
__CPROVER_ensures(G.dq_count == 1 ==> (G.dq_new == NULL && G.dq_old != NULL && G.dq_old != INACT && G.dq_mr_calls == 1 && (void*)G.dq_mr_arg == G.dq_old \
                   && S.localQueue_.tail_ == (struct item*)G.dq_old && S.localQueue_.head_ != NULL && (__CPROVER_old(S.localQueue_.head_) != NULL ==> S.localQueue_.head_ == __CPROVER_old(S.localQueue_.head_)) \
                   && (__CPROVER_old(S.localQueue_.tail_) == &W0 ==> W0.next_ != NULL) && (__CPROVER_old(S.localQueue_.tail_) == &WT ==> WT.next_ != NULL))) /* no lost work: the whole chain, behind what was already queued */
__CPROVER_ensures(S.remoteQueue_.head_ != INACT) /* the loop stays an active consumer */
__CPROVER_ensures(Q_WF_ABS(LOCALQ) && RING_OK)
/*@BODY acquire_remote*/

/* ---------------- acquire_completion_queue_items ---------------- */
/* read(remoteQueueEventFd_): consumes the wake-up.  The eventfd is readable only because some producer wrote it, which
 * schedule_remote does only after its enqueue replaced the inactive sentinel; the loop has not re-installed it since */
static ssize_t EV_eventfd_read(struct io_uring_context* self, uint64_t* buf, size_t len) {
  VF_CANARY("eventfd read reachable");
  VF_P(self == &S && len == 8 && G.eventfd_reads == 0, "the wake-up is consumed once, 8 bytes");
  G.eventfd_reads++;
  vf_interfere();
  __CPROVER_assume(S.remoteQueue_.head_ != INACT);
  *buf = VF_nondet_u64();
  return (ssize_t)len;
}
static void EV_currentDueTime_reset(struct io_uring_context* self) { G.due_resets++; }

/* cut-point invariant of the dispatch loop: the flag is in step with the queue word and is cleared only by consuming the wake-up CQE;
 * the completion queue is a well-formed queue; the local queue and the ring words are as the function found them (frame) */
#define ACQ_INV (ON_IO && G.i_am_consumer && SIZES_OK && G.eventfd_reads <= 1 && S.remoteQueueReadSubmitted_ == (G.rqrs_in && G.eventfd_reads == 0) \
                 && (!S.remoteQueueReadSubmitted_ ==> S.remoteQueue_.head_ != INACT) && QSHAPE(completionQueue, X0, XT) && QITEMS(completionQueue, X0, XT))
static void acq__loop0(struct io_uring_context* self, uint32_t cqHead, uint32_t mask, uint32_t count) {
  VF_P(ACQ_INV, "cut point (dispatch loop head): flag in step with the remote queue, completion queue well formed");
  VF_P(cqHead == K.cqHead && mask == S.cqMask_ && count >= 1 && count <= S.cqEntryCount_ && count <= CQ_READY, "C14 index obligation: the entries dispatched, head .. head + count - 1, are entries the kernel has published (head <= tail, tail - head <= entry count)");
  VF_P(!G.acq_looped, "one dispatch loop per acquire");
  G.acq_looped = 1; G.acq_head = cqHead; G.acq_count = count;
  /* arbitrary number of dispatch steps later */
  queue_build(&completionQueue, &X0, &XT);
  if (S.remoteQueueReadSubmitted_ && VF_nondet_bool()) { S.remoteQueueReadSubmitted_ = 0; G.eventfd_reads = 1; S.remoteQueue_.head_ = VF_nondet_bool() ? NULL : (void*)&R0; }
  if (VF_nondet_bool()) { S.timersAreDirty_ = 1; }
  { uint32_t fewer = VF_nondet_u32(); __CPROVER_assume(fewer <= S.activeTimerCount_); S.activeTimerCount_ -= fewer; }
  vf_interfere();
  __CPROVER_assume(ACQ_INV);
}
#define VF_ACQ_LOOP acq__loop0(self, cqHead, mask, count)
#define ACQ_BODY_ASSIGNS S.remoteQueueReadSubmitted_, S.timersAreDirty_, S.activeTimerCount_, ENV_ASSIGNS, completionQueue, C0, X0.next_, XT.next_, G.eventfd_reads, G.due_resets, G.err

void CTX_acquire_completion_queue_items(struct io_uring_context* self)
__CPROVER_requires(self == &S && ON_IO && G.i_am_consumer && SIZES_OK && RING_OK && Q_WF_ABS(LOCALQ) && (!S.remoteQueueReadSubmitted_ ==> S.remoteQueue_.head_ != INACT) \
                   && G.cq_head_stores == 0 && !G.acq_looped && G.eventfd_reads == 0 && G.rqrs_in == S.remoteQueueReadSubmitted_ && G.acq_calls < 8)
__CPROVER_assigns(ACQ_BODY_ASSIGNS, K.cqHead, S.cqPendingCount_, S.localQueue_, W0, WT, X0, XT, G.cq_head_stores, G.acq_looped, G.acq_head, G.acq_count, G.acq_calls)
__CPROVER_ensures(G.acq_calls == __CPROVER_old(G.acq_calls) + 1) /* ghost: one look at the completion queue (entry hook, no statement changed) */
__CPROVER_ensures(RING_OK) /* ring counters stay exact */
__CPROVER_ensures(G.acq_looped ==> (G.cq_head_stores == 1 && G.acq_count >= 1 && G.acq_count <= S.cqEntryCount_ && K.cqHead == __CPROVER_old(K.cqHead) + G.acq_count \
                   && S.cqPendingCount_ == __CPROVER_old(S.cqPendingCount_) - G.acq_count)) /* every CQE dispatched is consumed exactly once and accounted for */
__CPROVER_ensures(!G.acq_looped ==> (G.cq_head_stores == 0 && K.cqHead == __CPROVER_old(K.cqHead) && S.cqPendingCount_ == __CPROVER_old(S.cqPendingCount_) && Q_UNCHANGED(LOCALQ) \
                   && S.remoteQueueReadSubmitted_ == __CPROVER_old(S.remoteQueueReadSubmitted_))) /* nothing published: nothing changes */
__CPROVER_ensures(G.eventfd_reads <= 1 && S.remoteQueueReadSubmitted_ == (__CPROVER_old(S.remoteQueueReadSubmitted_) && G.eventfd_reads == 0)) /* C14-1: the flag is cleared exactly when the wake-up CQE was consumed, never set here */
__CPROVER_ensures(!S.remoteQueueReadSubmitted_ ==> S.remoteQueue_.head_ != INACT) /* ... and then the loop is an active consumer again */
__CPROVER_ensures(G.acq_looped ==> (completionQueue.head_ == NULL ? Q_UNCHANGED(LOCALQ) : Q_APPENDED(LOCALQ, W0, WT, completionQueue.head_, completionQueue.tail_))) /* every completed item goes behind the local queue, in order */
__CPROVER_ensures(Q_WF_ABS(LOCALQ))
/*@BODY acquire*/

#define EVENT (CQES[(cqHead + i) & S.cqMask_])
#define EV_IS_REMOTE (EVENT.user_data == remote_queue_event_user_data)
#define EV_IS_TIMER (EVENT.user_data == (uint64_t)(uintptr_t)&S.timers_)
#define EV_IS_TIMER_REMOVE (EVENT.user_data == (uint64_t)(uintptr_t)&S.currentDueTime_)
#define EV_IS_ITEM (EVENT.user_data == (uint64_t)(uintptr_t)&C0)
int acq__loop0_body(struct io_uring_context* self, uint32_t cqHead, uint32_t mask, uint32_t i)
__CPROVER_requires(self == &S && mask == S.cqMask_ && i < S.cqEntryCount_ && ACQ_INV && (EV_IS_REMOTE || EV_IS_TIMER || EV_IS_TIMER_REMOVE || EV_IS_ITEM))
__CPROVER_requires((EV_IS_REMOTE ==> (S.remoteQueueReadSubmitted_ && EVENT.res >= 0)) && (EV_IS_TIMER ==> (S.activeTimerCount_ > 0 && EVENT.res <= 0)) && C0.execute_ != NULL && !G.dead \
                   && G.cq_in.head_ == completionQueue.head_ && G.cq_in.tail_ == completionQueue.tail_)
__CPROVER_assigns(ACQ_BODY_ASSIGNS)
__CPROVER_ensures(__CPROVER_return_value == VF_X_CONTINUE)
__CPROVER_ensures(ACQ_INV || (completionQueue.tail_ == &C0 && ON_IO && G.i_am_consumer)) /* invariant (the window of the completion queue is re-chosen at the next cut point) */
__CPROVER_ensures(G.eventfd_reads == __CPROVER_old(G.eventfd_reads) + (EV_IS_REMOTE ? 1 : 0)) /* the eventfd is read for, and only for, the remote-queue event */
__CPROVER_ensures(S.remoteQueueReadSubmitted_ == (G.rqrs_in && G.eventfd_reads == 0)) /* C14-1: the flag is cleared exactly when the wake-up was consumed */
__CPROVER_ensures(!S.remoteQueueReadSubmitted_ ==> S.remoteQueue_.head_ != INACT)
__CPROVER_ensures(EV_IS_TIMER ? (S.activeTimerCount_ == __CPROVER_old(S.activeTimerCount_) - 1 && (EVENT.res != -ECANCELED ==> S.timersAreDirty_) \
                   && G.due_resets == __CPROVER_old(G.due_resets) + (S.activeTimerCount_ == 0 ? 1 : 0)) \
                   : (S.activeTimerCount_ == __CPROVER_old(S.activeTimerCount_) && G.due_resets == __CPROVER_old(G.due_resets) && S.timersAreDirty_ == __CPROVER_old(S.timersAreDirty_))) /* a timeout CQE is counted once; one that fired (not cancelled) makes the timers dirty; the recorded due time is forgotten with the last kernel timeout */
__CPROVER_ensures(EV_IS_ITEM ? (C0.result_ == EVENT.res && C0.execute_ == __CPROVER_old(C0.execute_) && completionQueue.tail_ == &C0 && C0.next_ == NULL \
                   && (G.cq_in.head_ == NULL ? completionQueue.head_ == &C0 : (completionQueue.head_ == G.cq_in.head_ && (G.cq_in.tail_ == &X0 ? X0.next_ : XT.next_) == &C0))) \
                   : (completionQueue.head_ == G.cq_in.head_ && completionQueue.tail_ == G.cq_in.tail_ && C0.result_ == __CPROVER_old(C0.result_))) /* C14: the result stored is the res of THIS operation's CQE; the item goes to the back of the completion queue; other events queue nothing */
/*@LOOPBODY acquire.loop0.body*/

/* ---------------- run_impl ---------------- */
static void CTX_update_timers(struct io_uring_context* self) {     /* group uring_timer */
  VF_P(S.timersAreDirty_, "update_timers runs because the timers are dirty");
  G.timers_calls++;
  _Bool s = SHOULD_STOP; struct iqueue p = S.pendingIoQueue_;
  continuation_effects();
  SHOULD_STOP = s; S.pendingIoQueue_ = p;
}
/* io_uring_enter(fd, to_submit, min_complete, flags, NULL): the kernel consumes up to to_submit SQEs (returns how many), or fails with
 * -1/errno; it may post CQEs for operations in flight; with min_complete > 0 (and everything submitted) it returns only when that many CQEs are there */
static int EV_io_uring_enter(struct io_uring_context* self, unsigned to_submit, int min_complete, unsigned flags) {
  VF_P(self == &S && ON_IO && G.enters == 0, "one io_uring_enter per round of the loop, on the I/O thread");
  VF_P(to_submit == S.sqUnflushedCount_ && to_submit == SQ_USED, "C14: every unflushed SQE is handed to the kernel");
  VF_P(min_complete == 0 || (min_complete == 1 && (flags & IORING_ENTER_GETEVENTS) != 0), "waiting for a completion is requested with IORING_ENTER_GETEVENTS");
  VF_P(min_complete == 0 || S.localQueue_.head_ == NULL, "C14-1: the loop blocks only when it has nothing to run locally");
#ifdef VF_STRICT_WAKEUP
  VF_P(min_complete == 0 || S.remoteQueueReadSubmitted_, "C14-1: the loop blocks only after it has marked the remote queue inactive and put the eventfd poll into the ring (a later producer then wakes it)");
#else
  VF_P(min_complete == 0 || S.remoteQueueReadSubmitted_ || PENDING_OPS == S.cqEntryCount_, "C14-1 (weak form): the loop blocks without a wake-up registration only when every completion-queue slot is spoken for");
#endif
  G.enters++; G.enter_submit = to_submit; G.enter_min = (unsigned)min_complete; G.enter_flags = flags;
  G.enter_local_empty = (S.localQueue_.head_ == NULL); G.enter_rqrs = S.remoteQueueReadSubmitted_;
  G.unflushed_before_enter = S.sqUnflushedCount_; G.pending_before_enter = S.cqPendingCount_;
  if (VF_nondet_bool()) { int e = VF_nondet_int(); __CPROVER_assume(e > 0 && e < 4096); G.err = e; G.enter_result = -1; return -1; }
  unsigned r = VF_nondet_u32();
  __CPROVER_assume(r <= to_submit && r <= SQ_USED);
  K.sqHead += r; G.k_inflight += r;
  { unsigned c = VF_nondet_u32(); __CPROVER_assume(c <= G.k_inflight); K.cqTail += c; G.k_inflight -= c; }
  if (min_complete > 0 && r == to_submit) { __CPROVER_assume(CQ_READY >= (unsigned)min_complete); }
  G.enter_result = (int)r;
  return (int)r;
}

#define RUN_INV (ON_IO && G.i_am_consumer && currentThreadContext == &S && (!S.remoteQueueReadSubmitted_ ==> S.remoteQueue_.head_ != INACT) \
                 && Q_WF_ABS(LOCALQ) && Q_WF_ABS(PIOQ) && SIZES_OK && RING_OK)
static int run__loop0(struct io_uring_context* self, const _Bool* shouldStop) {
  VF_P(RUN_INV, "cut point (run loop head): flag in step with the remote queue, queues well formed, ring accounting exact");
  queue_build(&S.localQueue_, &W0, &WT); queue_build(&S.pendingIoQueue_, &P0, &PT);
  S.remoteQueueReadSubmitted_ = VF_nondet_bool(); S.timersAreDirty_ = VF_nondet_bool();
  S.remoteQueue_.head_ = S.remoteQueueReadSubmitted_ ? (VF_nondet_bool() ? INACT : (void*)&R0) : (VF_nondet_bool() ? NULL : (void*)&R0);
  ring_any();
  SHOULD_STOP = 1;
  __CPROVER_assume(RUN_INV);
  return VF_X_BREAK;
}
#define VF_RUN_LOOP run__loop0(self, shouldStop)

void CTX_run_impl(struct io_uring_context* self, const _Bool* shouldStop)
__CPROVER_requires(self == &S && shouldStop == &SHOULD_STOP && G.i_am_consumer && !S.remoteQueueReadSubmitted_ && S.remoteQueue_.head_ != INACT && Q_WF_ABS(LOCALQ) && Q_WF_ABS(PIOQ) && SIZES_OK && RING_OK && !ON_IO)
__CPROVER_assigns(currentThreadContext, S, K, G.k_inflight, W0, WT, P0, PT, SHOULD_STOP)
__CPROVER_ensures(currentThreadContext == __CPROVER_old(currentThreadContext)) /* thread identity restored on the way out */
__CPROVER_ensures(SHOULD_STOP) /* run() returns only after the stop operation was executed */
/*@BODY run_impl*/

/* the pending-I/O loop inside the run loop: while there are items waiting for ring space AND there is space, retry the oldest */
#define PIO_INV (ON_IO && SIZES_OK && RING_OK && QSHAPE(PIOQ, P0, PT) && QITEMS(PIOQ, P0, PT) && Q_WF_ABS(LOCALQ))
static void pio__loop1(struct io_uring_context* self) {
  VF_P(ON_IO && SIZES_OK && RING_OK && Q_WF_ABS(PIOQ) && Q_WF_ABS(LOCALQ), "cut point (pending-I/O loop head): queues well formed, ring accounting exact");
  queue_build(&S.pendingIoQueue_, &P0, &PT);
  { _Bool s = SHOULD_STOP; struct iqueue p = S.pendingIoQueue_; continuation_effects(); SHOULD_STOP = s; S.pendingIoQueue_ = p; }
  vf_interfere();
  __CPROVER_assume(PIO_INV && !(/*@LOOPCOND run_impl.loop1.cond*/));
}
#define VF_PIO_LOOP pio__loop1(self)
#define PIO_ASSIGNS S.localQueue_, S.pendingIoQueue_, S.timersAreDirty_, S.sqUnflushedCount_, K.sqTail, P0, G.exec, G.exec_item, G.dead, G.snap, SHOULD_STOP

int pio__loop1_body(struct io_uring_context* self)
__CPROVER_requires(self == &S && PIO_INV && S.pendingIoQueue_.head_ == &P0 && G.exec == 0 && !G.dead && G.carried == P0.execute_ && G.rest_head == P0.next_ && G.rest_tail == S.pendingIoQueue_.tail_)
__CPROVER_assigns(PIO_ASSIGNS)
__CPROVER_ensures(__CPROVER_return_value == VF_X_CONTINUE)
__CPROVER_ensures(G.exec == 1 && G.exec_item == &P0) /* C14: pops the oldest waiting item and retries exactly that item once (FIFO; state at the call: checked in EV_execute_io) */
__CPROVER_ensures(G.dead && P0_UNTOUCHED) /* the retried item may be gone (or queued again): never touched afterwards */
__CPROVER_ensures(RING_OK && Q_WF_ABS(LOCALQ) && Q_WF_ABS(PIOQ))
/*@LOOPBODY run_impl.loop1.body*/

#define RUN_BODY_FRESH (G.lin_count == 0 && G.mr_calls == 0 && G.dq_count == 0 && G.dq_mr_calls == 0 && !G.took && G.exec == 0 && !G.dead && PENDING.head_ == NULL && PENDING.tail_ == NULL \
                        && G.enters == 0 && G.throws == 0 && G.rqrs_in == S.remoteQueueReadSubmitted_ && G.timers_calls == 0 && G.cq_head_stores == 0 && !G.acq_looped && G.acq_calls == 0 && G.eventfd_reads == 0 \
                        && G.populate_calls == 0 && G.sq_publishes == 0 && !G.populate_accept)
int run__loop0_body(struct io_uring_context* self, const _Bool* shouldStop)
__CPROVER_requires(self == &S && shouldStop == &SHOULD_STOP && RUN_INV && (/*@LOOPCOND run_impl.loop0.cond*/) && RUN_BODY_FRESH)
__CPROVER_assigns(S, K, W0, WT, P0, PT, X0, XT, R0, R1, C0, PENDING, completionQueue, SHOULD_STOP, G, __CPROVER_object_whole(SQES), __CPROVER_object_whole(SQARR), SQE_BEFORE, SQE_AFTER)
__CPROVER_ensures(__CPROVER_return_value == VF_X_BREAK || __CPROVER_return_value == VF_X_CONTINUE || (__CPROVER_return_value == VF_X_RETURN && G.throws == 1 && G.enter_result < 0))
__CPROVER_ensures(__CPROVER_return_value == VF_X_BREAK ==> SHOULD_STOP) /* the loop is left only when the stop operation has run */
__CPROVER_ensures(__CPROVER_return_value == VF_X_CONTINUE ==> RUN_INV) /* invariant re-established: in particular the ring counters are exact and within the ring sizes */
__CPROVER_ensures(G.enters <= 1)
__CPROVER_ensures((__CPROVER_return_value == VF_X_CONTINUE && G.enters == 1) ==> (G.enter_result >= 0 && S.sqUnflushedCount_ == G.unflushed_before_enter - (unsigned)G.enter_result \
                   && S.cqPendingCount_ == G.pending_before_enter + (unsigned)G.enter_result)) /* accounting: what the kernel consumed moves from "unflushed" to "pending completion" */
__CPROVER_ensures((__CPROVER_return_value == VF_X_CONTINUE && S.remoteQueueReadSubmitted_ && !(G.rqrs_in && G.eventfd_reads == 0)) ==> (G.lin_count == 1 && G.lin_new == INACT && G.lin_old == NULL && G.sq_publishes == 1)) /* C14-1: the flag is set only after ITS mark-inactive step found the remote queue empty and the eventfd poll was published */
__CPROVER_ensures((__CPROVER_return_value == VF_X_CONTINUE && G.rqrs_in && G.eventfd_reads == 0) ==> (G.lin_count == 0 && G.dq_count == 0 && S.remoteQueueReadSubmitted_)) /* while marked inactive the loop does not touch the remote queue (it waits for the wake-up) */
__CPROVER_ensures((__CPROVER_return_value == VF_X_CONTINUE && G.lin_count == 1 && G.lin_new == INACT) ==> (G.enters == 1 && G.enter_submit >= 1)) /* C14-1: a freshly published eventfd poll is handed to the kernel in the same round (before the loop can block) */
__CPROVER_ensures(__CPROVER_return_value == VF_X_CONTINUE ==> G.acq_calls == 1) /* C14: every round of the loop looks at the completion queue (the eventfd poll, the timer and every I/O completion arrive there): remote work and a remote stop request are not starved by work that keeps rescheduling itself locally */
/*@LOOPBODY run_impl.loop0.body*/

/* ---------------- harnesses ---------------- */
static void h_init(void) {
  ctx_init(&S); ring_geometry(); ring_any();
  S.remoteQueueEventFd_ = VF_nondet_int(); S.iouringFd_ = VF_nondet_int(); S.activeTimerCount_ = VF_nondet_u32();
  G.i_am_consumer = 0; G.lin_old = NULL; G.lin_new = NULL; G.lin_count = 0; G.it_next_at_lin = NULL; G.mr_calls = 0; G.mr_arg = NULL;
  G.dq_count = 0; G.dq_old = NULL; G.dq_new = NULL; G.dq_mr_calls = 0; G.dq_mr_arg = NULL;
  currentThreadContext = VF_nondet_bool() ? &S : NULL;
  G.err = 0; G.eventfd_writes = 0; G.eventfd_value = 0; G.eventfd_len = 0;
  G.eventfd_reads = 0; G.due_resets = 0; G.throws = 0;
  G.exec = 0; G.exec_item = NULL; G.dead = 0; G.took = 0; G.timers_calls = 0;
  G.populate_calls = 0; G.populated = NULL; G.populate_accept = 0; G.sq_publishes = 0; G.tail_at_entry = 0; G.room_at_entry = 0;
  G.cq_head_stores = 0; G.acq_head = 0; G.acq_count = 0; G.acq_looped = 0; G.acq_calls = 0;
  G.enters = 0; G.enter_submit = 0; G.enter_min = 0; G.enter_flags = 0; G.enter_result = 0;
  { struct io_uring_sqe stale; SQES[K.sqTail & S.sqMask_] = stale; }   /* the next free slot holds whatever an earlier, different operation left there */
  PENDING.head_ = NULL; PENDING.tail_ = NULL; SHOULD_STOP = VF_nondet_bool();
  item_init(&IT); IT.execute_ = pick_fn();
  queue_build(&S.localQueue_, &W0, &WT); queue_build(&S.pendingIoQueue_, &P0, &PT);
  G.old_local = S.localQueue_;
  int k = VF_nondet_int();
  S.remoteQueue_.head_ = k == 0 ? INACT : k == 1 ? NULL : (void*)&R0;
  S.remoteQueueReadSubmitted_ = (S.remoteQueue_.head_ == INACT);
  G.rqrs_in = S.remoteQueueReadSubmitted_;
}
static void h_loop_thread(void) { h_init(); G.i_am_consumer = 1; currentThreadContext = &S; }
void h_schedule_local(void) { h_init(); currentThreadContext = &S; CTX_schedule_local(&S, &IT); VF_CANARY("after schedule_local"); if (G.old_local.head_ == NULL) { VF_CANARY("schedule_local into an empty queue"); } else { VF_CANARY("schedule_local into a non-empty queue"); } }
void h_schedule_local_q(void) {
  h_init();
  struct iqueue ops; queue_build(&ops, &X0, &XT);
  CTX_schedule_local_q(&S, ops);
  VF_CANARY("after schedule_local(queue)");
  if (ops.head_ != NULL && G.old_local.head_ != NULL) { VF_CANARY("a batch can be appended to a non-empty local queue"); }
}
void h_schedule_pending_io(void) { h_init(); currentThreadContext = &S; _Bool was_empty = S.pendingIoQueue_.head_ == NULL; CTX_schedule_pending_io(&S, &IT); VF_CANARY("after schedule_pending_io"); if (!was_empty) { VF_CANARY("an item can wait behind others"); } }
void h_reschedule_pending_io(void) { h_init(); currentThreadContext = &S; _Bool was_empty = S.pendingIoQueue_.head_ == NULL; CTX_reschedule_pending_io(&S, &IT); VF_CANARY("after reschedule_pending_io"); if (!was_empty) { VF_CANARY("an item can be put in front of others"); } }
void h_signal_remote_queue(void) { h_init(); CTX_signal_remote_queue(&S); VF_CANARY("after signal_remote_queue"); }
void h_schedule_remote(void) {
  h_init();
  CTX_schedule_remote(&S, &IT);
  VF_CANARY("after schedule_remote");
  if (G.eventfd_writes) { VF_CANARY("schedule_remote can wake the loop"); } else { VF_CANARY("schedule_remote can find the loop active"); }
}
void h_schedule_impl(void) {
  h_init(); CTX_schedule_impl(&S, &IT);
  VF_CANARY("after schedule_impl");
  if (ON_IO) { VF_CANARY("schedule_impl can schedule locally"); } else { VF_CANARY("schedule_impl can schedule remotely"); }
}
void h_execute_pending_local(void) { h_loop_thread(); CTX_execute_pending_local(&S); VF_CANARY("after execute_pending_local"); if (G.took) { VF_CANARY("execute_pending_local can take a batch"); } else { VF_CANARY("execute_pending_local can find the queue empty"); } }
void h_epl_loop0_body(void) {
  struct io_uring_context* self = &S;
  h_loop_thread(); G.took = 1;
  queue_build(&PENDING, &W0, &WT); queue_any(&S.localQueue_);
  __CPROVER_assume(/*@LOOPCOND execute_pending_local.loop0.cond*/);
  G.carried = W0.execute_; G.rest_head = W0.next_; G.rest_tail = PENDING.tail_;
  int r = epl__loop0_body(&S);
  VF_CANARY("after one iteration of execute_pending_local");
  if (PENDING.head_ == NULL) { VF_CANARY("the iteration can empty the batch"); } else { VF_CANARY("the iteration can leave items in the batch"); }
}
void h_can_submit_io(void) { h_loop_thread(); _Bool r = CTX_can_submit_io(&S); VF_CANARY("after can_submit_io"); if (r) { VF_CANARY("there can be room"); } else { VF_CANARY("the rings can be full"); } }
void h_try_submit_io(void) {
  h_loop_thread();
  int kind = VF_nondet_bool() ? POP_VOID : POP_BOOL;
  _Bool r = CTX_try_submit_io(&S, kind);
  VF_CANARY("after try_submit_io");
  if (r) { VF_CANARY("an SQE can be published"); } else if (G.populate_calls) { VF_CANARY("the populate callable can decline"); } else { VF_CANARY("try_submit_io can find no room"); }
  if (r && S.sqUnflushedCount_ == S.sqEntryCount_) { VF_CANARY("the submission ring can become full"); }
  if (r && PENDING_OPS == S.cqEntryCount_) { VF_CANARY("every completion slot can become spoken for"); }
}
void h_try_register(void) {
  h_loop_thread();
  __CPROVER_assume(S.remoteQueue_.head_ != INACT); S.remoteQueueReadSubmitted_ = 0;
  _Bool r = CTX_try_register_remote_queue_notification(&S);
  VF_CANARY("after try_register_remote_queue_notification");
  if (r) { VF_CANARY("the loop can mark itself inactive"); } else if (G.lin_count) { VF_CANARY("the loop can take remote items instead"); } else { VF_CANARY("the registration can fail for lack of ring space"); }
}
void h_acquire_remote(void) {
  h_loop_thread();
  __CPROVER_assume(S.remoteQueue_.head_ != INACT); S.remoteQueueReadSubmitted_ = 0;
  CTX_acquire_remote_queued_items(&S);
  VF_CANARY("after acquire_remote_queued_items");
  if (G.dq_count) { VF_CANARY("remote items can be taken"); } else { VF_CANARY("the remote queue can be empty"); }
}
void h_acquire(void) {
  h_loop_thread();
  CTX_acquire_completion_queue_items(&S);
  VF_CANARY("after acquire_completion_queue_items");
  if (G.acq_looped) { VF_CANARY("completions can be dispatched"); } else { VF_CANARY("the completion queue can be empty"); }
  if (G.acq_looped && !S.remoteQueueReadSubmitted_ && G.rqrs_in) { VF_CANARY("a wake-up can be consumed"); }
}
void h_acq_loop0_body(void) {
  h_loop_thread();
  uint32_t cqHead = K.cqHead, mask = S.cqMask_;
  uint32_t i = VF_nondet_u32(); __CPROVER_assume(i < CQ_READY && CQ_READY <= S.cqEntryCount_);
  int k = VF_nondet_int();
  EVENT.user_data = k == 0 ? remote_queue_event_user_data : k == 1 ? (uint64_t)(uintptr_t)&S.timers_ : k == 2 ? (uint64_t)(uintptr_t)&S.currentDueTime_ : (uint64_t)(uintptr_t)&C0;
  EVENT.res = VF_nondet_int();
  item_init(&C0); C0.execute_ = pick_fn(); C0.result_ = VF_nondet_int();
  queue_build(&completionQueue, &X0, &XT); G.cq_in = completionQueue;
  /* an earlier step of the same loop may already have consumed the wake-up */
  if (S.remoteQueueReadSubmitted_ && VF_nondet_bool()) { S.remoteQueueReadSubmitted_ = 0; G.eventfd_reads = 1; S.remoteQueue_.head_ = NULL; }
  __CPROVER_assume((EV_IS_REMOTE ==> (S.remoteQueueReadSubmitted_ && EVENT.res >= 0)) && (EV_IS_TIMER ==> (S.activeTimerCount_ > 0 && EVENT.res <= 0)));
  int r = acq__loop0_body(&S, cqHead, mask, i);
  VF_CANARY("after one dispatch step");
  if (completionQueue.tail_ == &C0) { VF_CANARY("a completion item can be queued"); }
  if (G.due_resets) { VF_CANARY("the last kernel timeout can complete"); }
  if (G.eventfd_reads && G.rqrs_in) { VF_CANARY("the wake-up can be consumed"); }
}
void h_run_impl(void) {
  h_init(); G.i_am_consumer = 1; currentThreadContext = VF_nondet_bool() ? (struct io_uring_context*)&vf_opaque_obj : NULL;
  __CPROVER_assume(S.remoteQueue_.head_ != INACT); S.remoteQueueReadSubmitted_ = 0;
  CTX_run_impl(&S, &SHOULD_STOP);
  VF_CANARY("after run_impl");
}
void h_pio_loop1_body(void) {
  struct io_uring_context* self = &S;
  h_loop_thread();
  __CPROVER_assume(/*@LOOPCOND run_impl.loop1.cond*/);
  G.carried = P0.execute_; G.rest_head = P0.next_; G.rest_tail = S.pendingIoQueue_.tail_;
  int r = pio__loop1_body(&S);
  VF_CANARY("after one pending-I/O retry");
}
void h_run_loop0_body(void) {
  h_loop_thread();
  G.rqrs_in = S.remoteQueueReadSubmitted_;
  int r = run__loop0_body(&S, &SHOULD_STOP);
  if (r == VF_X_BREAK) { VF_CANARY("the run loop can stop"); }
  else if (r == VF_X_CONTINUE) {
    VF_CANARY("the run loop can go round");
    if (G.enters && G.enter_min == 1) { VF_CANARY("the run loop can block in io_uring_enter"); }
    if (G.lin_count && G.lin_new == INACT) { VF_CANARY("the run loop can mark itself inactive"); }
    if (G.enters && G.enter_min == 1 && !G.enter_rqrs) { VF_CANARY("the run loop can block WITHOUT a wake-up registration (completion queue fully booked)"); }
  }
}

/* ---------------- M4 lemmas over the contracts ---------------- */
void lemma_uring_init(void) {
  ctx_init(&S); ring_geometry(); item_init(&IT);
  K.sqHead = 0; K.sqTail = 0; K.cqHead = 0; K.cqTail = 0; G.k_inflight = 0;      /* a fresh io_uring: empty rings */
  VF_P(S.remoteQueue_.head_ != INACT && S.remoteQueue_.head_ == NULL, "lemma: a fresh context's remote queue is active and empty");
  VF_P(!S.remoteQueueReadSubmitted_, "lemma: ... and its flag says so: the loop invariant holds initially");
  VF_P(S.localQueue_.head_ == NULL && S.localQueue_.tail_ == NULL && S.pendingIoQueue_.head_ == NULL && S.pendingIoQueue_.tail_ == NULL, "lemma: a fresh context has nothing to run and nothing waiting for ring space");
  VF_P(S.sqUnflushedCount_ == 0 && S.cqPendingCount_ == 0 && S.activeTimerCount_ == 0 && !S.timersAreDirty_, "lemma: a fresh context's counters are zero");
  VF_P(RING_OK, "lemma: the ring accounting invariant holds initially");
  VF_P(POW2(VF_SQ_REQUESTED) && VF_SQ_REQUESTED <= 32768, "lemma: the entry count requested from io_uring_setup is a legal power of two (granted as asked; the model scales the geometry down)");
  VF_CANARY("lemma_uring_init reachable");
}
/* RING_OK is inductive under every step of every party, and it implies that the completion ring cannot overflow */
void lemma_uring_ring(void) {
  ring_geometry(); ring_any();
  VF_P(G.k_inflight + CQ_READY + SQ_USED <= S.cqEntryCount_, "lemma: every operation that holds an SQE or is in flight has a CQE slot: the completion ring cannot overflow");
  VF_P(SQ_USED <= S.sqEntryCount_, "lemma: the submission ring is never over-full");
  VF_P(RING_ROOM == (S.sqUnflushedCount_ < S.sqEntryCount_ && PENDING_OPS < S.cqEntryCount_), "lemma: can_submit_io() (over the counters) and try_submit_io's room test (over the ring words) agree");
  int step = VF_nondet_int();
  __CPROVER_assume(step >= 0 && step <= 4);
  if (step == 0) { __CPROVER_assume(RING_ROOM); K.sqTail += 1; S.sqUnflushedCount_ += 1; }                                   /* try_submit_io publishes (its contract) */
  else if (step == 1) { unsigned r = VF_nondet_u32(); __CPROVER_assume(r <= SQ_USED); K.sqHead += r; G.k_inflight += r; S.sqUnflushedCount_ -= r; S.cqPendingCount_ += r; }   /* io_uring_enter consumed r SQEs + the loop's accounting */
  else if (step == 2) { unsigned c = VF_nondet_u32(); __CPROVER_assume(c <= G.k_inflight); K.cqTail += c; G.k_inflight -= c; }   /* the kernel posts CQEs */
  else if (step == 3) { unsigned n = VF_nondet_u32(); __CPROVER_assume(n <= CQ_READY); K.cqHead += n; S.cqPendingCount_ -= n; }   /* acquire_completion_queue_items (its contract) */
  else { unsigned t = VF_nondet_u32(); __CPROVER_assume(t <= VF_SQ_MAX && S.sqUnflushedCount_ + t <= S.sqEntryCount_ && S.cqPendingCount_ + S.sqUnflushedCount_ + t <= S.cqEntryCount_); K.sqTail += t; S.sqUnflushedCount_ += t; }   /* t successful try_submit_io calls (continuation_effects) */
  VF_CANARY("lemma premises satisfiable");
  VF_P(RING_OK, "lemma: every step of the loop, of try_submit_io and of the kernel keeps the ring accounting exact and within the ring sizes");
}
/* wake protocol: the loop marked itself inactive (contract of try_register: only over an empty queue, and only together with the
 * published eventfd poll); then two producers run schedule_remote (contract: one push each, eventfd written iff the push replaced the sentinel) */
void lemma_uring_wake(void) {
  void* s0 = INACT;
  struct item* a = &IT; struct item* b = &R0;
  void* s1 = (void*)a; a->next_ = NULL;                 /* AQ_STEP_PUSH over the sentinel */
  VF_P(AQ_STEP_PUSH(RQ, s0, s1, a, a->next_), "lemma: the first producer's step is a push over the sentinel");
  _Bool wake_a = (s0 == INACT);
  void* s2 = (void*)b; b->next_ = (struct item*)s1;
  VF_P(AQ_STEP_PUSH(RQ, s1, s2, b, b->next_), "lemma: the second producer's step is a push over the first item");
  _Bool wake_b = (s1 == INACT);
  VF_P(wake_a && !wake_b, "lemma: exactly one wake-up is written for the idle period");
  VF_P(s2 != INACT && b->next_ == a, "lemma: when the loop wakes up (flag cleared after the poll CQE and the eventfd read) the queue word is not the sentinel, and both items are in the chain it takes next");
  void* t0 = VF_nondet_bool() ? NULL : (void*)&R0;
  VF_P(!AQ_STEP_MARK_INACTIVE(RQ, t0, INACT) || t0 == NULL, "lemma: the mark-inactive step is enabled only on an empty queue: an item pushed while the loop was active is taken, not stranded");
  VF_CANARY("lemma_uring_wake reachable");
}
/* the stub of dequeue_all used here is a behaviour of the shared contract text (with lin_* := dq_*) */
void lemma_uring_dequeue_stub(void) {
  h_loop_thread();
  __CPROVER_assume(S.remoteQueue_.head_ != INACT);
  struct iqueue r = AQ_dequeue_all(RQ);
  G.lin_count = G.dq_count; G.lin_old = G.dq_old; G.lin_new = G.dq_new; G.mr_calls = G.dq_mr_calls; G.mr_arg = G.dq_mr_arg;
  VF_CANARY("lemma premises satisfiable");
  VF_P(G.lin_count == 0 ==> (G.mr_calls == 0 && r.head_ == NULL && r.tail_ == NULL), "lemma: nothing taken: nothing returned");
  VF_P(AQ_ENS_DEQUEUE_ALL_STEP(RQ, r) && AQ_ENS_DEQUEUE_ALL_WHOLE(RQ, r), "lemma: the stub's take is the one atomic step of dequeue_all's contract and returns the whole chain");
}
