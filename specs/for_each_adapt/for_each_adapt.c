/* C13 (scoped): the function bodies of include/unifex/for_each.hpp, adapt_stream.hpp, next_adapt_stream.hpp and
 * cleanup_adapt_stream.hpp.  All of them are one-statement compositions; senders, streams and functions are integer tokens and
 * the event stubs record WHAT is applied to WHAT, how often and in which order:
 *   for_each:        _map::operator()(unit s, values...) invokes func once on the element and passes the accumulator through;
 *                    _reduce::operator()(unit) does nothing (the result is void);
 *                    for_each(stream, func) == then(reduce_stream(stream, unit{}, _map{func}), _reduce{})
 *   adapt_stream:    next(adapted)    == nextAdapter_(next(inner))       -- ONE inner next per outer next, no inner cleanup
 *                    cleanup(adapted) == cleanupAdapter_(cleanup(inner)) -- ONE inner cleanup, no inner next
 *                    (single-adaptor form: adapter_ for both)
 *   next_adapt:      next == adapter_(next(inner));  cleanup == cleanup(inner) unchanged
 *   cleanup_adapt:   next == next(inner) unchanged;  cleanup == adapter_(cleanup(inner))
 * Bodies marked @BODY are extracted from /repo on every run; everything else is specification. */
#include <stddef.h>
#include <stdint.h>

struct vf_ghost {
  int* inner;                                     /* the inner stream of the adapted stream under test */
  unsigned inner_nexts, inner_cleanups, invokes;  /* inner stream operations created / adaptor applications in this call */
  int next_sender, cleanup_sender, inv_fn, inv_arg, inv_result;
  unsigned func_calls; int func_fn; int64_t func_arg;
  unsigned maps, reducers, rs_calls, then_calls;
  int map_of, map_tok, reduce_tok, rs_stream, rs_init, rs_mapper, rs_tok, then_sender, then_fn, then_tok;
};
static struct vf_ghost G;
#include "vf.h"
static void vf_interfere(void) {}     /* no atomics */
#define VF_UNIT 7                       /* unit{}: the one value of the empty accumulator type */

struct ad2 { int innerStream_, nextAdapter_, cleanupAdapter_; };
struct ad1 { int innerStream_, adapter_; };
struct fe_map { int func_; };
struct fe_reduce { int opaque; };
static struct ad2 S2;
static struct ad1 S1;      /* also next_adapt / cleanup_adapt: same two members */
static struct fe_map M;
static struct fe_reduce R;

/* ---------------- event stubs ---------------- */
static int EV_inner_next(int* stream) {
  VF_P(stream == G.inner, "C13: next is requested from the adapted stream's OWN inner stream");
  VF_P(G.inner_nexts == 0 && G.inner_cleanups == 0, "C13: exactly one inner stream operation per outer call");
  G.inner_nexts++; G.next_sender = VF_nondet_int();
  return G.next_sender;
}
static int EV_inner_cleanup(int* stream) {
  VF_P(stream == G.inner, "C13: cleanup is requested from the adapted stream's OWN inner stream");
  VF_P(G.inner_nexts == 0 && G.inner_cleanups == 0, "C13: exactly one inner stream operation per outer call");
  G.inner_cleanups++; G.cleanup_sender = VF_nondet_int();
  return G.cleanup_sender;
}
static int EV_invoke(int fn, int sender) {
  VF_P(G.invokes == 0, "the adaptor is applied once");
  VF_P((G.inner_nexts == 1 && G.inner_cleanups == 0 && sender == G.next_sender) || (G.inner_cleanups == 1 && G.inner_nexts == 0 && sender == G.cleanup_sender),
       "C13: the adaptor is applied to the inner sender created by this call");
  G.invokes++; G.inv_fn = fn; G.inv_arg = sender; G.inv_result = VF_nondet_int();
  return G.inv_result;
}
static void EV_func(int fn, int64_t v) {
  VF_P(G.func_calls == 0, "C13: func is invoked once per element");
  G.func_calls++; G.func_fn = fn; G.func_arg = v;
}
static int EV_make_map(int func) { G.maps++; G.map_of = func; G.map_tok = VF_nondet_int(); return G.map_tok; }
static int EV_make_reduce(void) { G.reducers++; G.reduce_tok = VF_nondet_int(); return G.reduce_tok; }
static int EV_reduce_stream(int stream, int init, int mapper) {
  VF_P(G.rs_calls == 0, "one reduce_stream");
  G.rs_calls++; G.rs_stream = stream; G.rs_init = init; G.rs_mapper = mapper; G.rs_tok = VF_nondet_int();
  return G.rs_tok;
}
static int EV_then(int sender, int fn) {
  VF_P(G.then_calls == 0, "one then");
  G.then_calls++; G.then_sender = sender; G.then_fn = fn; G.then_tok = VF_nondet_int();
  return G.then_tok;
}

/* ---------------- contracts ---------------- */
#define FRESH (G.inner_nexts == 0 && G.inner_cleanups == 0 && G.invokes == 0 && G.func_calls == 0 && G.maps == 0 && G.reducers == 0 && G.rs_calls == 0 && G.then_calls == 0)
#define NO_COMPOSE (G.maps == 0 && G.reducers == 0 && G.rs_calls == 0 && G.then_calls == 0 && G.func_calls == 0)
/* one inner next, adapted by fn */
#define NEXT_ADAPTED(fn) (G.inner_nexts == 1 && G.inner_cleanups == 0 && G.invokes == 1 && G.inv_fn == (fn) && G.inv_arg == G.next_sender && __CPROVER_return_value == G.inv_result)
#define CLEANUP_ADAPTED(fn) (G.inner_cleanups == 1 && G.inner_nexts == 0 && G.invokes == 1 && G.inv_fn == (fn) && G.inv_arg == G.cleanup_sender && __CPROVER_return_value == G.inv_result)
#define NEXT_PLAIN (G.inner_nexts == 1 && G.inner_cleanups == 0 && G.invokes == 0 && __CPROVER_return_value == G.next_sender)
#define CLEANUP_PLAIN (G.inner_cleanups == 1 && G.inner_nexts == 0 && G.invokes == 0 && __CPROVER_return_value == G.cleanup_sender)
#define S2_SAME (S2.innerStream_ == __CPROVER_old(S2.innerStream_) && S2.nextAdapter_ == __CPROVER_old(S2.nextAdapter_) && S2.cleanupAdapter_ == __CPROVER_old(S2.cleanupAdapter_))
#define S1_SAME (S1.innerStream_ == __CPROVER_old(S1.innerStream_) && S1.adapter_ == __CPROVER_old(S1.adapter_))

/* for_each: _impl::_map<Func>::operator()(unit s, Ts&&... values) */
int fe_map_call(struct fe_map* self, int s, int64_t values)
__CPROVER_requires(self == &M && FRESH)
__CPROVER_assigns(G)
__CPROVER_ensures(G.func_calls == 1 && G.func_fn == M.func_ && G.func_arg == __CPROVER_old(values))     /* C13: func is invoked exactly once, on the element */
__CPROVER_ensures(__CPROVER_return_value == __CPROVER_old(s))                                          /* the (unit) accumulator is passed through */
__CPROVER_ensures(G.inner_nexts == 0 && G.inner_cleanups == 0 && G.invokes == 0 && G.rs_calls == 0 && G.then_calls == 0)
/*@BODY map_call*/

/* for_each: _impl::_reduce::operator()(unit): the continuation of then(): swallows the accumulator, result is void */
void fe_reduce_call(struct fe_reduce* self, int vf_unit_arg)
__CPROVER_requires(self == &R && FRESH)
__CPROVER_assigns(G)
__CPROVER_ensures(FRESH)
/*@BODY reduce_call*/

/* for_each(stream, func), default overload */
int fe_default(int stream, int func)
__CPROVER_requires(FRESH)
__CPROVER_assigns(G)
__CPROVER_ensures(G.maps == 1 && G.map_of == __CPROVER_old(func) && G.reducers == 1)
__CPROVER_ensures(G.rs_calls == 1 && G.rs_stream == __CPROVER_old(stream) && G.rs_init == VF_UNIT && G.rs_mapper == G.map_tok)   /* reduce_stream(stream, unit{}, _map{func}) */
__CPROVER_ensures(G.then_calls == 1 && G.then_sender == G.rs_tok && G.then_fn == G.reduce_tok && __CPROVER_return_value == G.then_tok)   /* then(<that>, _reduce{}) */
__CPROVER_ensures(G.func_calls == 0 && G.inner_nexts == 0 && G.inner_cleanups == 0 && G.invokes == 0)                         /* nothing runs at composition time */
/*@BODY for_each_default*/

/* adapt_stream(stream, adaptNext, adaptCleanup) */
int ad2_next(struct ad2* s)
__CPROVER_requires(s == &S2 && G.inner == &S2.innerStream_ && FRESH)
__CPROVER_assigns(G, S2)
__CPROVER_ensures(NEXT_ADAPTED(S2.nextAdapter_) && S2_SAME && NO_COMPOSE)
/*@BODY ad2_next*/

int ad2_cleanup(struct ad2* s)
__CPROVER_requires(s == &S2 && G.inner == &S2.innerStream_ && FRESH)
__CPROVER_assigns(G, S2)
__CPROVER_ensures(CLEANUP_ADAPTED(S2.cleanupAdapter_) && S2_SAME && NO_COMPOSE)
/*@BODY ad2_cleanup*/

/* adapt_stream(stream, adapt): one adaptor for both */
int ad1_next(struct ad1* s)
__CPROVER_requires(s == &S1 && G.inner == &S1.innerStream_ && FRESH)
__CPROVER_assigns(G, S1)
__CPROVER_ensures(NEXT_ADAPTED(S1.adapter_) && S1_SAME && NO_COMPOSE)
/*@BODY ad1_next*/

int ad1_cleanup(struct ad1* s)
__CPROVER_requires(s == &S1 && G.inner == &S1.innerStream_ && FRESH)
__CPROVER_assigns(G, S1)
__CPROVER_ensures(CLEANUP_ADAPTED(S1.adapter_) && S1_SAME && NO_COMPOSE)
/*@BODY ad1_cleanup*/

/* next_adapt_stream(stream, adapt): only next is adapted */
int na_next(struct ad1* s)
__CPROVER_requires(s == &S1 && G.inner == &S1.innerStream_ && FRESH)
__CPROVER_assigns(G, S1)
__CPROVER_ensures(NEXT_ADAPTED(S1.adapter_) && S1_SAME && NO_COMPOSE)
/*@BODY na_next*/

int na_cleanup(struct ad1* s)
__CPROVER_requires(s == &S1 && G.inner == &S1.innerStream_ && FRESH)
__CPROVER_assigns(G, S1)
__CPROVER_ensures(CLEANUP_PLAIN && S1_SAME && NO_COMPOSE)                  /* C13: cleanup of the adapted stream IS cleanup(inner) */
/*@BODY na_cleanup*/

/* cleanup_adapt_stream(stream, adapt): only cleanup is adapted */
int ca_next(struct ad1* s)
__CPROVER_requires(s == &S1 && G.inner == &S1.innerStream_ && FRESH)
__CPROVER_assigns(G, S1)
__CPROVER_ensures(NEXT_PLAIN && S1_SAME && NO_COMPOSE)                     /* C13: next of the adapted stream IS next(inner): same elements, same order */
/*@BODY ca_next*/

int ca_cleanup(struct ad1* s)
__CPROVER_requires(s == &S1 && G.inner == &S1.innerStream_ && FRESH)
__CPROVER_assigns(G, S1)
__CPROVER_ensures(CLEANUP_ADAPTED(S1.adapter_) && S1_SAME && NO_COMPOSE)
/*@BODY ca_cleanup*/

/* ---------------- harnesses ---------------- */
static void h_havoc(int which) {
  G.inner = which == 2 ? &S2.innerStream_ : which == 1 ? &S1.innerStream_ : NULL;
  G.inner_nexts = VF_nondet_u32(); G.inner_cleanups = VF_nondet_u32(); G.invokes = VF_nondet_u32(); G.func_calls = VF_nondet_u32();
  G.maps = VF_nondet_u32(); G.reducers = VF_nondet_u32(); G.rs_calls = VF_nondet_u32(); G.then_calls = VF_nondet_u32();
  G.next_sender = -1; G.cleanup_sender = -1; G.inv_fn = -1; G.inv_arg = -1; G.inv_result = -1; G.func_fn = -1; G.func_arg = -1;
  G.map_of = -1; G.map_tok = -1; G.reduce_tok = -1; G.rs_stream = -1; G.rs_init = -1; G.rs_mapper = -1; G.rs_tok = -1; G.then_sender = -1; G.then_fn = -1; G.then_tok = -1;
  S2.innerStream_ = VF_nondet_int(); S2.nextAdapter_ = VF_nondet_int(); S2.cleanupAdapter_ = VF_nondet_int();
  S1.innerStream_ = VF_nondet_int(); S1.adapter_ = VF_nondet_int();
  M.func_ = VF_nondet_int();
}
void h_map_call(void) { h_havoc(0); (void)fe_map_call(&M, VF_nondet_int(), VF_nondet_i64()); VF_CANARY("after _map::operator()"); }
void h_reduce_call(void) { h_havoc(0); fe_reduce_call(&R, VF_UNIT); VF_CANARY("after _reduce::operator()"); }
void h_for_each_default(void) { h_havoc(0); (void)fe_default(VF_nondet_int(), VF_nondet_int()); VF_CANARY("after for_each(stream, func)"); }
void h_ad2_next(void) { h_havoc(2); (void)ad2_next(&S2); VF_CANARY("after adapt_stream next"); }
void h_ad2_cleanup(void) { h_havoc(2); (void)ad2_cleanup(&S2); VF_CANARY("after adapt_stream cleanup"); }
void h_ad1_next(void) { h_havoc(1); (void)ad1_next(&S1); VF_CANARY("after adapt_stream(1) next"); }
void h_ad1_cleanup(void) { h_havoc(1); (void)ad1_cleanup(&S1); VF_CANARY("after adapt_stream(1) cleanup"); }
void h_na_next(void) { h_havoc(1); (void)na_next(&S1); VF_CANARY("after next_adapt_stream next"); }
void h_na_cleanup(void) { h_havoc(1); (void)na_cleanup(&S1); VF_CANARY("after next_adapt_stream cleanup"); }
void h_ca_next(void) { h_havoc(1); (void)ca_next(&S1); VF_CANARY("after cleanup_adapt_stream next"); }
void h_ca_cleanup(void) { h_havoc(1); (void)ca_cleanup(&S1); VF_CANARY("after cleanup_adapt_stream cleanup"); }

/* ---------------- M4 lemma over the contracts ---------------- */
/* The consumer's stream protocol (no next after cleanup was requested, cleanup requested at most once) is transported
 * one-to-one to the inner stream: by the contracts above an outer next creates exactly (1 inner next, 0 inner cleanup) and an
 * outer cleanup exactly (0, 1), for every one of the four adaptor forms. */
void lemma_adapt_compose(void) {
  unsigned on = VF_nondet_u32(), oc = VF_nondet_u32(), in = VF_nondet_u32(), ic = VF_nondet_u32();
  _Bool is_next = VF_nondet_bool() ? 1 : 0;
  __CPROVER_assume(on < 0xffffffffu && in == on && ic == oc && oc <= 1);       /* invariant: inner counts mirror outer counts */
  __CPROVER_assume(is_next ? oc == 0 : oc == 0);                                /* consumer protocol: next only before cleanup; cleanup once */
  unsigned dn = is_next ? 1u : 0u, dc = is_next ? 0u : 1u;                      /* NEXT_* / CLEANUP_* postconditions */
  unsigned on2 = on + (is_next ? 1u : 0u), oc2 = oc + (is_next ? 0u : 1u), in2 = in + dn, ic2 = ic + dc;
  VF_CANARY("lemma premises satisfiable");
  VF_P(in2 == on2 && ic2 == oc2 && ic2 <= 1, "lemma: the inner stream sees exactly one next per outer next and exactly one cleanup per outer cleanup");
  VF_P(is_next ==> ic == 0, "lemma: no inner next() is created after the inner cleanup() was requested");
  VF_P(!is_next ==> (ic2 == 1 && in2 == on), "lemma: the inner cleanup is requested once, after all inner nexts were requested");
}
