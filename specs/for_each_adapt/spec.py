FE = 'include/unifex/for_each.hpp'
AD = 'include/unifex/adapt_stream.hpp'
NA = 'include/unifex/next_adapt_stream.hpp'
CA = 'include/unifex/cleanup_adapt_stream.hpp'

AD2 = r'struct _adapted<Stream, NextAdaptFunc, CleanupAdaptFunc>::type \{'
AD1 = r'struct _adapted<Stream, AdaptFunc, void>::type \{'
NAS = r'struct _stream<Stream, AdaptFunc>::type \{'
CAS = r'struct _stream<Stream, AdaptFunc>::type final \{'

# the stream customisations are friend functions taking `type& s`: the reference parameter becomes a pointer of the same name
# next(s.innerStream_) / cleanup(s.innerStream_) -> event stubs on the inner stream; std::invoke(s.<adapter>, sender) -> EV_invoke(adapter, sender)
STREAM = [
    (r'\b(next|cleanup)\(\s*s\.(\w+)\s*\)', r'EV_inner_\1(&s->\2)'),
    (r'std::invoke\(\s*s\.(\w+)\s*,', r'EV_invoke(s->\1,'),
    (r'\bs\.', 's->'),
]
stream_ctx = dict(cls='', members=[], methods=[], pre=STREAM)

map_ctx = dict(cls='fe_map', members=['func_'], methods=[], pre=[
    # std::invoke(func_, (Ts&&) values...): the user's per-element function (result discarded)
    (r'std::invoke\(\s*func_\s*,\s*\(Ts\s*&&\)\s*values\.\.\.\)', 'EV_func(func_, values)'),
])
fe_ctx = dict(cls='', members=[], methods=[], pre=[
    # then(reduce_stream((Stream&&)stream, unit{}, _impl::_map<...>{(Func&&)func}), _impl::_reduce{}): sender compositions -> stubs that
    # record WHAT is composed with WHAT (tokens); perfect forwarding casts dropped
    (r'\(Stream\s*&&\)\s*stream', 'stream'),
    (r'_impl::_map<remove_cvref_t<Func>>\{\s*\(Func\s*&&\)\s*(\w+)\s*\}', r'EV_make_map(\1)'),
    (r'_impl::_reduce\{\}', 'EV_make_reduce()'),
    (r'\bunit\{\}', 'VF_UNIT'),
    (r'\bthen\(', 'EV_then('),
    (r'\breduce_stream\(', 'EV_reduce_stream('),
])


def S(file, which, cls, **kw):
    return dict(file=file, sig=r'tag_invoke\(tag_t<%s>, type& s\)' % which, within=cls, ctx=stream_ctx, **kw)


SPEC = dict(
    properties=['C13'],
    ctx={},
    extracts={
        'map_call': dict(file=FE, sig=r'operator\(\)\(unit s, Ts&&\.\.\. values\)', within=r'struct _map \{', ctx=map_ctx),
        'reduce_call': dict(file=FE, sig=r'void operator\(\)\(unit\) const noexcept', within=r'struct _reduce \{', ctx=map_ctx),
        'for_each_default': dict(file=FE, sig=r'operator\(\)\(Stream&& stream, Func&& func\) const\s*->', ctx=fe_ctx, must_contain=[r'reduce_stream']),
        'ad2_next': S(AD, 'next', AD2), 'ad2_cleanup': S(AD, 'cleanup', AD2),
        'ad1_next': S(AD, 'next', AD1), 'ad1_cleanup': S(AD, 'cleanup', AD1),
        'na_next': S(NA, 'next', NAS), 'na_cleanup': S(NA, 'cleanup', NAS),
        'ca_next': S(CA, 'next', CAS), 'ca_cleanup': S(CA, 'cleanup', CAS),
    },
    closed_world=[
        # the adaptor streams have no protocol state: the members are read only by the two customisations (and aggregate-initialised by the CPOs)
        dict(file=AD, members=['innerStream_', 'nextAdapter_', 'cleanupAdapter_', 'adapter_'], within=r'namespace _adapt_stream \{',
             allow=[r'Stream innerStream_;', r'NextAdaptFunc nextAdapter_;', r'CleanupAdaptFunc cleanupAdapter_;', r'AdaptFunc adapter_;']),
        dict(file=NA, members=['innerStream_', 'adapter_'], within=r'namespace _next_adapt \{', allow=[r'Stream innerStream_;', r'AdaptFunc adapter_;']),
        dict(file=CA, members=['innerStream_', 'adapter_'], within=r'namespace _cleanup_adapt \{',
             allow=[r'UNIFEX_NO_UNIQUE_ADDRESS Stream innerStream_;', r'UNIFEX_NO_UNIQUE_ADDRESS AdaptFunc adapter_;',
                    r'(?s)tag_invoke\(tag_t<next>, type& s\) noexcept\(noexcept\(next\(s\.innerStream_\)\)\)',
                    r'(?s)tag_invoke\(tag_t<cleanup>, type& s\) noexcept\(\s*noexcept\(std::invoke\(s\.adapter_, cleanup\(s\.innerStream_\)\)\)\)']),   # unevaluated operands of the exception specifications
        dict(file=FE, members=['func_'], within=r'namespace _impl \{', allow=[r'Func func_;']),
    ],
    units=[
        dict(name='for_each_map_call', harness='h_map_call', enforce='fe_map_call'),
        dict(name='for_each_reduce_call', harness='h_reduce_call', enforce='fe_reduce_call'),
        dict(name='for_each_default', harness='h_for_each_default', enforce='fe_default'),
        dict(name='adapt2_next', harness='h_ad2_next', enforce='ad2_next'),
        dict(name='adapt2_cleanup', harness='h_ad2_cleanup', enforce='ad2_cleanup'),
        dict(name='adapt1_next', harness='h_ad1_next', enforce='ad1_next'),
        dict(name='adapt1_cleanup', harness='h_ad1_cleanup', enforce='ad1_cleanup'),
        dict(name='next_adapt_next', harness='h_na_next', enforce='na_next'),
        dict(name='next_adapt_cleanup', harness='h_na_cleanup', enforce='na_cleanup'),
        dict(name='cleanup_adapt_next', harness='h_ca_next', enforce='ca_next'),
        dict(name='cleanup_adapt_cleanup', harness='h_ca_cleanup', enforce='ca_cleanup'),
        dict(name='lemma_adapt_compose', harness='lemma_adapt_compose', mode='lemma'),
    ],
    assumptions=[
        'for_each = then(reduce_stream(stream, unit{}, _map{func}), _reduce{}) is a composition: the element order, exactly-once application and the cleanup ordering are those of reduce_stream (group reduce_stream) and of then(); what is checked here is WHAT is composed (the stream, the unit accumulator, the mapper wrapping the user function, the void continuation) and that the mapper invokes func once per element and passes the accumulator through',
        'a throwing func propagates out of _map::operator() into reduce_stream\'s try block (reducer-throws path of group reduce_stream); nothing to release in _map',
        'the adaptor functions (nextAdapter_ / cleanupAdapter_ / adapter_) are arbitrary sender -> sender functions: what the adapted sender does with the inner sender (how often it starts it) is the adaptor\'s business; checked here: one inner next() / cleanup() sender is created per outer call, handed to the right adaptor, and the result is returned unchanged',
        'cleanup-exactly-once / next-cleanup ordering of an adapted stream is therefore the consumer\'s (e.g. reduce_stream) obligation transported one-to-one to the inner stream: lemma_adapt_compose',
        'the tag_invoke customisation overload of for_each, the bind_back overloads and the CPO aggregate initialisations are not reached (no function bodies beyond forwarding)',
    ],
    drops=['template genericity; senders, streams and functions are integer tokens', 'reference parameter `type& s` -> pointer', 'perfect-forwarding casts',
           'exception specifications (the unevaluated noexcept(...) operands of cleanup_adapt_stream)', 'unit is an empty type: modelled as a token so that "passed through" is observable'],
)
