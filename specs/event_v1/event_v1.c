/* C16: v1 async_manual_reset_event (source/async_manual_reset_event_v1.cpp, include/unifex/v1/async_manual_reset_event.hpp).
 *
 * M1 on state_ :   NULL           not signalled, no waiter
 *                  SIG (= this)   signalled
 *                  op*            not signalled, Treiber stack of waiting operations (op->next_)
 * Bodies marked @BODY/@EXPR/@LOOP* are extracted from /repo on every run; everything else is specification. */
#include <stddef.h>
#include <stdint.h>
struct amre;
struct op_base { struct op_base* next_; void (*setValue_)(struct op_base*); struct amre* evt_; };
struct amre { void* state_; };

#define NB 6
enum { R_OBSERVE, R_SET, R_WAIT, R_RESET };
struct vf_ghost {
  int role;
  void* lin_old; void* lin_new; unsigned lin_count;   /* the call's own successful write to state_ */
  struct op_base* next_at_lin;                        /* OP.next_ at that write */
  unsigned resumed; struct op_base* resumed_item;     /* set_value() call-outs made by the call */
  void* state_at_resume;                              /* state_ when the (last) call-out was made */
  unsigned walk_calls; struct op_base* walk_start;    /* set(): the pop loop was entered, and with which node */
  _Bool w_dead; struct op_base snap;                  /* the operand node as its resumption left it (may be destroyed) */
  _Bool quiet;                                        /* bounded sequential cross-check only: no environment steps */
  unsigned res[NB]; unsigned order[NB]; unsigned nres;/* bounded: per-node resume counts and resume order */
};
static struct vf_ghost G;
static struct amre E;
static struct op_base OP, W1, W2;    /* OP: the operand wait operation; W1, W2: other waiters */
static struct op_base N[NB];         /* bounded unit: the stack */
static struct op_base* LOCAL_OP;     /* the pop loop's local `op` in the cut-point step */
static char vf_opaque_obj;
#define OPAQUE ((struct op_base*)&vf_opaque_obj)

static void vf_guar(void* p, void* o, void* n);
#define VF_G(p, o, n) vf_guar((void*)(p), (void*)(o), (void*)(n))
#include "vf.h"

/* ---------------- protocol predicates (from the property statement) ---------------- */
#define SIG ((void*)&E)
#define STEP_SET(o, n)             ((n) == SIG)                                                    /* set(): exchange to signalled, whatever was there */
#define STEP_RESET(o, n)           ((o) == SIG && (n) == NULL)                                     /* reset(): only signalled -> not signalled */
#define STEP_PUSH(o, n, op, nx)    ((o) != SIG && (n) == (void*)(op) && (nx) == (struct op_base*)(o)) /* a wait publishes itself on top of the previous stack */
/* rely of a not yet published wait: anything, except that its own node does not appear; other roles: anything */
#define RELY(o, n) (G.role == R_WAIT ? (n) != (void*)&OP : 1)

static void vf_guar(void* p, void* o, void* n) {
  VF_P(p == (void*)&E.state_, "atomic write to an unexpected location");
  VF_P(G.lin_count == 0, "an operation writes state_ at most once (one linearisation point)");
  VF_P(G.role != R_OBSERVE, "guarantee: ready() never writes");
  VF_P(G.role == R_SET ==> STEP_SET(o, n), "guarantee (set): the only write is the exchange to signalled");
  VF_P(G.role == R_RESET ==> STEP_RESET(o, n), "guarantee (reset): only signalled -> not signalled (never drops a waiter stack)");
  VF_P(G.role == R_WAIT ==> STEP_PUSH(o, n, &OP, OP.next_), "guarantee (wait): publishes the operation with next_ = previous top, never over the signalled state");
  G.lin_old = o; G.lin_new = n; G.lin_count++; G.next_at_lin = OP.next_;
}
static void vf_interfere(void) {
  if (G.quiet) return;
  void* o = E.state_;
  int k = VF_nondet_int();
  void* n = k == 0 ? NULL : k == 1 ? SIG : k == 2 ? (void*)&W1 : k == 3 ? (void*)&W2 : o;
  __CPROVER_assume(RELY(o, n));
  E.state_ = n;
}

/* op->set_value(): setValue_(op) starts the scheduler hop that completes the waiter; the waiter may be destroyed */
static void EV_resume(struct op_base* w) {
  VF_CANARY("a waiter can be resumed");
  G.resumed++; G.resumed_item = w; G.state_at_resume = E.state_;
#ifdef VF_BOUNDED
  for (unsigned i = 0; i < NB; i++) { if (w == &N[i]) { G.res[i]++; if (G.nres < NB) G.order[G.nres] = i; G.nres++; } }
#endif
  if (w != OPAQUE && VF_nondet_bool()) { struct op_base f; *w = f; G.w_dead = 1; }
  if (w != OPAQUE) G.snap = *w;
}
#define NODE_EQ(a, b) ((a).next_ == (b).next_ && (a).setValue_ == (b).setValue_ && (a).evt_ == (b).evt_)

/* ---------------- construction ---------------- */
static void AMRE_init(struct amre* self, _Bool startSignalled) { self->state_ = /*@EXPR ctor_state*/; }
static void AMRE_init_default(struct amre* self) { AMRE_init(self, /*@EXPR default_ctor_arg*/); }

/* ---------------- set(): entry/exit segment (pop loop replaced by its cut-point stub), loop step, bounded whole ---------------- */
static void set__loop0(struct op_base* op) {
  VF_P(G.walk_calls == 0, "the taken stack is walked once");
  VF_P(G.lin_count == 1 && G.lin_new == SIG, "waiters are resumed only after the event was set");
  G.walk_calls++; G.walk_start = op;
}
#define VF_LOOP0 set__loop0(op)

void AMRE_set(struct amre* self)
__CPROVER_requires(self == &E && G.role == R_SET && G.lin_count == 0 && G.walk_calls == 0 && G.resumed == 0)
__CPROVER_assigns(E.state_, G.lin_old, G.lin_new, G.lin_count, G.next_at_lin, G.walk_calls, G.walk_start)
__CPROVER_ensures(G.lin_count == 1 && G.lin_new == SIG) /* exchange to signalled */
__CPROVER_ensures(G.lin_old == SIG ==> G.walk_calls == 0) /* it was already signalled: nothing else */
__CPROVER_ensures(G.lin_old != SIG ==> (G.walk_calls == 1 && (void*)G.walk_start == G.lin_old)) /* otherwise the WHOLE stack was taken by that one exchange and the walk starts at the head it took */
__CPROVER_ensures(G.resumed == 0)
/*@BODY set*/

/* one iteration of `while (op != nullptr) { std::exchange(op, op->next_)->set_value(); }` with op == &W1, a member of the taken stack */
#define op (*vf_opp)
int set__loop0_body(struct op_base** vf_opp)
__CPROVER_requires(vf_opp == &LOCAL_OP && LOCAL_OP == &W1 && (/*@LOOPCOND set.loop0.cond*/) && G.resumed == 0 && !G.w_dead)
__CPROVER_requires(G.snap.next_ == W1.next_)   /* ghost copy of the successor before the step */
__CPROVER_assigns(LOCAL_OP, W1, G.resumed, G.resumed_item, G.state_at_resume, G.w_dead, G.snap)
__CPROVER_ensures(__CPROVER_return_value == VF_X_CONTINUE)
__CPROVER_ensures(G.resumed == 1 && G.resumed_item == &W1) /* resumes exactly the current node, once */
__CPROVER_ensures(LOCAL_OP == __CPROVER_old(W1.next_)) /* and advances to its successor as read BEFORE the resume (the node may be gone afterwards) */
__CPROVER_ensures(NODE_EQ(W1, G.snap)) /* the resumed node is not touched afterwards */
/*@LOOPBODY set.loop0.body*/
#undef op

#ifdef VF_BOUNDED
void AMRE_set_full(struct amre* self)
/*@BODY set_full*/
#endif

/* ---------------- wait ---------------- */
void AMRE_start_or_wait(struct op_base* op, struct amre* evt)
__CPROVER_requires(op == &OP && evt == &E && G.role == R_WAIT && G.lin_count == 0 && G.resumed == 0 && !G.w_dead && E.state_ != (void*)&OP)
__CPROVER_assigns(E.state_, OP, G.lin_old, G.lin_new, G.lin_count, G.next_at_lin, G.resumed, G.resumed_item, G.state_at_resume, G.w_dead, G.snap)
__CPROVER_ensures(G.lin_count + G.resumed == 1) /* exactly one of: published on the stack / completed inline, once */
__CPROVER_ensures(G.resumed == 1 ==> (G.resumed_item == &OP && G.state_at_resume == SIG && NODE_EQ(OP, G.snap))) /* inline only because the signalled state was observed; not touched afterwards */
__CPROVER_ensures(G.lin_count == 1 ==> (G.lin_old != SIG && G.lin_new == (void*)&OP && G.next_at_lin == (struct op_base*)G.lin_old)) /* its CAS publishes the op with next_ = previous top, never over signalled */
/*@BODY start_or_wait*/

void OPB_start(struct op_base* self)
__CPROVER_requires(self == &OP && OP.evt_ == &E && G.role == R_WAIT && G.lin_count == 0 && G.resumed == 0 && !G.w_dead && E.state_ != (void*)&OP)
__CPROVER_assigns(E.state_, OP, G.lin_old, G.lin_new, G.lin_count, G.next_at_lin, G.resumed, G.resumed_item, G.state_at_resume, G.w_dead, G.snap)
__CPROVER_ensures(G.lin_count + G.resumed == 1)
__CPROVER_ensures(G.resumed == 1 ==> (G.resumed_item == &OP && G.state_at_resume == SIG))
__CPROVER_ensures(G.lin_count == 1 ==> (G.lin_old != SIG && G.lin_new == (void*)&OP && G.next_at_lin == (struct op_base*)G.lin_old))
/*@BODY op_start*/

_Bool AMRE_ready(struct amre* self)
__CPROVER_requires(self == &E && G.role == R_OBSERVE && G.lin_count == 0)
__CPROVER_assigns(E.state_)
__CPROVER_ensures(G.lin_count == 0 && __CPROVER_return_value == (E.state_ == SIG)) /* ready <=> signalled (at the load) */
/*@BODY ready*/

void AMRE_reset(struct amre* self)
__CPROVER_requires(self == &E && G.role == R_RESET && G.lin_count == 0)
__CPROVER_assigns(E.state_, G.lin_old, G.lin_new, G.lin_count, G.next_at_lin)
__CPROVER_ensures(G.lin_count == 1 ==> (G.lin_old == SIG && G.lin_new == NULL)) /* only CASes signalled -> NULL */
__CPROVER_ensures(G.lin_count == 0 ==> E.state_ != SIG) /* otherwise a no-op: it was not signalled (waiters, if any, stay) */
/*@BODY reset*/

/* ---------------- harnesses ---------------- */
static void h_init(int role) {
  G.role = role; G.lin_old = NULL; G.lin_new = NULL; G.lin_count = 0; G.next_at_lin = NULL; G.resumed = 0; G.resumed_item = NULL; G.state_at_resume = NULL;
  G.walk_calls = 0; G.walk_start = NULL; G.w_dead = 0; G.quiet = 0; G.nres = 0;
  int k = VF_nondet_int();
  E.state_ = k == 0 ? NULL : k == 1 ? SIG : k == 2 ? (void*)&W1 : (void*)&W2;
  OP.evt_ = &E;   /* OP.next_ is intentionally left indeterminate by the constructor */
  W1.next_ = VF_nondet_bool() ? &W2 : (VF_nondet_bool() ? OPAQUE : NULL); W1.evt_ = &E;
  W2.next_ = VF_nondet_bool() ? OPAQUE : NULL; W2.evt_ = &E;
  G.snap = W1;
}
void h_set(void) { h_init(R_SET); AMRE_set(&E); VF_CANARY("after set"); if (G.walk_calls) { VF_CANARY("set can take a stack"); } else { VF_CANARY("set can find the event signalled"); } }
void h_set_loop_body(void) { h_init(R_SET); LOCAL_OP = &W1; set__loop0_body(&LOCAL_OP); VF_CANARY("after the pop step"); if (G.w_dead) { VF_CANARY("the resumed waiter can be destroyed"); } }
void h_start_or_wait(void) { h_init(R_WAIT); AMRE_start_or_wait(&OP, &E); VF_CANARY("after start_or_wait"); if (G.resumed) { VF_CANARY("wait can complete inline"); } else { VF_CANARY("wait can publish itself"); } }
void h_op_start(void) { h_init(R_WAIT); OPB_start(&OP); VF_CANARY("after _op_base::start"); }
void h_ready(void) { h_init(R_OBSERVE); AMRE_ready(&E); VF_CANARY("after ready"); }
void h_reset(void) { h_init(R_RESET); AMRE_reset(&E); VF_CANARY("after reset"); if (G.lin_count) { VF_CANARY("reset can un-signal"); } else { VF_CANARY("reset can be a no-op"); } }
#ifdef VF_BOUNDED
/* M3 bounded: set() on a stack of <= NB waiters, sequentially */
void h_set_bounded(void) {
  h_init(R_SET); G.quiet = 1;
  unsigned len = VF_nondet_u32();
  __CPROVER_assume(len <= NB);
  for (unsigned i = 0; i < NB; i++) { N[i].next_ = (i + 1 < len) ? &N[i + 1] : NULL; N[i].evt_ = &E; G.res[i] = 0; G.order[i] = NB; }
  _Bool was_set = VF_nondet_bool();
  E.state_ = was_set ? SIG : (len ? (void*)&N[0] : NULL);
  AMRE_set_full(&E);
  VF_P(E.state_ == SIG, "bounded: the event is signalled after set()");
  for (unsigned i = 0; i < NB; i++) {
    VF_P(G.res[i] == ((!was_set && i < len) ? 1u : 0u), "bounded: every waiter of the taken stack is resumed exactly once, nobody else is");
    if (!was_set && i < len) { VF_P(G.order[i] == i, "bounded: waiters are resumed from the top of the stack down"); }
  }
  VF_P(G.nres == (was_set ? 0u : len), "bounded: number of resumptions = size of the taken stack");
  VF_CANARY("after set (bounded)");
  if (!was_set && len == NB) { VF_CANARY("longest stack reachable"); }
}
#endif

/* ---------------- M4 lemmas over the contracts ---------------- */
static void* lemma_pick(void) {
  int k = VF_nondet_int();
  return k == 0 ? NULL : k == 1 ? SIG : k == 2 ? (void*)&OP : k == 3 ? (void*)&W1 : (void*)&W2;
}
void lemma_event_init(void) {
  AMRE_init_default(&E);
  VF_P(E.state_ == NULL, "lemma: a default-constructed event is not signalled and has no waiter");
  _Bool s = VF_nondet_bool();
  AMRE_init(&E, s);
  VF_P(s ? E.state_ == SIG : E.state_ == NULL, "lemma: async_manual_reset_event(startSignalled) starts signalled iff asked to");
  VF_P(SIG != NULL && SIG != (void*)&OP && SIG != (void*)&W1, "lemma: the signalled sentinel (the event's own address) is neither NULL nor a waiter");
  VF_CANARY("lemma_event_init reachable");
}
/* one step of another party (a wait with node W1, a set, a reset), summarised by its contract, is allowed by my rely */
void lemma_event_rely(void) {
  void* o = lemma_pick(); void* n = lemma_pick();
  W1.next_ = VF_nondet_bool() ? (struct op_base*)o : NULL;
  __CPROVER_assume(STEP_SET(o, n) || STEP_RESET(o, n) || STEP_PUSH(o, n, &W1, W1.next_));
  G.role = VF_nondet_int();
  VF_CANARY("lemma premises satisfiable");
  VF_P(RELY(o, n), "lemma: no step of another party publishes my unpublished wait operation");
  VF_P(n == SIG || n == NULL || n == (void*)&W1, "lemma: state_ is always NULL, the signalled sentinel, or a waiter");
}
/* OP has been published by its push (o0 -> &OP); whatever happens next it is never stranded */
void lemma_event_never_stranded(void) {
  void* o0 = lemma_pick();
  __CPROVER_assume(o0 != (void*)&OP);
  /* (a) the wait's own linearisation, by its contract: saw signalled XOR pushed */
  _Bool saw_signalled = VF_nondet_bool();
  OP.next_ = (struct op_base*)o0;
  __CPROVER_assume(saw_signalled ? o0 == SIG : STEP_PUSH(o0, (void*)&OP, &OP, OP.next_));
  VF_P((saw_signalled ? o0 == SIG : o0 != SIG), "lemma: a wait completes inline iff the word it acted on was the signalled state; otherwise it is on the stack (exactly one of the two)");
  if (!saw_signalled) {
    /* (b) a later step by anybody while OP is reachable from state_ (directly or behind W1) */
#define REACH_OP(h) ((h) == (void*)&OP || ((h) == (void*)&W1 && W1.next_ == &OP) || ((h) == (void*)&W2 && (W2.next_ == &OP || (W2.next_ == &W1 && W1.next_ == &OP))))
    void* o1 = VF_nondet_bool() ? (void*)&OP : (void*)&W1;
    if (o1 == (void*)&W1) W1.next_ = &OP;
    void* n1 = lemma_pick();
    W2.next_ = VF_nondet_bool() ? (struct op_base*)o1 : NULL;
    _Bool set = STEP_SET(o1, n1), reset = STEP_RESET(o1, n1), push = STEP_PUSH(o1, n1, &W2, W2.next_);
    __CPROVER_assume(set || reset || push);
    VF_CANARY("lemma premises satisfiable");
    VF_P(!reset, "lemma: reset() cannot fire while a waiter is on the stack (it only CASes signalled -> NULL): it affects later waits only");
    VF_P(push ==> REACH_OP(n1), "lemma: a later wait keeps every earlier waiter on the stack");
    VF_P(set ==> (n1 == SIG && REACH_OP(o1)), "lemma: the next set() takes a stack (= the old word, by set's contract) that contains the waiter, and resumes every node of it");
    VF_P(set || push, "lemma: the only steps enabled on a non-empty stack are push and set");
  }
}
