CPP = 'source/async_manual_reset_event_v1.cpp'
H = 'include/unifex/v1/async_manual_reset_event.hpp'
EVT = r'struct async_manual_reset_event \{'
OPB = r'struct _op_base \{'

ctx = dict(
    cls='AMRE',
    members=['state_'],
    atomic=['state_'],
    typemap=[(r'(?<!struct )\b_op_base\b', 'struct op_base')],
    pre=[
        # set(): `std::exchange(op, op->next_)->set_value()` keeps the real exchange; the call-out through setValue_ is the event
        (r'std::exchange\(([^()]*)\)->set_value\(\)', r'EV_resume(std::exchange(\1))'),
        (r'\b(\w+)->set_value\(\)', r'EV_resume(\1)'),
        # start_or_wait(_op_base& op, async_manual_reset_event& evt): reference parameters -> pointers
        (r'static_cast<void\*>\(&op\)', '((void*)(op))'),
        (r'&evt\b', 'evt'), (r'\bevt\.state_', 'evt->state_'),
        (r'\bop\.set_value\(\)', 'EV_resume(op)'), (r'\bop\.next_\b', 'op->next_'),
    ],
)
op_ctx = dict(cls='OPB', members=['next_', 'setValue_', 'evt_'],
              pre=[(r'async_manual_reset_event::start_or_wait\(\*this, \*evt_\)', 'AMRE_start_or_wait(this, evt_)')])

WAIT_LOOP = ('__CPROVER_assigns(top, OP.next_, E.state_, G.lin_old, G.lin_new, G.lin_count, G.next_at_lin)\n'
             '__CPROVER_loop_invariant(G.lin_count == 0 && G.resumed == 0 && top == E.state_)')

SPEC = dict(
    properties=['C16'],
    ctx=ctx,
    extracts={
        'default_ctor_arg': dict(file=H, kind='expr', sig=r'async_manual_reset_event\(\) noexcept : async_manual_reset_event\(([^)]*)\) \{\}', within=EVT),
        'ctor_state': dict(file=H, kind='expr', sig=r'explicit async_manual_reset_event\(bool startSignalled\) noexcept\s*: state_\((.*?)\) \{\}', within=EVT),
        'set': dict(file=CPP, sig=r'void async_manual_reset_event::set\(\) noexcept', outline={0: 'VF_LOOP0;'}),
        'set_full': dict(file=CPP, sig=r'void async_manual_reset_event::set\(\) noexcept'),      # same span, loop kept: bounded unit
        'start_or_wait': dict(file=CPP, sig=r'void async_manual_reset_event::start_or_wait\(\s*_op_base& op, async_manual_reset_event& evt\) noexcept',
                              loops={0: WAIT_LOOP}),
        'ready': dict(file=H, sig=r'bool ready\(\) const noexcept', within=EVT),
        'reset': dict(file=H, sig=r'void reset\(\) noexcept', within=EVT),
        'op_start': dict(file=H, sig=r'void start\(\) noexcept', within=OPB, ctx=op_ctx),
    },
    closed_world=[
        dict(file=CPP, members=['state_']),
        dict(file=H, members=['state_'], within=EVT,
             allow=[r'explicit async_manual_reset_event\(bool startSignalled\) noexcept\s*: state_\(', r'std::atomic<void\*> state_\{\};']),
    ],
    units=[
        dict(name='set', harness='h_set', enforce='AMRE_set'),
        dict(name='set_loop_body', harness='h_set_loop_body', enforce='set__loop0_body'),
        dict(name='set_bounded', harness='h_set_bounded', mode='bounded', unwind=8, defines=['VF_BOUNDED']),
        dict(name='start_or_wait', harness='h_start_or_wait', enforce='AMRE_start_or_wait', expect_loop_obligations=True),
        dict(name='op_start', harness='h_op_start', enforce='OPB_start', replace=['AMRE_start_or_wait']),
        dict(name='ready', harness='h_ready', enforce='AMRE_ready'),
        dict(name='reset', harness='h_reset', enforce='AMRE_reset'),
        dict(name='lemma_event_init', harness='lemma_event_init', mode='lemma'),
        dict(name='lemma_event_rely', harness='lemma_event_rely', mode='lemma'),
        dict(name='lemma_event_never_stranded', harness='lemma_event_never_stranded', mode='lemma'),
    ],
    assumptions=[
        'a wait operation is started once; its node is not on the stack when it is started and is not touched by anybody else while it is suspended on the stack',
        'the nodes of the stack taken by set() are owned by that set() call until it resumes them (nobody else reaches them: they are no longer reachable from state_)',
        'the global "every node of the taken stack is resumed exactly once, newest first" is a bounded check (stacks of <= 6 waiters); unbounded are: the whole stack is '
        'taken by one exchange and the walk starts at its old top; one step of the walk resumes exactly the current node and advances to the successor read BEFORE the resume '
        '(the successor of a stack member is a stack member)',
        'set_value_impl (unifex::start on the scheduler hop: "completion on the waiter\'s scheduler") is template code: event stub EV_resume, which may destroy the operation',
        'atomics sequentially consistent',
    ],
    drops=['memory orders', 'noexcept', 'reference parameters of start_or_wait -> pointers', '_op_base::set_value() (setValue_(this)) -> event stub EV_resume',
           'async_wait()/_sender/connect (template glue) not reached'],
)
