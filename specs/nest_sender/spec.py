import re

H = 'include/unifex/v2/async_scope.hpp'
NS = r'struct _nest_sender<Sender>::type final \{'
SR = r'struct scope_reference final \{'
ctx = dict(cls='nest_sender', members=['scope_', 'sender_'],
           pre=[(r'static_assert\([^;]*\);', ''),
                (r'scope_ = std::move\(rhs\)\.scope_;', 'SR_ASSIGN_MOVE(&scope_, &rhs->scope_);'),
                (r'std::move\((\w+)\)\.scope_', r'(&\1->scope_)'),
                (r'(?<![\w>])t\.scope_', '(&t->scope_)'),
                (r'std::move\(scope\)', 'scope'),
                (r'UNIFEX_ASSERT\(scope_\)', 'VF_ASSERT(SR_BOOL(&scope_))'),
                (r'if \(scope_\)', 'if (SR_BOOL(&scope_))'),
                (r'if \(rhs\.scope_\)', 'if (SR_BOOL(&rhs->scope_))'),
                (r'sender_\.construct\(static_cast<Sender2&&>\(sender\)\)', 'EV_sender_construct(this, NULL)'),
                (r'sender_\.construct\(t\.sender_\.get\(\)\)', 'EV_sender_construct(this, t)'),
                (r'sender_\.construct\(std::move\(t\)\.sender_\.get\(\)\)', 'EV_sender_construct(this, t)'),
                (r'sender_\.construct\(std::move\(rhs\)\.sender_\.get\(\)\)', 'EV_sender_construct(this, rhs)'),
                (r't\.sender_\.destruct\(\)', 'EV_sender_destruct(t)'),
                (r'rhs\.sender_\.destruct\(\)', 'EV_sender_destruct(rhs)'),
                (r'(?<![\w.>])sender_\.destruct\(\)', 'EV_sender_destruct(this)'),
                (r'return \*this;', 'return;')])

H_DBG = 'include/unifex/v2/debug_async_scope.hpp'
NOP = r'struct _nest_op<Sender, Receiver>::type final \{'
DBG = r'struct debug_async_scope final \{'


# ---- general rules missing from the global table (written as spec-level `pre` callables / regexes):
# (1) scope_guard g = [..]() noexcept { B };  ->  armed flag + VF_GUARD_g() (run once if armed) inserted before every `return`
#     of the DECLARING BLOCK and at its closing brace (the guard's destructor made explicit, as rewrite_raii does for locals);
# (2) `return T{args};` of a prvalue constructed in the caller's return slot  ->  `{ T_ctor(ret, args); return; }`;
# (3) `auto x = E.scope_;` / `auto x = std::move(E).scope_;`  ->  declaration + explicit copy / move constructor call (the
#     destructor then comes from the generic `raii` rule).
def _block_end(t):
    d = 0
    for i, ch in enumerate(t):
        if ch == '{':
            d += 1
        elif ch == '}':
            if d == 0:
                return i
            d -= 1
    raise ValueError('scope_guard outside any block')


def _guard_block(m):
    name = m.group(1)
    body = re.sub(r'\s+', ' ', m.group(2)).strip()
    rest = m.group(3)
    e = _block_end(rest)
    run = 'VF_GUARD_%s();' % name
    blk = re.sub(r'\breturn\b', run + ' return', rest[:e])
    return ('_Bool %s_armed = 1;\n#define VF_GUARD_%s() do { if (%s_armed) { %s_armed = 0; %s } } while (0)\n' % (name, name, name, name, body)
            + blk + ' ' + run + ' ' + rest[e:])


SENDER_TOKENS = [
    (r'std::move\((\w+)\)\.sender_\.get\(\)', r'\1'),          # the wrapped sender is named by the nest sender that stores it
    (r'(?<![\w>])(\w+)\.sender_\.get\(\)', r'\1'),
    (r'(?<![\w>])(\w+)\.sender_\.destruct\(\)', r'EV_sender_destruct(\1)'),
]
connect_pre = [
    (r'auto (\w+) = std::move\((\w+)\)\.scope_;', r'scope_reference \1; sr_move(&\1, &\2->scope_);'),
    (r'auto (\w+) = (\w+)\.scope_;', r'scope_reference \1; sr_copy(&\1, &\2->scope_);'),
    (r'if \((!?)(\w+)\.scope_\) \{', r'if (\1SR_BOOL(&\2->scope_)) {'),
    (r'if \((!?)(\w+)\) \{', r'if (\1SR_BOOL(&\2)) {'),
    # the operation is constructed in the caller's return slot (guaranteed elision); an exception of the constructor leaves the
    # function through the same exits as the return (the same locals are destroyed on both edges)
    (r'(?s)return nest_op<(?:const Sender&|Sender), remove_cvref_t<Receiver>>\{\s*([^;{}]*?),\s*static_cast<Receiver&&>\((\w+)\),\s*std::move\((\w+)\)\};',
     r'{ nest_op_ctor(ret, \1, \2, &\3); return; }'),
    (r'(?s)return nest_op<(?:const Sender&|Sender), remove_cvref_t<Receiver>>\{\s*static_cast<Receiver&&>\((\w+)\)\};',
     r'{ nest_op_ctor_empty(ret, \1); return; }'),
] + SENDER_TOKENS + [
    (r'(?s)scope_guard (\w+) = \[&\w+\]\(\) noexcept \{\s*([^{};]*;)\s*\};(.*)$', _guard_block),
]
connect_ctx = dict(pre=connect_pre, raii={'scope_reference': ('SR_CTOR', 'SR_DTOR')})
nop_ctx = dict(cls='nest_op', members=['receiver_', 'op_'],
               pre=[(r'(?s)activate_union_member_with\(op_, \[&\]\(\) \{\s*return unifex::connect\(\s*static_cast<Sender2&&>\((\w+)\), nest_receiver<Sender, Receiver>\{(\w+)\}\);\s*\}\);',
                     r'if (EV_connect_inner(\2, \1)) return;'),
                    (r'static_cast<Receiver2&&>\((\w+)\)', r'\1'),
                    (r'std::move\((\w+)\)', r'SR_RVALUE(\1)')])
sr_ctx = dict(cls='scope_reference', members=['scope_'], pre=[(r'(?<![\w>.])scope_or_nullptr\(', 'scope_reference_scope_or_nullptr(')])
dbg_ctx = dict(cls='debug_scope', members=['ops_'],
               obj_methods={'join': 'EV_v2_join', 'joined': 'EV_v2_joined', 'join_started': 'EV_v2_join_started', 'use_count': 'EV_v2_use_count'},
               pre=[(r'(?s)scope_\.nest\(\s*debug_scope_sender_t<Sender>\{static_cast<Sender&&>\((\w+)\), &ops_\}\)', r'EV_v2_nest(&scope_, EV_debug_wrap(\1, &ops_))'),
                    (r'(?s)scope_\.nest\(\s*static_cast<Sender&&>\((\w+)\)\)', r'EV_v2_nest(&scope_, \1)')])
SPEC = dict(
    properties=['C08', 'C09', 'C02'],
    ctx=ctx,
    extracts={
        'ctor': dict(file=H, sig=r'explicit type\(Sender2&& sender, scope_reference&& scope\) noexcept\(\s*std::is_nothrow_constructible_v<Sender, Sender2>\)', within=NS),
        'ctor_init': dict(file=H, kind='expr', sig=r'std::is_nothrow_constructible_v<Sender, Sender2>\)\s*: scope_\((std::move\(scope\))\)', within=NS),
        'copy_ctor': dict(file=H, sig=r'type\(const type& t\) noexcept\(std::is_nothrow_copy_constructible_v<Sender>\)', within=NS),
        'copy_init': dict(file=H, kind='expr', sig=r'std::is_nothrow_copy_constructible_v<Sender>\)\s*: scope_\(([^)]*)\)', within=NS),
        'move_ctor': dict(file=H, sig=r'type\(type&& t\) noexcept\(std::is_nothrow_move_constructible_v<Sender>\)', within=NS),
        'move_init': dict(file=H, kind='expr', sig=r'std::is_nothrow_move_constructible_v<Sender>\)\s*: scope_\((std::move\(t\)\.scope_)\)', within=NS),
        'dtor': dict(file=H, sig=r'~type\(\)', within=NS),
        'assign': dict(file=H, sig=r'type& operator=\(type rhs\) noexcept', within=NS),
        'sr_swap': dict(file=H, sig=r'scope_reference& operator=\(scope_reference rhs\) noexcept', within=SR,
                        ctx=dict(cls='scope_reference', members=['scope_'], pre=[(r'rhs\.scope_', 'rhs->scope_'), (r'return \*this;', 'return;')])),
        'sr_move_init': dict(file=H, kind='expr', sig=r'scope_reference\(scope_reference&& other\) noexcept\s*: scope_\((.*?)\) \{\}', within=SR),
        # ---- scope_reference special members (count conservation)
        'sr_default_init': dict(file=H, kind='expr', sig=r'async_scope\* scope_\s*(=?[^;]*);', within=SR),
        'sr_explicit_init': dict(file=H, kind='expr', sig=r'explicit scope_reference\(async_scope\* scope\) noexcept\s*: scope_\((.*?)\) \{\}', within=SR, ctx=sr_ctx),
        # the copy constructor's whole mem-initialiser: delegation to the explicit constructor (as written) or a plain member initialiser
        'sr_copy_deleg': dict(file=H, kind='expr', sig=r'scope_reference\(const scope_reference& other\) noexcept\s*: (.*?) \{\}', within=SR,
                              ctx=dict(pre=[(r'^scope_reference\((.*)\)$', r'sr_explicit(dst, \1)'), (r'^scope_\((.*)\)$', r'dst->scope_ = (\1)')])),
        'sr_scope_or_nullptr': dict(file=H, sig=r'scope_reference::scope_or_nullptr\(async_scope\* scope\) noexcept', ctx=sr_ctx),
        'sr_dtor': dict(file=H, sig=r'inline scope_reference::~scope_reference\(\)', ctx=sr_ctx),
        # ---- the nest operation's constructors
        'nop_ctor': dict(file=H, sig=r'explicit type\(Sender2&& s, Receiver2&& r, scope_reference&& scope\) noexcept\(\s*std::is_nothrow_constructible_v<Receiver, Receiver2>&&\s*is_nothrow_connectable_v<Sender2, nest_receiver<Sender, Receiver>>\)', within=NOP, ctx=nop_ctx),
        'nop_ctor_scope_init': dict(file=H, kind='expr', sig=r'is_nothrow_connectable_v<Sender2, nest_receiver<Sender, Receiver>>\)\s*: scope_\(([^;{}]*?)\)\s*, receiver_\(', within=NOP, ctx=nop_ctx),
        'nop_ctor_rcv_init': dict(file=H, kind='expr', sig=r'is_nothrow_connectable_v<Sender2, nest_receiver<Sender, Receiver>>\)\s*: scope_\([^;{}]*?\)\s*, receiver_\(([^;{}]*?)\) \{', within=NOP, ctx=nop_ctx),
        'nop_ctor_rv': dict(file=H, sig=r'explicit type\(Receiver&& r\) noexcept\(\s*std::is_nothrow_move_constructible_v<Receiver>\)', within=NOP, ctx=nop_ctx),
        'nop_ctor_rv_init': dict(file=H, kind='expr', sig=r'std::is_nothrow_move_constructible_v<Receiver>\)\s*: receiver_\(std::move\((\w+)\)\) \{\}', within=NOP),
        'nop_ctor_lv': dict(file=H, sig=r'explicit type\(const Receiver& r\) noexcept\(\s*std::is_nothrow_copy_constructible_v<Receiver>\)', within=NOP, ctx=nop_ctx),
        'nop_ctor_lv_init': dict(file=H, kind='expr', sig=r'std::is_nothrow_copy_constructible_v<Receiver>\)\s*: receiver_\((\w+)\) \{\}', within=NOP),
        # ---- connect on a nest sender
        'connect_move': dict(file=H, sig=r'friend auto tag_invoke\(tag_t<connect>, type&& s, Receiver&& r\) noexcept\(\s*nothrow_connect<type, Receiver>\)\s*-> nest_op<Sender, remove_cvref_t<Receiver>>', within=NS, ctx=connect_ctx),
        'connect_copy': dict(file=H, sig=r'(?s)friend auto tag_invoke\(\s*tag_t<connect>,\s*const type& s,\s*Receiver&& r\) noexcept\(nothrow_connect<const type&, Receiver>\)\s*-> nest_op<const Sender&, remove_cvref_t<Receiver>>', within=NS, ctx=connect_ctx),
        # ---- v2 debug_async_scope: forwards to its v2 async_scope
        'dbg_nest': dict(file=H_DBG, sig=r'\[\[nodiscard\]\] auto nest\(Sender&& sender\) noexcept\(\s*sender_nothrow_constructible<Sender>&&\s*nest_nothrow_invocable<Sender>\)', within=DBG, ctx=dbg_ctx),
        'dbg_join': dict(file=H_DBG, sig=r'\[\[nodiscard\]\] auto join\(\) noexcept', within=DBG, ctx=dbg_ctx),
        'dbg_joined': dict(file=H_DBG, sig=r'bool joined\(\) const noexcept', within=DBG, ctx=dbg_ctx),
        'dbg_join_started': dict(file=H_DBG, sig=r'bool join_started\(\) const noexcept', within=DBG, ctx=dbg_ctx),
        'dbg_use_count': dict(file=H_DBG, sig=r'std::size_t use_count\(\) const noexcept', within=DBG, ctx=dbg_ctx),
    },
    units=[
        dict(name='ctor', harness='h_ctor', enforce='nest_sender_ctor'),
        dict(name='copy_ctor', harness='h_copy_ctor', enforce='nest_sender_copy_ctor'),
        dict(name='move_ctor', harness='h_move_ctor', enforce='nest_sender_move_ctor'),
        dict(name='dtor', harness='h_dtor', enforce='nest_sender_dtor'),
        dict(name='assign', harness='h_assign', enforce='nest_sender_assign'),
        dict(name='scope_reference_copy_ctor', harness='h_sr_copy_ctor', enforce='scope_reference_copy_ctor', props=['C08', 'C09']),
        dict(name='scope_reference_move_ctor', harness='h_sr_move_ctor', enforce='scope_reference_move_ctor', props=['C08', 'C09']),
        dict(name='scope_reference_dtor', harness='h_sr_dtor', enforce='scope_reference_dtor', props=['C08', 'C09']),
        dict(name='scope_reference_assign_move', harness='h_sr_assign_move', enforce='scope_reference_assign_move', props=['C08', 'C09']),
        dict(name='scope_reference_assign_copy', harness='h_sr_assign_copy', enforce='scope_reference_assign_copy', props=['C08', 'C09']),
        dict(name='nest_op_ctor', harness='h_nop_ctor', enforce='nest_op_ctor'),
        dict(name='nest_op_ctor_empty', harness='h_nop_ctor_empty', enforce='nest_op_ctor_empty'),
        dict(name='connect_move', harness='h_connect_move', enforce='nest_sender_connect_move'),
        dict(name='connect_copy', harness='h_connect_copy', enforce='nest_sender_connect_copy'),
        dict(name='debug_scope_nest', harness='h_dbg_nest', enforce='debug_scope_nest', props=['C08']),
        dict(name='debug_scope_join', harness='h_dbg_join', enforce='debug_scope_join', props=['C08']),
        dict(name='debug_scope_joined', harness='h_dbg_joined', enforce='debug_scope_joined', props=['C08']),
        dict(name='debug_scope_join_started', harness='h_dbg_join_started', enforce='debug_scope_join_started', props=['C08']),
        dict(name='debug_scope_use_count', harness='h_dbg_use_count', enforce='debug_scope_use_count', props=['C08']),
        dict(name='lemma_nest_sender', harness='lemma_nest_sender', mode='lemma'),
        dict(name='lemma_conservation', harness='lemma_conservation', mode='lemma'),
    ],
    assumptions=[
        'try_record_start / record_completion are contract stubs on the scope word (opState_ = 2*count + open) under the rely of group scope_v2 (open bit only 1->0, closed => count non-increasing, count >= units held by this party, count < 2^40); their real bodies are proved in scope_v2',
        'by-value parameter semantics of operator=(type rhs) / scope_reference::operator=(scope_reference rhs) (copy / move construction of the parameter, destruction at the end of the call) are written out in the template, not extracted',
        'member destruction after a destructor body (~scope_reference for scope_), destruction of the already constructed members (receiver_, scope_: reverse order) when an exception leaves the _nest_op constructor, and construction of connect\'s result in the caller\'s return slot (guaranteed elision) are written out in the template (C++ semantics)',
        'an exception leaves connect through the same exits as the return statement (the same locals are destroyed on both edges); exception specifications are dropped: G.may_throw = the receiver\'s constructor / connect of the wrapped sender may throw',
        'activate_union_member_with has the strong exception guarantee (a throwing connect leaves op_ un-activated; its scope_guard)',
        'a destroyed scope_reference object is modelled as empty (double destruction of one object is not expressible: placement of destructor calls is C++ semantics)',
        '_nest_receiver::complete is in group scope_v2, _nest_op start / destructor and v2 nest() in group scope_v1; nest.hpp (_nest_fn) only forwards to tag_invoke / scope.nest and is not extracted',
        'v2 debug_async_scope: only the composition is stated (nest = scope_.nest(debug_scope_sender{sender, &ops_}); join / joined / join_started / use_count forward to scope_); detail::debug_scope_sender / debug_op_list (a diagnostic operation list) are not reached',
    ],
    drops=['manual_lifetime<Sender> construct / destruct -> event stubs with an alive ghost per object', 'scope_reference converted to bool -> SR_BOOL', 'static_assert dropped', 'exception specifications',
           'connect: `auto scope = [std::move](s).scope_` -> declaration + sr_move / sr_copy (extracted constructor text) + destructor by the raii rule; scope_guard destroySender -> armed flag + VF_GUARD_destroySender() before every return of its block and at the block end; `return nest_op<..>{args}` -> nest_op_ctor[_empty](ret, args); s.sender_.get() -> the nest sender that stores the wrapped sender',
           '_nest_op constructor: activate_union_member_with(op_, connect lambda) -> EV_connect_inner(this, s) (may throw); receiver_(..) mem-initialiser -> EV_receiver_construct (may throw); std::move(x) in a scope_reference mem-initialiser -> SR_RVALUE (selects move vs copy constructor)',
           'debug_async_scope: debug_scope_sender_t<Sender>{sender, &ops_} -> EV_debug_wrap; scope_.nest / join / joined / join_started / use_count -> EV_v2_*',
           'template genericity (Sender, Receiver are tokens), receiver payloads'],
)
