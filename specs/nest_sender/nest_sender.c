/* C08 / C09 / C02: special members of v2 async_scope's nest sender (include/unifex/v2/async_scope.hpp,
 * _nest_sender<Sender>::type; future<> of spawn_future is built on it).  Invariant of every nest sender object:
 * the wrapped sender is alive  <=>  the object holds a scope reference.  Each operation keeps it, destroys a wrapped
 * sender exactly once, and never loses or duplicates a scope reference. */
#include <stddef.h>
struct async_scope { int dummy; };
struct scope_reference { struct async_scope* scope_; };
struct nest_sender { struct scope_reference scope_; int sender_; };
struct vf_ghost {
  _Bool alive_a, alive_b;        /* wrapped sender of object A / B is constructed */
  unsigned constructs, destructs;
  unsigned acquired, released;   /* scope references created by copy / released by ~scope_reference */
  _Bool copy_fails;              /* the scope is closed: copying a reference yields an empty one */
  _Bool bad;                     /* construct of a live sender / destruct of a dead one */
};
static struct vf_ghost G;
#include "vf.h"
static void vf_interfere(void) {}
static struct async_scope SC;
static struct nest_sender A, B;   /* A: the object operated on (this); B: the other operand (t / rhs) */
#define ALIVE(p) (*((p) == &A ? &G.alive_a : &G.alive_b))
#define INV(p) (ALIVE(p) == ((p)->scope_.scope_ != NULL) && ((p)->scope_.scope_ == NULL || (p)->scope_.scope_ == &SC))
#define SR_BOOL(r) ((r)->scope_ != NULL)

static void EV_sender_construct(struct nest_sender* self, const struct nest_sender* from) {
  VF_P(!ALIVE(self), "a wrapped sender is constructed only into empty storage");
  VF_P(from == NULL || ALIVE((struct nest_sender*)from), "a wrapped sender is copied / moved only from a live one");
  if (ALIVE(self)) G.bad = 1;
  ALIVE(self) = 1; G.constructs++;
}
static void EV_sender_destruct(struct nest_sender* self) {
  VF_P(ALIVE(self), "a wrapped sender is destroyed exactly once (only while alive)");
  if (!ALIVE(self)) G.bad = 1;
  ALIVE(self) = 0; G.destructs++;
}
/* scope_reference special members as events (bodies proved in group scope_v2) */
static void sr_release(struct scope_reference* r) { if (r->scope_ != NULL) { G.released++; r->scope_ = NULL; } }
static void sr_copy(struct scope_reference* dst, const struct scope_reference* src) { if (src->scope_ != NULL && !G.copy_fails) { dst->scope_ = src->scope_; G.acquired++; } else { dst->scope_ = NULL; } }
static void scope_reference_swap_assign(struct scope_reference* self, struct scope_reference* rhs)
/*@BODY sr_swap*/
static void sr_move(struct scope_reference* dst, struct scope_reference* src) {   /* scope_reference(scope_reference&& other): mem-initialiser from the source */
#define other (*src)
  dst->scope_ = /*@EXPR sr_move_init*/;
#undef other
}
static void SR_ASSIGN_MOVE(struct scope_reference* dst, struct scope_reference* src) {
  struct scope_reference param; sr_move(&param, src);   /* by-value parameter move-constructed from the argument */
  scope_reference_swap_assign(dst, &param);
  sr_release(&param);                                   /* and destroyed at the end of the call */
}

void nest_sender_ctor(struct nest_sender* self, int sender, struct scope_reference* scope)
__CPROVER_requires(self == &A && !G.alive_a && A.scope_.scope_ == &SC)
__CPROVER_assigns(G)
__CPROVER_ensures(INV(&A) && G.alive_a && G.constructs == __CPROVER_old(G.constructs) + 1 && !G.bad)
/*@BODY ctor*/

void nest_sender_copy_ctor(struct nest_sender* self, const struct nest_sender* t)
__CPROVER_requires(self == &A && t == &B && !G.alive_a && INV(&B))
__CPROVER_assigns(G)
__CPROVER_ensures(INV(&A) && INV(&B) && G.alive_b == __CPROVER_old(G.alive_b) && !G.bad) /* the copy holds a reference iff it holds a sender; the source is untouched */
/*@BODY copy_ctor*/

void nest_sender_move_ctor(struct nest_sender* self, struct nest_sender* t)
__CPROVER_requires(self == &A && t == &B && !G.alive_a && G.alive_b == (A.scope_.scope_ != NULL) && (A.scope_.scope_ == NULL || A.scope_.scope_ == &SC) && B.scope_.scope_ == NULL)
__CPROVER_assigns(G)
__CPROVER_ensures(INV(&A) && INV(&B) && !G.alive_b && B.scope_.scope_ == NULL && !G.bad) /* the reference and the sender both move; the source is left empty */
/*@BODY move_ctor*/

void nest_sender_dtor_body(struct nest_sender* self)
/*@BODY dtor*/
void nest_sender_dtor(struct nest_sender* self)
__CPROVER_requires(self == &A && INV(&A))
__CPROVER_assigns(G, A.scope_.scope_)
__CPROVER_ensures(!G.alive_a && A.scope_.scope_ == NULL && !G.bad)
__CPROVER_ensures(G.destructs == __CPROVER_old(G.destructs) + (__CPROVER_old(G.alive_a) ? 1 : 0)) /* a live wrapped sender is destroyed exactly once */
__CPROVER_ensures(G.released == __CPROVER_old(G.released) + (__CPROVER_old(A.scope_.scope_) != NULL ? 1 : 0)) /* a held scope reference is released exactly once: the scope's join is not blocked forever */
{
  nest_sender_dtor_body(self);
  sr_release(&self->scope_);   /* member destruction after the body */
}

void nest_sender_assign_body(struct nest_sender* self, struct nest_sender* rhs)
/*@BODY assign*/
void nest_sender_assign(struct nest_sender* self, struct nest_sender* rhs)
__CPROVER_requires(self == &A && rhs == &B && INV(&A) && INV(&B))
__CPROVER_assigns(G, A.scope_.scope_, B.scope_.scope_)
__CPROVER_ensures(INV(&A) && !G.bad) /* after assignment lhs again holds a sender iff it holds a reference */
__CPROVER_ensures(!G.alive_b && B.scope_.scope_ == NULL) /* the by-value parameter was emptied and destroyed */
__CPROVER_ensures(G.alive_a == __CPROVER_old(G.alive_b) && (A.scope_.scope_ != NULL) == (__CPROVER_old(B.scope_.scope_) != NULL)) /* lhs takes over exactly what rhs held */
__CPROVER_ensures(G.destructs >= __CPROVER_old(G.destructs) + (__CPROVER_old(G.alive_a) ? 1 : 0)) /* the sender lhs held before (a dropped future's handle) is destroyed */
__CPROVER_ensures(G.released == __CPROVER_old(G.released) + (__CPROVER_old(A.scope_.scope_) != NULL ? 1 : 0)) /* and its scope reference is released exactly once */
{
  nest_sender_assign_body(self, rhs);
  nest_sender_dtor_body(rhs); sr_release(&rhs->scope_);   /* the by-value parameter is destroyed at the end of the call */
}

/* ---------------- harnesses ---------------- */
static void h_init(void) {
  G.alive_a = 0; G.alive_b = 0; G.constructs = 0; G.destructs = 0; G.acquired = 0; G.released = 0; G.copy_fails = VF_nondet_bool(); G.bad = 0;
  A.scope_.scope_ = NULL; B.scope_.scope_ = NULL;
}
static void fill(struct nest_sender* p) { if (VF_nondet_bool()) { p->scope_.scope_ = &SC; ALIVE(p) = 1; } else { p->scope_.scope_ = NULL; ALIVE(p) = 0; } }
void h_ctor(void) { h_init(); struct scope_reference s; s.scope_ = &SC; struct scope_reference* scope = &s; sr_move(&A.scope_, /*@EXPR ctor_init*/); s.scope_ = &SC; nest_sender_ctor(&A, 0, &s); VF_CANARY("after ctor"); }
void h_copy_ctor(void) { h_init(); fill(&B); struct nest_sender* t = &B; sr_copy(&A.scope_, /*@EXPR copy_init*/); nest_sender_copy_ctor(&A, &B); VF_CANARY("after copy ctor"); if (G.alive_a) { VF_CANARY("copy of a live nest sender in an open scope"); } else if (G.alive_b) { VF_CANARY("copy of a live nest sender in a closed scope"); } }
void h_move_ctor(void) { h_init(); fill(&B); struct nest_sender* t = &B; sr_move(&A.scope_, /*@EXPR move_init*/); nest_sender_move_ctor(&A, &B); VF_CANARY("after move ctor"); }
void h_dtor(void) { h_init(); fill(&A); nest_sender_dtor(&A); VF_CANARY("after dtor"); }
void h_assign(void) { h_init(); fill(&A); fill(&B); _Bool a0 = G.alive_a, b0 = G.alive_b; nest_sender_assign(&A, &B); VF_CANARY("after operator="); if (a0 && !b0) { VF_CANARY("assigning an empty nest sender over a live one"); } if (a0 && b0) { VF_CANARY("assigning a live nest sender over a live one"); } }
void lemma_nest_sender(void) { h_init(); VF_P(INV(&A) && INV(&B), "lemma: a default-constructed nest sender is empty and satisfies the invariant"); VF_CANARY("lemma reachable"); }
