/* C08 / C09 / C02: v2 async_scope's nest sender, nest operation construction and scope_reference (include/unifex/v2/async_scope.hpp;
 * future<> of spawn_future is built on the nest sender), plus the v2 debug_async_scope forwarder.
 * Invariant of every nest sender object: the wrapped sender is alive  <=>  the object holds a scope reference.  Each operation
 * keeps it, destroys a wrapped sender exactly once, and never loses or duplicates a scope reference:
 *   count conservation  CONS:  units this party holds on the scope word (G.my_refs, each one a +2 on opState_ made by
 *   try_record_start and not yet given back by record_completion)  ==  number of live non-empty scope_reference objects.
 * A lost reference (unit never given back) blocks join() forever (C08 liveness clause); a duplicated one lets join() complete
 * while nested work is still running (C08 safety clause); a unit acquired after the close starts work after the close. */
#include <stddef.h>
struct async_scope { size_t opState_; };
struct scope_reference { struct async_scope* scope_; };
struct nest_sender { struct scope_reference scope_; int sender_; };
struct nest_op { struct scope_reference scope_; int receiver_; int op_; };
struct debug_scope { struct async_scope scope_; int ops_; };
struct vf_ghost {
  _Bool alive_a, alive_b;        /* wrapped sender of object A / B is constructed */
  unsigned constructs, destructs;
  unsigned acquired, released;   /* successful try_record_start / record_completion calls of this party */
  size_t my_refs;                /* units this party holds on the scope word */
  _Bool bad;                     /* construct of a live sender / destruct of a dead one */
  /* nest operation under construction */
  _Bool threw;                   /* an exception is propagating */
  _Bool may_throw;               /* the receiver's / wrapped sender's operations may throw (conditional noexcept) */
  _Bool inner_alive, rcv_alive;  /* OP.op_ holds a connected inner operation / OP.receiver_ is constructed */
  unsigned connects, rcv_constructs, rcv_destructs;
  _Bool init_move;               /* a mem-initialiser argument was an rvalue (std::move) */
  /* debug scope */
  unsigned nests, wraps, forwards; int wrapped_sender; int fwd_kind;
};
static struct vf_ghost G;
#include "vf.h"
static struct async_scope SC;
static struct nest_sender A, B;   /* A: the object operated on (this); B: the other operand (t / rhs / s) */
static struct nest_op OP;         /* the nest operation being constructed (connect's return slot) */
static struct scope_reference R1, R2;
static struct debug_scope DS;
#define ALIVE(p) (*((p) == &A ? &G.alive_a : &G.alive_b))
#define INV(p) (ALIVE(p) == ((p)->scope_.scope_ != NULL) && ((p)->scope_.scope_ == NULL || (p)->scope_.scope_ == &SC))
#define SR_BOOL(r) ((r)->scope_ != NULL)

/* ---- the scope word (contracts of try_record_start / record_completion: group scope_v2) ---- */
#define AS_COUNT_MAX ((size_t)1 << 40)
#define OPEN(s)   (((s) & (size_t)1) != 0)
#define COUNT(s)  ((s) >> 1)
/* rely (as in scope_v2): the open bit only goes 1->0; once closed the count never grows; never below the units I own */
#define RELY(o, n) ((!OPEN(o) ? !OPEN(n) : 1) && (!OPEN(o) ? COUNT(n) <= COUNT(o) : 1) && COUNT(n) >= G.my_refs && COUNT(n) < AS_COUNT_MAX)
static void vf_interfere(void) {
  size_t o = SC.opState_;
  size_t n = VF_nondet_size_t();
  __CPROVER_assume(RELY(o, n));
  SC.opState_ = n;
}
#define LIVE(r) ((r).scope_ != NULL ? (size_t)1 : (size_t)0)
#define REF_OK(r) ((r).scope_ == NULL || (r).scope_ == &SC)
#define CONS (G.my_refs == LIVE(A.scope_) + LIVE(B.scope_) + LIVE(OP.scope_) + LIVE(R1) + LIVE(R2) && COUNT(SC.opState_) >= G.my_refs \
              && REF_OK(A.scope_) && REF_OK(B.scope_) && REF_OK(OP.scope_) && REF_OK(R1) && REF_OK(R2))
static _Bool try_record_start(struct async_scope* scope) {
  VF_P(scope == &SC, "try_record_start on the scope the reference belongs to");
  vf_interfere();
  if (!OPEN(SC.opState_)) return 0;              /* refused: a closed state was observed, nothing written */
  SC.opState_ += 2; G.my_refs++; G.acquired++;   /* admitted before the close: exactly one unit */
  return 1;
}
static void record_completion(struct async_scope* scope) {
  VF_P(scope == &SC && G.my_refs >= 1, "record_completion gives back a unit this party holds (no reference is released twice)");
  vf_interfere();
  VF_P(COUNT(SC.opState_) >= 1, "the count never underflows");
  SC.opState_ -= 2; G.my_refs--; G.released++;
}

static void EV_sender_construct(struct nest_sender* self, const struct nest_sender* from) {
  VF_P(!ALIVE(self), "a wrapped sender is constructed only into empty storage");
  VF_P(from == NULL || ALIVE((struct nest_sender*)from), "a wrapped sender is copied / moved only from a live one");
  if (ALIVE(self)) G.bad = 1;
  ALIVE(self) = 1; G.constructs++;
}
static void EV_sender_destruct(struct nest_sender* self) {
  VF_P(ALIVE(self), "a wrapped sender is destroyed exactly once (only while alive)");
  if (!ALIVE(self)) G.bad = 1;
  ALIVE(self) = 0; G.destructs++;
}
/* ---- scope_reference special members: the real text (scope_or_nullptr / ~scope_reference are also proved against the real
 * try_record_start / record_completion in group scope_v2) ---- */
static struct async_scope* scope_reference_scope_or_nullptr(struct async_scope* scope)
/*@BODY sr_scope_or_nullptr*/
static void scope_reference_dtor_body(struct scope_reference* self)
/*@BODY sr_dtor*/
static void sr_release(struct scope_reference* r) { scope_reference_dtor_body(r); r->scope_ = NULL; /* the object is gone */ }
static void sr_default(struct scope_reference* self) {   /* scope_reference() = default: the member's default initialiser (none = indeterminate) */
  struct async_scope* vf_init /*@EXPR sr_default_init*/;
  self->scope_ = vf_init;
}
static void sr_explicit(struct scope_reference* self, struct async_scope* scope) {   /* explicit scope_reference(async_scope* scope) */
  self->scope_ = /*@EXPR sr_explicit_init*/;
}
static void sr_copy(struct scope_reference* dst, const struct scope_reference* src) {   /* scope_reference(const scope_reference& other): delegates */
#define other (*src)
  sr_explicit(dst, /*@EXPR sr_copy_deleg*/);
#undef other
}
static void scope_reference_swap_assign(struct scope_reference* self, struct scope_reference* rhs)
/*@BODY sr_swap*/
static void sr_move(struct scope_reference* dst, struct scope_reference* src) {   /* scope_reference(scope_reference&& other): mem-initialiser from the source */
#define other (*src)
  dst->scope_ = /*@EXPR sr_move_init*/;
#undef other
}
static void SR_ASSIGN_MOVE(struct scope_reference* dst, struct scope_reference* src) {
  struct scope_reference param; sr_move(&param, src);   /* by-value parameter move-constructed from the argument */
  scope_reference_swap_assign(dst, &param);
  sr_release(&param);                                   /* and destroyed at the end of the call */
}

void nest_sender_ctor(struct nest_sender* self, int sender, struct scope_reference* scope)
__CPROVER_requires(self == &A && !G.alive_a && A.scope_.scope_ == &SC)
__CPROVER_assigns(G)
__CPROVER_ensures(INV(&A) && G.alive_a && G.constructs == __CPROVER_old(G.constructs) + 1 && !G.bad)
/*@BODY ctor*/

void nest_sender_copy_ctor(struct nest_sender* self, const struct nest_sender* t)
__CPROVER_requires(self == &A && t == &B && !G.alive_a && INV(&B))
__CPROVER_assigns(G)
__CPROVER_ensures(INV(&A) && INV(&B) && G.alive_b == __CPROVER_old(G.alive_b) && !G.bad) /* the copy holds a reference iff it holds a sender; the source is untouched */
/*@BODY copy_ctor*/

void nest_sender_move_ctor(struct nest_sender* self, struct nest_sender* t)
__CPROVER_requires(self == &A && t == &B && !G.alive_a && G.alive_b == (A.scope_.scope_ != NULL) && (A.scope_.scope_ == NULL || A.scope_.scope_ == &SC) && B.scope_.scope_ == NULL)
__CPROVER_assigns(G)
__CPROVER_ensures(INV(&A) && INV(&B) && !G.alive_b && B.scope_.scope_ == NULL && !G.bad) /* the reference and the sender both move; the source is left empty */
/*@BODY move_ctor*/

void nest_sender_dtor_body(struct nest_sender* self)
/*@BODY dtor*/
void nest_sender_dtor(struct nest_sender* self)
__CPROVER_requires(self == &A && INV(&A))
__CPROVER_assigns(G, A.scope_.scope_)
__CPROVER_ensures(!G.alive_a && A.scope_.scope_ == NULL && !G.bad)
__CPROVER_ensures(G.destructs == __CPROVER_old(G.destructs) + (__CPROVER_old(G.alive_a) ? 1 : 0)) /* a live wrapped sender is destroyed exactly once */
__CPROVER_ensures(G.released == __CPROVER_old(G.released) + (__CPROVER_old(A.scope_.scope_) != NULL ? 1 : 0)) /* a held scope reference is released exactly once: the scope's join is not blocked forever */
{
  nest_sender_dtor_body(self);
  sr_release(&self->scope_);   /* member destruction after the body */
}

void nest_sender_assign_body(struct nest_sender* self, struct nest_sender* rhs)
/*@BODY assign*/
void nest_sender_assign(struct nest_sender* self, struct nest_sender* rhs)
__CPROVER_requires(self == &A && rhs == &B && INV(&A) && INV(&B))
__CPROVER_assigns(G, A.scope_.scope_, B.scope_.scope_)
__CPROVER_ensures(INV(&A) && !G.bad) /* after assignment lhs again holds a sender iff it holds a reference */
__CPROVER_ensures(!G.alive_b && B.scope_.scope_ == NULL) /* the by-value parameter was emptied and destroyed */
__CPROVER_ensures(G.alive_a == __CPROVER_old(G.alive_b) && (A.scope_.scope_ != NULL) == (__CPROVER_old(B.scope_.scope_) != NULL)) /* lhs takes over exactly what rhs held */
__CPROVER_ensures(G.destructs >= __CPROVER_old(G.destructs) + (__CPROVER_old(G.alive_a) ? 1 : 0)) /* the sender lhs held before (a dropped future's handle) is destroyed */
__CPROVER_ensures(G.released == __CPROVER_old(G.released) + (__CPROVER_old(A.scope_.scope_) != NULL ? 1 : 0)) /* and its scope reference is released exactly once */
{
  nest_sender_assign_body(self, rhs);
  nest_sender_dtor_body(rhs); sr_release(&rhs->scope_);   /* the by-value parameter is destroyed at the end of the call */
}

/* ---------------- harnesses ---------------- */
static void h_init(void) {
  G.alive_a = 0; G.alive_b = 0; G.constructs = 0; G.destructs = 0; G.acquired = 0; G.released = 0; G.copy_fails = VF_nondet_bool(); G.bad = 0;
  A.scope_.scope_ = NULL; B.scope_.scope_ = NULL;
}
static void fill(struct nest_sender* p) { if (VF_nondet_bool()) { p->scope_.scope_ = &SC; ALIVE(p) = 1; } else { p->scope_.scope_ = NULL; ALIVE(p) = 0; } }
void h_ctor(void) { h_init(); struct scope_reference s; s.scope_ = &SC; struct scope_reference* scope = &s; sr_move(&A.scope_, /*@EXPR ctor_init*/); s.scope_ = &SC; nest_sender_ctor(&A, 0, &s); VF_CANARY("after ctor"); }
void h_copy_ctor(void) { h_init(); fill(&B); struct nest_sender* t = &B; sr_copy(&A.scope_, /*@EXPR copy_init*/); nest_sender_copy_ctor(&A, &B); VF_CANARY("after copy ctor"); if (G.alive_a) { VF_CANARY("copy of a live nest sender in an open scope"); } else if (G.alive_b) { VF_CANARY("copy of a live nest sender in a closed scope"); } }
void h_move_ctor(void) { h_init(); fill(&B); struct nest_sender* t = &B; sr_move(&A.scope_, /*@EXPR move_init*/); nest_sender_move_ctor(&A, &B); VF_CANARY("after move ctor"); }
void h_dtor(void) { h_init(); fill(&A); nest_sender_dtor(&A); VF_CANARY("after dtor"); }
void h_assign(void) { h_init(); fill(&A); fill(&B); _Bool a0 = G.alive_a, b0 = G.alive_b; nest_sender_assign(&A, &B); VF_CANARY("after operator="); if (a0 && !b0) { VF_CANARY("assigning an empty nest sender over a live one"); } if (a0 && b0) { VF_CANARY("assigning a live nest sender over a live one"); } }
void lemma_nest_sender(void) { h_init(); VF_P(INV(&A) && INV(&B), "lemma: a default-constructed nest sender is empty and satisfies the invariant"); VF_CANARY("lemma reachable"); }
