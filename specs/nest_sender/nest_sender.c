/* C08 / C09 / C02: v2 async_scope's nest sender, nest operation construction and scope_reference (include/unifex/v2/async_scope.hpp;
 * future<> of spawn_future is built on the nest sender), plus the v2 debug_async_scope forwarder.
 * Invariant of every nest sender object: the wrapped sender is alive  <=>  the object holds a scope reference.  Each operation
 * keeps it, destroys a wrapped sender exactly once, and never loses or duplicates a scope reference:
 *   count conservation  CONS:  units this party holds on the scope word (G.my_refs, each one a +2 on opState_ made by
 *   try_record_start and not yet given back by record_completion)  ==  number of live non-empty scope_reference objects.
 * A lost reference (unit never given back) blocks join() forever (C08 liveness clause); a duplicated one lets join() complete
 * while nested work is still running (C08 safety clause); a unit acquired after the close starts work after the close. */
#include <stddef.h>
struct async_scope { size_t opState_; };
struct scope_reference { struct async_scope* scope_; };
struct nest_sender { struct scope_reference scope_; int sender_; };
struct nest_op { struct scope_reference scope_; int receiver_; int op_; };
struct debug_scope { struct async_scope scope_; int ops_; };
struct vf_ghost {
  _Bool alive_a, alive_b;        /* wrapped sender of object A / B is constructed */
  unsigned constructs, destructs;
  unsigned acquired, released;   /* successful try_record_start / record_completion calls of this party */
  size_t my_refs;                /* units this party holds on the scope word */
  _Bool bad;                     /* construct of a live sender / destruct of a dead one */
  /* nest operation under construction */
  _Bool threw;                   /* an exception is propagating */
  _Bool may_throw;               /* the receiver's / wrapped sender's operations may throw (conditional noexcept) */
  _Bool inner_alive, rcv_alive;  /* OP.op_ holds a connected inner operation / OP.receiver_ is constructed */
  unsigned connects, rcv_constructs, rcv_destructs;
  _Bool init_move;               /* a mem-initialiser argument was an rvalue (std::move) */
  /* debug scope */
  unsigned nests, wraps, forwards; int wrapped_sender; int fwd_kind;
};
static struct vf_ghost G;
#include "vf.h"
static struct async_scope SC;
static struct nest_sender A, B;   /* A: the object operated on (this); B: the other operand (t / rhs / s) */
static struct nest_op OP;         /* the nest operation being constructed (connect's return slot) */
static struct scope_reference R1, R2;
static struct debug_scope DS;
#define ALIVE(p) (*((p) == &A ? &G.alive_a : &G.alive_b))
#define INV(p) (ALIVE(p) == ((p)->scope_.scope_ != NULL) && ((p)->scope_.scope_ == NULL || (p)->scope_.scope_ == &SC))
#define SR_BOOL(r) ((r)->scope_ != NULL)

/* ---- the scope word (contracts of try_record_start / record_completion: group scope_v2) ---- */
#define AS_COUNT_MAX ((size_t)1 << 40)
#define OPEN(s)   (((s) & (size_t)1) != 0)
#define COUNT(s)  ((s) >> 1)
/* rely (as in scope_v2): the open bit only goes 1->0; once closed the count never grows; never below the units I own */
#define RELY(o, n) ((!OPEN(o) ? !OPEN(n) : 1) && (!OPEN(o) ? COUNT(n) <= COUNT(o) : 1) && COUNT(n) >= G.my_refs && COUNT(n) < AS_COUNT_MAX)
static void vf_interfere(void) {
  size_t o = SC.opState_;
  size_t n = VF_nondet_size_t();
  __CPROVER_assume(RELY(o, n));
  SC.opState_ = n;
}
#define LIVE(r) ((r).scope_ != NULL ? (size_t)1 : (size_t)0)
#define REF_OK(r) ((r).scope_ == NULL || (r).scope_ == &SC)
#define CONS (G.my_refs == LIVE(A.scope_) + LIVE(B.scope_) + LIVE(OP.scope_) + LIVE(R1) + LIVE(R2) && COUNT(SC.opState_) >= G.my_refs \
              && REF_OK(A.scope_) && REF_OK(B.scope_) && REF_OK(OP.scope_) && REF_OK(R1) && REF_OK(R2))
static _Bool try_record_start(struct async_scope* scope) {
  VF_P(scope == &SC, "try_record_start on the scope the reference belongs to");
  vf_interfere();
  if (!OPEN(SC.opState_)) return 0;              /* refused: a closed state was observed, nothing written */
  SC.opState_ += 2; G.my_refs++; G.acquired++;   /* admitted before the close: exactly one unit */
  return 1;
}
static void record_completion(struct async_scope* scope) {
  VF_P(scope == &SC && G.my_refs >= 1, "record_completion gives back a unit this party holds (no reference is released twice)");
  vf_interfere();
  VF_P(COUNT(SC.opState_) >= 1, "the count never underflows");
  SC.opState_ -= 2; G.my_refs--; G.released++;
}

static void EV_sender_construct(struct nest_sender* self, const struct nest_sender* from) {
  VF_P(!ALIVE(self), "a wrapped sender is constructed only into empty storage");
  VF_P(from == NULL || ALIVE((struct nest_sender*)from), "a wrapped sender is copied / moved only from a live one");
  if (ALIVE(self)) G.bad = 1;
  ALIVE(self) = 1; G.constructs++;
}
static void EV_sender_destruct(struct nest_sender* self) {
  VF_P(ALIVE(self), "a wrapped sender is destroyed exactly once (only while alive)");
  if (!ALIVE(self)) G.bad = 1;
  ALIVE(self) = 0; G.destructs++;
}
/* ---- scope_reference special members: the real text (scope_or_nullptr / ~scope_reference are also proved against the real
 * try_record_start / record_completion in group scope_v2) ---- */
static struct async_scope* scope_reference_scope_or_nullptr(struct async_scope* scope)
/*@BODY sr_scope_or_nullptr*/
static void scope_reference_dtor_body(struct scope_reference* self)
/*@BODY sr_dtor*/
static void sr_release(struct scope_reference* r) { scope_reference_dtor_body(r); r->scope_ = NULL; /* the object is gone */ }
static void sr_default(struct scope_reference* self) {   /* scope_reference() = default: the member's default initialiser (none = indeterminate) */
  struct async_scope* vf_init /*@EXPR sr_default_init*/;
  self->scope_ = vf_init;
}
static void sr_explicit(struct scope_reference* self, struct async_scope* scope) {   /* explicit scope_reference(async_scope* scope) */
  self->scope_ = /*@EXPR sr_explicit_init*/;
}
static void sr_copy(struct scope_reference* dst, const struct scope_reference* src) {   /* scope_reference(const scope_reference& other): delegates */
#define other (*src)
  /*@EXPR sr_copy_deleg*/;
#undef other
}
static void scope_reference_swap_assign(struct scope_reference* self, struct scope_reference* rhs)
/*@BODY sr_swap*/
static void sr_move(struct scope_reference* dst, struct scope_reference* src) {   /* scope_reference(scope_reference&& other): mem-initialiser from the source */
#define other (*src)
  dst->scope_ = /*@EXPR sr_move_init*/;
#undef other
}
static void SR_ASSIGN_MOVE(struct scope_reference* dst, struct scope_reference* src) {
  struct scope_reference param; sr_move(&param, src);   /* by-value parameter move-constructed from the argument */
  scope_reference_swap_assign(dst, &param);
  sr_release(&param);                                   /* and destroyed at the end of the call */
}

#define SR_CTOR(p) ((p)->scope_ = NULL)   /* raii rule: storage of a local about to be constructed by sr_move / sr_copy */
#define SR_DTOR(p) sr_release(p)
#define SR_RVALUE(p) (G.init_move = 1, (p))
/* mem-initialiser m(E) of a scope_reference member: move constructor if E is an rvalue (std::move), copy constructor otherwise */
#define SR_INIT(dst, e) do { G.init_move = 0; struct scope_reference* vf_src = (e); if (G.init_move) sr_move((dst), vf_src); else sr_copy((dst), vf_src); } while (0)

/* ---------------- scope_reference under contract (operands R1 = this / destination, R2 = other / rhs) ---------------- */
#define SR_PRE (CONS && COUNT(SC.opState_) < AS_COUNT_MAX)
void scope_reference_copy_ctor(struct scope_reference* self, const struct scope_reference* other)
__CPROVER_requires(self == &R1 && other == &R2 && R1.scope_ == NULL && SR_PRE)
__CPROVER_assigns(G.my_refs, G.acquired, SC.opState_, R1.scope_)
__CPROVER_ensures(CONS) /* the copy owns its own unit or is empty */
__CPROVER_ensures(R2.scope_ == __CPROVER_old(R2.scope_) && (R1.scope_ == NULL || R1.scope_ == R2.scope_)) /* same scope; the source is untouched */
__CPROVER_ensures(G.acquired == __CPROVER_old(G.acquired) + (R1.scope_ != NULL ? 1 : 0)) /* a non-empty copy <=> exactly one try_record_start succeeded */
__CPROVER_ensures(!OPEN(__CPROVER_old(SC.opState_)) ==> (R1.scope_ == NULL && G.acquired == __CPROVER_old(G.acquired))) /* C08: nothing is acquired after the close: the copy is empty */
__CPROVER_ensures(__CPROVER_old(R2.scope_) == NULL ==> R1.scope_ == NULL)
{ sr_copy(self, other); }

void scope_reference_move_ctor(struct scope_reference* self, struct scope_reference* other)
__CPROVER_requires(self == &R1 && other == &R2 && R1.scope_ == NULL && SR_PRE)
__CPROVER_assigns(R1.scope_, R2.scope_)
__CPROVER_ensures(CONS && R1.scope_ == __CPROVER_old(R2.scope_) && R2.scope_ == NULL) /* the unit moves: the source is emptied, nothing acquired or released */
{ sr_move(self, other); }

void scope_reference_dtor(struct scope_reference* self)
__CPROVER_requires(self == &R1 && SR_PRE)
__CPROVER_assigns(G.my_refs, G.released, SC.opState_, R1.scope_)
__CPROVER_ensures(CONS && R1.scope_ == NULL)
__CPROVER_ensures(G.released == __CPROVER_old(G.released) + (__CPROVER_old(R1.scope_) != NULL ? 1 : 0)) /* record_completion exactly once iff non-empty */
{ sr_release(self); }

void scope_reference_assign_move(struct scope_reference* self, struct scope_reference* rhs)   /* a = std::move(b) */
__CPROVER_requires(self == &R1 && rhs == &R2 && SR_PRE)
__CPROVER_assigns(G.my_refs, G.released, SC.opState_, R1.scope_, R2.scope_)
__CPROVER_ensures(CONS && R1.scope_ == __CPROVER_old(R2.scope_) && R2.scope_ == NULL) /* lhs takes over the unit of rhs */
__CPROVER_ensures(G.released == __CPROVER_old(G.released) + (__CPROVER_old(R1.scope_) != NULL ? 1 : 0)) /* the unit lhs held before is given back exactly once */
{ SR_ASSIGN_MOVE(self, rhs); }

void scope_reference_assign_copy(struct scope_reference* self, const struct scope_reference* rhs)   /* a = b */
__CPROVER_requires(self == &R1 && rhs == &R2 && SR_PRE)
__CPROVER_assigns(G.my_refs, G.acquired, G.released, SC.opState_, R1.scope_)
__CPROVER_ensures(CONS && R2.scope_ == __CPROVER_old(R2.scope_) && (R1.scope_ == NULL || R1.scope_ == R2.scope_))
__CPROVER_ensures(G.acquired == __CPROVER_old(G.acquired) + (R1.scope_ != NULL ? 1 : 0))
__CPROVER_ensures(G.released == __CPROVER_old(G.released) + (__CPROVER_old(R1.scope_) != NULL ? 1 : 0))
__CPROVER_ensures(!OPEN(__CPROVER_old(SC.opState_)) ==> R1.scope_ == NULL) /* C08: nothing acquired after the close */
{
  struct scope_reference param; SR_CTOR(&param); sr_copy(&param, rhs);   /* by-value parameter copy-constructed from the argument */
  scope_reference_swap_assign(self, &param);
  sr_release(&param);                                                     /* and destroyed at the end of the call */
}

/* ---------------- the nest sender's special members ---------------- */
void nest_sender_ctor(struct nest_sender* self, int sender, struct scope_reference* scope)
__CPROVER_requires(self == &A && !G.alive_a && A.scope_.scope_ == &SC && CONS)
__CPROVER_assigns(G)
__CPROVER_ensures(INV(&A) && G.alive_a && G.constructs == __CPROVER_old(G.constructs) + 1 && !G.bad && CONS)
/*@BODY ctor*/

void nest_sender_copy_ctor(struct nest_sender* self, const struct nest_sender* t)
__CPROVER_requires(self == &A && t == &B && !G.alive_a && INV(&B) && CONS)
__CPROVER_assigns(G)
__CPROVER_ensures(INV(&A) && INV(&B) && G.alive_b == __CPROVER_old(G.alive_b) && !G.bad && CONS) /* the copy holds a reference iff it holds a sender; the source is untouched */
/*@BODY copy_ctor*/

void nest_sender_move_ctor(struct nest_sender* self, struct nest_sender* t)
__CPROVER_requires(self == &A && t == &B && !G.alive_a && G.alive_b == (A.scope_.scope_ != NULL) && (A.scope_.scope_ == NULL || A.scope_.scope_ == &SC) && B.scope_.scope_ == NULL && CONS)
__CPROVER_assigns(G)
__CPROVER_ensures(INV(&A) && INV(&B) && !G.alive_b && B.scope_.scope_ == NULL && !G.bad && CONS) /* the reference and the sender both move; the source is left empty */
/*@BODY move_ctor*/

void nest_sender_dtor_body(struct nest_sender* self)
/*@BODY dtor*/
void nest_sender_dtor(struct nest_sender* self)
__CPROVER_requires(self == &A && INV(&A) && SR_PRE)
__CPROVER_assigns(G, A.scope_.scope_, SC.opState_)
__CPROVER_ensures(!G.alive_a && A.scope_.scope_ == NULL && !G.bad && CONS)
__CPROVER_ensures(G.destructs == __CPROVER_old(G.destructs) + (__CPROVER_old(G.alive_a) ? 1 : 0)) /* a live wrapped sender is destroyed exactly once */
__CPROVER_ensures(G.released == __CPROVER_old(G.released) + (__CPROVER_old(A.scope_.scope_) != NULL ? 1 : 0)) /* a held scope reference is released exactly once: the scope's join is not blocked forever */
{
  nest_sender_dtor_body(self);
  sr_release(&self->scope_);   /* member destruction after the body */
}

void nest_sender_assign_body(struct nest_sender* self, struct nest_sender* rhs)
/*@BODY assign*/
void nest_sender_assign(struct nest_sender* self, struct nest_sender* rhs)
__CPROVER_requires(self == &A && rhs == &B && INV(&A) && INV(&B) && SR_PRE)
__CPROVER_assigns(G, A.scope_.scope_, B.scope_.scope_, SC.opState_)
__CPROVER_ensures(INV(&A) && !G.bad && CONS) /* after assignment lhs again holds a sender iff it holds a reference */
__CPROVER_ensures(!G.alive_b && B.scope_.scope_ == NULL) /* the by-value parameter was emptied and destroyed */
__CPROVER_ensures(G.alive_a == __CPROVER_old(G.alive_b) && (A.scope_.scope_ != NULL) == (__CPROVER_old(B.scope_.scope_) != NULL)) /* lhs takes over exactly what rhs held */
__CPROVER_ensures(G.destructs >= __CPROVER_old(G.destructs) + (__CPROVER_old(G.alive_a) ? 1 : 0)) /* the sender lhs held before (a dropped future's handle) is destroyed */
__CPROVER_ensures(G.released == __CPROVER_old(G.released) + (__CPROVER_old(A.scope_.scope_) != NULL ? 1 : 0)) /* and its scope reference is released exactly once */
__CPROVER_ensures(G.acquired == __CPROVER_old(G.acquired)) /* moving never acquires */
{
  nest_sender_assign_body(self, rhs);
  nest_sender_dtor_body(rhs); sr_release(&rhs->scope_);   /* the by-value parameter is destroyed at the end of the call */
}

/* ---------------- the nest operation's constructors ---------------- */
/* receiver_(E): move / copy construction of the downstream receiver (may throw when not noexcept) */
static _Bool EV_receiver_construct(struct nest_op* self, int r) {
  VF_P(self == &OP && !G.rcv_alive && G.rcv_constructs == 0, "the receiver is constructed once, into the operation being built");
  if (G.may_throw && VF_nondet_bool()) { G.threw = 1; return 1; }
  G.rcv_alive = 1; G.rcv_constructs++;
  return 0;
}
static void EV_receiver_destruct(struct nest_op* self) {
  VF_P(self == &OP && G.rcv_alive, "a constructed receiver is destroyed exactly once");
  G.rcv_alive = 0; G.rcv_destructs++;
}
/* activate_union_member_with(op_, [&] { return connect((Sender2&&)s, nest_receiver{this}); }): may throw; strong guarantee */
static _Bool EV_connect_inner(struct nest_op* self, struct nest_sender* s) {
  VF_CANARY("connect of the wrapped sender reachable");
  VF_P(self == &OP && !G.inner_alive && G.connects == 0, "the wrapped sender is connected at most once, into the operation being built");
  VF_P(s == &B && G.alive_b, "the wrapped sender is connected while it is alive (before the nest sender gives it up)");
  VF_P(OP.scope_.scope_ == &SC, "C08: an inner operation is created only in a nest operation that already holds its scope reference (admitted before the close)");
  VF_P(G.rcv_alive, "the receiver the inner operation completes into is constructed before connect");
  VF_P(!G.threw, "nothing is connected on the exceptional path");
  if (G.may_throw && VF_nondet_bool()) { G.threw = 1; return 1; }   /* connect throws: nothing constructed in op_ */
  G.inner_alive = 1; G.connects++;
  return 0;
}
static void nest_op_ctor_body(struct nest_op* self, struct nest_sender* s, int r, struct scope_reference* scope)
/*@BODY nop_ctor*/
/* the three-argument constructor: mem-initialisers (text extracted) + body (extracted) + destruction of the already constructed
 * members, in reverse order, when an exception leaves the constructor (written out: C++ semantics) */
#define NOP_PRE (self == &OP && OP.scope_.scope_ == NULL && !G.inner_alive && !G.rcv_alive && G.connects == 0 && G.rcv_constructs == 0 && G.rcv_destructs == 0 && !G.threw)
#define NOP_OK (!G.threw && G.inner_alive && G.rcv_alive && G.connects == 1 && G.rcv_constructs == 1 && G.rcv_destructs == 0)
#define NOP_THREW (G.threw && !G.inner_alive && !G.rcv_alive && G.connects == 0 && G.rcv_constructs == G.rcv_destructs && OP.scope_.scope_ == NULL)
void nest_op_ctor(struct nest_op* self, struct nest_sender* s, int r, struct scope_reference* scope)
__CPROVER_requires(NOP_PRE && s == &B && G.alive_b && scope == &R2 && R2.scope_ == &SC && SR_PRE)
__CPROVER_assigns(G, OP, R2.scope_, SC.opState_)
__CPROVER_ensures(CONS && R2.scope_ == NULL) /* the reference is taken out of the argument on every path */
__CPROVER_ensures(G.threw ? NOP_THREW : (NOP_OK && OP.scope_.scope_ == &SC)) /* a constructed nest operation holds the reference and one connected inner operation */
__CPROVER_ensures(G.acquired == __CPROVER_old(G.acquired)) /* construction never acquires */
__CPROVER_ensures(G.released == __CPROVER_old(G.released) + (G.threw ? 1 : 0) && G.my_refs == __CPROVER_old(G.my_refs) - (G.threw ? 1 : 0)) /* C08 liveness: when the receiver's constructor or connect throws, the unit is given back exactly once (nothing stays acquired); otherwise it is kept */
__CPROVER_ensures(G.alive_b && G.destructs == __CPROVER_old(G.destructs)) /* the constructor does not destroy the wrapped sender (its owner does) */
{
  SR_INIT(&self->scope_, /*@EXPR nop_ctor_scope_init*/);
  if (EV_receiver_construct(self, /*@EXPR nop_ctor_rcv_init*/)) { sr_release(&self->scope_); return; }
  nest_op_ctor_body(self, s, r, scope);
  if (G.threw) { EV_receiver_destruct(self); sr_release(&self->scope_); }
}
static void nest_op_ctor_rv_body(struct nest_op* self, int r)
/*@BODY nop_ctor_rv*/
static void nest_op_ctor_lv_body(struct nest_op* self, int r)
/*@BODY nop_ctor_lv*/
/* the one-argument constructors (Receiver&& / const Receiver&): scope_ default-initialised, no inner operation */
void nest_op_ctor_empty(struct nest_op* self, int r)
__CPROVER_requires(NOP_PRE && SR_PRE)
__CPROVER_assigns(G, OP)
__CPROVER_ensures(CONS && OP.scope_.scope_ == NULL && !G.inner_alive && G.connects == 0) /* C08: an operation built without reference has no inner operation (its start completes with done: group scope_v1) */
__CPROVER_ensures(G.threw ? (!G.rcv_alive && G.rcv_constructs == 0) : (G.rcv_alive && G.rcv_constructs == 1))
__CPROVER_ensures(G.acquired == __CPROVER_old(G.acquired) && G.released == __CPROVER_old(G.released))
{
  sr_default(&self->scope_);
  if (VF_nondet_bool()) { if (EV_receiver_construct(self, /*@EXPR nop_ctor_rv_init*/)) return; nest_op_ctor_rv_body(self, r); }
  else { if (EV_receiver_construct(self, /*@EXPR nop_ctor_lv_init*/)) return; nest_op_ctor_lv_body(self, r); }
}

/* ---------------- connect on a nest sender ---------------- */
#define OP_INV ((OP.scope_.scope_ != NULL) == G.inner_alive && (G.threw ? !G.rcv_alive : G.rcv_alive))   /* scope_v1 (nest_op start / destructor) relies on it */
#define CONNECT_PRE (s == &B && ret == &OP && INV(&B) && A.scope_.scope_ == NULL && !G.alive_a && R1.scope_ == NULL && R2.scope_ == NULL && SR_PRE && !G.bad \
                     && OP.scope_.scope_ == NULL && !G.inner_alive && !G.rcv_alive && G.connects == 0 && G.rcv_constructs == 0 && G.rcv_destructs == 0 && !G.threw)
/* connect(std::move(sender), r): the reference and the wrapped sender move into the operation */
void nest_sender_connect_move(struct nest_sender* s, int r, struct nest_op* ret)
__CPROVER_requires(CONNECT_PRE)
__CPROVER_assigns(G, OP, B.scope_.scope_, SC.opState_)
__CPROVER_ensures(CONS && OP_INV && !G.bad)
__CPROVER_ensures(INV(&B) && B.scope_.scope_ == NULL && !G.alive_b) /* the source is emptied: its destructor has nothing left to do */
__CPROVER_ensures(G.destructs == __CPROVER_old(G.destructs) + (__CPROVER_old(G.alive_b) ? 1 : 0)) /* C02: the wrapped sender is destroyed exactly once, on the normal and on the exceptional path */
__CPROVER_ensures(G.acquired == __CPROVER_old(G.acquired)) /* a move transfers the unit: nothing new is acquired */
__CPROVER_ensures((!G.threw && __CPROVER_old(B.scope_.scope_) != NULL) ? (OP.scope_.scope_ == &SC && G.connects == 1 && G.released == __CPROVER_old(G.released)) : (OP.scope_.scope_ == NULL && G.connects == 0)) /* admitted sender -> operation that holds the unit and one inner operation; empty sender -> empty operation (done) */
__CPROVER_ensures(G.released == __CPROVER_old(G.released) + ((G.threw && __CPROVER_old(B.scope_.scope_) != NULL) ? 1 : 0)) /* C08 liveness: a throwing connect gives the unit back exactly once */
__CPROVER_ensures(G.my_refs == __CPROVER_old(G.my_refs) + G.acquired - __CPROVER_old(G.acquired) - (G.released - __CPROVER_old(G.released))) /* units acquired - released == change of live references */
/*@BODY connect_move*/

/* connect(sender, r) on an lvalue: the copy acquires its own unit (try_record_start on the same scope) or yields an empty operation */
void nest_sender_connect_copy(const struct nest_sender* s, int r, struct nest_op* ret)
__CPROVER_requires(CONNECT_PRE)
__CPROVER_assigns(G, OP, SC.opState_)
__CPROVER_ensures(CONS && OP_INV && !G.bad)
__CPROVER_ensures(INV(&B) && B.scope_.scope_ == __CPROVER_old(B.scope_.scope_) && G.alive_b == __CPROVER_old(G.alive_b) && G.destructs == __CPROVER_old(G.destructs)) /* the source keeps its reference and its sender */
__CPROVER_ensures(G.acquired <= __CPROVER_old(G.acquired) + 1 && (G.acquired == __CPROVER_old(G.acquired) + 1) == (G.connects == 1 || (G.threw && G.released == __CPROVER_old(G.released) + 1))) /* exactly one unit per operation that got as far as connecting */
__CPROVER_ensures(!G.threw ==> ((OP.scope_.scope_ == &SC) == (G.acquired == __CPROVER_old(G.acquired) + 1) && G.released == __CPROVER_old(G.released))) /* the operation holds the new unit, or is empty */
__CPROVER_ensures(G.threw ==> (OP.scope_.scope_ == NULL && G.released - __CPROVER_old(G.released) == G.acquired - __CPROVER_old(G.acquired))) /* C08 liveness: on a throwing connect nothing stays acquired */
__CPROVER_ensures((!OPEN(__CPROVER_old(SC.opState_)) || __CPROVER_old(B.scope_.scope_) == NULL) ==> (G.acquired == __CPROVER_old(G.acquired) && OP.scope_.scope_ == NULL && G.connects == 0)) /* C08: nothing is acquired after the close; the work is never connected (completes with done) */
__CPROVER_ensures(G.my_refs == __CPROVER_old(G.my_refs) + G.acquired - __CPROVER_old(G.acquired) - (G.released - __CPROVER_old(G.released)))
/*@BODY connect_copy*/

/* ---------------- v2 debug_async_scope: forwards to its own v2 async_scope, nesting a debug wrapper of the sender ---------------- */
enum { FWD_none = 0, FWD_join = 11, FWD_joined = 12, FWD_join_started = 13, FWD_use_count = 14 };
enum { H_NESTED = 77, H_WRAPPED = 1000 };
static int EV_debug_wrap(int sender, int* ops) {   /* debug_scope_sender<Sender>{sender, &ops_} */
  VF_P(ops == &DS.ops_ && G.wraps == 0, "the sender is wrapped once, registered with this debug scope's own operation list");
  G.wraps++; G.wrapped_sender = sender;
  return H_WRAPPED + sender;
}
static int EV_v2_nest(struct async_scope* scope, int sender) {   /* v2 async_scope::nest (group scope_v1, unit v2_nest) */
  VF_P(scope == &DS.scope_ && G.nests == 0, "C08: the work is nested once, in the scope this debug scope joins");
  VF_P(G.wraps == 1 && sender == H_WRAPPED + G.wrapped_sender, "what is nested is the debug wrapper of the caller's sender");
  G.nests++;
  return H_NESTED;
}
static int vf_fwd(struct async_scope* scope, int kind) { VF_P(scope == &DS.scope_ && G.forwards == 0, "forwarded once, to the wrapped v2 scope"); G.forwards++; G.fwd_kind = kind; return VF_nondet_int(); }
static int EV_v2_join(struct async_scope* scope) { return vf_fwd(scope, FWD_join); }
static _Bool EV_v2_joined(struct async_scope* scope) { return vf_fwd(scope, FWD_joined) != 0; }
static _Bool EV_v2_join_started(struct async_scope* scope) { return vf_fwd(scope, FWD_join_started) != 0; }
static size_t EV_v2_use_count(struct async_scope* scope) { vf_fwd(scope, FWD_use_count); return VF_nondet_size_t(); }
#define DBG_PRE (self == &DS && G.nests == 0 && G.wraps == 0 && G.forwards == 0 && G.fwd_kind == FWD_none)
int debug_scope_nest(struct debug_scope* self, int sender)
__CPROVER_requires(DBG_PRE && sender >= 0 && sender < 100)
__CPROVER_assigns(G.nests, G.wraps, G.wrapped_sender)
__CPROVER_ensures(G.nests == 1 && G.wraps == 1 && G.wrapped_sender == sender && __CPROVER_return_value == H_NESTED) /* nest(s) == scope_.nest(debug_wrapper(s)): counted by the scope that join() waits on */
/*@BODY dbg_nest*/
int debug_scope_join(struct debug_scope* self)
__CPROVER_requires(DBG_PRE)
__CPROVER_assigns(G.forwards, G.fwd_kind)
__CPROVER_ensures(G.forwards == 1 && G.fwd_kind == FWD_join)
/*@BODY dbg_join*/
_Bool debug_scope_joined(struct debug_scope* self)
__CPROVER_requires(DBG_PRE)
__CPROVER_assigns(G.forwards, G.fwd_kind)
__CPROVER_ensures(G.forwards == 1 && G.fwd_kind == FWD_joined)
/*@BODY dbg_joined*/
_Bool debug_scope_join_started(struct debug_scope* self)
__CPROVER_requires(DBG_PRE)
__CPROVER_assigns(G.forwards, G.fwd_kind)
__CPROVER_ensures(G.forwards == 1 && G.fwd_kind == FWD_join_started)
/*@BODY dbg_join_started*/
size_t debug_scope_use_count(struct debug_scope* self)
__CPROVER_requires(DBG_PRE)
__CPROVER_assigns(G.forwards, G.fwd_kind)
__CPROVER_ensures(G.forwards == 1 && G.fwd_kind == FWD_use_count)
/*@BODY dbg_use_count*/

/* ---------------- harnesses ---------------- */
static void h_init(void) {
  struct vf_ghost z = {0}; G = z; G.may_throw = VF_nondet_bool();
  A.scope_.scope_ = NULL; B.scope_.scope_ = NULL; OP.scope_.scope_ = NULL; R1.scope_ = NULL; R2.scope_ = NULL;
  OP.receiver_ = VF_nondet_int(); OP.op_ = VF_nondet_int();
  SC.opState_ = VF_nondet_size_t();
}
/* window construction: the scope word carries at least the units this party holds */
static void h_ready(void) { __CPROVER_assume(COUNT(SC.opState_) >= G.my_refs && COUNT(SC.opState_) < AS_COUNT_MAX); }
static void fill_ref(struct scope_reference* r) { if (VF_nondet_bool()) { r->scope_ = &SC; G.my_refs++; } else { r->scope_ = NULL; } }
static void fill(struct nest_sender* p) { fill_ref(&p->scope_); ALIVE(p) = (p->scope_.scope_ != NULL); }
void h_ctor(void) { h_init(); struct scope_reference s; s.scope_ = &SC; G.my_refs = 1; h_ready(); struct scope_reference* scope = &s; sr_move(&A.scope_, /*@EXPR ctor_init*/); nest_sender_ctor(&A, 0, &s); VF_CANARY("after ctor"); }
void h_copy_ctor(void) { h_init(); fill(&B); h_ready(); struct nest_sender* t = &B; sr_copy(&A.scope_, /*@EXPR copy_init*/); nest_sender_copy_ctor(&A, &B); VF_CANARY("after copy ctor"); if (G.alive_a) { VF_CANARY("copy of a live nest sender in an open scope"); } else if (G.alive_b) { VF_CANARY("copy of a live nest sender in a closed scope"); } }
void h_move_ctor(void) { h_init(); fill(&B); h_ready(); struct nest_sender* t = &B; sr_move(&A.scope_, /*@EXPR move_init*/); nest_sender_move_ctor(&A, &B); VF_CANARY("after move ctor"); }
void h_dtor(void) { h_init(); fill(&A); h_ready(); nest_sender_dtor(&A); VF_CANARY("after dtor"); }
void h_assign(void) { h_init(); fill(&A); fill(&B); h_ready(); _Bool a0 = G.alive_a, b0 = G.alive_b; nest_sender_assign(&A, &B); VF_CANARY("after operator="); if (a0 && !b0) { VF_CANARY("assigning an empty nest sender over a live one"); } if (a0 && b0) { VF_CANARY("assigning a live nest sender over a live one"); } }
void h_sr_copy_ctor(void) { h_init(); fill_ref(&R2); h_ready(); _Bool open0 = OPEN(SC.opState_); scope_reference_copy_ctor(&R1, &R2); VF_CANARY("after scope_reference copy"); if (R1.scope_ != NULL) { VF_CANARY("copy acquires a unit while the scope is open"); } else if (R2.scope_ != NULL && open0) { VF_CANARY("copy refused: the scope was closed concurrently"); } }
void h_sr_move_ctor(void) { h_init(); fill_ref(&R2); h_ready(); scope_reference_move_ctor(&R1, &R2); VF_CANARY("after scope_reference move"); }
void h_sr_dtor(void) { h_init(); fill_ref(&R1); h_ready(); scope_reference_dtor(&R1); VF_CANARY("after ~scope_reference"); if (G.released) { VF_CANARY("a held unit is given back"); } }
void h_sr_assign_move(void) { h_init(); fill_ref(&R1); fill_ref(&R2); h_ready(); _Bool l0 = R1.scope_ != NULL, r0 = R2.scope_ != NULL; scope_reference_assign_move(&R1, &R2); VF_CANARY("after scope_reference move assignment"); if (l0 && r0) { VF_CANARY("move-assigning a held reference over a held one"); } }
void h_sr_assign_copy(void) { h_init(); fill_ref(&R1); fill_ref(&R2); h_ready(); _Bool l0 = R1.scope_ != NULL; scope_reference_assign_copy(&R1, &R2); VF_CANARY("after scope_reference copy assignment"); if (l0 && R1.scope_ != NULL) { VF_CANARY("copy-assigning over a held reference in an open scope"); } if (l0 && R2.scope_ != NULL && R1.scope_ == NULL) { VF_CANARY("copy-assigning after the close empties the destination"); } }
void h_nop_ctor(void) { h_init(); B.scope_.scope_ = NULL; G.alive_b = 1; R2.scope_ = &SC; G.my_refs = 1; h_ready(); nest_op_ctor(&OP, &B, VF_nondet_int(), &R2); VF_CANARY("after nest operation constructor"); if (G.threw) { VF_CANARY("nest operation constructor throws"); if (G.rcv_constructs) { VF_CANARY("connect of the wrapped sender throws"); } } }
void h_nop_ctor_empty(void) { h_init(); h_ready(); nest_op_ctor_empty(&OP, VF_nondet_int()); VF_CANARY("after one-argument nest operation constructor"); }
void h_connect_move(void) { h_init(); fill(&B); h_ready(); _Bool b0 = G.alive_b; nest_sender_connect_move(&B, VF_nondet_int(), &OP); VF_CANARY("after connect(rvalue nest sender)"); if (b0 && !G.threw) { VF_CANARY("rvalue connect of an admitted sender"); } if (b0 && G.threw) { VF_CANARY("rvalue connect throws"); } if (!b0) { VF_CANARY("rvalue connect of an empty sender"); } }
void h_connect_copy(void) { h_init(); fill(&B); h_ready(); _Bool b0 = G.alive_b; nest_sender_connect_copy(&B, VF_nondet_int(), &OP); VF_CANARY("after connect(lvalue nest sender)"); if (G.connects) { VF_CANARY("lvalue connect acquires its own unit"); } if (b0 && G.acquired && G.threw) { VF_CANARY("lvalue connect throws after acquiring"); } if (b0 && !G.acquired) { VF_CANARY("lvalue connect after the close yields an empty operation"); } }
static void h_dbg(void) { h_init(); DS.ops_ = VF_nondet_int(); }
void h_dbg_nest(void) { h_dbg(); int sender = VF_nondet_int(); __CPROVER_assume(sender >= 0 && sender < 100); debug_scope_nest(&DS, sender); VF_CANARY("after debug_async_scope::nest"); }
void h_dbg_join(void) { h_dbg(); debug_scope_join(&DS); VF_CANARY("after debug_async_scope::join"); }
void h_dbg_joined(void) { h_dbg(); debug_scope_joined(&DS); VF_CANARY("after debug_async_scope::joined"); }
void h_dbg_join_started(void) { h_dbg(); debug_scope_join_started(&DS); VF_CANARY("after debug_async_scope::join_started"); }
void h_dbg_use_count(void) { h_dbg(); debug_scope_use_count(&DS); VF_CANARY("after debug_async_scope::use_count"); }
void lemma_nest_sender(void) { h_init(); VF_P(INV(&A) && INV(&B), "lemma: a default-constructed nest sender is empty and satisfies the invariant"); VF_CANARY("lemma reachable"); }
/* M4 lemma over the contracts: a unit taken by connect is given back exactly once by whichever owner ends up with it.
 * Summaries: connect (this group): the operation holds the unit iff it was built with an inner operation; the later owners
 * (scope_v1 nest_op destructor / scope_v2 _nest_receiver::complete) release exactly once iff the operation's reference is non-empty;
 * the source nest sender's destructor (unit dtor) releases exactly once iff it still holds one. */
void lemma_conservation(void) {
  size_t refs0 = VF_nondet_size_t(); __CPROVER_assume(refs0 <= 1);          /* the nest sender holds a unit or not */
  _Bool is_move = VF_nondet_bool(), threw = VF_nondet_bool(), open = VF_nondet_bool();
  /* connect's contract, summarised */
  size_t acquired = (!is_move && refs0 == 1 && open) ? 1 : 0;
  _Bool op_holds = !threw && (is_move ? refs0 == 1 : acquired == 1);
  size_t released_by_connect = (threw && (is_move ? refs0 == 1 : acquired == 1)) ? 1 : 0;
  size_t sender_holds = is_move ? 0 : refs0;
  size_t refs1 = refs0 + acquired - released_by_connect;
  VF_P(refs1 == sender_holds + (op_holds ? 1 : 0), "lemma: after connect the units held equal the live references (sender + operation)");
  /* later: the operation completes or is destroyed, the sender is destroyed */
  size_t refs2 = refs1 - (op_holds ? 1 : 0) - sender_holds;
  VF_P(refs2 == 0, "lemma: once the operation and the sender are gone every unit taken on the scope word has been given back (join is not blocked)");
  VF_P(!open ==> acquired == 0, "lemma: nothing is acquired after the close");
  VF_CANARY("lemma_conservation reachable");
}
