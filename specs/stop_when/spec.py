H = 'include/unifex/stop_when.hpp'
OPCLS = r'class _op<Source, Trigger, Receiver>::type \{'
SRCV = r'class _srcvr<Source, Trigger, Receiver>::type \{'
TRCV = r'class _trcvr<Source, Trigger, Receiver>::type \{'
CANCELCLS = r'class cancel_callback \{'

op_ctx = dict(
    cls='stop_when_op',
    members=['activeOpCount_'],
    methods=['notify_trigger_complete', 'notify_source_complete'],
    pre=[
        (r'stopCallback_\.emplace\(get_stop_token\(receiver_\), cancel_callback\{this\}\)', 'EV_cb_construct(self)'),
        (r'unifex::start\(sourceOp_\)', 'EV_start_source(self)'),
        (r'unifex::start\(triggerOp_\)', 'EV_start_trigger(self)'),
        (r'stopSource_\.stop_requested\(\)', 'EV_children_stop_requested(self)'),
        (r'stopSource_\.request_stop\(\)', 'EV_stop_children(self)'),
        (r'stopCallback_\.reset\(\)', 'EV_cb_destruct(self)'),
        # deliver_result(): std::visit over result_ calling the stored set_xxx on the receiver -> event stub (C05: the SOURCE's result)
        (r'(?<![\w>.])deliver_result\(\)', 'EV_deliver_result(self)'),
        (r'this->notify_trigger_complete\(\)', 'notify_trigger_complete()'),
    ],
)
cancel_ctx = dict(
    cls='cancel_callback',
    members=['op_'],
    methods=[],
    pre=[
        (r'op->stopSource_\.stop_requested\(\)', 'EV_children_stop_requested(op)'),
        (r'op->stopSource_\.request_stop\(\)', 'EV_stop_children(op)'),
        (r'op->deliver_result\(\)', 'EV_deliver_result(op)'),
    ],
)
rcv_pre = [
    # result_.emplace<tuple<tag_t<set_xxx>, decayed payload...>>(set_xxx, payload...): which channel is kept, the payload dropped.
    # A throwing emplace propagates out of a non-noexcept set_value (the source then signals set_error on the same receiver)
    (r'op_->result_\.template emplace<\s*std::tuple<tag_t<unifex::set_(\w+)>[^;]*;', r'if (EV_store_result(self, K_\1)) return;'),
]
src_ctx = dict(cls='source_receiver', members=['op_'], methods=[],
               obj_methods={'notify_source_complete': 'stop_when_op_notify_source_complete'}, pre=rcv_pre)
trg_ctx = dict(cls='trigger_receiver', members=['op_'], methods=[],
               obj_methods={'notify_trigger_complete': 'stop_when_op_notify_trigger_complete'}, pre=rcv_pre)

SPEC = dict(
    properties=['C01', 'C04', 'C05'],
    ctx={},
    extracts={
        'activeOpCount_init': dict(file=H, kind='expr', sig=r'std::atomic<int> activeOpCount_ = ([^;]*);', ctx=op_ctx),
        'start': dict(file=H, sig=r'void start\(\) & noexcept', within=OPCLS, ctx=op_ctx),
        'notify_source_complete': dict(file=H, sig=r'void notify_source_complete\(\) noexcept', within=OPCLS, ctx=op_ctx),
        'notify_trigger_complete': dict(file=H, sig=r'void notify_trigger_complete\(\) noexcept', within=OPCLS, ctx=op_ctx),
        'cancel_call': dict(file=H, sig=r'void operator\(\)\(\) noexcept', within=CANCELCLS, ctx=cancel_ctx),
        'src_set_value': dict(file=H, sig=r'void set_value\(Values&&\.\.\. values\) &&', within=SRCV, ctx=src_ctx),
        'src_set_error': dict(file=H, sig=r'void set_error\(Error&& error\) && noexcept', within=SRCV, ctx=src_ctx),
        'src_set_done': dict(file=H, sig=r'void set_done\(\) && noexcept', within=SRCV, ctx=src_ctx),
        'trg_set_value': dict(file=H, sig=r'void set_value\(\) && noexcept', within=TRCV, ctx=trg_ctx),
        'trg_set_error': dict(file=H, sig=r'void set_error\(Error&&\) && noexcept', within=TRCV, ctx=trg_ctx),
        'trg_set_done': dict(file=H, sig=r'void set_done\(\) && noexcept', within=TRCV, ctx=trg_ctx),
    },
    closed_world=[
        dict(file=H, members=['activeOpCount_', 'stopCallback_', 'stopSource_', 'result_'],
             allow=[r'std::atomic<int> activeOpCount_ = ', r'inplace_stop_source stopSource_;',
                    r'(?s)std::optional<typename stop_token_type_t<Receiver>::template callback_type<\s*cancel_callback>>\s*stopCallback_;',
                    r'UNIFEX_NO_UNIQUE_ADDRESS result_variant result_;',
                    # deliver_result(): std::visit over result_ (classified: event stub EV_deliver_result)
                    r'(?s)void deliver_result\(\) noexcept \{.*?std::move\(result_\)\);\s*\}',
                    # read-only accessors handing the children their stop token
                    r'(?s)inplace_stop_token get_stop_token\(\) const noexcept \{\s*return op_->stopSource_\.get_token\(\);\s*\}']),
    ],
    units=[
        dict(name='notify_trigger_complete', harness='h_notify_trigger_complete', enforce='stop_when_op_notify_trigger_complete'),
        dict(name='notify_source_complete', harness='h_notify_source_complete', enforce='stop_when_op_notify_source_complete',
             replace=['stop_when_op_notify_trigger_complete']),
        dict(name='cancel_callback_call', harness='h_cancel_call', enforce='cancel_callback_call'),
        dict(name='start', harness='h_start', enforce='stop_when_op_start', replace=['cancel_callback_call']),
        dict(name='source_set_value', harness='h_src_set_value', enforce='source_receiver_set_value', replace=['stop_when_op_notify_source_complete']),
        dict(name='source_set_error', harness='h_src_set_error', enforce='source_receiver_set_error', replace=['stop_when_op_notify_source_complete']),
        dict(name='source_set_done', harness='h_src_set_done', enforce='source_receiver_set_done', replace=['stop_when_op_notify_source_complete']),
        dict(name='trigger_set_value', harness='h_trg_set_value', enforce='trigger_receiver_set_value', replace=['stop_when_op_notify_trigger_complete']),
        dict(name='trigger_set_error', harness='h_trg_set_error', enforce='trigger_receiver_set_error', replace=['stop_when_op_notify_trigger_complete']),
        dict(name='trigger_set_done', harness='h_trg_set_done', enforce='trigger_receiver_set_done', replace=['stop_when_op_notify_trigger_complete']),
        dict(name='lemma_election', harness='lemma_election', mode='lemma'),
        dict(name='lemma_rely', harness='lemma_rely', mode='lemma'),
        dict(name='lemma_init', harness='lemma_init', mode='lemma'),
    ],
    assumptions=[
        'source and trigger each complete exactly once and not before they have been started (C01 for the children); each signals through exactly one of its receiver\'s set_value/set_error/set_done (a source whose set_value threw signals set_error afterwards)',
        'the stop callback is invoked at most once per registration, and stopCallback_.reset() returns only after a concurrent invocation has returned (C03, group stop_token)',
        'atomics sequentially consistent (memory orders dropped)',
        'deliver_result() is an event stub: std::visit over result_ invokes exactly the stored set_xxx on the receiver (set_error(current_exception) if a stored set_value throws); payloads dropped, the channel kept',
        'result_.emplace in the noexcept set_error/set_done does not throw (it would terminate)',
        'stopSource_.request_stop() may complete children synchronously: modelled as an environment step inside EV_stop_children; child operations themselves are not reached',
        'the operation may be destroyed by the receiver as soon as the completion signal was delivered, and by another owner as soon as the verified call gave up its unit without being elected (once both children have been started)',
        'C04-P1 reading: completing the receiver from inside the stop callback (cancel_callback elected) is admitted: a callback that is executing is no longer registered with its source',
    ],
    drops=['memory orders', 'template genericity (Source, Trigger, Receiver)', 'payload arguments of the source\'s signals (result_ keeps which set_xxx)',
           'deliver_result body (std::visit / std::apply / if constexpr over the variant) -> EV_deliver_result',
           'stopCallback_.emplace(...) -> EV_cb_construct (may run the callback inline), unifex::start(sourceOp_/triggerOp_) -> EV_start_source / EV_start_trigger',
           'a throwing result_.emplace in set_value -> early return with ghost `propagated`'],
)
