/* C01 / C04 / C05: stop_when's reference-count election (include/unifex/stop_when.hpp), N = 2 (source, trigger).
 *
 * M1 on activeOpCount_ under rely/guarantee with the ghost of DESIGN Appendix A.1:
 *   c = activeOpCount_, ks / kt = source / trigger has not released its unit, a = the cancel callback is between its
 *   fetch_add and its fetch_sub, e = the election happened, z = dead increment, f = the callback has fired,
 *   rk = which set_xxx the source stored in result_ (0 = nothing yet).
 * Differences to when_all: both notify paths request stop on the children unconditionally before their decrement; the
 * cancel callback delivers the result itself when its decrement is the last (from inside the callback, without
 * destroying its own registration: admitted by C04-P1 "executing on this thread"); the result is the SOURCE's result.
 * Bodies marked @BODY / @EXPR are extracted from /repo on every run; everything else is specification. */
#include <stddef.h>
#include <stdint.h>

struct stop_when_op { int activeOpCount_; };
struct source_receiver { struct stop_when_op* op_; };
struct trigger_receiver { struct stop_when_op* op_; };
struct cancel_callback { struct stop_when_op* op_; };

enum { ROLE_NONE, ROLE_SRC, ROLE_TRG, ROLE_CB };
enum { K_NONE, K_value, K_error, K_done, K_exception };        /* which set_xxx (names follow the source text: tag_t<unifex::set_xxx>) */
enum { CB_NONE, CB_REGISTERED, CB_EXEC_ME, CB_DESTRUCTED };    /* registration on the receiver's token */

struct pst_g { _Bool ks, kt, a, e, z, f; int rk; };
struct pst { int c; struct pst_g g; };                         /* protocol state: the real word + ghost */

struct vf_ghost {
  struct pst_g p;            /* protocol ghost (shared with the environment) */
  _Bool s_started, t_started;
  int role; unsigned mine;   /* the verified call: who it is, how many units of activeOpCount_ it owns */
  int my_kind;               /* which set_xxx of the receiver is being verified */
  unsigned incs, decs; int inc_old, dec_old;      /* my writes to activeOpCount_ and the values they saw */
  _Bool elected;             /* my fetch_sub returned 1 */
  unsigned completed; int channel;
  int cb_state; unsigned cb_constructs, cb_destructs;
  unsigned stopped_children, src_starts, trg_starts;
  unsigned result_stores; _Bool propagated, dv_threw;
  _Bool dead; struct stop_when_op snap;
};
static struct vf_ghost G;
static struct stop_when_op OP;
static struct source_receiver SRCV;
static struct trigger_receiver TRCV;
static struct cancel_callback CANCEL;

static void vf_guar(void* p, uint64_t o, uint64_t n);
#define VF_G(p, o, n) vf_guar((void*)(p), (uint64_t)(int64_t)(o), (uint64_t)(int64_t)(n))
#include "vf.h"
/* an uninitialised _Bool may hold any byte in CBMC: normalise */
static _Bool vf_nb(void) { return VF_nondet_bool() ? 1 : 0; }

#define activeOpCount_INIT (/*@EXPR activeOpCount_init*/)

/* ---------------- protocol predicates (Appendix A.1, N = 2) ---------------- */
#define B(x) ((x) != 0)   /* a havocked _Bool may hold any byte: compare truth values only */
#define I(x) ((x) ? 1 : 0)
#define INV_(c, ks, kt, a, e, z, f, rk) ( \
     ((e) ? (!(ks) && !(kt) && !(a) && (c) == I(z)) : ((c) == I(ks) + I(kt) + I(a) && (c) >= 1)) \
  && (!(a) || (f)) && (!(z) || ((f) && (e))) && (rk) >= K_NONE && (rk) <= K_done \
  && ((ks) || (rk) != K_NONE) )                     /* the source has released its unit => its result is stored */
#define INV(s) INV_((s).c, (s).g.ks, (s).g.kt, (s).g.a, (s).g.e, (s).g.z, (s).g.f, (s).g.rk)
#define INV_NOW INV_(OP.activeOpCount_, G.p.ks, G.p.kt, G.p.a, G.p.e, G.p.z, G.p.f, G.p.rk)
#define SAME_CB(o, n) (B((n).g.a) == B((o).g.a) && B((n).g.z) == B((o).g.z) && B((n).g.f) == B((o).g.f))
#define SAME_K(o, n) (B((n).g.ks) == B((o).g.ks) && B((n).g.kt) == B((o).g.kt))
/* the steps any party may take (guarantee) */
#define STEP_SRC_DONE(o, n) ((o).g.ks && !(n).g.ks && (o).g.rk != K_NONE && B((n).g.kt) == B((o).g.kt) && (n).c == (o).c - 1 && B((n).g.e) == ((o).c == 1) && !(o).g.e && SAME_CB(o, n) && (n).g.rk == (o).g.rk)
#define STEP_TRG_DONE(o, n) ((o).g.kt && !(n).g.kt && B((n).g.ks) == B((o).g.ks) && (n).c == (o).c - 1 && B((n).g.e) == ((o).c == 1) && !(o).g.e && SAME_CB(o, n) && (n).g.rk == (o).g.rk)
#define STEP_CB_ENTER(o, n) (!(o).g.f && (n).g.f && SAME_K(o, n) && B((n).g.e) == B((o).g.e) && (n).g.rk == (o).g.rk \
  && ((o).c == 0 ? ((n).c == 1 && (n).g.z && B((n).g.a) == B((o).g.a)) : ((n).c == (o).c + 1 && !(o).g.a && (n).g.a && B((n).g.z) == B((o).g.z))))
#define STEP_CB_EXIT(o, n) ((o).g.a && !(n).g.a && (n).c == (o).c - 1 && B((n).g.e) == ((o).c == 1) && !(o).g.e && SAME_K(o, n) && B((n).g.z) == B((o).g.z) && B((n).g.f) == B((o).g.f) && (n).g.rk == (o).g.rk)
#define STEP_STORE(o, n, kind) ((o).g.ks && (o).g.rk == K_NONE && (n).g.rk == (kind) && (kind) >= K_value && (kind) <= K_done && (n).c == (o).c && SAME_K(o, n) && B((n).g.e) == B((o).g.e) && SAME_CB(o, n))

/* rely of a call with role R owning `mine` units: any state satisfying Inv reachable by the others' steps */
#define RELY_(o, n, role, mine, s_started, t_started) ( INV(n) \
  && (!(o).g.ks ? !(n).g.ks : 1) && (!(o).g.kt ? !(n).g.kt : 1) && (!(o).g.e || (n).g.e) && (!(o).g.f || (n).g.f) && (!(o).g.z || (n).g.z) \
  && (!((o).g.f && !(o).g.a) || !(n).g.a)                                  /* C03: a callback that has returned does not run again */ \
  && ((s_started) || (B((n).g.ks) == B((o).g.ks) && (n).g.rk == (o).g.rk)) /* a child does nothing before it is started */ \
  && ((t_started) || B((n).g.kt) == B((o).g.kt)) \
  && ((o).g.rk == K_NONE || (n).g.rk == (o).g.rk)                           /* result_ is stored once */ \
  && ((role) != ROLE_SRC || ((n).g.rk == (o).g.rk && ((mine) == 0 || (n).g.ks)))   /* I am the source: only I store the result; nobody consumes my unit */ \
  && ((role) != ROLE_TRG || (mine) == 0 || (n).g.kt) \
  && ((role) != ROLE_CB || (B((n).g.a) == ((mine) == 1) && B((n).g.f) == B((o).g.f) && B((n).g.z) == B((o).g.z))) /* I am the callback: nobody else plays it */ )
#define RELY(o, n) RELY_(o, n, G.role, G.mine, G.s_started, G.t_started)

static struct pst pst_now(void) { struct pst s; s.c = OP.activeOpCount_; s.g = G.p; return s; }
static void pst_set(struct pst s) { OP.activeOpCount_ = s.c; G.p = s.g; }
static struct pst pst_nondet(void) {
  struct pst n; n.c = VF_nondet_int();
  n.g.ks = vf_nb(); n.g.kt = vf_nb(); n.g.a = vf_nb(); n.g.e = vf_nb(); n.g.z = vf_nb(); n.g.f = vf_nb(); n.g.rk = VF_nondet_int();
  return n;
}
static void vf_env(void) {
  struct pst o = pst_now(), n = pst_nondet();
  __CPROVER_assume(RELY(o, n));
  pst_set(n);
}
#define DEAD_MSG "no access to the operation after it may have been destroyed (completion delivered, or unit given up without being elected)"
static void vf_interfere(void) {
  VF_P(!G.dead, "atomic access: " DEAD_MSG);
  if (!G.dead) vf_env();
}
static void vf_die(void) {
  struct stop_when_op f; f.activeOpCount_ = VF_nondet_int();
  OP = f; G.snap = f; G.dead = 1;
}
#define UNTOUCHED (!G.dead || OP.activeOpCount_ == G.snap.activeOpCount_)
#define ALL_STARTED (G.s_started && G.t_started)

static void vf_guar(void* p, uint64_t o, uint64_t n) {
  struct pst s0 = pst_now(), s1 = s0;
  VF_P(!G.dead, "atomic write: " DEAD_MSG);
  if (p == (void*)&OP.activeOpCount_) {
    s1.c = (int)(int64_t)n;
    if (n == o + 1) {
      VF_P(G.role == ROLE_CB && G.mine == 0, "guarantee: activeOpCount_ is incremented only by the cancel callback, while it owns no unit");
      s1.g.f = 1; if (o == 0) s1.g.z = 1; else s1.g.a = 1;
      VF_P(STEP_CB_ENTER(s0, s1), "guarantee: the increment is the callback's cb_enter step (at most once per registration)");
      G.incs++; G.inc_old = (int)(int64_t)o; if (o != 0) G.mine = 1;
      G.p = s1.g;
    } else {
      VF_P(G.mine == 1, "guarantee: a unit of activeOpCount_ is released only by a party that owns one (source / trigger that has not signalled yet, the running cancel callback)");
      VF_P(G.stopped_children >= 1, "C04: stopSource_.request_stop() is called before the decrement (both notify paths unconditionally; the callback between its increment and its decrement)");
      s1.g.e = (o == 1);
      if (G.role == ROLE_CB) { s1.g.a = 0; VF_P(STEP_CB_EXIT(s0, s1), "guarantee: the callback's decrement is its cb_exit step"); }
      else if (G.role == ROLE_SRC) { s1.g.ks = 0; VF_P(STEP_SRC_DONE(s0, s1), "guarantee / C05: the source's decrement is its done step: its result is stored before its unit is released"); }
      else { s1.g.kt = 0; VF_P(G.role == ROLE_TRG && STEP_TRG_DONE(s0, s1), "guarantee: the trigger's decrement is its done step"); }
      G.decs++; G.dec_old = (int)(int64_t)o; G.mine = 0; if (o == 1) G.elected = 1;
      G.p = s1.g;
      /* not elected: the remaining owners may finish and the receiver may destroy the operation at any time
       * (not while a child has not been started: it pins the operation) */
      if (o != 1 && ALL_STARTED) { vf_die(); G.snap.activeOpCount_ = (int)(int64_t)n; }
    }
  } else {
    VF_P(0, "atomic write to an unexpected location");
  }
}

/* ---------------- event stubs (C++-only callees) ---------------- */
void cancel_callback_call(struct cancel_callback* self);

/* stopCallback_.emplace(get_stop_token(receiver_), cancel_callback{this}): registers; if the token is already stopped
 * the callback runs inline, on this thread */
static void EV_cb_construct(struct stop_when_op* self) {
  VF_P(!G.dead, "stopCallback_.emplace: " DEAD_MSG);
  VF_P(G.cb_state == CB_NONE, "the stop callback is constructed at most once");
  VF_P(G.completed == 0, "no registration on the receiver's token after the receiver was completed");
  G.cb_constructs++;
  G.cb_state = CB_REGISTERED;
  if (VF_nondet_bool()) {
    VF_CANARY("stop callback can run inline inside emplace");
    int r = G.role; G.role = ROLE_CB; G.cb_state = CB_EXEC_ME;
    cancel_callback_call(&CANCEL);
    G.role = r; if (G.cb_state == CB_EXEC_ME) G.cb_state = CB_REGISTERED;
  }
}
/* unifex::start(sourceOp_): the source may complete synchronously; the trigger (not started yet) still pins the operation */
static void EV_start_source(struct stop_when_op* self) {
  VF_P(!G.dead, "start(sourceOp_): " DEAD_MSG);
  VF_P(!G.s_started, "the source is started once");
  VF_P(G.cb_state == CB_REGISTERED, "C04: the stop callback is registered before the children are started (a stop request in between must not be lost)");
  G.s_started = 1; G.src_starts++;
  vf_env();
  if (ALL_STARTED) vf_die();
}
static void EV_start_trigger(struct stop_when_op* self) {
  VF_P(!G.dead, "start(triggerOp_): " DEAD_MSG);
  VF_P(!G.t_started, "the trigger is started once");
  VF_P(G.cb_state == CB_REGISTERED, "C04: the stop callback is registered before the children are started (a stop request in between must not be lost)");
  G.t_started = 1; G.trg_starts++;
  vf_env();
  if (ALL_STARTED) vf_die();
}
/* stopSource_.request_stop(): children observe the request; they may complete synchronously inside */
/* stopSource_.stop_requested(): true once anybody asked the children to stop (this call or another party) */
static _Bool EV_children_stop_requested(struct stop_when_op* self) {
  VF_P(!G.dead, "stopSource_.stop_requested(): " DEAD_MSG);
  return G.stopped_children > 0 ? 1 : VF_nondet_bool();
}
static void EV_stop_children(struct stop_when_op* self) {
  VF_P(!G.dead, "stopSource_.request_stop(): " DEAD_MSG);
  VF_P(G.mine == 1, "C04: the children are told to stop while the caller pins the operation with a unit it owns (not after giving it up)");
  G.stopped_children++;
  vf_env();
}
static void EV_cb_destruct(struct stop_when_op* self) {
  VF_P(!G.dead, "stopCallback_.reset(): " DEAD_MSG);
  VF_P(G.completed == 0, "C04: the stop callback is deregistered BEFORE the receiver is completed");
  VF_P(G.cb_state == CB_REGISTERED || G.cb_state == CB_EXEC_ME, "the stop callback is destroyed exactly once, after it was constructed");
  VF_P(G.elected, "only the elected completer deregisters the stop callback (until then stop requests must reach the children)");
  G.cb_state = CB_DESTRUCTED; G.cb_destructs++;
}
/* deliver_result(): std::visit over result_ -> the stored set_xxx on the receiver; a throwing set_value -> set_error(current_exception) */
static void EV_deliver_result(struct stop_when_op* self) {
  VF_CANARY("deliver_result reachable");
  VF_P(G.completed == 0, "C01: at most one completion signal per operation");
  VF_P(!G.dead, "completion signal: " DEAD_MSG);
  VF_P(G.elected, "C01: the result is delivered only by the party whose fetch_sub returned 1");
  VF_P(G.cb_state != CB_REGISTERED, "C04: the stop callback is deregistered (reset), or executing on this thread, when the receiver is completed");
  VF_P(G.p.rk != K_NONE, "C05: the source's result is available when the result is delivered (no std::terminate on the empty variant)");
  G.completed++; G.channel = G.p.rk;
  if (G.p.rk == K_value && VF_nondet_bool()) { G.dv_threw = 1; G.channel = K_exception; }
  vf_die();   /* the receiver may destroy the operation */
}
/* receivers: result_.emplace<tuple<tag_t<set_xxx>, ...>>(...) : may throw only in the (non-noexcept) set_value */
static _Bool vf_store_result(int kind) {
  VF_P(!G.dead, "result_ store: " DEAD_MSG);
  VF_P(G.role == ROLE_SRC && G.mine == 1, "C05: result_ is written only by the source, while it still owns its unit");
  VF_P(kind == G.my_kind, "C05: the stored result is the signal the source delivered");
  if (kind == K_value && VF_nondet_bool()) { G.propagated = 1; return 1; }   /* the copy threw: the exception propagates to the source */
  struct pst s0 = pst_now(), s1 = s0;
  s1.g.rk = kind;
  VF_P(STEP_STORE(s0, s1, kind), "guarantee: result_ is stored once, by the source");
  G.p.rk = kind; G.result_stores++;
  return 0;
}
static _Bool EV_store_result(void* self, int kind) { return vf_store_result(kind); }

/* ---------------- contracts ---------------- */
#define EXPECTED_CHANNEL (G.dv_threw ? K_exception : G.p.rk)   /* C05: the SOURCE's result */
#define A_RELEASE OP, G.p, G.completed, G.channel, G.dead, G.snap, G.dv_threw, G.cb_state, G.cb_destructs, G.mine, G.decs, G.dec_old, G.elected, G.stopped_children
#define A_CALLBACK A_RELEASE, G.incs, G.inc_old

#define FRESH_CALL (G.incs == 0 && G.decs == 0 && !G.elected && G.completed == 0 && !G.dead && !G.dv_threw && G.cb_destructs == 0 && G.stopped_children == 0)
/* a child's notify_*_complete: it owns one unit; the source has stored its result */
#define CHILD_PRE (FRESH_CALL && INV_NOW && G.mine == 1 && G.cb_state == CB_REGISTERED \
   && ((G.role == ROLE_SRC && G.p.ks && G.s_started && G.p.rk != K_NONE) || (G.role == ROLE_TRG && G.p.kt && G.t_started)))
#define CALLBACK_PRE (FRESH_CALL && INV_NOW && G.role == ROLE_CB && G.mine == 0 && !G.p.f && !G.p.a && G.cb_state == CB_EXEC_ME)
/* "I hold one unit and release it" (C01/C04/C05): stop is requested on the children exactly once, before the single
 * decrement; the result is delivered iff that decrement returned 1, then it is the source's result and the callback is
 * no longer registered; nothing is touched once the operation may be gone */
#define RELEASE_POST (G.decs == 1 && G.mine == 0 && G.stopped_children == 1 && G.completed <= 1 && ((G.completed == 1) == (G.dec_old == 1)) \
   && (G.completed == 1 ==> (G.elected && G.channel == EXPECTED_CHANNEL && G.p.rk != K_NONE \
        && (G.role == ROLE_CB ? (G.cb_state == CB_EXEC_ME && G.cb_destructs == 0) : (G.cb_state == CB_DESTRUCTED && G.cb_destructs == 1)))) \
   && (G.completed == 0 ==> G.cb_destructs == 0) \
   && (G.dec_old != 1 || (G.p.e && !G.p.ks && !G.p.kt)) && B(G.dead) == (G.completed == 1 || ALL_STARTED) && UNTOUCHED && (G.dead || INV_NOW))
#define RELEASE_FRAME ((__CPROVER_old(G.p.rk) == K_NONE || G.p.rk == __CPROVER_old(G.p.rk)) && (G.role != ROLE_SRC || G.p.rk == __CPROVER_old(G.p.rk)) \
   && (G.s_started || B(G.p.ks) == B(__CPROVER_old(G.p.ks))) && (G.t_started || B(G.p.kt) == B(__CPROVER_old(G.p.kt))) \
   && (G.completed == 1 || G.cb_state == __CPROVER_old(G.cb_state)))
#define CALLBACK_POST (G.incs == 1 && G.p.f && UNTOUCHED && (G.dead || INV_NOW) \
   && (G.inc_old == 0 ==> (G.p.e && G.p.z && G.decs == 0 && G.stopped_children == 0 && G.completed == 0 && !G.dead && G.cb_destructs == 0 && G.mine == 0)) \
   && (G.inc_old != 0 ==> RELEASE_POST))

void stop_when_op_notify_trigger_complete(struct stop_when_op* self)
__CPROVER_requires(self == &OP && CHILD_PRE) /*P*/
__CPROVER_assigns(A_RELEASE)
__CPROVER_ensures(RELEASE_POST)
__CPROVER_ensures(RELEASE_FRAME)
/*@BODY notify_trigger_complete*/

void stop_when_op_notify_source_complete(struct stop_when_op* self)
__CPROVER_requires(self == &OP && CHILD_PRE && G.role == ROLE_SRC) /*P*/
__CPROVER_assigns(A_RELEASE)
__CPROVER_ensures(RELEASE_POST)
__CPROVER_ensures(RELEASE_FRAME)
/*@BODY notify_source_complete*/

void cancel_callback_call(struct cancel_callback* self)
__CPROVER_requires(self == &CANCEL && CANCEL.op_ == &OP && CALLBACK_PRE)
__CPROVER_assigns(A_CALLBACK)
__CPROVER_ensures(CALLBACK_POST)
__CPROVER_ensures(RELEASE_FRAME)
/*@BODY cancel_call*/

void stop_when_op_start(struct stop_when_op* self)
__CPROVER_requires(self == &OP && FRESH_CALL && INV_NOW && G.role == ROLE_NONE && G.mine == 0 && !G.s_started && !G.t_started && G.src_starts == 0 && G.trg_starts == 0)
__CPROVER_requires(G.cb_state == CB_NONE && G.cb_constructs == 0)
__CPROVER_requires(OP.activeOpCount_ == activeOpCount_INIT && G.p.ks && G.p.kt && !G.p.a && !G.p.e && !G.p.f && !G.p.z && G.p.rk == K_NONE) /* freshly constructed (lemma_init) */
__CPROVER_assigns(A_CALLBACK, G.role, G.cb_constructs, G.s_started, G.t_started, G.src_starts, G.trg_starts)
__CPROVER_ensures(G.completed == 0) /* C01: start() itself delivers nothing; a completion during start() comes from a child's own completion */
__CPROVER_ensures(G.cb_constructs == 1 && G.cb_state == CB_REGISTERED && G.cb_destructs == 0) /* C04: registered on the receiver's token, not deregistered by start() */
__CPROVER_ensures(G.src_starts == 1 && G.trg_starts == 1 && G.dead && UNTOUCHED) /* both children started once; nothing touched after the last child was started */
__CPROVER_ensures(G.incs == 0 || G.stopped_children == 1) /* C04: a stop request that arrived before start() reaches the (not yet started) children's token */
/*@BODY start*/

/* source receiver: stores which set_xxx, then releases the source's unit */
#define SRC_PRE(kind) (self == &SRCV && SRCV.op_ == &OP && FRESH_CALL && INV_NOW && G.role == ROLE_SRC && G.mine == 1 && G.p.ks && G.s_started && G.p.rk == K_NONE \
   && G.cb_state == CB_REGISTERED && G.my_kind == (kind) && G.result_stores == 0 && !G.propagated)
void source_receiver_set_value(struct source_receiver* self)
__CPROVER_requires(SRC_PRE(K_value))
__CPROVER_assigns(A_RELEASE, G.result_stores, G.propagated)
__CPROVER_ensures(!G.propagated ==> (RELEASE_POST && G.result_stores == 1 && G.p.rk == K_value)) /* C05: the source's value is what will be delivered */
__CPROVER_ensures(G.propagated ==> (G.decs == 0 && G.mine == 1 && G.result_stores == 0 && G.p.rk == K_NONE && G.completed == 0 && !G.dead && G.stopped_children == 0)) /* a throwing store: nothing released, the source will signal set_error */
/*@BODY src_set_value*/

void source_receiver_set_error(struct source_receiver* self)
__CPROVER_requires(SRC_PRE(K_error))
__CPROVER_assigns(A_RELEASE, G.result_stores, G.propagated)
__CPROVER_ensures(RELEASE_POST && G.result_stores == 1 && G.p.rk == K_error && !G.propagated)
/*@BODY src_set_error*/

void source_receiver_set_done(struct source_receiver* self)
__CPROVER_requires(SRC_PRE(K_done))
__CPROVER_assigns(A_RELEASE, G.result_stores, G.propagated)
__CPROVER_ensures(RELEASE_POST && G.result_stores == 1 && G.p.rk == K_done && !G.propagated)
/*@BODY src_set_done*/

/* trigger receiver: whatever the trigger signals only releases its unit; it never writes result_ */
#define TRG_PRE (self == &TRCV && TRCV.op_ == &OP && CHILD_PRE && G.role == ROLE_TRG && G.result_stores == 0)
void trigger_receiver_set_value(struct trigger_receiver* self)
__CPROVER_requires(TRG_PRE)
__CPROVER_assigns(A_RELEASE)
__CPROVER_ensures(RELEASE_POST && G.result_stores == 0)
/*@BODY trg_set_value*/

void trigger_receiver_set_error(struct trigger_receiver* self)
__CPROVER_requires(TRG_PRE)
__CPROVER_assigns(A_RELEASE)
__CPROVER_ensures(RELEASE_POST && G.result_stores == 0)
/*@BODY trg_set_error*/

void trigger_receiver_set_done(struct trigger_receiver* self)
__CPROVER_requires(TRG_PRE)
__CPROVER_assigns(A_RELEASE)
__CPROVER_ensures(RELEASE_POST && G.result_stores == 0)
/*@BODY trg_set_done*/

/* ---------------- harnesses ---------------- */
static void h_havoc(void) {
  pst_set(pst_nondet());
  G.s_started = vf_nb(); G.t_started = vf_nb(); G.role = VF_nondet_int(); G.mine = VF_nondet_u32(); G.my_kind = VF_nondet_int();
  G.incs = VF_nondet_u32(); G.decs = VF_nondet_u32(); G.inc_old = VF_nondet_int(); G.dec_old = VF_nondet_int();
  G.elected = vf_nb(); G.completed = VF_nondet_u32(); G.channel = K_NONE;
  G.cb_state = VF_nondet_int(); G.cb_constructs = VF_nondet_u32(); G.cb_destructs = VF_nondet_u32();
  G.stopped_children = VF_nondet_u32(); G.src_starts = VF_nondet_u32(); G.trg_starts = VF_nondet_u32();
  G.result_stores = VF_nondet_u32(); G.propagated = vf_nb(); G.dv_threw = vf_nb();
  G.dead = vf_nb(); G.snap = OP;
  SRCV.op_ = &OP; TRCV.op_ = &OP; CANCEL.op_ = &OP;
}
void h_notify_trigger_complete(void) {
  h_havoc(); stop_when_op_notify_trigger_complete(&OP);
  VF_CANARY("after notify_trigger_complete");
  if (G.completed) { VF_CANARY("notify_trigger_complete can be the elected completer"); } else { VF_CANARY("notify_trigger_complete can be a non-last owner"); }
  if (G.role == ROLE_SRC) { VF_CANARY("called for the source"); } else { VF_CANARY("called for the trigger"); }
  if (G.completed && G.channel == K_done) { VF_CANARY("delivers done"); }
  if (G.completed && G.channel == K_exception) { VF_CANARY("delivers the exception of a throwing set_value"); }
}
void h_notify_source_complete(void) { h_havoc(); stop_when_op_notify_source_complete(&OP); VF_CANARY("after notify_source_complete"); if (G.completed) { VF_CANARY("notify_source_complete can be the elected completer"); } }
void h_cancel_call(void) {
  h_havoc(); cancel_callback_call(&CANCEL);
  VF_CANARY("after cancel_callback::operator()");
  if (G.inc_old == 0) { VF_CANARY("cancel callback after the election (dead increment)"); }
  if (G.completed) { VF_CANARY("cancel callback can deliver the result"); } else if (G.inc_old != 0) { VF_CANARY("cancel callback can be a non-last owner"); }
}
void h_start(void) { h_havoc(); stop_when_op_start(&OP); VF_CANARY("after start"); if (G.incs) { VF_CANARY("start with the token already stopped"); } }
void h_src_set_value(void) { h_havoc(); source_receiver_set_value(&SRCV); VF_CANARY("after source set_value"); if (G.propagated) { VF_CANARY("result store can throw"); } if (G.completed) { VF_CANARY("source set_value can deliver"); } }
void h_src_set_error(void) { h_havoc(); source_receiver_set_error(&SRCV); VF_CANARY("after source set_error"); }
void h_src_set_done(void) { h_havoc(); source_receiver_set_done(&SRCV); VF_CANARY("after source set_done"); }
void h_trg_set_value(void) { h_havoc(); trigger_receiver_set_value(&TRCV); VF_CANARY("after trigger set_value"); if (G.completed) { VF_CANARY("trigger set_value can deliver"); } }
void h_trg_set_error(void) { h_havoc(); trigger_receiver_set_error(&TRCV); VF_CANARY("after trigger set_error"); }
void h_trg_set_done(void) { h_havoc(); trigger_receiver_set_done(&TRCV); VF_CANARY("after trigger set_done"); }

/* ---------------- M4 lemmas over the contracts' predicates ---------------- */
static int vf_step(struct pst o, struct pst n, int step, int kind) {
  switch (step) {
  case 0: return STEP_SRC_DONE(o, n);
  case 1: return STEP_TRG_DONE(o, n);
  case 2: return STEP_CB_ENTER(o, n);
  case 3: return STEP_CB_EXIT(o, n);
  default: return STEP_STORE(o, n, kind);
  }
}
void lemma_election(void) {
  struct pst o = pst_nondet(), n = pst_nondet();
  int step = VF_nondet_int(), kind = VF_nondet_int();
  __CPROVER_assume(step >= 0 && step <= 4);
  __CPROVER_assume(INV(o));
  VF_P((!o.g.ks && !o.g.kt && !o.g.a) ==> o.g.e, "lemma: both children signalled and no callback active => the election has happened (no lost completion)");
  VF_P(o.g.e ==> (o.c == 0 || o.c == 1), "lemma: after the election the count is 0 (or 1: the dead increment)");
  VF_P(o.g.e ==> o.g.rk != K_NONE, "lemma (C05): at the election the source's result is stored");
  VF_P(o.c <= 3 && o.c >= 0, "lemma: the count stays within 0..3");
  __CPROVER_assume(vf_step(o, n, step, kind));
  VF_CANARY("lemma_election premises satisfiable");
  if (step == 0) { VF_CANARY("source done enabled"); } if (step == 1) { VF_CANARY("trigger done enabled"); } if (step == 2) { VF_CANARY("cb_enter enabled"); }
  if (step == 3) { VF_CANARY("cb_exit enabled"); } if (step == 4) { VF_CANARY("store enabled"); }
  _Bool dec = (step == 0 || step == 1 || step == 3);
  VF_P(INV(n), "lemma: Inv is inductive for source done / trigger done / cb_enter / cb_exit / store");
  VF_P((!o.g.e && n.g.e) ==> (dec && o.c == 1 && n.c == 0 && !n.g.ks && !n.g.kt && !n.g.a), "lemma: the election is the count's transition 1 -> 0 by a real owner's decrement");
  VF_P((dec && o.c == 1) ==> (!o.g.e && n.g.e), "lemma: the decrement that returns 1 is the election");
  VF_P(o.g.e ==> (step == 2 && n.g.e && n.g.z && !n.g.ks && !n.g.kt && !n.g.a && n.g.rk == o.g.rk), "lemma: after the election only the late callback's dead increment is enabled (election at most once)");
  VF_P(dec ==> !o.g.e, "lemma: no decrement after the election (exactly one fetch_sub returns 1)");
  VF_P((o.g.rk != K_NONE) ==> (n.g.rk == o.g.rk), "lemma (C05): the stored result never changes: what is delivered is what the source signalled");
}
void lemma_rely(void) {
  struct pst o = pst_nondet(), n = pst_nondet();
  int step = VF_nondet_int(), kind = VF_nondet_int();
  int roleB = VF_nondet_int(); unsigned mineB = VF_nondet_u32(); _Bool s_started = vf_nb(), t_started = vf_nb();
  __CPROVER_assume(step >= 0 && step <= 4 && roleB >= ROLE_NONE && roleB <= ROLE_CB && mineB <= 1);
  __CPROVER_assume(INV(o) && vf_step(o, n, step, kind));
  /* the stepping party A is not B */
  _Bool a_is_src = (step == 0 || step == 4), a_is_trg = (step == 1), a_is_cb = (step == 2 || step == 3);
  __CPROVER_assume(!(a_is_src && roleB == ROLE_SRC) && !(a_is_trg && roleB == ROLE_TRG) && !(a_is_cb && roleB == ROLE_CB));
  /* B's ownership is consistent with the state */
  __CPROVER_assume(roleB != ROLE_SRC || mineB == 0 || o.g.ks);
  __CPROVER_assume(roleB != ROLE_TRG || mineB == 0 || o.g.kt);
  __CPROVER_assume(roleB != ROLE_CB || B(o.g.a) == (mineB == 1));
  __CPROVER_assume(!a_is_src || s_started);   /* a child acts only after it was started */
  __CPROVER_assume(!a_is_trg || t_started);
  VF_CANARY("lemma_rely premises satisfiable");
  VF_P(RELY_(o, n, roleB, mineB, s_started, t_started), "lemma: every guarantee step of a party is allowed by the rely of every other party");
}
void lemma_init(void) {
  struct pst s; s.c = activeOpCount_INIT;
  s.g.ks = 1; s.g.kt = 1; s.g.a = 0; s.g.e = 0; s.g.z = 0; s.g.f = 0; s.g.rk = K_NONE;
  VF_CANARY("lemma_init reachable");
  VF_P(INV(s), "lemma: a freshly constructed operation satisfies Inv with both children pending (activeOpCount_ initialiser)");
  VF_P(s.c == 2, "lemma: activeOpCount_ starts at the number of children, 2");
}
