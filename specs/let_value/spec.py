H = 'include/unifex/let_value.hpp'
SUCC = r'struct _successor_receiver<Operation, Values\.\.\.>::type \{'
PRED = r'struct _predecessor_receiver<Operation>::type \{'
OP = r'struct _op<Predecessor, SuccessorFactory, Receiver>::type \{'

# UNIFEX_TRY { A } UNIFEX_CATCH(...) { B }  ->  { A' } if (0) { vf_catch: ; B }   (DESIGN 3.1, last row; per-spec regexes as in when_all)
TRY_CATCH = [(r'UNIFEX_TRY\s*\{', '{'),
             (r'\}\s*UNIFEX_CATCH\s*\(\.\.\.\)\s*\{', '} if (0) { vf_catch: ;')]
# every access to the operation / to the receiver object asserts that the object still exists (no statement changed)
ALIVE = [(r'\bop->', 'VF_ALIVE(op)->'), (r'\bself->op_\b', 'VF_RCV_ALIVE(self)->op_'), (r'(VF_RCV_ALIVE\(self\)->op_)->', r'VF_ALIVE(\1)->')]
# UNIFEX_ASSERT_CLEANUP(cond) is UNIFEX_ASSERT(cond) unless UNIFEX_DISABLE_LET_VALUE_CLEANUP_ASSERTS is defined (default configuration)
ASSERT_CLEANUP = [(r'\bUNIFEX_ASSERT_CLEANUP\(', 'UNIFEX_ASSERT(')]
# static member functions named through the class: Operation::template f<Values...> / op_.f  ->  the C function lv_op_f
FN_NAMES = [(r'Operation::template (\w+)<Values\.\.\.>', r'lv_op_\1'), (r'\bop_\.deactivatePredOp\b', 'lv_op_deactivatePredOp')]

op_ctx = dict(
    cls='lv_op', members=['cleanup_'], methods=[],
    pre=[
        # constructor: connect(predecessor) into predOp_; an exception leaves the constructor (`return` = unwinding)
        (r'(?s)unifex::activate_union_member_with\(\s*(pred)Op_,\s*\[&\]\s*\{\s*return unifex::connect\([^;]*;\s*\}\s*\);', r'if (EV_activate(this, SL_\1)) return;'),
        (r'unifex::start\(\s*(pred)Op_\.get\(\)\s*\)', r'EV_start(this, SL_\1)'),
        # the three cleanup functions (static members taking `self`)
        (r'(?s)unifex::deactivate_union_member(?:<successor_operation<Values\.\.\.>>)?\(\s*self->(pred|succ)Op_\)', r'EV_deactivate(self, SL_\1)'),
        (r'(?s)self->(values)_\.template destruct<decayed_tuple<Values\.\.\.>>\(\)', r'EV_destruct(self, SL_\1)'),
        # ~type(): the indirect call through the discriminator
        (r'(?<![\w.>])cleanup_\(this\)', 'VF_CALL_CLEANUP(cleanup_, this)'),
    ],
    post=[(r'\bself->', 'VF_ALIVE(self)->')],
)
pred_ctx = dict(
    cls='pred_rcv', members=['op_'], methods=[],
    pre=ASSERT_CLEANUP + FN_NAMES + [
        (r'auto& op = op_;', 'struct lv_op* op = op_;'),
        # values_.construct<decayed_tuple<Values...>>(values...): decay-copies of the predecessor's values (may throw)
        (r'(?s)auto& valueTuple =\s*op\.(values)_\.template construct<decayed_tuple<Values\.\.\.>>\(\s*std::forward<Values>\(values\)\.\.\.\);',
         r'if (EV_construct(op, SL_\1)) goto vf_catch;'),
        # the indirect call through the discriminator
        (r'std::exchange\(op\.cleanup_, nullptr\)\(&op\)', 'VF_CALL_CLEANUP(std::exchange(op.cleanup_, nullptr), op)'),
        (r'(?s)!is_nothrow_connectable_v<\s*successor_type<Values\.\.\.>,\s*successor_receiver<Operation, Values\.\.\.>>', '!VF_CFG_nothrow_connect'),
        (r'(?s)!noexcept\(std::apply\(std::move\(op\.func_\), valueTuple\)\)', '!VF_CFG_nothrow_func'),
        # activate_union_member_with(op.succOp_, [&]{ return connect(std::apply(func_, valueTuple), successor_receiver{op}); }):
        # the user's successor factory applied to the stored values, then connect -- one may-throw event (parameter packs / std::apply / lambda)
        (r'(?s)auto& succOp =\s*unifex::activate_union_member_with<successor_operation<Values\.\.\.>>\(\s*op\.(succ|pred)Op_,\s*\[&\]\s*\{\s*static_assert\([^;]*;\s*'
         r'return unifex::connect\(\s*std::apply\(std::move\(op\.func_\), valueTuple\),\s*successor_receiver<Operation, Values\.\.\.>\{op\}\);\s*\}\);',
         r'if (EV_invoke_and_connect(op, SL_\1)) goto vf_catch;'),
        (r'unifex::start\(succOp\)', 'EV_start(op, SL_succ)'),
        (r'(?s)unifex::set_error\(\s*std::move\(op\.receiver_\),\s*std::current_exception\(\)\)', 'EV_set_error_exception(op)'),
        (r'(?s)unifex::set_error\(\s*std::move\(op_\.receiver_\),\s*std::forward<Error>\(error\)\)', 'EV_set_error(op_)'),
        (r'(?s)unifex::set_done\(\s*std::move\(op_\.receiver_\)\)', 'EV_set_done(op_)'),
    ] + TRY_CATCH + [(r'\bop\.', 'op->'), (r'\bop_\.', 'op_->')],
    post=ALIVE,
)
succ_ctx = dict(
    cls='succ_rcv', members=['op_'], methods=[],
    pre=ASSERT_CLEANUP + [
        (r'(?s)unifex::set_value\(\s*std::move\(op_\.receiver_\),\s*std::forward<SuccessorValues>\(values\)\.\.\.\)', 'EV_set_value_nothrow(op_)'),
        (r'(?s)unifex::set_error\(\s*std::move\(op_\.receiver_\),\s*std::forward<Error>\(error\)\)', 'EV_set_error(op_)'),
        (r'(?s)unifex::set_done\(\s*std::move\(op_\.receiver_\)\)', 'EV_set_done(op_)'),
        (r'\bop_\.', 'op_->'),
    ],
    post=ALIVE,
)
NAME = dict(post=[(r'^(=\s*)?(?!NULL$)(\w+)$', r'\1lv_op_\2')])     # a static member function named by an initialiser -> the C function lv_op_<name>

SPEC = dict(
    properties=['C02', 'C05', 'C01'],
    ctx={},
    extracts={
        # optional group: a member WITHOUT initialiser is left nondeterministic by the harness (DESIGN 12.2)
        'cleanup_init': dict(file=H, kind='expr', sig=r'void \(\*cleanup_\)\(type\*\) noexcept\s*(=?[^;]*);', within=OP, ctx=NAME),
        'expected_cleanup': dict(file=H, kind='expr', sig=r'(?s)expectedCleanup\)\(\s*Operation\*\) noexcept =\s*Operation::template (\w+)<Values\.\.\.>;', within=SUCC, ctx=NAME),
        'ctor': dict(file=H, sig=r'explicit type\(\s*Predecessor&& pred, SuccessorFactory2&& func, Receiver2&& receiver\)', within=OP, ctx=op_ctx),
        'dtor': dict(file=H, sig=r'~type\(\)', within=OP, ctx=op_ctx),
        'start': dict(file=H, sig=r'void start\(\) noexcept', within=OP, ctx=op_ctx),
        'deactivatePredOp': dict(file=H, sig=r'static void deactivatePredOp\(type\* self\) noexcept', within=OP, ctx=op_ctx),
        'destructValues': dict(file=H, sig=r'static void destructValues\(type\* self\) noexcept', within=OP, ctx=op_ctx),
        'deactivateSuccOpAndDestructValues': dict(file=H, sig=r'static void deactivateSuccOpAndDestructValues\(type\* self\) noexcept', within=OP, ctx=op_ctx),
        'pred_set_value': dict(file=H, sig=r'void set_value\(Values&&\.\.\. values\) && noexcept', within=PRED, ctx=pred_ctx),
        'pred_set_error': dict(file=H, sig=r'void set_error\(Error&& error\) && noexcept', within=PRED, ctx=pred_ctx),
        'pred_set_done': dict(file=H, sig=r'void set_done\(\) && noexcept', within=PRED, ctx=pred_ctx),
        'succ_set_value': dict(file=H, sig=r'void set_value\(SuccessorValues&&\.\.\. values\) && noexcept', within=SUCC, ctx=succ_ctx),
        'succ_set_error': dict(file=H, sig=r'void set_error\(Error&& error\) && noexcept', within=SUCC, ctx=succ_ctx),
        'succ_set_done': dict(file=H, sig=r'void set_done\(\) && noexcept', within=SUCC, ctx=succ_ctx),
    },
    closed_world=[
        dict(file=H, members=['cleanup_', 'predOp_', 'succOp_', 'values_'],
             allow=[r'void \(\*cleanup_\)\(type\*\) noexcept\s*=?[^;]*;',      # the default member initialiser (extracted: cleanup_init)
                    r'(?s)UNIFEX_NO_UNIQUE_ADDRESS typename sender_traits<predecessor_type>::\s*template value_types<manual_lifetime_union, decayed_tuple>\s*values_;',
                    r'(?s)manual_lifetime<\s*connect_result_t<Predecessor, predecessor_receiver<operation>>>\s*predOp_;',
                    r'(?s)typename sender_traits<predecessor_type>::\s*template value_types<manual_lifetime_union, successor_operation>\s*succOp_;']),
    ],
    units=[
        dict(name='ctor', harness='h_ctor', enforce='lv_op_ctor'),
        dict(name='dtor', harness='h_dtor', enforce='lv_op_dtor'),
        dict(name='start', harness='h_start', enforce='lv_op_start'),
        dict(name='deactivatePredOp', harness='h_deactivatePredOp', enforce='lv_op_deactivatePredOp'),
        dict(name='destructValues', harness='h_destructValues', enforce='lv_op_destructValues'),
        dict(name='deactivateSuccOpAndDestructValues', harness='h_deactivateSuccOpAndDestructValues', enforce='lv_op_deactivateSuccOpAndDestructValues'),
        dict(name='predecessor_set_value', harness='h_pred_set_value', enforce='pred_rcv_set_value'),
        dict(name='predecessor_set_error', harness='h_pred_set_error', enforce='pred_rcv_set_error'),
        dict(name='predecessor_set_done', harness='h_pred_set_done', enforce='pred_rcv_set_done'),
        dict(name='successor_set_value', harness='h_succ_set_value', enforce='succ_rcv_set_value'),
        dict(name='successor_set_error', harness='h_succ_set_error', enforce='succ_rcv_set_error'),
        dict(name='successor_set_done', harness='h_succ_set_done', enforce='succ_rcv_set_done'),
        dict(name='lemma_lv_lifecycle', harness='lemma_lv_lifecycle', mode='lemma'),
        dict(name='lemma_lv_init', harness='lemma_lv_init', mode='lemma'),
    ],
    assumptions=[
        'each child operation (predecessor, successor) completes exactly once, only after it was started, through exactly one of its receiver\'s set_value / set_error / set_done (C01 for the children); it may do so inline inside start()',
        'a child does not touch its own operation state after it has called its receiver (so destroying it from inside that call is allowed: "completed" = has invoked its receiver)',
        'the owner destroys the let_value operation only before start() or after the completion signal, never while a child is running',
        'an exception thrown by connect() inside the constructor propagates out of connect(let_value, receiver) (documented); the already constructed members are unwound by the language, ~type() does not run',
        'activate_union_member_with and manual_lifetime_union::construct have the strong exception guarantee (manual_lifetime.hpp; not re-verified here)',
        'the operation\'s receiver set_value does not throw on the successor path: successor_receiver::set_value is unconditionally noexcept WITHOUT a try block, so a throwing receiver set_value reaches std::terminate (OBSERVATION: sequence and let_error turn it into set_error(current_exception); outside the claimed property, which is about callables and value copies)',
        'unifex::start() does not throw (noexcept by concept)',
        'is_nothrow_connectable_v<...> and noexcept(std::apply(func_, valueTuple)) are symbolic configuration constants: both branches of the if constexpr are verified; connect / the successor factory throw only in configurations in which they are not noexcept',
        'cleanup_ function-pointer identity: one instantiation of the Values... pack (the three cleanup functions of ONE set_value overload); the cross-shared-library pointer inequality mentioned in the header comment is not modelled',
        'sequential code: no atomics, vf_interfere is empty; cleanup_/predOp_/succOp_/values_ are touched only by the extracted spans (closed-world scan)',
    ],
    drops=['template genericity (Predecessor, SuccessorFactory, Receiver, Values...: one instantiation)', 'payload arguments of set_value / set_error (values, error objects, std::current_exception())',
           'values_.construct<decayed_tuple<Values...>>(values...) -> may-throw event EV_construct(op, SL_values); the reference valueTuple is dropped',
           'activate_union_member_with<successor_operation<Values...>>(op.succOp_, [&]{ static_assert(...); return connect(std::apply(std::move(op.func_), valueTuple), successor_receiver{op}); }) -> ONE may-throw event EV_invoke_and_connect (user factory invocation + connect; requires the stored values alive); the local reference succOp is dropped (start(succOp) -> EV_start(op, SL_succ))',
           'std::exchange(op.cleanup_, nullptr)(&op) and cleanup_(this): the indirect call becomes an explicit dispatch over the three cleanup functions (VF_CALL_CLEANUP); a null / unknown pointer is an obligation failure',
           'UNIFEX_TRY / UNIFEX_CATCH -> goto vf_catch at the may-throw stubs', 'UNIFEX_ASSERT_CLEANUP -> UNIFEX_ASSERT (default configuration)',
           'Operation& op_ reference members -> pointers (spec-level rule: op. -> op->, op_. -> op_->)',
           'receiver queries (tag_invoke forwarding), the sender type and the let_value CPO'],
)
