/* C02 / C05 / C01: unifex::let_value(predecessor, successorFactory) -- include/unifex/let_value.hpp.
 *
 * _op::type keeps ONE child operation state alive in  union { predOp_, succOp_ },  the decayed copies of the predecessor's
 * values in values_ (separate storage), and the discriminator is the function pointer cleanup_ that the destructor calls:
 *   deactivatePredOp                    <=> predOp_ alive, nothing else
 *   destructValues                      <=> values_ alive, nothing else     (window in which the successor is being connected)
 *   deactivateSuccOpAndDestructValues   <=> succOp_ and values_ alive
 *   nullptr                             <=> "temporarily invalid": never at a point where the operation can be destroyed
 * Sequential code (no atomics): the value is in the event stubs of ../sequence/slots.h (slot ghosts, may-throw events, completion
 * stubs with the dead-object snapshot) plus the ordering obligations below.
 * Bodies marked @BODY / @EXPR are extracted from /repo on every run; everything else is specification. */
#include <stddef.h>
#include <stdint.h>

struct lv_op;
typedef void (*lv_cleanup_fn)(struct lv_op*);
struct lv_op { lv_cleanup_fn cleanup_; };
struct pred_rcv { struct lv_op* op_; };
struct succ_rcv { struct lv_op* op_; };
static struct lv_op OP;
static struct pred_rcv PRCV;
static struct succ_rcv SRCV;
static _Bool VF_CFG_nothrow_connect;     /* is_nothrow_connectable_v<successor_type<Values...>, successor_receiver<Operation, Values...>> */
static _Bool VF_CFG_nothrow_func;        /* noexcept(std::apply(std::move(op.func_), valueTuple)) */

void lv_op_deactivatePredOp(struct lv_op* self);
void lv_op_destructValues(struct lv_op* self);
void lv_op_deactivateSuccOpAndDestructValues(struct lv_op* self);

enum { SL_pred, SL_succ, SL_values };
/* default member initialiser of cleanup_ (a member without initialiser stays nondeterministic) */
#define CLEANUP_INIT_INTO(lhs) do { lv_cleanup_fn vf_i /*@EXPR cleanup_init*/; (lhs) = vf_i; } while (0)
#define expectedCleanup (/*@EXPR expected_cleanup*/)

#define VF_NSLOT 3
#define VF_OP_T struct lv_op
static lv_cleanup_fn vf_any_cleanup(void);
#define VF_OP_HAVOC() do { OP.cleanup_ = vf_any_cleanup(); } while (0)
#define VF_OP_EQ(a, b) ((a).cleanup_ == (b).cleanup_)
#define VF_SLOT_IS_OP(s) ((s) != SL_values)
#define VF_UNION_EMPTY(s) ((s) == SL_values ? G.slot[SL_values] == LS_NONE : (G.slot[SL_pred] == LS_NONE && G.slot[SL_succ] == LS_NONE))
/* the discriminator tells the truth: cleanup_ destroys exactly what is alive */
#define DISCR_OK_(cl, p, s, v) ( ((cl) == lv_op_deactivatePredOp && (p) != LS_NONE && (s) == LS_NONE && (v) == LS_NONE) \
   || ((cl) == lv_op_destructValues && (p) == LS_NONE && (s) == LS_NONE && (v) == LS_ALIVE) \
   || ((cl) == lv_op_deactivateSuccOpAndDestructValues && (p) == LS_NONE && (s) != LS_NONE && (v) == LS_ALIVE) )
#define VF_DISCR_OK(op) DISCR_OK_((op)->cleanup_, G.slot[SL_pred], G.slot[SL_succ], G.slot[SL_values])
#define IN_PRED_VALUE (G.running == SL_pred && G.signal == CH_VALUE)
#define VF_CHECK_CONSTRUCT(op, s) do { \
    if ((s) == SL_values) { \
      VF_P(IN_PRED_VALUE, "C05: values are stored only when the predecessor completed with set_value"); \
      VF_P(G.slot[SL_pred] == LS_COMPLETING, "C02: the predecessor's values are copied BEFORE the predecessor operation (which may own them) is destroyed"); \
    } else if ((s) == SL_succ) { \
      VF_P(IN_PRED_VALUE, "C05: the successor is created only after the predecessor completed with set_value (error / done short-circuit: the successor factory is never invoked)"); \
      VF_P(G.deacts[SL_pred] == 1, "C02/C05: the successor is connected only after the predecessor operation state was destroyed (they share storage)"); \
      VF_P(G.slot[SL_values] == LS_ALIVE, "C02: the successor factory is invoked on the stored values (nothing read uninitialised)"); \
    } else { VF_P(G.running == -1 && G.acts[SL_pred] == 0, "the predecessor is connected once, by the constructor"); } } while (0)
#define VF_CHECK_DESTROY(op, s) do { if ((s) == SL_values) { \
      VF_P(G.slot[SL_succ] == LS_NONE, "C02: the stored values are destroyed only after the successor operation, which references them, was destroyed"); } } while (0)
#define VF_CHECK_START(op, s) do { G.cleanup_at_start = (op)->cleanup_; if ((s) == SL_succ) { \
      VF_P(IN_PRED_VALUE && G.deacts[SL_pred] == 1 && G.slot[SL_values] == LS_ALIVE, "C05: the successor is started only after the predecessor finished with a value and was destroyed, with the values stored"); } \
    else { VF_P(G.running == -1, "the predecessor is started by start() only"); } } while (0)
#define VF_CHECK_COMPLETE(op, ch) do { G.cleanup_atc = (op)->cleanup_; } while (0)
/* value copies may always throw; the constructor's connect may; the successor factory / connect only when not noexcept */
#define VF_MAY_THROW(s) ((s) != SL_succ || !VF_CFG_nothrow_connect || !VF_CFG_nothrow_func)
#define VF_GHOST_EXTRA lv_cleanup_fn cleanup_atc, cleanup_at_start; unsigned cleanup_calls; unsigned null_calls;
#define VF_RCV_HAVOC() do { PRCV.op_ = NULL; SRCV.op_ = NULL; } while (0)
#include "../sequence/slots.h"

static lv_cleanup_fn vf_any_cleanup(void) {
  int k = VF_nondet_int();
  return k == 0 ? (lv_cleanup_fn)NULL : k == 1 ? lv_op_deactivatePredOp : k == 2 ? lv_op_destructValues : lv_op_deactivateSuccOpAndDestructValues;
}
/* the successor factory applied to the stored values + connect of its result into succOp_: one may-throw event */
static _Bool EV_invoke_and_connect(struct lv_op* op, int s) {
  VF_P(op == &OP && !G.dead && G.slot[SL_values] == LS_ALIVE, "C02: std::apply(func_, valueTuple) reads the stored values: they are alive");
  return EV_activate(op, s);
}
/* cleanup_(this) / std::exchange(op.cleanup_, nullptr)(&op): explicit dispatch of the indirect call */
static void lv_call_cleanup(lv_cleanup_fn fp, struct lv_op* o) {
  G.cleanup_calls++;
  if (fp == lv_op_deactivatePredOp) lv_op_deactivatePredOp(o);
  else if (fp == lv_op_destructValues) lv_op_destructValues(o);
  else if (fp == lv_op_deactivateSuccOpAndDestructValues) lv_op_deactivateSuccOpAndDestructValues(o);
  else { G.null_calls++; VF_P(0, "C02: call through a null / invalid cleanup_ pointer"); }
}
#define VF_CALL_CLEANUP(fp, o) lv_call_cleanup((fp), (o))

/* ---------------- contracts ---------------- */
#define A_ALL OP, PRCV, SRCV, G
#define OP_AFTER_CTOR (OP.cleanup_ == lv_op_deactivatePredOp && G.slot[SL_pred] == LS_ALIVE && G.slot[SL_succ] == LS_NONE && G.slot[SL_values] == LS_NONE)
#define PRED_COMPLETING (OP.cleanup_ == lv_op_deactivatePredOp && G.slot[SL_pred] == LS_COMPLETING && G.slot[SL_succ] == LS_NONE && G.slot[SL_values] == LS_NONE && G.running == SL_pred)
#define SUCC_COMPLETING (OP.cleanup_ == lv_op_deactivateSuccOpAndDestructValues && G.slot[SL_pred] == LS_NONE && G.slot[SL_succ] == LS_COMPLETING && G.slot[SL_values] == LS_ALIVE && G.running == SL_succ)
#define NO_ACTS (G.acts[SL_pred] == 0 && G.acts[SL_succ] == 0 && G.acts[SL_values] == 0)
#define NO_DEACTS (G.deacts[SL_pred] == 0 && G.deacts[SL_succ] == 0 && G.deacts[SL_values] == 0)
#define NO_STARTS (G.starts[SL_pred] == 0 && G.starts[SL_succ] == 0 && G.starts[SL_values] == 0)
#define WAS_ALIVE(s) (__CPROVER_old(G.slot[s]) != LS_NONE ? 1u : 0u)

/* _op::type constructor: func_, receiver_ from the mem-initialiser list, cleanup_ from its default member initialiser
 * (cleanup_init is extracted from it), then the body connects the predecessor into predOp_. */
void lv_op_ctor(struct lv_op* self)
__CPROVER_requires(self == &OP && VF_FRESH_CALL && VF_ALL_NONE && G.running == -1)   /* cleanup_ holds whatever its default member initialiser gave it (harness) */
__CPROVER_assigns(A_ALL)
__CPROVER_ensures(G.throws == 0 ==> (OP_AFTER_CTOR && VF_DESTRUCTIBLE(&OP) && G.acts[SL_pred] == 1))   /* C02: the discriminator is initialised and destroys predOp_: the operation may be destroyed without being started */
__CPROVER_ensures(G.throws != 0 ==> (VF_ALL_NONE && G.acts[SL_pred] == 0))                      /* connect threw: nothing constructed (the exception leaves connect(); ~type() does not run) */
__CPROVER_ensures(G.completed == 0 && NO_STARTS && NO_DEACTS && G.acts[SL_succ] == 0 && G.acts[SL_values] == 0 && !G.dead)
/*@BODY ctor*/

/* the three cleanup functions */
void lv_op_deactivatePredOp(struct lv_op* self)
__CPROVER_requires(self == &OP && !G.dead && G.slot[SL_pred] != LS_NONE && G.slot[SL_pred] != LS_STARTED && G.slot[SL_succ] == LS_NONE && G.slot[SL_values] == LS_NONE && G.deacts[SL_pred] == 0)
__CPROVER_assigns(A_ALL)
__CPROVER_ensures(VF_ALL_NONE && G.deacts[SL_pred] == 1 && G.deacts[SL_succ] == __CPROVER_old(G.deacts[SL_succ]) && G.deacts[SL_values] == __CPROVER_old(G.deacts[SL_values]))
__CPROVER_ensures(G.completed == __CPROVER_old(G.completed) && !G.dead && OP.cleanup_ == __CPROVER_old(OP.cleanup_))
/*@BODY deactivatePredOp*/

void lv_op_destructValues(struct lv_op* self)
__CPROVER_requires(self == &OP && !G.dead && G.slot[SL_pred] == LS_NONE && G.slot[SL_succ] == LS_NONE && G.slot[SL_values] == LS_ALIVE && G.deacts[SL_values] == 0)
__CPROVER_assigns(A_ALL)
__CPROVER_ensures(VF_ALL_NONE && G.deacts[SL_values] == 1 && G.deacts[SL_succ] == __CPROVER_old(G.deacts[SL_succ]) && G.deacts[SL_pred] == __CPROVER_old(G.deacts[SL_pred]))
__CPROVER_ensures(G.completed == __CPROVER_old(G.completed) && !G.dead && OP.cleanup_ == __CPROVER_old(OP.cleanup_))
/*@BODY destructValues*/

void lv_op_deactivateSuccOpAndDestructValues(struct lv_op* self)
__CPROVER_requires(self == &OP && !G.dead && G.slot[SL_pred] == LS_NONE && G.slot[SL_succ] != LS_NONE && G.slot[SL_succ] != LS_STARTED && G.slot[SL_values] == LS_ALIVE && G.deacts[SL_values] == 0 && G.deacts[SL_succ] == 0)
__CPROVER_assigns(A_ALL)
__CPROVER_ensures(VF_ALL_NONE && G.deacts[SL_values] == 1 && G.deacts[SL_succ] == 1 && G.deacts[SL_pred] == __CPROVER_old(G.deacts[SL_pred]))   /* the successor first, then the values it references (order checked at the events) */
__CPROVER_ensures(G.completed == __CPROVER_old(G.completed) && !G.dead && OP.cleanup_ == __CPROVER_old(OP.cleanup_))
/*@BODY deactivateSuccOpAndDestructValues*/

/* ~type(): calls the discriminator; destroys exactly what is alive */
void lv_op_dtor(struct lv_op* self)
__CPROVER_requires(self == &OP && VF_FRESH_CALL && VF_DESTRUCTIBLE(&OP) && G.running == -1 && G.cleanup_calls == 0 && G.null_calls == 0)
__CPROVER_assigns(A_ALL)
__CPROVER_ensures(VF_ALL_NONE)                                                                   /* nothing leaked */
__CPROVER_ensures(G.deacts[SL_pred] == WAS_ALIVE(SL_pred) && G.deacts[SL_succ] == WAS_ALIVE(SL_succ) && G.deacts[SL_values] == WAS_ALIVE(SL_values)) /* each alive object destroyed exactly once */
__CPROVER_ensures(G.completed == 0 && NO_ACTS && NO_STARTS && G.cleanup_calls == 1 && G.null_calls == 0)
/*@BODY dtor*/

/* start(): starts the predecessor, nothing else; nothing is touched afterwards */
void lv_op_start(struct lv_op* self)
__CPROVER_requires(self == &OP && VF_FRESH_CALL && OP_AFTER_CTOR && G.running == -1)
__CPROVER_assigns(A_ALL)
__CPROVER_ensures(G.starts[SL_pred] == 1 && G.slot[SL_pred] == LS_STARTED && G.starts[SL_succ] == 0)
__CPROVER_ensures(G.completed == 0 && NO_ACTS && NO_DEACTS)                                       /* C01: start() itself delivers nothing */
__CPROVER_ensures(G.dead && UNTOUCHED)
/*@BODY start*/

/* predecessor completed with values: copy them, destroy the predecessor operation, invoke the factory on the copies, connect and start
 * the successor in the predecessor's storage.  A throwing copy / factory / connect -> set_error(current_exception), exactly once,
 * with the discriminator naming exactly what is still alive. */
void pred_rcv_set_value(struct pred_rcv* self)
__CPROVER_requires(self == &PRCV && PRCV.op_ == &OP && VF_FRESH_CALL && PRED_COMPLETING && G.signal == CH_VALUE && G.cleanup_calls == 0 && G.null_calls == 0)
__CPROVER_assigns(A_ALL)
__CPROVER_ensures(G.throws == 0 ==> (G.acts[SL_values] == 1 && G.deacts[SL_pred] == 1 && G.acts[SL_succ] == 1 && G.starts[SL_succ] == 1 \
                                     && G.slot[SL_pred] == LS_NONE && G.slot[SL_succ] == LS_STARTED && G.slot[SL_values] == LS_ALIVE \
                                     && G.cleanup_at_start == lv_op_deactivateSuccOpAndDestructValues && G.completed == 0 && G.deacts[SL_values] == 0 && G.deacts[SL_succ] == 0)) /* C05: next step started; nothing delivered by this call */
__CPROVER_ensures(G.throws != 0 ==> (G.throws == 1 && VF_COMPLETED_ON(CH_ERROR_EXCEPTION) && G.starts[SL_succ] == 0 && G.acts[SL_succ] == 0 && G.deacts[SL_values] == 0 && G.deacts[SL_succ] == 0)) /* C05: a throw becomes set_error(current_exception) */
__CPROVER_ensures((G.throws != 0 && G.thrown_at == SL_values) ==> (G.cleanup_atc == lv_op_deactivatePredOp && G.atc[SL_pred] == LS_COMPLETING && G.atc[SL_succ] == LS_NONE && G.atc[SL_values] == LS_NONE && NO_DEACTS && NO_ACTS)) /* the value copy threw: the predecessor operation is left to the destructor */
__CPROVER_ensures((G.throws != 0 && G.thrown_at != SL_values) ==> (G.thrown_at == SL_succ && (!VF_CFG_nothrow_connect || !VF_CFG_nothrow_func) && G.cleanup_atc == lv_op_destructValues \
                                     && G.atc[SL_pred] == LS_NONE && G.atc[SL_succ] == LS_NONE && G.atc[SL_values] == LS_ALIVE && G.deacts[SL_pred] == 1 && G.acts[SL_values] == 1)) /* factory / connect threw: only the values are left, the discriminator says so */
__CPROVER_ensures(G.dead && UNTOUCHED && G.starts[SL_pred] == 0 && G.acts[SL_pred] == 0 && G.null_calls == 0)
/*@BODY pred_set_value*/

/* predecessor error / done: forwarded unchanged, the factory never invoked */
#define PRED_FORWARD_FRAME (NO_ACTS && NO_STARTS && NO_DEACTS && G.atc[SL_pred] == LS_COMPLETING && G.atc[SL_succ] == LS_NONE && G.atc[SL_values] == LS_NONE && G.cleanup_atc == lv_op_deactivatePredOp)
void pred_rcv_set_error(struct pred_rcv* self)
__CPROVER_requires(self == &PRCV && PRCV.op_ == &OP && VF_FRESH_CALL && PRED_COMPLETING && G.signal == CH_ERROR)
__CPROVER_assigns(A_ALL)
__CPROVER_ensures(VF_COMPLETED_ON(CH_ERROR))
__CPROVER_ensures(PRED_FORWARD_FRAME)
/*@BODY pred_set_error*/

void pred_rcv_set_done(struct pred_rcv* self)
__CPROVER_requires(self == &PRCV && PRCV.op_ == &OP && VF_FRESH_CALL && PRED_COMPLETING && G.signal == CH_DONE)
__CPROVER_assigns(A_ALL)
__CPROVER_ensures(VF_COMPLETED_ON(CH_DONE))
__CPROVER_ensures(PRED_FORWARD_FRAME)
/*@BODY pred_set_done*/

/* successor completions: the result of let_value is the successor's result; the successor operation and the values it references
 * stay alive until the destructor (destroyed there exactly once, the operation first) */
#define SUCC_FRAME (NO_ACTS && NO_STARTS && NO_DEACTS && G.atc[SL_pred] == LS_NONE && G.atc[SL_succ] == LS_COMPLETING && G.atc[SL_values] == LS_ALIVE && G.cleanup_atc == lv_op_deactivateSuccOpAndDestructValues)
void succ_rcv_set_value(struct succ_rcv* self)
__CPROVER_requires(self == &SRCV && SRCV.op_ == &OP && VF_FRESH_CALL && SUCC_COMPLETING && G.signal == CH_VALUE)
__CPROVER_assigns(A_ALL)
__CPROVER_ensures(VF_COMPLETED_ON(CH_VALUE))
__CPROVER_ensures(SUCC_FRAME)
/*@BODY succ_set_value*/

void succ_rcv_set_error(struct succ_rcv* self)
__CPROVER_requires(self == &SRCV && SRCV.op_ == &OP && VF_FRESH_CALL && SUCC_COMPLETING && G.signal == CH_ERROR)
__CPROVER_assigns(A_ALL)
__CPROVER_ensures(VF_COMPLETED_ON(CH_ERROR))
__CPROVER_ensures(SUCC_FRAME)
/*@BODY succ_set_error*/

void succ_rcv_set_done(struct succ_rcv* self)
__CPROVER_requires(self == &SRCV && SRCV.op_ == &OP && VF_FRESH_CALL && SUCC_COMPLETING && G.signal == CH_DONE)
__CPROVER_assigns(A_ALL)
__CPROVER_ensures(VF_COMPLETED_ON(CH_DONE))
__CPROVER_ensures(SUCC_FRAME)
/*@BODY succ_set_done*/

/* ---------------- harnesses ---------------- */
static void h_havoc(void) {
  vf_ghost_havoc();
  G.cleanup_atc = NULL; G.cleanup_at_start = NULL; G.cleanup_calls = VF_nondet_u32(); G.null_calls = VF_nondet_u32();
  OP.cleanup_ = vf_any_cleanup(); G.snap = OP;
  PRCV.op_ = &OP; SRCV.op_ = &OP;
  VF_CFG_nothrow_connect = vf_nb(); VF_CFG_nothrow_func = vf_nb();
}
void h_ctor(void) {
  h_havoc(); CLEANUP_INIT_INTO(OP.cleanup_); lv_op_ctor(&OP);
  VF_CANARY("after the constructor");
  if (G.throws) { VF_CANARY("connect(predecessor) can throw"); } else { VF_CANARY("constructor can succeed"); }
}
void h_deactivatePredOp(void) { h_havoc(); lv_op_deactivatePredOp(&OP); VF_CANARY("after deactivatePredOp"); }
void h_destructValues(void) { h_havoc(); lv_op_destructValues(&OP); VF_CANARY("after destructValues"); }
void h_deactivateSuccOpAndDestructValues(void) { h_havoc(); lv_op_deactivateSuccOpAndDestructValues(&OP); VF_CANARY("after deactivateSuccOpAndDestructValues"); }
void h_dtor(void) {
  h_havoc(); lv_op_dtor(&OP);
  VF_CANARY("after the destructor");
  if (G.deacts[SL_pred]) { VF_CANARY("destructor destroys predOp_"); }
  if (G.deacts[SL_succ]) { VF_CANARY("destructor destroys succOp_ and values_"); }
  if (G.deacts[SL_values] && !G.deacts[SL_succ]) { VF_CANARY("destructor destroys values_ only"); }
}
void h_start(void) { h_havoc(); lv_op_start(&OP); VF_CANARY("after start"); }
void h_pred_set_value(void) {
  h_havoc(); pred_rcv_set_value(&PRCV);
  VF_CANARY("after predecessor set_value");
  if (G.throws && G.thrown_at == SL_values) { VF_CANARY("the value copy can throw"); }
  if (G.throws && G.thrown_at == SL_succ) { VF_CANARY("the successor factory / connect can throw"); }
  if (!G.throws) { VF_CANARY("successor can be started"); }
  if (VF_CFG_nothrow_connect && VF_CFG_nothrow_func) { VF_CANARY("noexcept factory+connect configuration"); } else { VF_CANARY("potentially throwing configuration"); }
}
void h_pred_set_error(void) { h_havoc(); pred_rcv_set_error(&PRCV); VF_CANARY("after predecessor set_error"); }
void h_pred_set_done(void) { h_havoc(); pred_rcv_set_done(&PRCV); VF_CANARY("after predecessor set_done"); }
void h_succ_set_value(void) { h_havoc(); succ_rcv_set_value(&SRCV); VF_CANARY("after successor set_value"); }
void h_succ_set_error(void) { h_havoc(); succ_rcv_set_error(&SRCV); VF_CANARY("after successor set_error"); }
void h_succ_set_done(void) { h_havoc(); succ_rcv_set_done(&SRCV); VF_CANARY("after successor set_done"); }

/* ---------------- M4 lemmas over the contracts' predicates ---------------- */
/* abstract life cycle: one step = one verified call (its contract), or "the started child calls its receiver" (assumption C01 of
 * the children).  cl = 0 null, 1 deactivatePredOp, 2 destructValues, 3 deactivateSuccOpAndDestructValues */
struct lst { lv_cleanup_fn cl; uint8_t p, s, v; unsigned ap, as, av, dp, ds, dv; unsigned completed; _Bool destroyed; };
#define L_DISCR_OK(x) DISCR_OK_((x).cl, (x).p, (x).s, (x).v)
#define L_DESTRUCTIBLE(x) (L_DISCR_OK(x) && (x).p != LS_STARTED && (x).s != LS_STARTED)
#define L_ALIVE(f) ((f) != LS_NONE ? 1u : 0u)
#define L_BAL(x) ((x).ap == (x).dp + L_ALIVE((x).p) && (x).as == (x).ds + L_ALIVE((x).s) && (x).av == (x).dv + L_ALIVE((x).v) && (x).ap <= 1 && (x).as <= 1 && (x).av <= 1 && (x).dp <= 1 && (x).ds <= 1 && (x).dv <= 1)
enum { T_START, T_PRED_CALLS, T_PRED_VALUE_OK, T_PRED_VALUE_COPY_THROWS, T_PRED_VALUE_CONNECT_THROWS, T_PRED_FORWARD, T_SUCC_CALLS, T_SUCC_FORWARD, T_DTOR, T_N };
#define L_PRED_COMPLETING(o) ((o).cl == lv_op_deactivatePredOp && (o).p == LS_COMPLETING && (o).s == LS_NONE && (o).v == LS_NONE && (o).completed == 0)
static _Bool l_step(struct lst o, struct lst* n, int t) {
  struct lst x = o; _Bool en = 0;
  switch (t) {
  case T_START:      en = o.cl == lv_op_deactivatePredOp && o.p == LS_ALIVE && o.s == LS_NONE && o.v == LS_NONE && !o.destroyed; x.p = LS_STARTED; break;   /* lv_op_start */
  case T_PRED_CALLS: en = o.p == LS_STARTED; x.p = LS_COMPLETING; break;
  case T_PRED_VALUE_OK: en = L_PRED_COMPLETING(o);                                                                                           /* pred_rcv_set_value, no throw */
                     x.v = LS_ALIVE; x.av = o.av + 1; x.p = LS_NONE; x.dp = o.dp + 1; x.s = LS_STARTED; x.as = o.as + 1; x.cl = lv_op_deactivateSuccOpAndDestructValues; break;
  case T_PRED_VALUE_COPY_THROWS: en = L_PRED_COMPLETING(o); x.completed = o.completed + 1; break;                                                  /* ... value copy threw */
  case T_PRED_VALUE_CONNECT_THROWS: en = L_PRED_COMPLETING(o);                                                                               /* ... factory / connect threw */
                     x.v = LS_ALIVE; x.av = o.av + 1; x.p = LS_NONE; x.dp = o.dp + 1; x.cl = lv_op_destructValues; x.completed = o.completed + 1; break;
  case T_PRED_FORWARD: en = L_PRED_COMPLETING(o); x.completed = o.completed + 1; break;                                                            /* pred_rcv_set_error / set_done */
  case T_SUCC_CALLS: en = o.s == LS_STARTED; x.s = LS_COMPLETING; break;
  case T_SUCC_FORWARD: en = o.cl == lv_op_deactivateSuccOpAndDestructValues && o.s == LS_COMPLETING && o.p == LS_NONE && o.v == LS_ALIVE && o.completed == 0;  /* succ_rcv_set_* */
                     x.completed = o.completed + 1; break;
  default:           en = !o.destroyed && L_DESTRUCTIBLE(o) && (o.completed == 1 || (o.p == LS_ALIVE && o.s == LS_NONE));                       /* lv_op_dtor: by the owner, before start or after completion */
                     if (o.p != LS_NONE) { x.p = LS_NONE; x.dp = o.dp + 1; } if (o.s != LS_NONE) { x.s = LS_NONE; x.ds = o.ds + 1; } if (o.v != LS_NONE) { x.v = LS_NONE; x.dv = o.dv + 1; } x.destroyed = 1; break;
  }
  *n = x;
  return en;
}
#define L_REACH(x) (L_BAL(x) && (x).completed <= 1 && ((x).destroyed ? ((x).p == LS_NONE && (x).s == LS_NONE && (x).v == LS_NONE) : (L_DISCR_OK(x) && ( \
     ((x).cl == lv_op_deactivatePredOp && (x).completed == 0 && (x).as == 0 && (x).av == 0 && (x).dp == 0) \
  || ((x).cl == lv_op_deactivatePredOp && (x).completed == 1 && (x).p == LS_COMPLETING && (x).as == 0 && (x).av == 0 && (x).dp == 0) \
  || ((x).cl == lv_op_deactivateSuccOpAndDestructValues && (x).completed == 0 && ((x).s == LS_STARTED || (x).s == LS_COMPLETING) && (x).dp == 1) \
  || ((x).cl == lv_op_deactivateSuccOpAndDestructValues && (x).completed == 1 && (x).s == LS_COMPLETING && (x).dp == 1) \
  || ((x).cl == lv_op_destructValues && (x).completed == 1 && (x).dp == 1 && (x).as == 0) ))))
void lemma_lv_lifecycle(void) {
  struct lst o, n; int t = VF_nondet_int();
  o.cl = vf_any_cleanup(); o.p = VF_nondet_u8(); o.s = VF_nondet_u8(); o.v = VF_nondet_u8();
  o.ap = VF_nondet_u32(); o.as = VF_nondet_u32(); o.av = VF_nondet_u32(); o.dp = VF_nondet_u32(); o.ds = VF_nondet_u32(); o.dv = VF_nondet_u32();
  o.completed = VF_nondet_u32(); o.destroyed = vf_nb();
  __CPROVER_assume(t >= 0 && t < T_N && o.p <= LS_COMPLETING && o.s <= LS_COMPLETING && o.v <= LS_ALIVE);
  __CPROVER_assume(L_REACH(o));
  __CPROVER_assume(l_step(o, &n, t));
  VF_CANARY("lemma premises satisfiable");
  if (t == T_START) { VF_CANARY("start enabled"); } if (t == T_PRED_VALUE_OK) { VF_CANARY("pred value enabled"); } if (t == T_PRED_VALUE_COPY_THROWS) { VF_CANARY("copy throw enabled"); }
  if (t == T_PRED_VALUE_CONNECT_THROWS) { VF_CANARY("connect throw enabled"); } if (t == T_PRED_FORWARD) { VF_CANARY("pred forward enabled"); }
  if (t == T_SUCC_FORWARD) { VF_CANARY("succ forward enabled"); } if (t == T_DTOR) { VF_CANARY("dtor enabled"); }
  VF_P(L_REACH(n), "lemma: the life-cycle invariant (truthful discriminator, construct/destroy balanced per slot, at most one completion) is inductive over the contracts");
  VF_P((n.completed == 1 && !n.destroyed) ==> L_DESTRUCTIBLE(n), "lemma: once the completion signal was delivered the operation is destructible (cleanup_ destroys exactly what is alive, no child running)");
  VF_P(n.destroyed ==> (n.p == LS_NONE && n.s == LS_NONE && n.v == LS_NONE && n.ap == n.dp && n.as == n.ds && n.av == n.dv), "lemma: after the destructor every child operation and the stored values that were constructed have been destroyed exactly once");
  VF_P((n.s != LS_NONE) ==> (n.v == LS_ALIVE), "lemma: while the successor operation exists the values it references are alive");
  VF_P(o.completed == 1 ==> (t == T_DTOR), "lemma: after the completion signal nothing but the destructor is enabled (exactly one completion)");
  VF_P((o.s == LS_STARTED || o.p == LS_STARTED) ==> (t == T_PRED_CALLS || t == T_SUCC_CALLS), "lemma: while a child runs the operation only waits for it");
}
void lemma_lv_init(void) {
  struct lst i; CLEANUP_INIT_INTO(i.cl); i.p = LS_ALIVE; i.s = LS_NONE; i.v = LS_NONE; i.ap = 1; i.as = 0; i.av = 0; i.dp = 0; i.ds = 0; i.dv = 0; i.completed = 0; i.destroyed = 0;
  VF_CANARY("lemma_lv_init reachable");
  VF_P(i.cl == lv_op_deactivatePredOp, "lemma: the default member initialiser of cleanup_ names the member the constructor activates");
  VF_P(L_REACH(i) && L_DESTRUCTIBLE(i), "lemma: a freshly constructed operation satisfies the life-cycle invariant and may be destroyed unstarted");
  VF_P(expectedCleanup == lv_op_deactivateSuccOpAndDestructValues, "lemma: the cleanup the successor receiver expects is the one that destroys the successor operation and the values");
}
