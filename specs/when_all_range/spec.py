H = 'include/unifex/when_all_range.hpp'
OPCLS = r'struct _operation<Receiver, Sender>::type final \{'
RCVCLS = r'struct _element_receiver<Receiver, Sender>::type final \{'
CANCELCLS = r'struct cancel_operation final \{'
CTOR = r'type\(Receiver&& receiver, std::vector<Sender>&& senders\)'

# UNIFEX_TRY { A } UNIFEX_CATCH(...) { B }  ->  { A' } if (0) { vf_catch: ; B }   (DESIGN 3.1, last row; not in the global table yet)
TRY_CATCH = [(r'UNIFEX_TRY\s*\{', '{'),
             (r'\}\s*UNIFEX_CATCH\s*\(\.\.\.\)\s*\{', '} if (0) { vf_catch: ;')]

op_ctx = dict(
    cls='war_op',
    members=['refCount_', 'doneOrError_', 'numHolders_', 'holders_'],
    methods=['element_complete'],
    pre=TRY_CATCH + [
        # symbolic number of children
        (r'senders\.size\(\)', 'VF_N'),
        # constructor loop: range-for over the senders -> index loop; placement-new of a holder = connect one child
        (r'for \(auto&& sender : senders\) \{', 'for (size_t vf_i = 0; vf_i < VF_N; ++vf_i) {'),
        (r'new \(holders_ \+ numHolders_\)\s*_operation_holder\{std::move\(sender\), \*this, numHolders_\};', 'if (EV_connect_child(self, numHolders_)) goto vf_catch;'),
        # constructor: allocation of the holder array and unwinding of a failed construction
        (r'std::allocator<_operation_holder> allocator;', ''),
        (r'holders_ = allocator\.allocate\(VF_N\);', 'EV_allocate_holders(self);'),
        (r'std::destroy\(\s*std::make_reverse_iterator\(holders_ \+ ([^()]*)\),\s*std::make_reverse_iterator\(holders_\)\);', r'EV_destroy_holders(self, \1);'),
        (r'allocator\.deallocate\(holders_, VF_N\);', 'EV_deallocate_holders(self);'),
        (r'UNIFEX_RETHROW\(\);', 'EV_rethrow(self);'),
        # start(): zero children -> immediate empty value; else registration on the receiver's token, start of every child
        (r'unifex::set_value\(\s*std::move\(receiver_\), std::vector<sender_nonvoid_value_type>\{\}\)', 'EV_set_value_empty(self)'),
        (r'stopCallback_\.construct\(\s*unifex::get_stop_token\(receiver_\), cancel_operation\{\*this\}\)', 'EV_cb_construct(self)'),
        (r'std::for_each\(\s*holders_, holders_ \+ numHolders_, \[\]\(auto& holder\) noexcept \{\s*unifex::start\(holder\.connection\);\s*\}\)', 'EV_start_children(self)'),
        (r'stopSource_\.stop_requested\(\)', 'EV_children_stop_requested(self)'),
        (r'stopSource_\.request_stop\(\)', 'EV_stop_children(self)'),
        (r'stopCallback_\.destruct\(\)', 'EV_cb_destruct(self)'),
        # completion signals: payload dropped, channel kept
        (r'unifex::set_done\(std::move\(receiver_\)\)', 'EV_set_done(self)'),
        (r'std::visit\(\s*\[this\]\(auto&& error\) \{\s*unifex::set_error\(\s*std::move\(receiver_\), std::forward<decltype\(error\)>\(error\)\);\s*\},\s*std::move\(error_\.value\(\)\)\)', 'EV_set_error_stored(self)'),
        (r'unifex::set_error\(std::move\(receiver_\), std::current_exception\(\)\)', 'EV_set_error_exception(self)'),
        # building the result vector: three statements, each one call abstraction (the first is a declaration of payload)
        (r'std::vector<sender_nonvoid_value_type> values;', ''),
        (r'values\.reserve\(numHolders_\);', 'if (EV_values_reserve(self)) goto vf_catch;'),
        (r'std::transform\(\s*holders_,\s*holders_ \+ numHolders_,\s*std::back_inserter\(values\),\s*\[\]\(auto&& h\) -> decltype\(auto\) \{\s*return std::move\(h\.value\.value\(\)\);\s*\}\);', 'if (EV_values_collect(self)) goto vf_catch;'),
        (r'unifex::set_value\(std::move\(receiver_\), std::move\(values\)\);', 'if (EV_set_value(self)) goto vf_catch;'),
        (r'error_\.has_value\(\)', 'EV_error_has_value(self)'),
    ],
)
rcv_ctx = dict(
    cls='element_receiver',
    members=['op_'],
    methods=[],
    obj_methods={'element_complete': 'war_op_element_complete'},
    pre=TRY_CATCH + [
        (r'op_\.holders_\[index_\]\.value\.emplace\([^;]*\);', 'if (EV_store_value(self)) goto vf_catch;'),
        (r'this->set_error\(std::current_exception\(\)\)', 'element_receiver_set_error(self)'),
        (r'op_\.error_\.emplace\([^;]*\);', 'EV_store_error(self);'),
        (r'op_\.stopSource_\.stop_requested\(\)', 'EV_children_stop_requested(self->op_)'),
        (r'op_\.stopSource_\.request_stop\(\)', 'EV_stop_children(self->op_)'),
        (r'\bop_\.', 'op_->'),
    ],
)
cancel_ctx = dict(
    cls='cancel_operation',
    members=['op_'],
    methods=[],
    obj_methods={'request_stop': 'war_op_request_stop'},
    pre=[(r'\bop_\.', 'op_->')],
)

SPEC = dict(
    properties=['C01', 'C04', 'C05'],
    ctx={},
    extracts={
        'refCount_init': dict(file=H, kind='expr', sig=r', refCount_\(([^{;]*)\) \{', ctx=op_ctx),
        'numHolders_init': dict(file=H, kind='expr', sig=r'std::size_t numHolders_\{([^}]*)\}', ctx=op_ctx),
        'doneOrError_init': dict(file=H, kind='expr', sig=r'std::atomic<bool> doneOrError_\{([^}]*)\}', ctx=op_ctx),
        'ctor': dict(file=H, sig=CTOR, within=OPCLS, ctx=op_ctx, must_contain=[r'for \(auto&& sender : senders\)'],
                          loops={0: '__CPROVER_assigns(vf_i, OP.numHolders_, G.connected, G.ctor_threw)\n'
                                    '__CPROVER_loop_invariant(vf_i <= VF_N && OP.numHolders_ == vf_i && G.connected == vf_i && !G.ctor_threw)\n'
                                    '__CPROVER_decreases(VF_N - vf_i)'}),
        'start': dict(file=H, sig=r'void start\(\) noexcept', within=OPCLS, ctx=op_ctx),
        'request_stop': dict(file=H, sig=r'void request_stop\(\) noexcept', within=OPCLS, ctx=op_ctx),
        'element_complete': dict(file=H, sig=r'void element_complete\(\) noexcept', within=OPCLS, ctx=op_ctx),
        'er_set_value': dict(file=H, sig=r'void set_value\(Value&&\.\.\. value\) noexcept', within=RCVCLS, ctx=rcv_ctx),
        'er_set_error': dict(file=H, sig=r'void set_error\(Error&& error\) noexcept', within=RCVCLS, ctx=rcv_ctx),
        'er_set_done': dict(file=H, sig=r'void set_done\(\) noexcept', within=RCVCLS, ctx=rcv_ctx),
        'cancel_call': dict(file=H, sig=r'void operator\(\)\(\) noexcept', within=CANCELCLS, ctx=cancel_ctx),
    },
    closed_world=[
        dict(file=H, members=['refCount_', 'doneOrError_', 'error_', 'stopCallback_', 'stopSource_', 'numHolders_'],
             allow=[r'std::atomic<std::size_t> refCount_;', r'std::atomic<bool> doneOrError_\{', r'std::size_t numHolders_\{',
                    r'(?s)std::optional<unifex::sender_error_types_t<Sender, std::variant>> error_;',
                    r'unifex::inplace_stop_source stopSource_;',
                    r'(?s)unifex::manual_lifetime<typename unifex::stop_token_type_t<\s*Receiver&>::template callback_type<cancel_operation>>\s*stopCallback_;',
                    # constructor's mem-initialiser (extracted as EXPR refCount_init; the body is extract `ctor`) and destructor
                    r', refCount_\([^{;]*\) \{',
                    r'(?s)~type\(\) \{.*?allocator\.deallocate\(holders_, numHolders_\);\s*\}',
                    # read-only accessor handing the children their stop token
                    r'(?s)unifex::inplace_stop_source& get_stop_source\(\) const noexcept \{\s*return op_\.stopSource_;\s*\}']),
    ],
    units=[
        dict(name='ctor', harness='h_ctor', enforce='war_op_ctor', expect_loop_obligations=True),
        dict(name='element_complete', harness='h_element_complete', enforce='war_op_element_complete'),
        dict(name='request_stop', harness='h_request_stop', enforce='war_op_request_stop',
             replace=['war_op_element_complete']),
        dict(name='cancel_operation_call', harness='h_cancel_call', enforce='cancel_operation_call',
             replace=['war_op_request_stop']),
        dict(name='start', harness='h_start', enforce='war_op_start', replace=['cancel_operation_call']),
        dict(name='element_set_value', harness='h_er_set_value', enforce='element_receiver_set_value',
             replace=['war_op_element_complete', 'element_receiver_set_error']),
        dict(name='element_set_error', harness='h_er_set_error', enforce='element_receiver_set_error',
             replace=['war_op_element_complete']),
        dict(name='element_set_done', harness='h_er_set_done', enforce='element_receiver_set_done',
             replace=['war_op_element_complete']),
        dict(name='lemma_election', harness='lemma_election', mode='lemma'),
        dict(name='lemma_rely', harness='lemma_rely', mode='lemma'),
        dict(name='lemma_init', harness='lemma_init', mode='lemma'),
        dict(name='lemma_first_failure', harness='lemma_first_failure', mode='lemma'),
    ],
    assumptions=[
        'each child completes exactly once and not before it has been started (C01 for the children); a child signals through exactly one of the element receiver\'s set_value/set_error/set_done',
        'the stop callback is invoked at most once per registration, and stopCallback_.destruct() returns only after a concurrent invocation has returned (C03, group stop_token)',
        'atomics sequentially consistent (memory orders dropped)',
        'payload plumbing dropped: holders\' values / error_ contents, std::visit / std::transform; only the channel and "error_ has a value" are kept',
        'a throwing receiver set_value leaves the receiver un-completed (the library then calls set_error on it): the may-throw stub EV_set_value counts a completion only when it returns normally',
        'N = senders.size() symbolic, 0 <= N <= 2^32',
        'stopSource_.request_stop() may complete children synchronously: modelled as an environment step inside EV_stop_children; child operations themselves are not reached',
        'the operation may be destroyed by the receiver as soon as a completion signal was delivered, and by another owner as soon as the verified call gave up its unit without being elected (after the children have been started)',
        'C05 scope note: when_all_range\'s element_complete() has no "done if the receiver\'s stop token is stopped" clause (when_all has one); the contract states the function the code documents for this algorithm: stored error > done > values',
    ],
    drops=['memory orders', 'template genericity (Sender, Receiver)', 'payload arguments of set_value/set_error and the value/error stores',
           'std::visit over error_ -> EV_set_error_stored', 'UNIFEX_TRY/UNIFEX_CATCH -> goto vf_catch at the may-throw stubs EV_store_value / EV_values_reserve / EV_values_collect / EV_set_value',
           'range-for over the senders rewritten to an index loop over senders.size(); placement-new of a holder -> EV_connect_child',
           'stopCallback_.construct(...) -> EV_cb_construct (may run the callback inline), std::for_each(start) -> EV_start_children',
           'allocator / std::destroy calls -> event stubs; the destructor is classified, not extracted'],
)
