/* C04 / C05 / C01: when_any (include/unifex/when_any.hpp) -- "first completion wins".
 *
 * when_any is a composition:
 *     just(optional<tuple<Result...>>{}, senders...) | let_value(... let_value_with(once_flag factory, ...
 *         when_all((senders | let_value(store_result))...) | let_done(on_done) | let_value(on_value)
 * The code that decides the property is: the three lambdas store_result / on_done / on_value (when_any.hpp), the operation
 * of just_void_or_done (the sender store_result and on_done return), the pipeline expression itself, and inside when_all
 * the element receiver's set_error/set_done (first-failure latch + stop request on the others), element_complete (election)
 * and deliver_result.  All of them are EXTRACTED (@BODY/@EXPR); the documented channel mapping of the let_* adaptors is the
 * spec-side interpreter below, driven by the extracted pipeline table (assumption, see spec.py).
 *
 * M1 protocol state: when_all's refCount_ / doneOrError_ / error_.has_value(), the once_flag and optResult.has_value();
 * ghost: k = children that have not released their unit, a = when_all's stop callback holds a unit (environment only),
 * e = the election happened, first = kind of the first failure seen by when_all (= the first finisher of when_any),
 * ep = its error store is pending, busy = a call_once callable is executing. */
#include <stddef.h>
#include <stdint.h>

struct when_any_state { _Bool once; _Bool has; };           /* onceFlag has been set; optResult.has_value() */
struct jvod_op { _Bool isVoid_; };                         /* just_void_or_done's operation */
struct when_all_op { size_t refCount_; _Bool doneOrError_; _Bool error_; /* error_.has_value() */ };
struct element_receiver { struct when_all_op* op_; };

enum { K_NONE, K_value, K_error, K_done, K_result };       /* channels; K_result = set_value(the stored first result...) */
enum { F_NONE, F_ERROR, F_DONE };                          /* kind of when_all's first failure */
enum { CB_NONE, CB_REGISTERED, CB_DESTRUCTED };            /* when_all's registration on the token of the final receiver */
enum { AD_none, AD_let_value, AD_let_error, AD_let_done }; /* adaptors of the pipeline table */
enum { FN_none, FN_store_result, FN_on_done, FN_on_value };
#define ST(ad, fn) (AD_##ad * 8 + FN_##fn)
#define ST_AD(s) ((s) / 8)
#define ST_FN(s) ((s) % 8)
#define ST_WHEN_ALL_OF(child) (child)
#define VF_THREW 2                                          /* store_result: the exception of a throwing emplace propagates */
#define ONCE_FRESH 0                                        /* std::once_flag{}: no call has completed */
#define OPT_EMPTY 0                                         /* std::optional<...>{}: disengaged */

struct pst_g { size_t k; _Bool a, e, ep, busy; int first; };
struct pst { size_t c; _Bool doe, es, once, has; struct pst_g g; };

struct vf_ghost {
  struct pst_g p;                 /* protocol ghost (shared with the environment) */
  unsigned mine;                  /* units of refCount_ the verified call owns (it is a child) */
  int my_kind;                    /* what the base child signals (K_value / K_error / K_done) */
  int to_wa;                      /* the channel on which that completion reaches when_all's element receiver */
  _Bool lagging;                  /* another child had already completed (released its unit) when this completion began */
  _Bool i_won;                    /* my exchange on doneOrError_ returned false: I am the first finisher */
  unsigned decs; size_t dec_old; _Bool elected;
  unsigned stopped_children, error_stores;
  _Bool in_once, won_once, threw; unsigned once_calls, stores, jv_made;       /* call_once / first-result slot */
  unsigned jv_completions; int jv_out;                                        /* just_void_or_done's operation */
  unsigned wa_completed; int wa_channel; int cb_state; unsigned cb_destructs; _Bool stop_seen; unsigned stop_polls;
  unsigned final_completed; int final_channel; unsigned has_reads, result_takes;
  _Bool dead; struct when_all_op snap;
};
static struct vf_ghost G;
static struct when_any_state ST_;
#define STATE ST_
static struct jvod_op JV;
static struct when_all_op OP;
static struct element_receiver RCV;
static size_t VF_N;
#define VF_NMAX ((size_t)1 << 32)

static void vf_guar(void* p, uint64_t o, uint64_t n);
#define VF_G(p, o, n) vf_guar((void*)(p), (uint64_t)(o), (uint64_t)(n))
#include "vf.h"
static _Bool vf_nb(void) { return VF_nondet_bool() ? 1 : 0; }

#define refCount_INIT (/*@EXPR wa_refCount_init*/)
#define doneOrError_INIT (/*@EXPR wa_doneOrError_init*/)
#define N_STATIC_ASSERT (/*@EXPR wa_n_positive*/)
#define once_INIT (/*@EXPR once_init*/)
#define opt_INIT (/*@EXPR opt_init*/)
static const int PIPE[] = { /*@EXPR pipeline*/ };
#define PIPE_N (sizeof PIPE / sizeof PIPE[0])

/* ---------------- protocol predicates ---------------- */
#define B(x) ((x) != 0)
#define I(x) ((x) ? (size_t)1 : (size_t)0)
#define INV_(c, doe, es, once, has, k, a, e, ep, busy, first) ( \
     ((e) ? ((k) == 0 && !(a)) : ((c) == (k) + I(a) && (c) >= 1)) \
  && (k) <= VF_N && VF_N >= 1 && VF_N <= VF_NMAX \
  && (first) >= F_NONE && (first) <= F_DONE && (B(doe) == ((first) != F_NONE)) \
  && (!(es) || (first) == F_ERROR) && (!(ep) || (first) == F_ERROR) && ((first) != F_ERROR || (B(es) != B(ep))) && (!(ep) || (k) >= 1) \
  && ((k) == VF_N || (first) != F_NONE)              /* a child that has released its unit has latched: the first finisher is known */ \
  && (!(has) || (once) || (busy)) && (!(once) || (has)) && (!(busy) || (!(once) && (k) >= 1)) )
#define INV(s) INV_((s).c, (s).doe, (s).es, (s).once, (s).has, (s).g.k, (s).g.a, (s).g.e, (s).g.ep, (s).g.busy, (s).g.first)
#define INV_NOW INV_(OP.refCount_, OP.doneOrError_, OP.error_, STATE.once, STATE.has, G.p.k, G.p.a, G.p.e, G.p.ep, G.p.busy, G.p.first)
#define SAME_LATCH(o, n) (B((n).doe) == B((o).doe) && B((n).es) == B((o).es) && B((n).g.ep) == B((o).g.ep) && (n).g.first == (o).g.first)
#define SAME_ONCE(o, n) (B((n).once) == B((o).once) && B((n).has) == B((o).has) && B((n).g.busy) == B((o).g.busy))
#define SAME_REF(o, n) ((n).c == (o).c && (n).g.k == (o).g.k && B((n).g.a) == B((o).g.a) && B((n).g.e) == B((o).g.e))
/* the steps any party may take (guarantee) */
#define STEP_CHILD_DONE(o, n) ((o).g.k >= 1 && (o).g.first != F_NONE && !((o).g.ep && (o).g.k == 1) && !((o).g.busy && (o).g.k == 1) \
  && (n).c == (o).c - 1 && (n).g.k == (o).g.k - 1 && B((n).g.e) == ((o).c == 1) && !(o).g.e && B((n).g.a) == B((o).g.a) && SAME_LATCH(o, n) && SAME_ONCE(o, n))
#define STEP_CB_ENTER(o, n) (!(o).g.e && !(o).g.a && (n).g.a && (n).c == (o).c + 1 && (n).g.k == (o).g.k && !(n).g.e && SAME_LATCH(o, n) && SAME_ONCE(o, n))
#define STEP_CB_EXIT(o, n) (!(o).g.e && (o).g.a && !(n).g.a && (n).c == (o).c - 1 && (n).g.k == (o).g.k && B((n).g.e) == ((o).c == 1) && SAME_LATCH(o, n) && SAME_ONCE(o, n))
#define STEP_CB_DEAD(o, n) ((o).g.e && (n).g.e && (n).g.k == (o).g.k && B((n).g.a) == B((o).g.a) && SAME_LATCH(o, n) && SAME_ONCE(o, n))   /* late callback: refCount_ 0 -> 1, nothing else */
#define STEP_LATCH(o, n, kind) ((o).g.k >= 1 && SAME_REF(o, n) && SAME_ONCE(o, n) && (n).doe \
  && ((o).doe ? SAME_LATCH(o, n) : ((n).g.first == (kind) && B((n).g.ep) == ((kind) == F_ERROR) && B((n).es) == B((o).es))))
#define STEP_STORE_ERROR(o, n) ((o).g.ep && !(n).g.ep && (n).es && SAME_REF(o, n) && SAME_ONCE(o, n) && B((n).doe) == B((o).doe) && (n).g.first == (o).g.first)
#define STEP_ONCE_BEGIN(o, n) (!(o).g.busy && !(o).once && (o).g.k >= 1 && (n).g.busy && !(n).once && B((n).has) == B((o).has) && SAME_REF(o, n) && SAME_LATCH(o, n))
#define STEP_EMPLACE(o, n) ((o).g.busy && !(o).has && (n).has && (n).g.busy && B((n).once) == B((o).once) && SAME_REF(o, n) && SAME_LATCH(o, n))
#define STEP_ONCE_END(o, n) ((o).g.busy && (o).has && !(n).g.busy && (n).once && (n).has && SAME_REF(o, n) && SAME_LATCH(o, n))
#define STEP_ONCE_THROW(o, n) ((o).g.busy && !(o).has && !(n).g.busy && !(n).once && !(n).has && SAME_REF(o, n) && SAME_LATCH(o, n))

/* rely of a child's completion call owning `mine` units; won = it is the first finisher; in_once = it executes the callable */
#define RELY_(o, n, mine, won, in_once) ( INV(n) \
  && (n).g.k <= (o).g.k && (!(o).g.e || (n).g.e) \
  && (SAME_LATCH(o, n) || (!(won) && (o).g.k >= (size_t)(mine) + 1))                  /* the latch / error_ is moved only by ANOTHER child that owns a unit */ \
  && ((o).g.first == F_NONE || (n).g.first == (o).g.first) && (!(o).es || (n).es) \
  && ((won) || !(n).g.ep || (n).g.k >= (size_t)(mine) + 1) \
  && ((mine) == 0 || (n).g.k >= 1)                                                    /* nobody consumes my unit */ \
  && (SAME_ONCE(o, n) || (!(in_once) && (o).g.k >= (size_t)(mine) + 1))               /* the slot / flag is moved only by ANOTHER child that owns a unit */ \
  && (!(o).once || (n).once) && (!(o).has || (n).has)                                  /* first result: stored once, never cleared */ \
  && ((in_once) || !(n).g.busy || (n).g.k >= (size_t)(mine) + 1) )
#define RELY(o, n) RELY_(o, n, G.mine, G.i_won, G.in_once)

static struct pst pst_now(void) {
  struct pst s; s.c = OP.refCount_; s.doe = OP.doneOrError_; s.es = OP.error_; s.once = STATE.once; s.has = STATE.has; s.g = G.p; return s;
}
static void pst_set(struct pst s) { OP.refCount_ = s.c; OP.doneOrError_ = s.doe; OP.error_ = s.es; STATE.once = s.once; STATE.has = s.has; G.p = s.g; }
static struct pst pst_nondet(void) {
  struct pst n; n.c = VF_nondet_size_t(); n.doe = vf_nb(); n.es = vf_nb(); n.once = vf_nb(); n.has = vf_nb();
  n.g.k = VF_nondet_size_t(); n.g.a = vf_nb(); n.g.e = vf_nb(); n.g.ep = vf_nb(); n.g.busy = vf_nb(); n.g.first = VF_nondet_int();
  return n;
}
#define DEAD_MSG "no access to when_all's operation after it may have been destroyed (completion delivered, or unit given up without being elected)"
static void vf_env(void) {
  struct pst o = pst_now(), n = pst_nondet();
  __CPROVER_assume(RELY(o, n));
  pst_set(n);
}
static void vf_interfere(void) {
  VF_P(!G.dead, "atomic access: " DEAD_MSG);
  if (!G.dead) vf_env();
}
static void vf_die(void) {
  struct when_all_op f; f.refCount_ = VF_nondet_size_t(); f.doneOrError_ = vf_nb(); f.error_ = vf_nb();
  OP = f; G.snap = f; G.dead = 1;
}
#define UNTOUCHED (!G.dead || (OP.refCount_ == G.snap.refCount_ && OP.doneOrError_ == G.snap.doneOrError_ && OP.error_ == G.snap.error_))

static void vf_guar(void* p, uint64_t o, uint64_t n) {
  struct pst s0 = pst_now(), s1 = s0;
  VF_P(!G.dead, "atomic write: " DEAD_MSG);
  if (p == (void*)&OP.refCount_) {
    s1.c = (size_t)n;
    VF_P(n == o - 1 && G.mine == 1, "guarantee: a unit of refCount_ is released only by a child that owns one");
    VF_P(G.p.first != F_NONE, "C04: inside when_any every child completion latches when_all's first-failure flag before its unit is released (the first finisher ends the race for everybody)");
    VF_P(!G.i_won || G.stopped_children >= 1, "C04: the first finisher requests stop on the remaining children before giving up its reference");
    VF_P(!G.i_won || !G.p.ep, "C05: the first finisher stores its error before its reference is released");
    VF_P(!G.in_once, "the unit is not released from inside the call_once callable");
    s1.g.k = s0.g.k - 1; s1.g.e = (o == 1);
    VF_P(STEP_CHILD_DONE(s0, s1), "guarantee: a child's decrement is its child_done step");
    G.decs++; G.dec_old = (size_t)o; G.mine = 0; if (o == 1) G.elected = 1;
    G.p = s1.g;
    if (o != 1) { vf_die(); G.snap.refCount_ = (size_t)n; }
  } else if (p == (void*)&OP.doneOrError_) {
    int kind = G.to_wa == K_error ? F_ERROR : F_DONE;
    VF_P(G.mine == 1 && (G.to_wa == K_error || G.to_wa == K_done), "guarantee: doneOrError_ is written only by a failing child that still owns its unit");
    s1.doe = (_Bool)n;
    if (!s0.doe) { s1.g.first = kind; s1.g.ep = (kind == F_ERROR); G.i_won = 1; }
    VF_P(STEP_LATCH(s0, s1, kind), "guarantee: doneOrError_ is only ever latched to true (the first finisher wins)");
    G.p = s1.g;
  } else {
    VF_P(0, "atomic write to an unexpected location");
  }
}

/* ---------------- event stubs: first-result slot (when_any.hpp lambdas) ---------------- */
#define IS_CHILD_VALUE (G.mine == 1 && G.my_kind == K_value)
/* std::call_once(onceFlag, callable): returns 1 iff THIS call executes the callable */
static _Bool EV_call_once_begin(struct when_any_state* self) {
  VF_P(!G.in_once, "call_once is not re-entered from its own callable (deadlock)");
  VF_P(IS_CHILD_VALUE, "the once_flag is used only by a child completing with a value, while it still owns its when_all unit");
  vf_env();
  __CPROVER_assume(!G.p.busy);                 /* call_once blocks while another thread's callable is executing */
  G.once_calls++;
  if (self->once) return 0;
  struct pst s0 = pst_now(), s1 = s0; s1.g.busy = 1;
  VF_P(STEP_ONCE_BEGIN(s0, s1), "guarantee: once_begin step");
  G.p.busy = 1; G.in_once = 1; G.won_once = 1;
  return 1;
}
/* optResult.emplace(results...): may throw (copy of the values) */
static _Bool EV_emplace_result(struct when_any_state* self) {
  VF_P(G.in_once, "C05: the first-result slot is written only inside call_once (the first value wins, later values are discarded)");
  VF_P(!self->has, "C05: a stored first result is never overwritten");
  VF_P(IS_CHILD_VALUE, "the slot is written only by a child completing with a value, while it still owns its when_all unit (the final delivery cannot run concurrently)");
#ifdef VF_DOC_FIRST
  VF_P(!G.lagging, "C05 (documented): the result of a lagging sender (another child had already completed when this one completed) is discarded");
#endif
  struct pst s0 = pst_now(), s1 = s0;
  if (VF_nondet_bool()) {
    s1.g.busy = 0;
    VF_P(STEP_ONCE_THROW(s0, s1), "guarantee: once_throw step");
    G.threw = 1; G.in_once = 0; G.p.busy = 0;     /* the exception leaves call_once: flag unset, another caller may run */
    return 1;
  }
  s1.has = 1;
  VF_P(STEP_EMPLACE(s0, s1), "guarantee: emplace step");
  self->has = 1; G.stores++;
  return 0;
}
static void EV_call_once_end(struct when_any_state* self) {
  VF_P(G.in_once, "call_once's callable returns once");
  struct pst s0 = pst_now(), s1 = s0; s1.once = 1; s1.g.busy = 0;
  VF_P(STEP_ONCE_END(s0, s1), "guarantee: once_end step (the flag is set after the result was stored)");
  self->once = 1; G.p.busy = 0; G.in_once = 0;
}
/* just_void_or_done(b): the sender is described by b */
static int EV_jvod(struct when_any_state* self, _Bool isVoid) { G.jv_made++; return isVoid ? 1 : 0; }
/* optResult.has_value() read by the continuation lambdas: only after when_all has completed (no writer is left) */
static _Bool EV_opt_has_value(struct when_any_state* self) {
  VF_P(G.wa_completed == 1 && G.p.e && G.p.k == 0, "C01: the first-result slot is read only after ALL children have completed (when_all delivered)");
  VF_P(G.final_completed == 0, "the slot is not read after the final receiver was completed");
  G.has_reads++;
  return self->has;
}
/* std::apply(just, std::move(optResult.value())) */
static int EV_just_stored_result(struct when_any_state* self) {
  VF_P(G.wa_completed == 1 && G.p.e && G.p.k == 0, "C01: the stored result is taken only after ALL children have completed");
  VF_P(self->has, "C05: the delivered value is the stored first result (optResult.value() on an empty optional throws)");
  VF_P(G.result_takes == 0 && G.final_completed == 0, "the stored result is moved out once");
  G.result_takes++;
  return K_result;
}
/* just_void_or_done's operation completes its receiver inline */
static void EV_jv_set_value(struct jvod_op* self) { G.jv_completions++; G.jv_out = K_value; }
static void EV_jv_set_done(struct jvod_op* self) { G.jv_completions++; G.jv_out = K_done; }

/* ---------------- event stubs: when_all (as in group when_all) ---------------- */
void when_any_pipeline_deliver(int ch);
static void EV_stop_children(struct when_all_op* self) {
  VF_P(!G.dead, "stopSource_.request_stop(): " DEAD_MSG);
  VF_P(G.mine == 1, "C04: the children are told to stop while the caller pins the operation with a unit it owns (not after giving it up)");
  VF_P(G.i_won, "only the first finisher requests stop");
  G.stopped_children++;
  vf_env();
}
static void EV_store_error(struct element_receiver* self) {
  VF_P(!G.dead, "error_ store: " DEAD_MSG);
  VF_P(G.i_won && G.p.ep, "C05: error_ is written by exactly one child, the first finisher");
  VF_P(G.mine == 1, "C05: error_ is written before that child's reference is released");
  struct pst s0 = pst_now(), s1 = s0;
  s1.es = 1; s1.g.ep = 0;
  VF_P(STEP_STORE_ERROR(s0, s1), "guarantee: error_ store is the store_error step");
  self->op_->error_ = 1; G.p.ep = 0; G.error_stores++;
}
static void EV_cb_destruct(struct when_all_op* self) {
  VF_P(!G.dead, "stopCallback_.destruct(): " DEAD_MSG);
  VF_P(G.wa_completed == 0 && G.final_completed == 0, "C04: the stop callback is deregistered BEFORE the receiver is completed");
  VF_P(G.cb_state == CB_REGISTERED, "the stop callback is destructed exactly once");
  VF_P(G.elected, "only the elected completer deregisters the stop callback (until then stop requests must reach the children)");
  G.cb_state = CB_DESTRUCTED; G.cb_destructs++;
}
static _Bool EV_stop_requested(struct when_all_op* self) {
  VF_P(!G.dead && G.wa_completed == 0, "the receiver's stop token is used only before the receiver is completed");
  _Bool r = vf_nb();
  G.stop_seen = r; G.stop_polls++;
  return r;
}
static _Bool EV_error_has_value(struct when_all_op* self) {
  VF_P(!G.dead, "error_.has_value(): " DEAD_MSG);
  VF_P(G.elected, "error_ is read only by the elected completer");
  return self->error_;
}
/* when_all completes ITS receiver = the head of the pipeline (let_done's receiver): the continuation runs inline */
static void vf_wa_complete(int ch) {
  VF_P(G.wa_completed == 0, "C01: when_all completes its receiver at most once");
  VF_P(!G.dead, "completion signal: " DEAD_MSG);
  VF_P(G.elected, "C01: the completion signal is delivered only by the party whose fetch_sub returned 1");
  VF_P(G.cb_state != CB_REGISTERED, "C04: the stop callback is deregistered before the receiver is completed");
  G.wa_completed++; G.wa_channel = ch;
  vf_die();
  when_any_pipeline_deliver(ch);
}
static void EV_wa_set_done(struct when_all_op* self) { VF_CANARY("when_all completes with done"); vf_wa_complete(K_done); }
static void EV_wa_set_error_stored(struct when_all_op* self) {
  VF_CANARY("when_all completes with the stored error");
  VF_P(G.dead || self->error_, "C05: the error that is delivered has been stored");
  vf_wa_complete(K_error);
}
static void EV_wa_deliver_values(struct when_all_op* self) {
  VF_P(0, "C04/C05: inside when_any when_all never completes with values: every child completion reaches it as done/error");
}
/* the final receiver (the receiver connected to when_any) */
static void vf_final(int ch) {
  VF_P(G.final_completed == 0, "C01: when_any completes its receiver exactly once");
  VF_P(G.wa_completed == 1 && G.p.e && G.p.k == 0, "C01: when_any completes only after ALL children have completed");
  VF_P(G.cb_state != CB_REGISTERED, "C04: no stop callback of the composition is registered on the receiver's token when the receiver is completed");
  VF_P(ch == K_result || ch == K_error || ch == K_done, "C05: the final signal is set_value(stored result) / set_error / set_done");
  VF_P(ch != K_result || G.result_takes == 1, "C05: a value completion carries the stored first result");
  G.final_completed++; G.final_channel = ch;
}

/* ---------------- contracts: when_any.hpp lambdas, just_void_or_done ---------------- */
#define A_ONCE STATE, OP, G.p, G.in_once, G.won_once, G.threw, G.once_calls, G.stores, G.jv_made
#define CHILD_FRESH (G.decs == 0 && !G.elected && !G.dead && G.wa_completed == 0 && G.final_completed == 0 && !G.i_won && G.stopped_children == 0 && G.error_stores == 0 \
   && G.cb_state == CB_REGISTERED && G.cb_destructs == 0 && G.stop_polls == 0 && G.has_reads == 0 && G.result_takes == 0 \
   && !G.in_once && !G.won_once && !G.threw && G.once_calls == 0 && G.stores == 0 && G.jv_made == 0 && G.jv_completions == 0)
#define CHILD_PRE (CHILD_FRESH && INV_NOW && CALL_CONSISTENT && G.mine == 1 && G.p.k >= 1 && !G.p.e && B(G.lagging) == (G.p.k < VF_N))
#define CALL_CONSISTENT ((!G.i_won || G.p.first == (G.to_wa == K_error ? F_ERROR : F_DONE)) && (G.i_won || !G.p.ep || G.p.k >= (size_t)G.mine + 1) && (!G.p.busy || G.p.k >= (size_t)G.mine + 1))
/* what the environment cannot undo */
#define LATCH_FRAME ((__CPROVER_old(G.p.first) == F_NONE || G.p.first == __CPROVER_old(G.p.first)) && (!__CPROVER_old(STATE.once) || STATE.once) && (!__CPROVER_old(STATE.has) || STATE.has))

/* store_result: [&optResult, &onceFlag](auto&&... results) { call_once(...emplace...); return just_void_or_done(false); } */
int when_any_store_result(struct when_any_state* self)
__CPROVER_requires(self == &STATE && CHILD_PRE && G.my_kind == K_value)
__CPROVER_assigns(A_ONCE)
__CPROVER_ensures(G.once_calls == 1 && !G.in_once && G.mine == 1 && G.p.k >= 1 && !G.p.e && INV_NOW && CALL_CONSISTENT && LATCH_FRAME)
__CPROVER_ensures(G.stores <= 1 && (G.stores == 1) == (G.won_once && !G.threw)) /* C05: this value is stored iff this call won call_once: exactly the first value is kept */
__CPROVER_ensures(!G.threw ==> (STATE.once && STATE.has && G.jv_made == 1)) /* afterwards a first result is in the slot (mine or an earlier one) */
__CPROVER_ensures(!G.threw ==> __CPROVER_return_value == 0) /* C04: the successor is just_void_or_done(false): a value completion reaches when_all as DONE, so the first finisher requests stop on the others */
__CPROVER_ensures(G.threw ==> (__CPROVER_return_value == VF_THREW && G.won_once && G.stores == 0 && G.jv_made == 0)) /* C05: a throwing copy propagates (let_value turns it into set_error) */
/*@BODY store_result*/

/* just_void_or_done's operation */
void jvod_op_start(struct jvod_op* self)
__CPROVER_requires(self == &JV)
__CPROVER_assigns(G.jv_completions, G.jv_out)
__CPROVER_ensures(G.jv_completions == __CPROVER_old(G.jv_completions) + 1) /* C01: exactly one signal, from start() */
__CPROVER_ensures(G.jv_out == (__CPROVER_old(JV.isVoid_) ? K_value : K_done)) /* C05: value iff isVoid */
/*@BODY jvod_start*/

#define AFTER_ALL (G.wa_completed == 1 && G.p.e && G.p.k == 0 && !G.p.busy && G.final_completed == 0 && B(STATE.once) == B(STATE.has))
/* let_done's function: []{ return just_void_or_done(optResult.has_value()); } */
int when_any_on_done(struct when_any_state* self)
__CPROVER_requires(self == &STATE && AFTER_ALL)
__CPROVER_assigns(G.has_reads, G.jv_made)
__CPROVER_ensures(__CPROVER_return_value == (STATE.has ? 1 : 0)) /* C05: done is turned into a value iff a first result was stored */
__CPROVER_ensures(G.has_reads == __CPROVER_old(G.has_reads) + 1 && G.jv_made == __CPROVER_old(G.jv_made) + 1)
/*@BODY on_done*/

/* let_value's function: [](auto&&...){ assert(optResult.has_value()); return std::apply(just, std::move(optResult.value())); } */
int when_any_on_value(struct when_any_state* self)
__CPROVER_requires(self == &STATE && AFTER_ALL && STATE.has && G.result_takes == 0)
__CPROVER_assigns(G.has_reads, G.result_takes)
__CPROVER_ensures(__CPROVER_return_value == K_result && G.result_takes == 1) /* C05: the value delivered is the stored first result */
/*@BODY on_value*/

/* ---------------- contracts: when_all (re-extracted) ---------------- */
#define EXPECTED_WA (G.stop_seen ? K_done : G.p.first == F_ERROR ? K_error : K_done)
/* C05 "when_any: the first completion": error of the first finisher; otherwise (first finisher done, or its value
 * turned into done by store_result, or receiver stop) the stored first value if there is one, else done */
#define EXPECTED_FINAL(wa) ((wa) == K_error ? K_error : (STATE.has ? K_result : K_done))
#define A_PIPE G.final_completed, G.final_channel, G.has_reads, G.result_takes, G.jv_made, G.jv_completions, G.jv_out, JV
#define A_DELIVER OP, STATE, G.p, G.wa_completed, G.wa_channel, G.dead, G.snap, G.cb_state, G.cb_destructs, G.stop_seen, G.stop_polls, A_PIPE
#define A_RELEASE A_DELIVER, G.mine, G.decs, G.dec_old, G.elected
#define A_FAIL A_RELEASE, G.i_won, G.stopped_children, G.error_stores

#define DELIVER_PRE (!G.dead && G.wa_completed == 0 && G.final_completed == 0 && G.elected && G.mine == 0 && INV_NOW && G.p.e && !G.in_once \
   && G.cb_state == CB_REGISTERED && G.cb_destructs == 0 && G.stop_polls == 0 && G.has_reads == 0 && G.result_takes == 0)
#define OWNER_PRE (G.decs == 0 && !G.elected && !G.dead && G.wa_completed == 0 && G.final_completed == 0 && INV_NOW && CALL_CONSISTENT && G.mine == 1 && G.p.k >= 1 && !G.in_once \
   && G.cb_state == CB_REGISTERED && G.cb_destructs == 0 && G.stop_polls == 0 && G.has_reads == 0 && G.result_takes == 0 \
   && G.p.first != F_NONE && (!G.i_won || (G.stopped_children >= 1 && !G.p.ep)))
#define RELEASE_POST (G.decs == 1 && G.mine == 0 && G.wa_completed <= 1 && ((G.wa_completed == 1) == (G.dec_old == 1)) && G.final_completed == G.wa_completed \
   && (G.wa_completed == 1 ==> (G.elected && G.wa_channel == EXPECTED_WA && G.final_channel == EXPECTED_FINAL(G.wa_channel) && G.cb_state == CB_DESTRUCTED && G.cb_destructs == 1 && G.stop_polls == 1)) \
   && (G.wa_completed == 0 ==> (G.cb_destructs == 0 && G.stop_polls == 0 && G.has_reads == 0)) \
   && (G.dec_old != 1 || (G.p.e && G.p.k == 0)) && G.dead && UNTOUCHED && G.p.first != F_NONE)
#define RELEASE_FRAME ((__CPROVER_old(G.p.first) == F_NONE || G.p.first == __CPROVER_old(G.p.first)) && (!__CPROVER_old(STATE.has) || STATE.has) && (!__CPROVER_old(STATE.once) || STATE.once))
#define FAIL_POST(kindF) (G.p.first != F_NONE && (G.i_won ==> (G.p.first == (kindF) && G.stopped_children == 1 && G.error_stores == ((kindF) == F_ERROR ? 1u : 0u) && !G.p.ep)) \
   && (!G.i_won ==> (G.error_stores == 0 && G.stopped_children == 0)))

void when_all_op_deliver_result(struct when_all_op* self)
__CPROVER_requires(self == &OP && DELIVER_PRE)
__CPROVER_assigns(A_DELIVER)
__CPROVER_ensures(G.wa_completed == 1 && G.dead && UNTOUCHED) /* C01: when_all completes its receiver once; the dead operation is not touched */
__CPROVER_ensures(G.cb_state == CB_DESTRUCTED && G.cb_destructs == 1) /* C04 */
__CPROVER_ensures(G.stop_polls == 1 && G.wa_channel == EXPECTED_WA) /* when_all: receiver stop > stored error > done; never values */
__CPROVER_ensures(G.final_completed == 1 && G.final_channel == EXPECTED_FINAL(G.wa_channel)) /* C01/C05: when_any completes exactly once, with the first completion */
__CPROVER_ensures(G.p.e && G.p.k == 0 && !G.p.ep && G.p.first == __CPROVER_old(G.p.first) && B(STATE.has) == B(__CPROVER_old(STATE.has)) && B(STATE.once) == B(__CPROVER_old(STATE.once)))
/*@BODY wa_deliver_result*/

void when_all_op_element_complete(struct when_all_op* self)
__CPROVER_requires(self == &OP && OWNER_PRE) /*P*/
__CPROVER_assigns(A_RELEASE)
__CPROVER_ensures(RELEASE_POST)
__CPROVER_ensures(RELEASE_FRAME)
__CPROVER_ensures(!G.i_won || B(G.p.ep) == B(__CPROVER_old(G.p.ep)))
/*@BODY wa_element_complete*/

#define ER_PRE(ch) (self == &RCV && RCV.op_ == &OP && CHILD_FRESH_ER && INV_NOW && CALL_CONSISTENT && G.mine == 1 && G.p.k >= 1 && !G.p.e && G.to_wa == (ch))
#define CHILD_FRESH_ER (G.decs == 0 && !G.elected && !G.dead && G.wa_completed == 0 && G.final_completed == 0 && !G.i_won && G.stopped_children == 0 && G.error_stores == 0 \
   && G.cb_state == CB_REGISTERED && G.cb_destructs == 0 && G.stop_polls == 0 && G.has_reads == 0 && G.result_takes == 0 && !G.in_once)
void element_receiver_set_error(struct element_receiver* self)
__CPROVER_requires(ER_PRE(K_error))
__CPROVER_assigns(A_FAIL)
__CPROVER_ensures(RELEASE_POST)
__CPROVER_ensures(RELEASE_FRAME)
__CPROVER_ensures(FAIL_POST(F_ERROR))
/*@BODY wa_er_set_error*/

void element_receiver_set_done(struct element_receiver* self)
__CPROVER_requires(ER_PRE(K_done))
__CPROVER_assigns(A_FAIL)
__CPROVER_ensures(RELEASE_POST)
__CPROVER_ensures(RELEASE_FRAME)
__CPROVER_ensures(FAIL_POST(F_DONE))
/*@BODY wa_er_set_done*/

/* ---------------- the composition (spec-side interpreter of the extracted pipeline table) ---------------- */
static _Bool vf_triggers(int ad, int ch) {
  return ad == AD_let_value ? (ch == K_value || ch == K_result) : ad == AD_let_error ? ch == K_error : ad == AD_let_done ? ch == K_done : 0;
}
static void vf_to_element(int ch) {
  G.to_wa = ch;
  if (ch == K_error) element_receiver_set_error(&RCV);
  else if (ch == K_done) element_receiver_set_done(&RCV);
  else VF_P(0, "C04: every child completion reaches when_all as done or error (a child value that reached when_all as a value would not stop the others)");
}
/* one child of when_all: `senders | let_value(store_result)` = PIPE[0]; the base child signals G.my_kind */
void when_any_child_completes(void)
__CPROVER_requires(CHILD_PRE && (G.my_kind == K_value || G.my_kind == K_error || G.my_kind == K_done))
__CPROVER_assigns(A_FAIL, A_ONCE, G.to_wa)
__CPROVER_ensures(RELEASE_POST) /* C01: releases exactly its unit; if it is the last one when_any completes, once, with EXPECTED_FINAL */
__CPROVER_ensures(RELEASE_FRAME)
__CPROVER_ensures(G.to_wa == (G.my_kind == K_value ? (G.threw ? K_error : K_done) : G.my_kind)) /* C04: value -> done (store_result), error/done unchanged */
__CPROVER_ensures(FAIL_POST(G.to_wa == K_error ? F_ERROR : F_DONE)) /* C04: if this child is the first finisher it has requested stop on the others before releasing its unit */
__CPROVER_ensures((G.my_kind == K_value) == (G.once_calls == 1) && G.stores <= 1 && (G.stores == 1) == (G.won_once && !G.threw)) /* C05: only a value completion touches the slot; stored iff it won call_once */
__CPROVER_ensures((G.my_kind == K_value && !G.threw) ==> STATE.has)
{
  int ch = G.my_kind;
  VF_A(PIPE_N >= 1 && ST_FN(PIPE[0]) == FN_store_result, "pipeline shape: when_all((senders | let_xxx(store_result))...)");
  if (vf_triggers(ST_AD(PIPE[0]), ch)) {
    int r = when_any_store_result(&STATE);
    if (r == VF_THREW) ch = K_error;                     /* let_value: an exception from the function -> set_error(current_exception) */
    else { JV.isVoid_ = (r != 0); jvod_op_start(&JV); ch = G.jv_out; }
  }
  vf_to_element(ch);
}

static int vf_stage(int st, int ch) {
  if (!vf_triggers(ST_AD(st), ch)) return ch;            /* other channels are forwarded unchanged */
  if (ST_FN(st) == FN_on_done) { int iv = when_any_on_done(&STATE); JV.isVoid_ = (iv != 0); jvod_op_start(&JV); return G.jv_out; }
  if (ST_FN(st) == FN_on_value) { return when_any_on_value(&STATE); }
  VF_A(0, "pipeline shape: unknown stage function");
  return ch;
}
/* when_all's receiver: ... | let_done(on_done) | let_value(on_value) -> final receiver */
void when_any_pipeline_deliver(int ch)
__CPROVER_requires((ch == K_done || ch == K_error) && AFTER_ALL && G.cb_state == CB_DESTRUCTED && G.result_takes == 0)
__CPROVER_assigns(A_PIPE)
__CPROVER_ensures(G.final_completed == 1 && G.final_channel == EXPECTED_FINAL(ch)) /* C01 exactly once; C05 */
{
  VF_A(PIPE_N == 3, "pipeline shape: when_all(...) | stage | stage");
  ch = vf_stage(PIPE[1], ch);
  ch = vf_stage(PIPE[2], ch);
  vf_final(ch);
}

/* ---------------- harnesses ---------------- */
static void h_havoc(void) {
  VF_N = VF_nondet_size_t();
  pst_set(pst_nondet());
  G.mine = VF_nondet_u32(); G.my_kind = VF_nondet_int(); G.to_wa = VF_nondet_int(); G.lagging = vf_nb();
  G.i_won = vf_nb(); G.decs = VF_nondet_u32(); G.dec_old = VF_nondet_size_t(); G.elected = vf_nb();
  G.stopped_children = VF_nondet_u32(); G.error_stores = VF_nondet_u32();
  G.in_once = vf_nb(); G.won_once = vf_nb(); G.threw = vf_nb(); G.once_calls = VF_nondet_u32(); G.stores = VF_nondet_u32(); G.jv_made = VF_nondet_u32();
  G.jv_completions = VF_nondet_u32(); G.jv_out = K_NONE;
  G.wa_completed = VF_nondet_u32(); G.wa_channel = K_NONE; G.cb_state = VF_nondet_int(); G.cb_destructs = VF_nondet_u32(); G.stop_seen = 0; G.stop_polls = VF_nondet_u32();
  G.final_completed = VF_nondet_u32(); G.final_channel = K_NONE; G.has_reads = VF_nondet_u32(); G.result_takes = VF_nondet_u32();
  G.dead = vf_nb(); G.snap = OP;
  JV.isVoid_ = vf_nb();
  RCV.op_ = &OP;
}
void h_store_result(void) {
  h_havoc(); int r = when_any_store_result(&STATE);
  VF_CANARY("after store_result");
  if (G.stores == 1) { VF_CANARY("store_result can store the first value"); }
  if (!G.won_once) { VF_CANARY("store_result can find the slot already taken (later value discarded)"); }
  if (G.threw) { VF_CANARY("the copy into the slot can throw"); }
  if (G.lagging && G.stores == 1) { VF_CANARY("a lagging value can be stored (first completion was done/error)"); }
}
void h_store_result_lagging(void) { h_havoc(); when_any_store_result(&STATE); VF_CANARY("after store_result (lagging-discarded variant)"); }
void h_jvod_start(void) {
  h_havoc(); jvod_op_start(&JV);
  VF_CANARY("after just_void_or_done start");
  if (G.jv_out == K_value) { VF_CANARY("just_void_or_done(true): value"); } else { VF_CANARY("just_void_or_done(false): done"); }
}
void h_on_done(void) {
  h_havoc(); int r = when_any_on_done(&STATE);
  VF_CANARY("after on_done");
  if (r) { VF_CANARY("on_done: a result was stored"); } else { VF_CANARY("on_done: nothing stored"); }
}
void h_on_value(void) { h_havoc(); when_any_on_value(&STATE); VF_CANARY("after on_value"); }
void h_child_completes(void) {
  h_havoc(); when_any_child_completes();
  VF_CANARY("after a child's completion");
  if (G.my_kind == K_value && G.stores == 1) { VF_CANARY("a value completion stores the first result"); }
  if (G.my_kind == K_value && G.threw) { VF_CANARY("a value completion whose copy throws reaches when_all as error"); }
  if (G.my_kind == K_error && G.i_won) { VF_CANARY("an error completion can be the first finisher (requests stop)"); }
  if (G.my_kind == K_done && !G.i_won) { VF_CANARY("a done completion can be a loser"); }
  if (G.final_completed && G.final_channel == K_result) { VF_CANARY("the last child delivers the stored first value"); }
  if (!G.final_completed) { VF_CANARY("a non-last child delivers nothing"); }
}
void h_er_set_error(void) { h_havoc(); element_receiver_set_error(&RCV); VF_CANARY("after element set_error"); if (G.i_won) { VF_CANARY("set_error can be the first finisher"); } else { VF_CANARY("set_error can come second"); } }
void h_er_set_done(void) { h_havoc(); element_receiver_set_done(&RCV); VF_CANARY("after element set_done"); if (G.i_won) { VF_CANARY("set_done can be the first finisher"); } else { VF_CANARY("set_done can come second"); } }
void h_element_complete(void) {
  h_havoc(); when_all_op_element_complete(&OP);
  VF_CANARY("after element_complete");
  if (G.final_completed) { VF_CANARY("element_complete can be the elected completer"); } else { VF_CANARY("element_complete can be a non-last owner"); }
}
void h_deliver_result(void) {
  h_havoc(); when_all_op_deliver_result(&OP);
  VF_CANARY("after deliver_result");
  if (G.wa_channel == K_done && G.stop_seen) { VF_CANARY("when_all: done because the receiver's token is stopped"); }
  if (G.wa_channel == K_error) { VF_CANARY("when_all: the first finisher's error"); }
  if (G.final_channel == K_result) { VF_CANARY("when_any delivers the stored first value"); }
}
void h_pipeline_deliver(void) {
  h_havoc(); int ch = VF_nondet_int(); when_any_pipeline_deliver(ch);
  VF_CANARY("after the continuation of when_all");
  if (G.final_channel == K_result) { VF_CANARY("done + stored result -> value"); }
  if (G.final_channel == K_done) { VF_CANARY("done + nothing stored -> done"); }
  if (G.final_channel == K_error) { VF_CANARY("error -> error"); }
}

/* ---------------- M4 lemmas over the contracts' predicates ---------------- */
static int vf_step(struct pst o, struct pst n, int step, int kind) {
  switch (step) {
  case 0: return STEP_CHILD_DONE(o, n);
  case 1: return STEP_CB_ENTER(o, n);
  case 2: return STEP_CB_EXIT(o, n);
  case 3: return STEP_CB_DEAD(o, n);
  case 4: return (kind == F_ERROR || kind == F_DONE) && STEP_LATCH(o, n, kind);
  case 5: return STEP_STORE_ERROR(o, n);
  case 6: return STEP_ONCE_BEGIN(o, n);
  case 7: return STEP_EMPLACE(o, n);
  case 8: return STEP_ONCE_END(o, n);
  default: return STEP_ONCE_THROW(o, n);
  }
}
#define N_STEPS 10
void lemma_inv(void) {
  VF_N = VF_nondet_size_t();
  struct pst o = pst_nondet(), n = pst_nondet();
  int step = VF_nondet_int(), kind = VF_nondet_int();
  __CPROVER_assume(step >= 0 && step < N_STEPS);
  __CPROVER_assume(INV(o));
  VF_P((o.g.k == 0 && !o.g.a) ==> o.g.e, "lemma: all children released and no callback active => the election has happened (no lost completion)");
  VF_P(o.g.e ==> (!o.g.busy && !o.g.ep && o.g.first != F_NONE && B(o.once) == B(o.has)), "lemma: at the election nobody is inside call_once, no error store is pending, the first finisher is known, and the flag tells whether a result is stored");
  __CPROVER_assume(vf_step(o, n, step, kind));
  VF_CANARY("lemma_inv premises satisfiable");
  if (step == 0) { VF_CANARY("child_done enabled"); } if (step == 1) { VF_CANARY("cb_enter enabled"); } if (step == 2) { VF_CANARY("cb_exit enabled"); } if (step == 3) { VF_CANARY("cb_dead enabled"); }
  if (step == 4) { VF_CANARY("latch enabled"); } if (step == 5) { VF_CANARY("store_error enabled"); } if (step == 6) { VF_CANARY("once_begin enabled"); }
  if (step == 7) { VF_CANARY("emplace enabled"); } if (step == 8) { VF_CANARY("once_end enabled"); } if (step == 9) { VF_CANARY("once_throw enabled"); }
  VF_P(INV(n), "lemma: Inv is inductive for every step");
  VF_P((!o.g.e && n.g.e) ==> ((step == 0 || step == 2) && o.c == 1 && n.g.k == 0 && !n.g.a), "lemma: the election is the count's transition 1 -> 0 by a real owner's decrement");
  VF_P(((step == 0 || step == 2) && o.c == 1) ==> (!o.g.e && n.g.e), "lemma: the decrement that returns 1 is the election");
  VF_P(o.g.e ==> (step == 3 && SAME_LATCH(o, n) && SAME_ONCE(o, n)), "lemma: after the election nothing the final delivery reads can change (only the late callback's dead increment is enabled)");
}
void lemma_rely(void) {
  VF_N = VF_nondet_size_t();
  struct pst o = pst_nondet(), n = pst_nondet();
  int step = VF_nondet_int(), kind = VF_nondet_int();
  unsigned mineB = VF_nondet_u32(); _Bool wonB = vf_nb(), in_onceB = vf_nb();
  __CPROVER_assume(step >= 0 && step < N_STEPS && mineB <= 1);
  __CPROVER_assume(INV(o) && vf_step(o, n, step, kind));
  _Bool a_is_child = (step == 0 || step >= 4);
  /* B (a child's completion call) and the stepping party A are different parties: B's unit is not A's unit */
  __CPROVER_assume(mineB == 0 || o.g.k >= (a_is_child ? 2u : 1u));
  __CPROVER_assume(!wonB || (o.g.first != F_NONE && mineB == 1));
  __CPROVER_assume(!in_onceB || (o.g.busy && mineB == 1));
  __CPROVER_assume(!(step == 5) || !wonB);                                   /* the pending error store belongs to the winner A */
  __CPROVER_assume(!(step >= 7) || !in_onceB);                               /* the running callable belongs to A */
  __CPROVER_assume(!(step == 6) || !in_onceB);
  __CPROVER_assume(wonB || !o.g.ep || step == 5 || o.g.k >= (size_t)mineB + 1u + (a_is_child ? 1u : 0u));   /* the pending storer is a third child unless it is A */
  __CPROVER_assume(in_onceB || !o.g.busy || step >= 7 || o.g.k >= (size_t)mineB + 1u + (a_is_child ? 1u : 0u)); /* the busy child is a third child unless it is A */
  VF_CANARY("lemma_rely premises satisfiable");
  VF_P(RELY_(o, n, mineB, wonB, in_onceB), "lemma: every guarantee step of a party is allowed by the rely of every other party");
}
void lemma_init(void) {
  VF_N = VF_nondet_size_t();
  __CPROVER_assume(N_STATIC_ASSERT && VF_N <= VF_NMAX);
  struct pst s; s.c = refCount_INIT; s.doe = doneOrError_INIT; s.es = 0; s.once = once_INIT; s.has = opt_INIT;
  s.g.k = VF_N; s.g.a = 0; s.g.e = 0; s.g.ep = 0; s.g.busy = 0; s.g.first = F_NONE;
  VF_CANARY("lemma_init reachable");
  VF_P(INV(s), "lemma: a freshly constructed composition satisfies Inv (refCount_ = N, latch clear, once_flag fresh, slot empty)");
  VF_P(!s.once && !s.has, "lemma: the slot starts empty and the flag unset");
}
/* C05: the first stored value wins and is never overwritten; what the continuation reads is final */
void lemma_first_result(void) {
  VF_N = VF_nondet_size_t();
  struct pst s0 = pst_nondet(), s1 = pst_nondet();
  int step = VF_nondet_int(), kind = VF_nondet_int();
  __CPROVER_assume(step >= 0 && step < N_STEPS && INV(s0) && vf_step(s0, s1, step, kind));
  VF_CANARY("lemma_first_result premises satisfiable");
  VF_P(s0.has ==> s1.has, "lemma: a stored first result is never removed");
  VF_P((!s0.has && s1.has) ==> (step == 7 && s0.g.busy && !s0.once), "lemma: the slot is filled only by the emplace step of the running call_once callable, with the flag still unset");
  VF_P(s0.once ==> (s1.once && step != 6 && step != 7 && step != 9), "lemma: once the flag is set no callable runs again: later values are discarded");
  VF_P((s0.g.first != F_NONE) ==> (s1.g.first == s0.g.first), "lemma: the first finisher (when_all's first failure) never changes");
  VF_P((step == 0) ==> (s0.g.first != F_NONE), "lemma: no child releases its unit before the first finisher is known");
  /* the documented rule "lagging values are discarded" is NOT a consequence: a state in which a child has completed (k < N),
   * nobody stored a value and the flag is unset is allowed by Inv -- see unit store_result_lagging_discarded */
  if (s0.g.k < VF_N && !s0.once && !s0.g.busy && step == 6) { VF_CANARY("a lagging child can still win call_once (first completion was done/error)"); }
}
/* the pipeline table read from the source has the shape the interpreter (and the documentation) expects */
void lemma_pipeline(void) {
  VF_CANARY("lemma_pipeline reachable");
  VF_P(PIPE_N == 3, "lemma: pipeline = when_all(children...) | stage | stage");
  VF_P(PIPE[0] == ST(let_value, store_result), "lemma: each child is `sender | let_value(store_result)`: store_result runs exactly on the child's value");
  VF_P(PIPE[1] == ST(let_done, on_done), "lemma: when_all's done is mapped by let_done(on_done)");
  VF_P(PIPE[2] == ST(let_value, on_value), "lemma: the value produced by on_done is mapped by let_value(on_value) to the stored result");
}
