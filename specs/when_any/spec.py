H = 'include/unifex/when_any.hpp'
WA = 'include/unifex/when_all.hpp'
JV = 'include/unifex/just_void_or_done.hpp'
IMPL = r'auto impl\(type_list<Result\.\.\.>\s*, Senders&&\.\.\. senders\) '      # comments are stripped before matching
WA_OPCLS = r'struct _op<Receiver, Senders\.\.\.>::type \{'
WA_RCVCLS = r'struct _element_receiver<Index, Receiver, Senders\.\.\.>::type final \{'

# ---- when_any.hpp: the three lambdas that decide "first completion wins", and the pipeline expression ----
any_pre = [
    # std::call_once(onceFlag, [..]() { BODY });  ->  if (EV_call_once_begin(self)) { BODY' EV_call_once_end(self); }
    # (call_once: exactly one callable runs to completion; concurrent callers block until it has; an exception leaves the flag unset)
    (r'std::call_once\(\s*onceFlag,\s*\[&optResult,\s*&results\.\.\.\]\(\)\s*\{', 'if (EV_call_once_begin(self)) {'),
    (r'optResult\.emplace\(\s*std::forward<decltype\(results\)>\(results\)\.\.\.\s*\)\s*;', 'if (EV_emplace_result(self)) return VF_THREW;'),
    (r'\}\s*\)\s*;', 'EV_call_once_end(self); }'),
    (r'optResult\.has_value\(\)', 'EV_opt_has_value(self)'),
    (r'std::apply\(just, std::move\(optResult\.value\(\)\)\)', 'EV_just_stored_result(self)'),
    # the sender a lambda returns: just_void_or_done(b) is described by b (its operation's start() is extracted from just_void_or_done.hpp)
    (r'\bjust_void_or_done\(((?:[^()]|\([^()]*\))*)\)', r'EV_jvod(self, \1)'),
]
any_ctx = dict(cls='when_any', members=[], methods=[], pre=any_pre)
pipe_pre = [
    (r'\(\s*std::move\(senders\)\s*\|\s*(let_\w+)\(store_result\)\s*\)\s*\.\.\.', r'ST(\1, store_result)'),
    (r'\b(let_\w+)\(\s*\[&optResult\]\(\)\s*noexcept\s*\{[^{}]*\}\s*\)', r'ST(\1, on_done)'),
    (r'\b(let_\w+)\(\s*\[&optResult\]\(auto&&\.\.\.\)\s*\{[^{}]*\}\s*\)', r'ST(\1, on_value)'),
    (r'\bwhen_all\(', 'ST_WHEN_ALL_OF('),
    (r'\|', ','),
]
init_pre = [(r'std::once_flag\{\}', 'ONCE_FRESH'), (r'std::optional<std::tuple<Result\.\.\.>>\{\}', 'OPT_EMPTY')]

# ---- when_all.hpp (re-extracted: the latch + stop request of the first finisher, the election, the delivery) ----
wa_op_ctx = dict(
    cls='when_all_op', members=['refCount_', 'doneOrError_'], methods=['element_complete', 'deliver_result'],
    pre=[
        (r'sizeof\.\.\.\(Senders\)', 'VF_N'),
        (r'stopCallback_\.destruct\(\)', 'EV_cb_destruct(self)'),
        (r'get_stop_token\(receiver_\)\.stop_requested\(\)', 'EV_stop_requested(self)'),
        (r'unifex::set_done\(std::move\(receiver_\)\)', 'EV_wa_set_done(self)'),
        (r'std::visit\(\s*\[this\]\(auto&& error\) \{\s*unifex::set_error\(std::move\(receiver_\), \(decltype\(error\)\)error\);\s*\},\s*std::move\(error_\.value\(\)\)\)', 'EV_wa_set_error_stored(self)'),
        (r'error_\.has_value\(\)', 'EV_error_has_value(self)'),
        # when_all's value channel: dead inside when_any (every child completion reaches when_all as done/error) -> obligation stub
        (r'(?<![\w>.])deliver_value\(std::index_sequence_for<Senders\.\.\.>\{\}\)', 'EV_wa_deliver_values(self)'),
    ])
wa_rcv_ctx = dict(
    cls='element_receiver', members=['op_'], methods=[], obj_methods={'element_complete': 'when_all_op_element_complete'},
    pre=[
        (r'op_\.error_\.emplace\([^;]*\);', 'EV_store_error(self);'),
        (r'op_\.stopSource_\.request_stop\(\)', 'EV_stop_children(self->op_)'),
        (r'\bop_\.', 'op_->'),
    ])
jv_ctx = dict(cls='jvod_op', members=['isVoid_'], methods=[],
              pre=[(r'unifex::set_value\(\(Receiver\s*&&\)\s*receiver_\)', 'EV_jv_set_value(self)'),
                   (r'unifex::set_done\(\(Receiver\s*&&\)\s*receiver_\)', 'EV_jv_set_done(self)')])

SPEC = dict(
    properties=['C01', 'C04', 'C05'],
    ctx={},
    extracts={
        # when_any.hpp
        'once_init': dict(file=H, kind='expr', sig=r'\[\]\(\) noexcept \{ return (std::once_flag\{\}); \}', within=IMPL, ctx=dict(pre=init_pre)),
        'opt_init': dict(file=H, kind='expr', sig=r'return just\(\s*(std::optional<std::tuple<Result\.\.\.>>\{\}),', within=IMPL, ctx=dict(pre=init_pre)),
        'store_result': dict(file=H, sig=r'auto store_result = \[&optResult,\s*&onceFlag\]\(auto&&\.\.\. results\) ', within=IMPL, ctx=any_ctx),
        'on_done': dict(file=H, sig=r'let_\w+\(\[&optResult\]\(\) noexcept ', within=IMPL, ctx=any_ctx),
        'on_value': dict(file=H, sig=r'let_\w+\(\[&optResult\]\(auto&&\.\.\.\) ', within=IMPL, ctx=any_ctx),
        'pipeline': dict(file=H, kind='expr', sig=r'(?s)return (when_all\(.*?\}\s*\))\s*;\s*\}\s*\)\s*;\s*\}\s*\)\s*;', within=IMPL, ctx=dict(pre=pipe_pre)),
        # just_void_or_done.hpp
        'jvod_start': dict(file=JV, sig=r'void start\(\) & noexcept', within=r'struct _op<Receiver>::type \{', ctx=jv_ctx),
        # when_all.hpp
        'wa_n_positive': dict(file=WA, kind='expr', sig=r'static_assert\((sizeof\.\.\.\(Senders\) > 0)\);', ctx=wa_op_ctx),
        'wa_refCount_init': dict(file=WA, kind='expr', sig=r'std::atomic<std::size_t> refCount_\{([^}]*)\}', ctx=wa_op_ctx),
        'wa_doneOrError_init': dict(file=WA, kind='expr', sig=r'std::atomic<bool> doneOrError_\{([^}]*)\}', ctx=wa_op_ctx),
        'wa_element_complete': dict(file=WA, sig=r'void element_complete\(\) noexcept', within=WA_OPCLS, ctx=wa_op_ctx),
        'wa_deliver_result': dict(file=WA, sig=r'void deliver_result\(\) noexcept', within=WA_OPCLS, ctx=wa_op_ctx),
        'wa_er_set_error': dict(file=WA, sig=r'void set_error\(Error&& error\) noexcept', within=WA_RCVCLS, ctx=wa_rcv_ctx),
        'wa_er_set_done': dict(file=WA, sig=r'void set_done\(\) noexcept', within=WA_RCVCLS, ctx=wa_rcv_ctx),
    },
    closed_world=[
        # the first-result slot and its guard: every use inside impl() is an extracted lambda or a classified span
        dict(file=H, members=['optResult', 'onceFlag'],
             allow=[r'let_value\(\[\]\(auto& optResult, auto&\.\.\. senders\) \{',        # the slot is introduced (just(optional{}, senders...))
                    r'\[&optResult, &senders\.\.\.\]\(auto& onceFlag\) \{',                 # the guard is introduced (let_value_with(once_flag factory))
                    r'(?s)auto store_result = \[&optResult,\s*&onceFlag\]']),
    ],
    units=[
        dict(name='store_result', harness='h_store_result', enforce='when_any_store_result'),
        dict(name='just_void_or_done_start', harness='h_jvod_start', enforce='jvod_op_start'),
        dict(name='on_done', harness='h_on_done', enforce='when_any_on_done'),
        dict(name='on_value', harness='h_on_value', enforce='when_any_on_value'),
        dict(name='child_completes', harness='h_child_completes', enforce='when_any_child_completes',
             replace=['when_any_store_result', 'jvod_op_start', 'element_receiver_set_error', 'element_receiver_set_done']),
        dict(name='element_set_error', harness='h_er_set_error', enforce='element_receiver_set_error', replace=['when_all_op_element_complete']),
        dict(name='element_set_done', harness='h_er_set_done', enforce='element_receiver_set_done', replace=['when_all_op_element_complete']),
        dict(name='element_complete', harness='h_element_complete', enforce='when_all_op_element_complete', replace=['when_all_op_deliver_result']),
        dict(name='deliver_result', harness='h_deliver_result', enforce='when_all_op_deliver_result', replace=['when_any_pipeline_deliver']),
        dict(name='pipeline_deliver', harness='h_pipeline_deliver', enforce='when_any_pipeline_deliver',
             replace=['when_any_on_done', 'when_any_on_value', 'jvod_op_start']),
        # the documented first-completion rule ("lagging senders may complete with set_value in which case their results are
        # discarded"): FAILS on the unchanged tree (first completion done/error, lagging value) -> thorough tier only, see the report
        dict(name='store_result_lagging_discarded', harness='h_store_result_lagging', enforce='when_any_store_result',
             props=['C05'], defines=['VF_DOC_FIRST']),
        dict(name='lemma_inv', harness='lemma_inv', mode='lemma'),
        dict(name='lemma_rely', harness='lemma_rely', mode='lemma'),
        dict(name='lemma_init', harness='lemma_init', mode='lemma'),
        dict(name='lemma_first_result', harness='lemma_first_result', mode='lemma'),
        dict(name='lemma_pipeline', harness='lemma_pipeline', mode='lemma'),
    ],
    assumptions=[
        'when_any is a composition (just | let_value | let_value_with | when_all | let_done | let_value): the documented channel mapping of the adaptors is a spec-side interpreter (glue) driven by the EXTRACTED pipeline expression: let_value/let_error/let_done(f) invoke f exactly when the predecessor completes on the matching channel, start the sender f returns connected to the downstream receiver and forward the other channels unchanged; an exception thrown by f becomes set_error (C05 for let_*: not under contract here); the adaptors forward get_stop_token of the downstream receiver unchanged (type-level)',
        'std::call_once: exactly one callable runs to completion per flag, concurrent callers block until it has returned, an exception thrown by the callable propagates to that caller and leaves the flag unset',
        'std::optional::emplace either engages the optional or throws leaving it empty; std::apply(just, std::move(optResult.value())) yields a sender that completes inline with set_value(stored result); just_void_or_done completes inline from start() (its start() body is extracted)',
        'when_all: start(), request_stop() and the stop callback are verified in group when_all; here its stop callback is part of the environment (ghost a), the element receiver set_error/set_done, element_complete and deliver_result are re-extracted and verified against when_any\'s protocol',
        'each child completes exactly once and not before it has been started (C01 for the children)',
        'atomics sequentially consistent (memory orders dropped)',
        'N = number of senders symbolic, 1 <= N <= 2^32',
        'stopSource_.request_stop() may complete children synchronously: modelled as an environment step inside EV_stop_children',
        'FINDING (not repaired): the documented rule "the result is always the completion result of the first sender to complete, even if done or error; lagging values are discarded" does not hold when the first completion is done (or error with a stopped receiver): a lagging value still wins call_once and is delivered (probes/native/when_any_first_done_lagging_value.cpp; specs/when_any/proposed_repair.diff). The obligation is unit store_result_lagging_discarded, tier=thorough only; the quick tier proves the weaker rule "the first VALUE wins, the first finisher\'s error wins over values unless the receiver was stopped"',
        'order of completions: a child "has completed before" another iff it released its when_all unit before the other one\'s completion call began (overlapping completions are unordered: any of them may be the first)',
    ],
    drops=['memory orders', 'template genericity (Result..., Senders...: one symbolic N)', 'payload: the stored tuple, the error object (only "which channel" and "slot engaged" are kept)',
           'lambda captures by reference -> one shared struct when_any_state {once, has}', 'std::call_once(flag, lambda) -> EV_call_once_begin / EV_call_once_end around the lambda\'s statements',
           'sender objects returned by the lambdas -> the bool that parametrises just_void_or_done / a marker for just(stored result)',
           'pipeline expression -> table of (adaptor, function) stages; `|` -> `,`', 'when_all deliver_value (values channel) -> obligation stub: unreachable inside when_any',
           'std::visit over error_ -> EV_wa_set_error_stored'],
)
