/* C19: include/unifex/stop_on_request.hpp -- _op<Receiver, StopTokens...>::type::{request_stop, complete, start} and
 * cancel_callback::operator().  "Exactly one complete() (set_done) over all interleavings of the N+1 stop callbacks and
 * start()'s tail; the callbacks are destroyed before the completion; nothing touches the operation afterwards."
 * Bodies marked @BODY/@EXPR are extracted from /repo on every run; everything else is specification.
 *
 * M1 on callbackState_ (INIT -> ALL_CONSTRUCTED_NOT_CALLED by start's CAS; anything -> AT_LEAST_ONE_CALLED by a callback's
 * exchange).  The duty to complete is CLAIMED by exactly one party: the callback whose exchange found
 * ALL_CONSTRUCTED_NOT_CALLED, or start() when its CAS fails (some callback ran while the callbacks were being constructed). */
#include <stddef.h>
#include <stdint.h>

struct sor_op { char callbackState_; };
struct cancel_callback { struct sor_op* op_; };

enum { CS_INIT = /*@EXPR CS_INIT*/, CS_ALL_CONSTRUCTED_NOT_CALLED = /*@EXPR CS_ALL_CONSTRUCTED_NOT_CALLED*/, CS_AT_LEAST_ONE_CALLED = /*@EXPR CS_AT_LEAST_ONE_CALLED*/ };
#define CALLBACKSTATE_INIT (/*@EXPR callbackState_init*/)

enum { S_CONSTRUCTING, S_OK, S_CLAIMED, S_FAILED };  /* start(): before its CAS / CAS succeeded / CAS failed: start completes / exception while constructing: start completes in the handler */
enum { CB_NONE, CB_LIVE, CB_DESTROYED };
enum { P_S, P_K, P_X };                              /* start frame / a running stop callback / the party inside complete() */
enum { BLK_RCB, BLK_CBS };

struct proto {
  char w;
  uint8_t s_phase, rcb, cbs;
  _Bool claimed;          /* somebody has taken the duty to call complete() */
  _Bool completed;        /* the receiver has been completed */
  _Bool dead;             /* ... and has destroyed the operation */
};
struct vf_ghost {
  int me;
  int my_block;           /* P_K: which callback block the running callback lives in */
  uint8_t s_phase, rcb, cbs;
  _Bool claimed, completed, dead;
  _Bool claimed_by_me;
  struct sor_op snap;
  char lin_old, lin_new; unsigned lin_count;
  _Bool cas_tried, cas_ok; char cas_seen;
  unsigned complete_calls, request_stop_calls, done_calls, error_calls, rcb_constructs, cbs_constructs, rcb_destructs, cbs_destructs;
  _Bool threw;
};
static struct vf_ghost G;
static struct sor_op OP;
static struct cancel_callback CBK;
static size_t VF_N;             /* sizeof...(StopTokens) */
static _Bool CFG_receiver_stop_possible;

static void vf_guar(void* p, uint64_t o, uint64_t n);
#define VF_G(p, o, n) vf_guar((void*)(p), (uint64_t)(o), (uint64_t)(n))
#include "vf.h"

#define IMP(a, b) (!(a) || (b))
/* protocol invariant */
#define INVV(w, sp, rcb, cbs, cl, co, de) ( ((w) == CS_INIT || (w) == CS_ALL_CONSTRUCTED_NOT_CALLED || (w) == CS_AT_LEAST_ONE_CALLED) \
  && (sp) <= S_FAILED && (rcb) <= CB_DESTROYED && (cbs) <= CB_DESTROYED \
  && IMP((sp) == S_CONSTRUCTING || (sp) == S_FAILED, (w) != CS_ALL_CONSTRUCTED_NOT_CALLED && !(cl)) \
  && IMP((sp) == S_CONSTRUCTING, !(co) && (rcb) != CB_DESTROYED && (cbs) != CB_DESTROYED) \
  && IMP((sp) == S_OK, (w) != CS_INIT && (cl) == ((w) == CS_AT_LEAST_ONE_CALLED) && (rcb) != CB_NONE && (cbs) != CB_NONE) \
  && IMP((sp) == S_CLAIMED, (w) == CS_AT_LEAST_ONE_CALLED && (cl) && (rcb) != CB_NONE && (cbs) != CB_NONE) \
  && IMP((sp) == S_FAILED, (cbs) != CB_LIVE) \
  && IMP((cbs) != CB_NONE, (rcb) != CB_NONE)                                               /* construction order */ \
  && IMP(!(cl) && (sp) != S_FAILED, (rcb) != CB_DESTROYED && (cbs) != CB_DESTROYED)     /* callbacks are destroyed only by the claimant (or by the unwinding start) */ \
  && IMP((w) != CS_INIT && (sp) == S_CONSTRUCTING, (rcb) == CB_LIVE)                       /* a callback can only have run if one was constructed */ \
  && IMP((co), ((cl) || (sp) == S_FAILED) && (rcb) != CB_LIVE && (cbs) != CB_LIVE)        /* completion only by the claimant, after the callbacks were destroyed */ \
  && IMP((de), (co)) )
#define INV(p) INVV((p).w, (p).s_phase, (p).rcb, (p).cbs, (p).claimed, (p).completed, (p).dead)
#define INV_NOW INVV(OP.callbackState_, G.s_phase, G.rcb, G.cbs, G.claimed, G.completed, G.dead)

#define MONO(a, b) ( IMP((a).claimed, (b).claimed) && IMP((a).completed, (b).completed) && IMP((a).dead, (b).dead) \
  && (b).rcb >= (a).rcb && (b).cbs >= (a).cbs && IMP((a).w == CS_AT_LEAST_ONE_CALLED, (b).w == CS_AT_LEAST_ONE_CALLED) \
  && IMP((a).s_phase != S_CONSTRUCTING, (b).s_phase == (a).s_phase) )

/* environment of start(): the stop callbacks (any number, any threads) and -- once one of them has claimed -- that callback's complete().
 * While start() is still constructing (or unwinding) a callback can only move INIT -> AT_LEAST_ONE_CALLED and nothing else happens. */
#define RELY_S(a, b) ( MONO(a, b) && INV(b) && (b).s_phase == (a).s_phase \
  && IMP((a).s_phase == S_CONSTRUCTING || (a).s_phase == S_FAILED, ((b).w == (a).w || ((b).w == CS_AT_LEAST_ONE_CALLED && ((a).rcb == CB_LIVE || (a).cbs == CB_LIVE))) \
         && (b).rcb == (a).rcb && (b).cbs == (a).cbs && (b).claimed == (a).claimed && (b).completed == (a).completed && (b).dead == (a).dead) \
  && IMP((a).s_phase == S_CLAIMED, (b).w == (a).w && (b).rcb == (a).rcb && (b).cbs == (a).cbs && (b).claimed == (a).claimed && (b).completed == (a).completed && (b).dead == (a).dead) \
  && IMP((a).s_phase == S_OK, ((b).w == (a).w || (b).w == CS_AT_LEAST_ONE_CALLED)) )

/* environment of a RUNNING CALLBACK: start() and the other callbacks.  The block my callback lives in cannot be destroyed
 * (its destructor waits for me), hence nobody can reach set_done and the op stays alive (C03).  Once I have claimed, nothing changes. */
#define MY_BLOCK(p) (G.my_block == BLK_RCB ? (p).rcb : (p).cbs)
#define RELY_K(a, b) ( MONO(a, b) && INV(b) && (b).completed == (a).completed && (b).dead == (a).dead && MY_BLOCK(b) == MY_BLOCK(a) \
  && IMP(G.claimed_by_me, (b).w == (a).w && (b).rcb == (a).rcb && (b).cbs == (a).cbs && (b).s_phase == (a).s_phase) )

static void vf_op_dies(void) {
  struct sor_op f;
  OP.callbackState_ = f.callbackState_;
  G.snap = OP;
  G.dead = 1;
}
#define OP_EQ_SNAP (OP.callbackState_ == G.snap.callbackState_)
#define PROTO_NOW(p) do { (p).w = OP.callbackState_; (p).s_phase = G.s_phase; (p).rcb = G.rcb; (p).cbs = G.cbs; (p).claimed = G.claimed; (p).completed = G.completed; (p).dead = G.dead; } while (0)

static void vf_interfere(void) {
  if (G.dead) return;
  if (G.me == P_X) return;                 /* inside complete(): I am the claimant; other callbacks' exchanges change nothing */
  struct proto a, b;
  PROTO_NOW(a);
  b.w = (char)(VF_nondet_u8() & 3); b.s_phase = VF_nondet_u8(); b.rcb = VF_nondet_u8(); b.cbs = VF_nondet_u8();
  b.claimed = VF_nondet_bool(); b.completed = VF_nondet_bool(); b.dead = VF_nondet_bool();
  if (G.me == P_S) __CPROVER_assume(RELY_S(a, b)); else __CPROVER_assume(RELY_K(a, b));
  OP.callbackState_ = b.w; G.s_phase = b.s_phase; G.rcb = b.rcb; G.cbs = b.cbs; G.claimed = b.claimed; G.completed = b.completed;
  if (b.dead && !a.dead) vf_op_dies();
}

static void vf_guar(void* p, uint64_t o, uint64_t n) {
  if (p == (void*)&OP.callbackState_) {
    VF_P(!G.dead, "no write to callbackState_ of a completed (possibly destroyed) operation");
    VF_P(G.lin_count == 0, "guarantee: each party writes callbackState_ at most once per call");
    if (G.me == P_S) {
      VF_P(o == CS_INIT && n == CS_ALL_CONSTRUCTED_NOT_CALLED, "guarantee: start() only moves INIT -> ALL_CONSTRUCTED_NOT_CALLED");
      VF_P(G.s_phase == S_CONSTRUCTING && G.rcb == CB_LIVE && G.cbs == CB_LIVE, "start() announces ALL_CONSTRUCTED only after every callback was constructed, once");
      G.s_phase = S_OK;
    } else if (G.me == P_K) {
      VF_P(n == CS_AT_LEAST_ONE_CALLED, "guarantee: a stop callback only moves the state to AT_LEAST_ONE_CALLED");
      if (o == CS_ALL_CONSTRUCTED_NOT_CALLED) { G.claimed = 1; G.claimed_by_me = 1; }   /* first callback after construction finished: it completes */
    } else {
      VF_P(0, "guarantee: complete() does not write callbackState_");
    }
    G.lin_old = (char)o; G.lin_new = (char)n; G.lin_count++;
  } else {
    VF_P(0, "atomic write to an unexpected location");
  }
}

#define VF_ALIVE(p) ({ VF_P(!G.dead, "no access to the operation after its receiver was completed (it may be destroyed)"); (p); })
#define VF_CAS_STRONG_H(p, e, d, ...) ({ _Bool vf_r = VF_CAS_STRONG(p, e, d); G.cas_tried = 1; G.cas_ok = vf_r; G.cas_seen = (char)*(e); vf_r; })

/* ---------------- event stubs ---------------- */
static _Bool EV_receiver_stop_possible(struct sor_op* self) { return CFG_receiver_stop_possible; }

/* manual_lifetime<callback>::construct: may throw (strong guarantee); a stopped token runs the callback inline */
static _Bool EV_rcb_construct(struct sor_op* self) {
  VF_P(self == &OP && G.rcb == CB_NONE && G.rcb_constructs == 0, "the receiver's stop callback is constructed exactly once");
  if (VF_nondet_bool()) { G.threw = 1; G.s_phase = S_FAILED; return 1; }
  G.rcb_constructs++; G.rcb = CB_LIVE;
  vf_interfere();
  return 0;
}
static _Bool EV_cbs_construct(struct sor_op* self) {
  VF_P(self == &OP && G.cbs == CB_NONE && G.cbs_constructs == 0, "the external stop callbacks are constructed exactly once");
  VF_P(G.rcb == CB_LIVE, "the external callbacks are constructed after the receiver's");
  if (VF_nondet_bool()) {                   /* one construction threw: those already constructed may have fired, and were destroyed again by constructCallbacks' own guards */
    G.cbs = CB_LIVE; vf_interfere(); G.cbs = CB_NONE;
    G.threw = 1; G.s_phase = S_FAILED; return 1;
  }
  G.cbs_constructs++; G.cbs = CB_LIVE;
  vf_interfere();
  return 0;
}
/* destructors: wait for a callback of the block running on another thread */
static void EV_rcb_destruct(struct sor_op* self) {
  VF_CANARY("receiver callback destruction reachable");
  VF_P(self == &OP && !G.dead, "callbacks are destroyed on the live operation");
  VF_P(G.rcb == CB_LIVE, "the receiver's stop callback is destroyed exactly once (constructed, not yet destroyed)");
  VF_P(G.claimed_by_me || G.s_phase == S_FAILED, "callbacks are destroyed only by the party that claimed the completion (or by start() unwinding)");
  vf_interfere();
  G.rcb = CB_DESTROYED; G.rcb_destructs++;
}
static void EV_cbs_destruct(struct sor_op* self) {
  VF_CANARY("external callbacks destruction reachable");
  VF_P(self == &OP && !G.dead, "callbacks are destroyed on the live operation");
  VF_P(G.cbs == CB_LIVE, "the external stop callbacks are destroyed exactly once (constructed, not yet destroyed)");
  VF_P(G.claimed_by_me, "callbacks are destroyed only by the party that claimed the completion");
  vf_interfere();
  G.cbs = CB_DESTROYED; G.cbs_destructs++;
}
static void vf_deliver(void) {
  VF_P(!G.completed && G.done_calls + G.error_calls == 0, "the receiver is completed exactly once");
  VF_P(G.rcb != CB_LIVE && G.cbs != CB_LIVE, "every stop callback is destroyed before the receiver is completed (none can fire into a dead operation)");
  VF_P(G.claimed_by_me || (G.me == P_S && G.s_phase == S_FAILED), "the receiver is completed only by the party that claimed the completion");
  G.completed = 1;
  if (VF_nondet_bool()) vf_op_dies();       /* the receiver may destroy the operation now */
}
static void EV_set_done(struct sor_op* self) {
  VF_CANARY("set_done reachable");
  VF_P(self == &OP, "set_done on this operation's receiver");
  VF_P(!G.dead && OP.callbackState_ == CS_AT_LEAST_ONE_CALLED, "done is delivered only after a stop request was observed");
  vf_deliver(); G.done_calls++;
}
static void EV_set_error(struct sor_op* self) {
  VF_CANARY("set_error reachable");
  VF_P(self == &OP && G.threw && G.s_phase == S_FAILED, "set_error only from start()'s exception handler");
  VF_P(!G.dead && OP.callbackState_ == CS_INIT, "the error is delivered only if no stop request arrived first");
  vf_deliver(); G.error_calls++;
}

/* ---------------- functions under contract ---------------- */
/* complete(): the claimant destroys every callback, then completes with done, once */
#define COMPLETE_REQ(self) ((self) == &OP && !G.dead && INV_NOW && G.claimed && G.claimed_by_me && !G.completed && G.rcb == CB_LIVE && G.cbs == CB_LIVE \
   && G.complete_calls == 0 && G.done_calls == 0 && G.error_calls == 0 && G.rcb_destructs == 0 && G.cbs_destructs == 0 && OP.callbackState_ == CS_AT_LEAST_ONE_CALLED)
/* when may the calling party call complete()?  K: its exchange found ALL_CONSTRUCTED_NOT_CALLED.  S: its CAS from INIT failed (it
 * can only have found AT_LEAST_ONE_CALLED) -- by that failure start() takes the claim. */
static void vf_claim_at_complete(void) {
  VF_P(G.complete_calls == 0, "complete() is called at most once by a party");
  if (G.me == P_S) {
    VF_P(G.cas_tried && !G.cas_ok && G.cas_seen == CS_AT_LEAST_ONE_CALLED && G.s_phase == S_CONSTRUCTING && !G.claimed,
         "start() calls complete() only when its CAS INIT -> ALL_CONSTRUCTED_NOT_CALLED failed against AT_LEAST_ONE_CALLED");
    if (G.s_phase == S_CONSTRUCTING && !G.claimed) { G.s_phase = S_CLAIMED; G.claimed = 1; G.claimed_by_me = 1; }
  } else {
    VF_P(G.claimed_by_me && G.lin_count == 1 && G.lin_old == CS_ALL_CONSTRUCTED_NOT_CALLED,
         "a callback calls complete() only when its exchange found ALL_CONSTRUCTED_NOT_CALLED (it is the first one after construction finished)");
  }
}
#ifndef VF_STUB_COMPLETE
void sor_op_complete(struct sor_op* self)
__CPROVER_requires(COMPLETE_REQ(self) && (G.me == P_X))
__CPROVER_assigns(OP, G)
__CPROVER_ensures(G.cbs_destructs == 1 && G.rcb_destructs == 1 && G.rcb == CB_DESTROYED && G.cbs == CB_DESTROYED)   /* every callback destroyed, once */
__CPROVER_ensures(G.done_calls == 1 && G.error_calls == 0 && G.completed)                                          /* exactly one set_done */
__CPROVER_ensures(!G.dead || OP_EQ_SNAP)                                                                            /* nothing written after the completion */
/*@BODY complete*/
#else
static void sor_op_complete(struct sor_op* self) {
  vf_claim_at_complete();
  VF_A(COMPLETE_REQ(self), "precondition of complete() at the call site");
  G.complete_calls++;
  G.rcb = CB_DESTROYED; G.cbs = CB_DESTROYED; G.rcb_destructs++; G.cbs_destructs++;
  if (!G.completed) { G.completed = 1; G.done_calls++; if (VF_nondet_bool()) vf_op_dies(); }
}
#endif

/* request_stop(): run by a stop callback */
#define REQUEST_STOP_REQ(self) ((self) == &OP && G.me == P_K && !G.dead && !G.completed && INV_NOW && MY_BLOCK(G) == CB_LIVE && !G.claimed_by_me \
   && G.lin_count == 0 && G.complete_calls == 0 && G.done_calls == 0 && G.error_calls == 0 && G.rcb_destructs == 0 && G.cbs_destructs == 0)
#ifndef VF_STUB_REQUEST_STOP
void sor_op_request_stop(struct sor_op* self)
__CPROVER_requires(REQUEST_STOP_REQ(self))
__CPROVER_assigns(OP, G)
__CPROVER_ensures(G.lin_count == 1 && G.lin_new == CS_AT_LEAST_ONE_CALLED)                                          /* one exchange to AT_LEAST_ONE_CALLED */
__CPROVER_ensures(G.complete_calls == ((G.lin_old == CS_ALL_CONSTRUCTED_NOT_CALLED) ? 1 : 0))                       /* completes iff it is the first callback after construction finished */
__CPROVER_ensures(G.complete_calls == 0 ==> (!G.dead && G.done_calls == 0 && G.rcb_destructs == 0 && G.cbs_destructs == 0)) /* otherwise somebody else completes: touches nothing */
__CPROVER_ensures(!G.dead || OP_EQ_SNAP)
/*@BODY request_stop*/
#else
static void sor_op_request_stop(struct sor_op* self) {
  VF_P(self == &OP, "the callback forwards to its own operation");
  VF_P(G.request_stop_calls == 0, "a callback calls request_stop() once");
  G.request_stop_calls++;
}
#endif

/* start() */
void sor_op_start(struct sor_op* self)
__CPROVER_requires(self == &OP && G.me == P_S && !G.dead && INV_NOW && OP.callbackState_ == CALLBACKSTATE_INIT && G.s_phase == S_CONSTRUCTING && G.rcb == CB_NONE && G.cbs == CB_NONE)
__CPROVER_requires(!G.claimed && !G.completed && !G.claimed_by_me && !G.threw && !G.cas_tried && G.lin_count == 0 && G.complete_calls == 0 && G.done_calls == 0 && G.error_calls == 0)
__CPROVER_requires(G.rcb_constructs == 0 && G.cbs_constructs == 0 && G.rcb_destructs == 0 && G.cbs_destructs == 0)
__CPROVER_requires(VF_N > 0 || CFG_receiver_stop_possible)
__CPROVER_assigns(OP, G)
/* no exception: every callback constructed; then exactly one of: CAS succeeded and start() leaves the completion to the first callback / CAS failed and start() completes */
__CPROVER_ensures(!G.threw ==> (G.rcb_constructs == 1 && G.cbs_constructs == 1 && G.cas_tried && G.error_calls == 0))
__CPROVER_ensures((!G.threw && G.cas_ok) ==> (G.lin_count == 1 && G.lin_new == CS_ALL_CONSTRUCTED_NOT_CALLED && G.complete_calls == 0 && G.rcb_destructs == 0 && G.cbs_destructs == 0))
__CPROVER_ensures((!G.threw && !G.cas_ok) ==> (G.lin_count == 0 && G.complete_calls == 1 && G.done_calls == 1))
/* exception while constructing: no CAS; whatever was constructed is destroyed; start() completes exactly once (done if a stop request arrived, else the error) */
__CPROVER_ensures(G.threw ==> (!G.cas_tried && G.lin_count == 0 && G.complete_calls == 0 && G.done_calls + G.error_calls == 1 && G.rcb != CB_LIVE && G.cbs != CB_LIVE && G.rcb_destructs == G.rcb_constructs))
__CPROVER_ensures(!G.dead || OP_EQ_SNAP)
/*@BODY start*/

/* cancel_callback::operator() */
void cancel_callback_call(struct cancel_callback* self)
__CPROVER_requires(self == &CBK && CBK.op_ == &OP && !G.dead && G.request_stop_calls == 0)
__CPROVER_assigns(G)
__CPROVER_ensures(G.request_stop_calls == 1)
/*@BODY cancel_callback_call*/

/* ---------------- harnesses ---------------- */
static void h_zero(int me) {
  G.me = me; G.my_block = BLK_RCB; G.claimed_by_me = 0; G.dead = 0; G.lin_count = 0; G.cas_tried = 0; G.cas_ok = 0; G.cas_seen = 0; G.threw = 0;
  G.complete_calls = 0; G.request_stop_calls = 0; G.done_calls = 0; G.error_calls = 0; G.rcb_constructs = 0; G.cbs_constructs = 0; G.rcb_destructs = 0; G.cbs_destructs = 0;
  VF_N = VF_nondet_size_t(); CFG_receiver_stop_possible = VF_nondet_bool();
}
static void h_any_state(void) {
  OP.callbackState_ = (char)(VF_nondet_u8() & 3); G.s_phase = VF_nondet_u8(); G.rcb = VF_nondet_u8(); G.cbs = VF_nondet_u8();
  G.claimed = VF_nondet_bool(); G.completed = VF_nondet_bool();
  __CPROVER_assume(INV_NOW);
}
void h_request_stop(void) {
  h_zero(P_K);
  h_any_state();
  G.my_block = VF_nondet_bool() ? BLK_RCB : BLK_CBS;
  __CPROVER_assume(!G.completed && MY_BLOCK(G) == CB_LIVE);
  sor_op_request_stop(&OP);
  VF_CANARY("after request_stop");
  if (G.complete_calls) { VF_CANARY("a callback can complete"); } else { VF_CANARY("a callback can leave the completion to somebody else"); }
  if (G.lin_old == CS_INIT) { VF_CANARY("a callback can run while start() is still constructing"); }
}
void h_complete(void) {
  h_zero(P_X);
  h_any_state();
  __CPROVER_assume(G.claimed && !G.completed && G.rcb == CB_LIVE && G.cbs == CB_LIVE && OP.callbackState_ == CS_AT_LEAST_ONE_CALLED);
  G.claimed_by_me = 1;
#ifndef VF_STUB_COMPLETE
  sor_op_complete(&OP);
#endif
  VF_CANARY("after complete");
  if (G.dead) { VF_CANARY("the receiver can destroy the operation"); }
}
void h_start(void) {
  h_zero(P_S);
  OP.callbackState_ = CALLBACKSTATE_INIT; G.s_phase = S_CONSTRUCTING; G.rcb = CB_NONE; G.cbs = CB_NONE; G.claimed = 0; G.completed = 0;
  __CPROVER_assume(VF_N > 0 || CFG_receiver_stop_possible);
  sor_op_start(&OP);
  VF_CANARY("after start");
  if (!G.threw && G.cas_ok) { VF_CANARY("start can announce ALL_CONSTRUCTED_NOT_CALLED"); }
  if (!G.threw && !G.cas_ok) { VF_CANARY("start can complete on behalf of an early callback"); }
  if (G.threw && G.done_calls) { VF_CANARY("exception path can complete with done"); }
  if (G.threw && G.error_calls) { VF_CANARY("exception path can complete with the error"); }
}
void h_cancel_callback(void) {
  h_zero(P_K);
  CBK.op_ = &OP;
  cancel_callback_call(&CBK);
  VF_CANARY("after cancel_callback::operator()");
}

/* ---------------- M4 lemmas over the contracts ---------------- */
static struct proto any_proto(void) {
  struct proto p;
  p.w = (char)(VF_nondet_u8() & 3); p.s_phase = VF_nondet_u8(); p.rcb = VF_nondet_u8(); p.cbs = VF_nondet_u8();
  p.claimed = VF_nondet_bool(); p.completed = VF_nondet_bool(); p.dead = VF_nondet_bool();
  return p;
}
enum { ST_S_RCB, ST_S_CBS, ST_S_THROW, ST_S_UNWIND, ST_S_CAS_OK, ST_S_CAS_FAIL, ST_S_HANDLER, ST_K_XCHG, ST_X_DESTROY_CBS, ST_X_DESTROY_RCB, ST_X_DONE, ST_R_DIE, ST_NKINDS };
/* the steps as the guarantee (vf_guar), the event stubs and the contracts of request_stop / complete / start describe them;
 * `claims` counts how often the duty to complete was taken */
static _Bool step(int kind, struct proto a, struct proto* out, unsigned* claims) {
  struct proto b = a;
  _Bool en = 0;
  switch (kind) {
  case ST_S_RCB:     en = a.s_phase == S_CONSTRUCTING && a.rcb == CB_NONE; b.rcb = CB_LIVE; break;
  case ST_S_CBS:     en = a.s_phase == S_CONSTRUCTING && a.rcb == CB_LIVE && a.cbs == CB_NONE; b.cbs = CB_LIVE; break;
  case ST_S_THROW:   en = a.s_phase == S_CONSTRUCTING && a.cbs == CB_NONE && a.w != CS_ALL_CONSTRUCTED_NOT_CALLED; b.s_phase = S_FAILED; break;   /* a construction threw (external ones cleaned up by constructCallbacks) */
  case ST_S_UNWIND:  en = a.s_phase == S_FAILED && a.rcb == CB_LIVE; b.rcb = CB_DESTROYED; break;                                                  /* destructOnError */
  case ST_S_CAS_OK:  en = a.s_phase == S_CONSTRUCTING && a.rcb == CB_LIVE && a.cbs == CB_LIVE && a.w == CS_INIT; b.w = CS_ALL_CONSTRUCTED_NOT_CALLED; b.s_phase = S_OK; break;
  case ST_S_CAS_FAIL: en = a.s_phase == S_CONSTRUCTING && a.rcb == CB_LIVE && a.cbs == CB_LIVE && a.w != CS_INIT; b.s_phase = S_CLAIMED; b.claimed = 1; (*claims)++; break;
  case ST_S_HANDLER: en = a.s_phase == S_FAILED && a.rcb != CB_LIVE && !a.completed; b.completed = 1; break;                                       /* set_done / set_error in the handler */
  case ST_K_XCHG:    en = (a.rcb == CB_LIVE || a.cbs == CB_LIVE) && !a.dead; b.w = CS_AT_LEAST_ONE_CALLED;                                         /* request_stop's exchange */
                     if (a.w == CS_ALL_CONSTRUCTED_NOT_CALLED) { b.claimed = 1; (*claims)++; } break;
  case ST_X_DESTROY_CBS: en = a.claimed && a.cbs == CB_LIVE && !a.completed; b.cbs = CB_DESTROYED; break;
  case ST_X_DESTROY_RCB: en = a.claimed && a.cbs == CB_DESTROYED && a.rcb == CB_LIVE && !a.completed; b.rcb = CB_DESTROYED; break;
  case ST_X_DONE:    en = a.claimed && a.cbs == CB_DESTROYED && a.rcb == CB_DESTROYED && !a.completed; b.completed = 1; break;
  case ST_R_DIE:     en = a.completed && !a.dead; b.dead = 1; break;
  default: en = 0;
  }
  *out = b;
  return en;
}
#define IS_S_STEP(k) ((k) <= ST_S_HANDLER)
void lemma_sor_protocol(void) {
  struct proto a = any_proto(), b;
  int kind = VF_nondet_int();
  __CPROVER_assume(kind >= 0 && kind < ST_NKINDS);
  __CPROVER_assume(INV(a));
  unsigned claims = a.claimed ? 1 : 0;
  _Bool en = step(kind, a, &b, &claims);
  __CPROVER_assume(en);
  VF_CANARY("lemma premises satisfiable");
  if (kind == ST_K_XCHG && !a.claimed && b.claimed) { VF_CANARY("lemma: a callback can claim"); }
  if (kind == ST_S_CAS_FAIL) { VF_CANARY("lemma: start can claim"); }
  VF_P(INV(b), "lemma: every step of every party preserves the protocol invariant");
  VF_P(MONO(a, b), "lemma: every step is monotone (claimed / completed / AT_LEAST_ONE_CALLED are never undone)");
  /* guarantee => rely */
  G.claimed_by_me = 0;
  if (!IS_S_STEP(kind) && !(a.s_phase == S_CLAIMED && kind != ST_K_XCHG)) /* once start() has claimed, complete()'s steps are start()'s own */
    VF_P(RELY_S(a, b) || (a.s_phase == S_FAILED && kind != ST_K_XCHG), "lemma: the callbacks' steps (and the claimant callback's completion) are allowed by start()'s rely");
  G.my_block = VF_nondet_bool() ? BLK_RCB : BLK_CBS;
  if (MY_BLOCK(a) == CB_LIVE
      && !(kind == ST_X_DESTROY_CBS && G.my_block == BLK_CBS) && !(kind == ST_X_DESTROY_RCB && G.my_block == BLK_RCB) && !(kind == ST_S_UNWIND && G.my_block == BLK_RCB))
    VF_P(RELY_K(a, b), "lemma: while a callback runs, every step of start() and of the other callbacks -- except destroying the running callback's block, which waits for it (C03) -- is allowed by its rely");
  /* while a callback's block is alive nobody can reach the completion */
  VF_P(IMP(kind == ST_X_DONE || kind == ST_S_HANDLER, a.rcb != CB_LIVE && a.cbs != CB_LIVE), "lemma: the receiver is completed only after every callback was destroyed");
  /* consequences */
  VF_P(claims <= 1, "lemma: the duty to complete is claimed at most once (exactly one complete())");
  VF_P(IMP(b.claimed && !a.claimed, !a.completed), "lemma: nobody claims after the completion");
  VF_P(IMP(b.completed && !a.completed, b.claimed || b.s_phase == S_FAILED), "lemma: only the claimant (or start()'s exception handler) completes");
  VF_P(IMP((b.s_phase == S_OK || b.s_phase == S_CLAIMED) && b.w == CS_AT_LEAST_ONE_CALLED, b.claimed), "lemma: no lost completion: once start() is past its CAS and a stop request was observed, somebody has claimed");
  VF_P(IMP(kind == ST_S_HANDLER, !a.claimed), "lemma: in the exception path no callback ever claims (the state never was ALL_CONSTRUCTED_NOT_CALLED)");
}
void lemma_sor_rely(void) {
  struct proto a = any_proto(), b = any_proto(), c = any_proto();
  __CPROVER_assume(INV(a));
  G.my_block = VF_nondet_bool() ? BLK_RCB : BLK_CBS; G.claimed_by_me = VF_nondet_bool();
  if (VF_nondet_bool()) {
    VF_P(RELY_S(a, a), "lemma: RELY_S reflexive");
    __CPROVER_assume(RELY_S(a, b) && RELY_S(b, c));
    VF_CANARY("RELY_S premises satisfiable");
    VF_P(RELY_S(a, c), "lemma: RELY_S transitive");
  } else {
    VF_P(RELY_K(a, a), "lemma: RELY_K reflexive");
    __CPROVER_assume(RELY_K(a, b) && RELY_K(b, c));
    VF_CANARY("RELY_K premises satisfiable");
    VF_P(RELY_K(a, c), "lemma: RELY_K transitive");
  }
}
void lemma_sor_init(void) {
  VF_P(CS_INIT == 0 && CS_ALL_CONSTRUCTED_NOT_CALLED == 1 && CS_AT_LEAST_ONE_CALLED == 2, "lemma: three distinct states");
  VF_P(CALLBACKSTATE_INIT == CS_INIT, "lemma: a fresh operation is in INIT");
  struct proto p; p.w = CALLBACKSTATE_INIT; p.s_phase = S_CONSTRUCTING; p.rcb = CB_NONE; p.cbs = CB_NONE; p.claimed = 0; p.completed = 0; p.dead = 0;
  VF_P(INV(p), "lemma: a fresh operation satisfies the protocol invariant");
  VF_CANARY("lemma_sor_init reachable");
}
