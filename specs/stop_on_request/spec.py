H = 'include/unifex/stop_on_request.hpp'
OPCLS = r'struct _op<Receiver, StopTokens\.\.\.>::type \{'
CBCLS = r'struct cancel_callback \{'

PRE = [
    # symbolic number of external stop tokens; receiver's token
    (r'sizeof\.\.\.\(StopTokens\)', 'VF_N'),
    (r'get_stop_token\(receiver_\)\.stop_possible\(\)', 'EV_receiver_stop_possible(this)'),
    # general rules missing from the table (DESIGN 3.1 lists them):
    #   scope_guard -> armed flag + explicit run on the exceptional edge and at the end of the enclosing (try) block
    #   UNIFEX_TRY { A } UNIFEX_CATCH(...) { B } -> { A' } if (0) { vf_catch: B }, may-throw stubs become `if (EV_x()) goto vf_catch;`
    (r'scope_guard (\w+) = \[this\]\(\) noexcept \{\s*([^{};]*;)\s*\};',
     r'_Bool \1_armed = 1;\n#define VF_SCOPE_EXIT_\1() do { if (\1_armed) { \2 } } while (0)\n'),
    (r'\b(destructOnError)\.release\(\);', r'\1_armed = 0;'),
    (r'UNIFEX_TRY\s*\{', '{'),
    (r'\}\s*UNIFEX_CATCH\s*\(\.\.\.\)\s*\{', 'VF_SCOPE_EXIT_destructOnError(); } if (0) { vf_catch:'),
    # callback construction (may throw; a stopped token runs the callback inline) / destruction (waits for a running callback)
    (r'receiverStopCallback_\.construct\(\s*get_stop_token\(receiver_\), cancel_callback\{\*this\}\);', 'if (EV_rcb_construct(this)) goto vf_catch;'),
    (r'(?<![\w<>])constructCallbacks\(\);', 'if (EV_cbs_construct(this)) { VF_SCOPE_EXIT_destructOnError(); goto vf_catch; }'),
    (r'receiverStopCallback_\.destruct\(\)', 'EV_rcb_destruct(this)'),
    (r'std::apply\(\s*\[&\]\(auto&\.\.\. callbacks\) noexcept \{ \(callbacks\.destruct\(\), \.\.\.\); \},\s*stopCallbacks_\)', 'EV_cbs_destruct(this)'),
    # completion signals
    (r'unifex::set_done\(std::move\(receiver_\)\)', 'EV_set_done(this)'),
    (r'unifex::set_error\(std::move\(receiver_\), std::current_exception\(\)\)', 'EV_set_error(this)'),
]
# instrumentation (no statement changed): accesses through self-> assert the op is alive; the CAS records its outcome
POST = [
    (r'\bself->', 'VF_ALIVE(self)->'),
    (r'\bVF_CAS_STRONG\(', 'VF_CAS_STRONG_H('),
]
ctx = dict(cls='sor_op', members=['callbackState_'], methods=['complete'], enums={'_callback_state': 'CS'}, pre=PRE, post=POST)
cb_ctx = dict(cls='cancel_callback', members=['op_'], methods=[], pre=[(r'\bop_\.request_stop\(\)', 'sor_op_request_stop(op_)')])

SPEC = dict(
    properties=['C19'],
    ctx=ctx,
    extracts={
        'CS_INIT': dict(file=H, kind='expr', sig=r'enum class _callback_state : char \{\s*INIT = (\d+),'),
        'CS_ALL_CONSTRUCTED_NOT_CALLED': dict(file=H, kind='expr', sig=r'enum class _callback_state : char \{[^}]*\bALL_CONSTRUCTED_NOT_CALLED = (\d+),'),
        'CS_AT_LEAST_ONE_CALLED': dict(file=H, kind='expr', sig=r'enum class _callback_state : char \{[^}]*\bAT_LEAST_ONE_CALLED = (\d+),'),
        'callbackState_init': dict(file=H, kind='expr', sig=r'std::atomic<_callback_state> callbackState_\{([^}]*)\}'),
        'request_stop': dict(file=H, sig=r'void request_stop\(\) noexcept', within=OPCLS, must_contain=[r'callbackState_']),
        'complete': dict(file=H, sig=r'void complete\(\) noexcept', within=OPCLS, must_contain=[r'set_done']),
        'start': dict(file=H, sig=r'void start\(\) noexcept', within=OPCLS, must_contain=[r'callbackState_', r'UNIFEX_TRY']),
        'cancel_callback_call': dict(file=H, sig=r'void operator\(\)\(\) noexcept', within=[OPCLS, CBCLS], ctx=cb_ctx),
    },
    closed_world=[dict(file=H, members=['callbackState_'], within=OPCLS,
                       allow=[r'std::atomic<_callback_state> callbackState_\{_callback_state::INIT\};'])],
    units=[
        dict(name='request_stop', harness='h_request_stop', enforce='sor_op_request_stop', defines=['VF_STUB_COMPLETE']),
        dict(name='complete', harness='h_complete', enforce='sor_op_complete'),
        dict(name='start', harness='h_start', enforce='sor_op_start', defines=['VF_STUB_COMPLETE']),
        dict(name='cancel_callback', harness='h_cancel_callback', enforce='cancel_callback_call', defines=['VF_STUB_COMPLETE', 'VF_STUB_REQUEST_STOP']),
        dict(name='lemma_sor_protocol', harness='lemma_sor_protocol', mode='lemma'),
        dict(name='lemma_sor_rely', harness='lemma_sor_rely', mode='lemma'),
        dict(name='lemma_sor_init', harness='lemma_sor_init', mode='lemma'),
    ],
    assumptions=[
        'each stop callback runs at most once, only while registered (constructed, not destroyed); a callback\'s destructor waits for a run in progress on another thread and does not wait when called from inside that run (C03, specs/stop_token)',
        'callback construction has the strong exception guarantee; constructCallbacks() (template recursion with its own scope guards) either leaves every external callback constructed or none (event stub)',
        'sizeof...(StopTokens) > 0 or the receiver\'s stop token reports stop_possible() (static_asserts on the token types; the run-time UNIFEX_ASSERT is the caller\'s obligation)',
        'the receiver may destroy the operation as soon as set_done / set_error has been delivered',
        'atomics sequentially consistent',
    ],
    drops=['memory orders', 'template genericity (Receiver, StopTokens...: number of external tokens is the symbolic constant VF_N)',
           'the N+1 callback objects are two blocks (receiverStopCallback_, stopCallbacks_ as a whole), as the code treats them',
           'constructCallbacks<index>() -> event stub EV_cbs_construct (may throw, callbacks may fire inline)',
           'set_done / set_error payload (std::current_exception())', 'scope_guard / UNIFEX_TRY-CATCH made explicit by spec-level regexes (armed flag, goto vf_catch)',
           'the sender type, connect'],
)
