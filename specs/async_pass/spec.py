H = 'include/unifex/async_pass.hpp'
CPP = 'source/async_pass.cpp'
BASE = r'struct async_pass_base \{'
CALLOP = r'class call_op<Noexcept, CallerFn, type_list<Args\.\.\.>, Receiver>'
THROWOP = r'class throw_op : public throw_op_base \{'
ACCOP = r'class accept_op : public accept_op_base<Args\.\.\.> \{'
PASS = r'class async_pass : private async_pass_base \{'

TYPEMAP = [(r'call_or_throw_op_base<(?:Noexcept|false)>', 'struct caller_base'),
           (r'(?<!struct )\baccept_op_base_noargs\b', 'struct accept_op_base_noargs')]
ctx = dict(
    cls='AP',
    members=['state_'],
    methods=['try_claim_caller_raw', 'call_or_suspend_raw', 'accept_or_suspend_raw'],
    atomic=['state_'],
    typemap=TYPEMAP,
    pre=[(r'async_pass_base::', ''),
         (r'\bis_caller\(', 'AP_is_caller('), (r'\bis_acceptor\(', 'AP_is_acceptor('),
         (r'\bas_acceptor\(', 'AP_as_acceptor('), (r'\bas_caller<Noexcept>\(', 'AP_as_caller(')],
)
# the three NestedOps: pass_ is a reference member (-> pointer); C++-only callees become event stubs
op_ctx = dict(cls='OP', members=['pass_', 'cancelled_'],
              pre=[(r'\bpass_\.', 'pass_->'),
                   (r'\btry_complete\(this\)', 'EV_try_complete(this)'),                     # cancellable<> arbitration (C19)
                   (r'\bforwardingOp_\.start\(\*this\)', 'EV_forward_start(this)'),            # completion_forwarder: scheduler hop, then forward_set_value
                   (r'\blocked_complete_with\(defer_set_done\(\)\)', 'EV_store_done(this)'),    # accept_op: deferred result := done
                   (r'unifex::set_done\(std::move\(receiver_\)\)', 'EV_set_done(this)'),
                   (r'unifex::set_value\(std::move\(receiver_\)\)', 'EV_set_value(this)')])

RAW_INV = '__CPROVER_loop_invariant(G.lin_count == 0 && s == P.state_ && STATE_INV)'
RAW_ASG = '__CPROVER_assigns(s, P.state_, G.lin_old, G.lin_new, G.lin_count)\n'

SPEC = dict(
    properties=['C16'],
    ctx=ctx,
    extracts={
        'kAcceptorTag': dict(file=H, kind='expr', sig=r'static constexpr uintptr_t kAcceptorTag = ([^;]*);'),
        'state_init': dict(file=H, kind='expr', sig=r'std::atomic<uintptr_t> state_\{([^}]*)\}'),
        'is_caller': dict(file=H, sig=r'static bool is_caller\(uintptr_t s\) noexcept', within=BASE),
        'is_acceptor': dict(file=H, sig=r'static bool is_acceptor\(uintptr_t s\) noexcept', within=BASE),
        'as_acceptor': dict(file=H, sig=r'static auto\* as_acceptor\(uintptr_t s\) noexcept', within=BASE),
        'as_caller': dict(file=H, sig=r'static auto\* as_caller\(uintptr_t s\) noexcept', within=BASE),
        'try_claim_acceptor': dict(file=CPP, sig=r'async_pass_base::try_claim_acceptor\(\) noexcept', loops={0: RAW_ASG + RAW_INV}),
        'try_claim_caller_raw': dict(file=CPP, sig=r'async_pass_base::try_claim_caller_raw\(\) noexcept', loops={0: RAW_ASG + RAW_INV}),
        'call_or_suspend_raw': dict(file=CPP, sig=r'async_pass_base::call_or_suspend_raw\(uintptr_t caller\) noexcept', loops={0: RAW_ASG + RAW_INV}),
        'accept_or_suspend_raw': dict(file=CPP, sig=r'async_pass_base::accept_or_suspend_raw\(uintptr_t acceptor\) noexcept', loops={0: RAW_ASG + RAW_INV}),
        'try_claim_caller': dict(file=H, sig=r'call_or_throw_op_base<Noexcept>\* try_claim_caller\(\) noexcept', within=BASE),
        'call_or_suspend': dict(file=H, sig=r'call_or_suspend\(call_or_throw_op_base<Noexcept>\* caller\) noexcept', within=BASE),
        'accept_or_suspend': dict(file=H, sig=r'accept_or_suspend\(accept_op_base_noargs\* acceptor\) noexcept', within=BASE),
        'call_stop': dict(file=H, sig=r'void stop\(\) noexcept', within=CALLOP, ctx=op_ctx, must_contain=[r'pass_\.state_']),
        'throw_stop': dict(file=H, sig=r'void stop\(\) noexcept', within=THROWOP, ctx=op_ctx, must_contain=[r'pass_\.state_']),
        'accept_stop': dict(file=H, sig=r'void stop\(\) noexcept', within=ACCOP, ctx=op_ctx, must_contain=[r'pass_\.state_']),
        'call_cancelled_init': dict(file=H, kind='expr', sig=r'bool cancelled_\{([^}]*)\}', within=CALLOP),
        'throw_cancelled_init': dict(file=H, kind='expr', sig=r'bool cancelled_\{([^}]*)\}', within=THROWOP),
        'call_forward_set_value': dict(file=H, sig=r'void forward_set_value\(\) noexcept', within=CALLOP, ctx=op_ctx),
        'throw_forward_set_value': dict(file=H, sig=r'void forward_set_value\(\) noexcept', within=THROWOP, ctx=op_ctx),
        'is_idle': dict(file=H, sig=r'bool is_idle\(\) const noexcept', within=PASS),
        'is_expecting_call': dict(file=H, sig=r'bool is_expecting_call\(\) const noexcept', within=PASS),
        'is_expecting_accept': dict(file=H, sig=r'bool is_expecting_accept\(\) const noexcept', within=PASS),
    },
    closed_world=[
        dict(file=CPP, members=['state_']),
        dict(file=H, members=['state_'], within=BASE, allow=[r'std::atomic<uintptr_t> state_\{']),
        dict(file=H, members=[r'pass_\.state_', r'this->state_']),   # accept_op has an unrelated member named state_ (deferred-result union)
    ],
    units=[
        dict(name='try_claim_acceptor', harness='h_try_claim_acceptor', enforce='AP_try_claim_acceptor', expect_loop_obligations=True),
        dict(name='try_claim_caller_raw', harness='h_try_claim_caller_raw', enforce='AP_try_claim_caller_raw', expect_loop_obligations=True),
        dict(name='call_or_suspend_raw', harness='h_call_or_suspend_raw', enforce='AP_call_or_suspend_raw', expect_loop_obligations=True),
        dict(name='accept_or_suspend_raw', harness='h_accept_or_suspend_raw', enforce='AP_accept_or_suspend_raw', expect_loop_obligations=True),
        dict(name='try_claim_caller', harness='h_try_claim_caller', enforce='AP_try_claim_caller', replace=['AP_try_claim_caller_raw']),
        dict(name='call_or_suspend', harness='h_call_or_suspend', enforce='AP_call_or_suspend', replace=['AP_call_or_suspend_raw']),
        dict(name='accept_or_suspend', harness='h_accept_or_suspend', enforce='AP_accept_or_suspend', replace=['AP_accept_or_suspend_raw']),
        dict(name='call_stop', harness='h_call_stop', enforce='call_op_stop'),
        dict(name='throw_stop', harness='h_throw_stop', enforce='throw_op_stop'),
        dict(name='accept_stop', harness='h_accept_stop', enforce='accept_op_stop'),
        dict(name='call_forward_set_value', harness='h_call_forward_set_value', enforce='call_op_forward_set_value'),
        dict(name='throw_forward_set_value', harness='h_throw_forward_set_value', enforce='throw_op_forward_set_value'),
        dict(name='is_idle', harness='h_is_idle', enforce='async_pass_is_idle'),
        dict(name='is_expecting_call', harness='h_is_expecting_call', enforce='async_pass_is_expecting_call'),
        dict(name='is_expecting_accept', harness='h_is_expecting_accept', enforce='async_pass_is_expecting_accept'),
        dict(name='lemma_pass_tags', harness='lemma_pass_tags', mode='lemma'),
        dict(name='lemma_pass_rely', harness='lemma_pass_rely', mode='lemma'),
        dict(name='lemma_pass_claim_or_unclaim', harness='lemma_pass_claim_or_unclaim', mode='lemma'),
    ],
    assumptions=[
        'at most one async_call/async_throw and at most one async_accept are outstanding (published or publishing) at a time: a second '
        'concurrent publisher of the same kind reaches std::terminate() in call_or_suspend_raw/accept_or_suspend_raw; the obligation '
        '"terminate not reached" is discharged under that precondition',
        'an operation publishes itself at most once (start() is called once) and its address is not reused while it is outstanding',
        'try_complete (cancellable<>, property C19) elects one completer; completion_forwarder delivers forward_set_value on the '
        'waiter\'s scheduler: both are event stubs here',
        'payload transfer inside call()/set_value_ and the start() bodies of the three operations are not reached',
        'operation objects are at least 2-byte aligned (the code static_asserts it; CBMC object addresses have offset 0)',
        'atomics sequentially consistent',
    ],
    drops=['memory orders', 'noexcept', 'template genericity (Noexcept, Receiver, Args)', 'derived-to-base pointer conversions made explicit (base is the first member)',
           'reference member pass_ -> pointer', 'try_complete / forwardingOp_.start / locked_complete_with(defer_set_done()) / set_done / set_value -> event stubs',
           'async_pass.cpp is compiled only as C++20 (extraction does not care)'],
)
