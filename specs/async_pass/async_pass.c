/* C16: async_pass rendezvous word (source/async_pass.cpp, include/unifex/async_pass.hpp).
 *
 * M1 on the single tagged word state_ :   0                 idle
 *                                         even, non-zero    call_or_throw_op_base*  (a caller is published, waiting)
 *                                         odd               accept_op_base_noargs* ^ 1   (an acceptor is published, waiting)
 * Parties: the call side (async_call/async_throw start, its stop(); try_call), the accept side (async_accept start,
 * its stop(); try_accept).  Bodies marked @BODY/@EXPR are extracted from /repo on every run. */
#include <stddef.h>
#include <stdint.h>
#include <assert.h>
#include <stdalign.h>
struct async_pass_base { uintptr_t state_; };
struct caller_base { void (*resume_)(struct caller_base*); };                       /* call_or_throw_op_base<Noexcept> */
struct accept_op_base_noargs { void (*unlocked_complete_)(struct accept_op_base_noargs*); };
struct call_op { struct caller_base base; struct async_pass_base* pass_; _Bool cancelled_; int receiver_; };    /* call_op / throw_op (same protocol fields) */
struct accept_op { struct accept_op_base_noargs base; struct async_pass_base* pass_; int receiver_; };

enum { R_OBSERVE, R_CALL, R_ACCEPT, R_TRY_CALL, R_TRY_ACCEPT, R_STOP };
struct vf_ghost {
  int role;                 /* which party the verified call is */
  uintptr_t me;             /* the value under which the calling operation is (or would be) published */
  uintptr_t lin_old, lin_new; unsigned lin_count;   /* the call's own successful write to state_ */
  unsigned tc_calls; _Bool tc_result;               /* try_complete (cancellable<>) */
  unsigned fwd; _Bool cancelled_at_fwd;             /* completion_forwarder started; cancelled_ as the forwarder finds it */
  unsigned done_stored, done_stored_at_fwd;         /* accept_op: deferred result := done */
  unsigned set_done, set_value;                     /* receiver completions */
  _Bool op_dead; struct call_op snap_call; struct accept_op snap_acc;   /* the operation as a completion left it */
};
static struct vf_ghost G;
static struct async_pass_base P;
static struct call_op CALL, THROW;     /* operand caller-side operations */
static struct accept_op ACC;           /* operand acceptor-side operation */
static struct caller_base OC;          /* some other caller */
static struct accept_op_base_noargs OA;/* some other acceptor */

static const uintptr_t kAcceptorTag = /*@EXPR kAcceptorTag*/;
static const uintptr_t state_INIT = /*@EXPR state_init*/;

static void vf_guar(void* p, uintptr_t o, uintptr_t n);
#define VF_G(p, o, n) vf_guar((void*)(p), (uintptr_t)(o), (uintptr_t)(n))
#include "vf.h"

/* ---------------- protocol predicates (from the property statement) ---------------- */
#define IS_CALLER(s)    ((s) != 0 && ((s) & (uintptr_t)1) == 0)
#define IS_ACCEPTOR(s)  (((s) & (uintptr_t)1) != 0)
#define V_CALL   ((uintptr_t)&CALL)
#define V_THROW  ((uintptr_t)&THROW)
#define V_ACC    (((uintptr_t)&ACC) | (uintptr_t)1)
#define V_OC     ((uintptr_t)&OC)
#define V_OA     (((uintptr_t)&OA) | (uintptr_t)1)
/* the legal steps on state_ (o -> n) */
#define STEP_PUBLISH(o, n, me)      ((o) == 0 && (n) == (me) && (me) != 0)              /* a party publishes ITSELF over idle */
#define STEP_CLAIM_ACCEPTOR(o, n)   (IS_ACCEPTOR(o) && (n) == 0)                        /* call side takes the published acceptor */
#define STEP_CLAIM_CALLER(o, n)     (IS_CALLER(o) && (n) == 0)                          /* accept side takes the published caller */
#define STEP_UNCLAIM(o, n, me)      ((o) == (me) && (n) == 0 && (me) != 0)              /* stop(): un-publishes itself, only if still published */
/* the values the word takes: idle or the (tagged) address of a live operation; by role: what cannot be there (see RELY) */
#define VALID(s) ((s) == 0 || (s) == V_CALL || (s) == V_THROW || (s) == V_ACC || (s) == V_OC || (s) == V_OA)
#define STATE_INV (VALID(P.state_) && (G.role == R_CALL ==> !IS_CALLER(P.state_)) && (G.role == R_ACCEPT ==> !IS_ACCEPTOR(P.state_)))
/* rely, by role of the verified call */
#define RELY(o, n) ( G.role == R_CALL   ? !IS_CALLER(n)                                  /* no second caller is outstanding; I am not published yet */ \
                   : G.role == R_ACCEPT ? !IS_ACCEPTOR(n)                                /* no second acceptor is outstanding */ \
                   : G.role == R_STOP   ? ((o) != G.me ==> (n) != G.me)                  /* only I publish myself, and I do it once */ \
                   : 1 )

static void vf_guar(void* p, uintptr_t o, uintptr_t n) {
  VF_P(p == (void*)&P.state_, "atomic write to an unexpected location");
  VF_P(G.lin_count == 0, "an operation writes state_ at most once (one linearisation point)");
  VF_P(G.role != R_OBSERVE, "guarantee: is_idle / is_expecting_* never write");
  VF_P(G.role == R_CALL ==> (STEP_PUBLISH(o, n, G.me) || STEP_CLAIM_ACCEPTOR(o, n)), "guarantee (call start): publishes itself over idle, or takes a published acceptor to idle");
  VF_P(G.role == R_ACCEPT ==> (STEP_PUBLISH(o, n, G.me) || STEP_CLAIM_CALLER(o, n)), "guarantee (accept start): publishes itself over idle, or takes a published caller to idle");
  VF_P(G.role == R_TRY_CALL ==> STEP_CLAIM_ACCEPTOR(o, n), "guarantee (try_call/try_throw): only takes a published acceptor to idle");
  VF_P(G.role == R_TRY_ACCEPT ==> STEP_CLAIM_CALLER(o, n), "guarantee (try_accept): only takes a published caller to idle");
  VF_P(G.role == R_STOP ==> STEP_UNCLAIM(o, n, G.me), "guarantee (stop): un-claims only if the word still equals self");
  G.lin_old = o; G.lin_new = n; G.lin_count++;
}
static void vf_interfere(void) {
  uintptr_t o = P.state_;
  int k = VF_nondet_int();
  uintptr_t n = k == 0 ? 0 : k == 1 ? V_CALL : k == 2 ? V_THROW : k == 3 ? V_ACC : k == 4 ? V_OC : k == 5 ? V_OA : o;
  __CPROVER_assume(RELY(o, n));
  P.state_ = n;
}

/* ---------------- event stubs ---------------- */
#define SNAP() do { G.snap_call = (G.me == V_THROW ? THROW : CALL); G.snap_acc = ACC; } while (0)
static void vf_maybe_destroy(void* op) {
  /* whoever completes the operation may destroy it */
  if (VF_nondet_bool()) {
    struct call_op f; struct accept_op g;
    if (op == (void*)&CALL) CALL = f; else if (op == (void*)&THROW) THROW = f; else if (op == (void*)&ACC) ACC = g;
    G.op_dead = 1;
  }
  SNAP();
}
/* cancellable<>::try_complete (C19): elects the one completer; on false somebody else completes (and may destroy) the operation */
static _Bool EV_try_complete(void* op) {
  VF_CANARY("try_complete reachable");
  VF_P(G.lin_count == 1 && G.lin_old == G.me && G.lin_new == 0, "completion as cancelled is attempted only after this stop() un-claimed the operation");
  VF_P(G.tc_calls == 0, "try_complete is called at most once by stop()");
  G.tc_calls++; G.tc_result = VF_nondet_bool();
  if (!G.tc_result) vf_maybe_destroy(op);
  return G.tc_result;
}
static void EV_forward_start(void* op) {
  VF_CANARY("forwarder start reachable");
  VF_P(G.tc_calls == 1 && G.tc_result, "the completion forwarder is started only by the party that won try_complete");
  VF_P(G.fwd == 0, "the completion forwarder is started at most once");
  G.fwd++;
  G.cancelled_at_fwd = (op == (void*)&CALL) ? CALL.cancelled_ : (op == (void*)&THROW) ? THROW.cancelled_ : 0;
  G.done_stored_at_fwd = G.done_stored;
  vf_maybe_destroy(op);
}
static void EV_store_done(void* op) {
  VF_P(G.lin_count == 1 && G.lin_old == G.me, "the done result is stored only after this stop() un-claimed the acceptor (no caller can reach its result slot any more)");
  VF_P(G.tc_calls == 0, "the deferred result is stored before the completion is arbitrated");
  G.done_stored++;
}
static void EV_set_done(void* op) { VF_P(G.set_done + G.set_value == 0, "one completion signal"); G.set_done++; }
static void EV_set_value(void* op) { VF_P(G.set_done + G.set_value == 0, "one completion signal"); G.set_value++; }
#define CALL_EQ(a, b) ((a).base.resume_ == (b).base.resume_ && (a).pass_ == (b).pass_ && (a).cancelled_ == (b).cancelled_ && (a).receiver_ == (b).receiver_)
#define ACC_EQ(a, b)  ((a).base.unlocked_complete_ == (b).base.unlocked_complete_ && (a).pass_ == (b).pass_ && (a).receiver_ == (b).receiver_)

/* ---------------- tag helpers ---------------- */
static _Bool AP_is_caller(uintptr_t s)
/*@BODY is_caller*/
static _Bool AP_is_acceptor(uintptr_t s)
/*@BODY is_acceptor*/
static struct accept_op_base_noargs* AP_as_acceptor(uintptr_t s)
/*@BODY as_acceptor*/
static struct caller_base* AP_as_caller(uintptr_t s)
/*@BODY as_caller*/

/* ---------------- functions under contract ---------------- */
struct accept_op_base_noargs* AP_try_claim_acceptor(struct async_pass_base* self)
__CPROVER_requires(self == &P && G.role == R_TRY_CALL && G.lin_count == 0 && STATE_INV)
__CPROVER_assigns(P.state_, G.lin_old, G.lin_new, G.lin_count)
__CPROVER_ensures(__CPROVER_return_value != NULL ==> (G.lin_count == 1 && IS_ACCEPTOR(G.lin_old) && G.lin_new == 0 && VALID(G.lin_old) && (uintptr_t)__CPROVER_return_value == (G.lin_old ^ (uintptr_t)1))) /* succeeds only when an acceptor is published: takes exactly it, word -> idle */
__CPROVER_ensures(__CPROVER_return_value == NULL ==> (G.lin_count == 0 && !IS_ACCEPTOR(P.state_))) /* fails only when no acceptor was observed; nothing written */
/*@BODY try_claim_acceptor*/

uintptr_t AP_try_claim_caller_raw(struct async_pass_base* self)
__CPROVER_requires(self == &P && G.role == R_TRY_ACCEPT && G.lin_count == 0 && STATE_INV)
__CPROVER_assigns(P.state_, G.lin_old, G.lin_new, G.lin_count)
__CPROVER_ensures(__CPROVER_return_value != 0 ==> (G.lin_count == 1 && IS_CALLER(G.lin_old) && VALID(G.lin_old) && G.lin_new == 0 && __CPROVER_return_value == G.lin_old)) /* succeeds only when a caller is published */
__CPROVER_ensures(__CPROVER_return_value == 0 ==> (G.lin_count == 0 && !IS_CALLER(P.state_)))
/*@BODY try_claim_caller_raw*/

uintptr_t AP_call_or_suspend_raw(struct async_pass_base* self, uintptr_t caller)
__CPROVER_requires(self == &P && G.role == R_CALL && caller == G.me && IS_CALLER(caller) && !IS_CALLER(P.state_) && G.lin_count == 0 && STATE_INV)
__CPROVER_assigns(P.state_, G.lin_old, G.lin_new, G.lin_count)
__CPROVER_ensures(G.lin_count == 1)
__CPROVER_ensures(__CPROVER_return_value != 0 ==> (IS_ACCEPTOR(__CPROVER_return_value) && VALID(__CPROVER_return_value) && G.lin_old == __CPROVER_return_value && G.lin_new == 0)) /* returns a claimed acceptor: state was that (live) acceptor, now 0 */
__CPROVER_ensures(__CPROVER_return_value == 0 ==> (G.lin_old == 0 && G.lin_new == caller)) /* or publishes itself: state was 0 */
/*@BODY call_or_suspend_raw*/

uintptr_t AP_accept_or_suspend_raw(struct async_pass_base* self, uintptr_t acceptor)
__CPROVER_requires(self == &P && G.role == R_ACCEPT && acceptor == G.me && IS_ACCEPTOR(acceptor) && !IS_ACCEPTOR(P.state_) && G.lin_count == 0 && STATE_INV)
__CPROVER_assigns(P.state_, G.lin_old, G.lin_new, G.lin_count)
__CPROVER_ensures(G.lin_count == 1)
__CPROVER_ensures(__CPROVER_return_value != 0 ==> (IS_CALLER(__CPROVER_return_value) && VALID(__CPROVER_return_value) && G.lin_old == __CPROVER_return_value && G.lin_new == 0)) /* returns a claimed caller: state was that (live) caller, now 0 */
__CPROVER_ensures(__CPROVER_return_value == 0 ==> (G.lin_old == 0 && G.lin_new == acceptor)) /* or publishes itself: state was 0 */
/*@BODY accept_or_suspend_raw*/

/* typed wrappers (tagging / untagging) */
struct caller_base* AP_try_claim_caller(struct async_pass_base* self)
__CPROVER_requires(self == &P && G.role == R_TRY_ACCEPT && G.lin_count == 0 && STATE_INV)
__CPROVER_assigns(P.state_, G.lin_old, G.lin_new, G.lin_count)
__CPROVER_ensures(__CPROVER_return_value != NULL ==> (G.lin_count == 1 && IS_CALLER(G.lin_old) && G.lin_new == 0 && (uintptr_t)__CPROVER_return_value == G.lin_old))
__CPROVER_ensures(__CPROVER_return_value == NULL ==> (G.lin_count == 0 && !IS_CALLER(P.state_)))
/*@BODY try_claim_caller*/

struct accept_op_base_noargs* AP_call_or_suspend(struct async_pass_base* self, struct caller_base* caller)
__CPROVER_requires(self == &P && G.role == R_CALL && caller == &CALL.base && G.me == V_CALL && !IS_CALLER(P.state_) && G.lin_count == 0 && STATE_INV)
__CPROVER_assigns(P.state_, G.lin_old, G.lin_new, G.lin_count)
__CPROVER_ensures(G.lin_count == 1)
__CPROVER_ensures(__CPROVER_return_value != NULL ==> (IS_ACCEPTOR(G.lin_old) && G.lin_new == 0 && ((uintptr_t)__CPROVER_return_value | (uintptr_t)1) == G.lin_old)) /* the acceptor whose tagged address was in the word */
__CPROVER_ensures(__CPROVER_return_value == NULL ==> (G.lin_old == 0 && G.lin_new == (uintptr_t)&CALL.base)) /* published under its own (untagged) address */
/*@BODY call_or_suspend*/

struct caller_base* AP_accept_or_suspend(struct async_pass_base* self, struct accept_op_base_noargs* acceptor)
__CPROVER_requires(self == &P && G.role == R_ACCEPT && acceptor == &ACC.base && G.me == V_ACC && !IS_ACCEPTOR(P.state_) && G.lin_count == 0 && STATE_INV)
__CPROVER_assigns(P.state_, G.lin_old, G.lin_new, G.lin_count)
__CPROVER_ensures(G.lin_count == 1)
__CPROVER_ensures(__CPROVER_return_value != NULL ==> (IS_CALLER(G.lin_old) && G.lin_new == 0 && (uintptr_t)__CPROVER_return_value == G.lin_old))
__CPROVER_ensures(__CPROVER_return_value == NULL ==> (G.lin_old == 0 && G.lin_new == V_ACC && IS_ACCEPTOR(G.lin_new))) /* published under its own address with the acceptor tag */
/*@BODY accept_or_suspend*/

/* stop(): the three un-claim bodies */
#define STOP_REQ (G.role == R_STOP && G.lin_count == 0 && G.tc_calls == 0 && G.fwd == 0 && G.done_stored == 0 && !G.op_dead)
#define STOP_ENS_UNCLAIM   (G.lin_count == 1 ==> (G.lin_old == G.me && G.lin_new == 0))                         /* un-claims only if the word still equals self */
#define STOP_ENS_NOTHING   (G.lin_count == 0 ==> (P.state_ != G.me && G.tc_calls == 0 && G.fwd == 0 && G.done_stored == 0)) /* already claimed (or never published): stop() does nothing */
#define STOP_ENS_COMPLETE  (G.lin_count == 1 ==> (G.tc_calls == 1 && G.fwd == (G.tc_result ? 1u : 0u)))          /* un-claimed: completes as cancelled iff it wins try_complete */

void call_op_stop(struct call_op* self)
__CPROVER_requires(self == &CALL && CALL.pass_ == &P && G.me == V_CALL && STOP_REQ && CALL_EQ(G.snap_call, CALL))
__CPROVER_assigns(P.state_, CALL, G)
__CPROVER_ensures(STOP_ENS_UNCLAIM)
__CPROVER_ensures(STOP_ENS_NOTHING)
__CPROVER_ensures(STOP_ENS_COMPLETE)
__CPROVER_ensures(G.fwd == 1 ==> G.cancelled_at_fwd) /* the forwarder finds cancelled_ set: the receiver gets done, not value */
__CPROVER_ensures((G.fwd == 0 || G.op_dead) ==> CALL_EQ(CALL, G.snap_call)) /* nothing is written unless this stop() completes the operation, and nothing after the completion was handed over */
/*@BODY call_stop*/

void throw_op_stop(struct call_op* self)
__CPROVER_requires(self == &THROW && THROW.pass_ == &P && G.me == V_THROW && STOP_REQ && CALL_EQ(G.snap_call, THROW))
__CPROVER_assigns(P.state_, THROW, G)
__CPROVER_ensures(STOP_ENS_UNCLAIM)
__CPROVER_ensures(STOP_ENS_NOTHING)
__CPROVER_ensures(STOP_ENS_COMPLETE)
__CPROVER_ensures(G.fwd == 1 ==> G.cancelled_at_fwd)
__CPROVER_ensures((G.fwd == 0 || G.op_dead) ==> CALL_EQ(THROW, G.snap_call))
/*@BODY throw_stop*/

void accept_op_stop(struct accept_op* self)
__CPROVER_requires(self == &ACC && ACC.pass_ == &P && G.me == V_ACC && STOP_REQ && ACC_EQ(G.snap_acc, ACC))
__CPROVER_assigns(P.state_, ACC, G)
__CPROVER_ensures(STOP_ENS_UNCLAIM)
__CPROVER_ensures(STOP_ENS_NOTHING)
__CPROVER_ensures(STOP_ENS_COMPLETE)
__CPROVER_ensures(G.lin_count == 1 ==> G.done_stored == 1) /* the acceptor's result is done */
__CPROVER_ensures(G.fwd == 1 ==> G.done_stored_at_fwd == 1)
__CPROVER_ensures(ACC_EQ(ACC, G.snap_acc)) /* the protocol fields are never written by stop() */
/*@BODY accept_stop*/

void call_op_forward_set_value(struct call_op* self)
__CPROVER_requires(self == &CALL && G.set_done == 0 && G.set_value == 0)
__CPROVER_assigns(G.set_done, G.set_value)
__CPROVER_ensures(CALL.cancelled_ ? (G.set_done == 1 && G.set_value == 0) : (G.set_value == 1 && G.set_done == 0)) /* value unless un-claimed by stop(): then done */
/*@BODY call_forward_set_value*/

void throw_op_forward_set_value(struct call_op* self)
__CPROVER_requires(self == &THROW && G.set_done == 0 && G.set_value == 0)
__CPROVER_assigns(G.set_done, G.set_value)
__CPROVER_ensures(THROW.cancelled_ ? (G.set_done == 1 && G.set_value == 0) : (G.set_value == 1 && G.set_done == 0))
/*@BODY throw_forward_set_value*/

/* observers */
_Bool async_pass_is_idle(struct async_pass_base* self)
__CPROVER_requires(self == &P && G.role == R_OBSERVE && G.lin_count == 0)
__CPROVER_assigns(P.state_)
__CPROVER_ensures(G.lin_count == 0 && __CPROVER_return_value == (P.state_ == 0))
/*@BODY is_idle*/
_Bool async_pass_is_expecting_call(struct async_pass_base* self)
__CPROVER_requires(self == &P && G.role == R_OBSERVE && G.lin_count == 0)
__CPROVER_assigns(P.state_)
__CPROVER_ensures(G.lin_count == 0 && __CPROVER_return_value == IS_ACCEPTOR(P.state_))
/*@BODY is_expecting_call*/
_Bool async_pass_is_expecting_accept(struct async_pass_base* self)
__CPROVER_requires(self == &P && G.role == R_OBSERVE && G.lin_count == 0)
__CPROVER_assigns(P.state_)
__CPROVER_ensures(G.lin_count == 0 && __CPROVER_return_value == IS_CALLER(P.state_))
/*@BODY is_expecting_accept*/

/* ---------------- harnesses ---------------- */
static uintptr_t pick_state(void) {
  int k = VF_nondet_int();
  return k == 0 ? 0 : k == 1 ? V_CALL : k == 2 ? V_THROW : k == 3 ? V_ACC : k == 4 ? V_OC : V_OA;
}
static void h_init(int role, uintptr_t me) {
  G.role = role; G.me = me; G.lin_old = 0; G.lin_new = 0; G.lin_count = 0; G.tc_calls = 0; G.tc_result = 0; G.fwd = 0; G.cancelled_at_fwd = 0;
  G.done_stored = 0; G.done_stored_at_fwd = 0; G.set_done = 0; G.set_value = 0; G.op_dead = 0;
  CALL.pass_ = &P; CALL.cancelled_ = /*@EXPR call_cancelled_init*/; CALL.receiver_ = VF_nondet_int();
  THROW.pass_ = &P; THROW.cancelled_ = /*@EXPR throw_cancelled_init*/; THROW.receiver_ = VF_nondet_int();
  ACC.pass_ = &P; ACC.receiver_ = VF_nondet_int();
  P.state_ = pick_state();
  __CPROVER_assume(role == R_CALL ? !IS_CALLER(P.state_) : role == R_ACCEPT ? !IS_ACCEPTOR(P.state_) : 1);
  SNAP();
}
void h_try_claim_acceptor(void) { h_init(R_TRY_CALL, 0); struct accept_op_base_noargs* r = AP_try_claim_acceptor(&P); VF_CANARY("after try_claim_acceptor"); if (r) { VF_CANARY("try_claim_acceptor can succeed"); } else { VF_CANARY("try_claim_acceptor can fail"); } }
void h_try_claim_caller_raw(void) { h_init(R_TRY_ACCEPT, 0); uintptr_t r = AP_try_claim_caller_raw(&P); VF_CANARY("after try_claim_caller_raw"); if (r) { VF_CANARY("try_claim_caller_raw can succeed"); } else { VF_CANARY("try_claim_caller_raw can fail"); } }
void h_call_or_suspend_raw(void) { h_init(R_CALL, VF_nondet_bool() ? V_CALL : V_THROW); uintptr_t r = AP_call_or_suspend_raw(&P, G.me); VF_CANARY("after call_or_suspend_raw"); if (r) { VF_CANARY("call can claim an acceptor"); } else { VF_CANARY("call can publish itself"); } }
void h_accept_or_suspend_raw(void) { h_init(R_ACCEPT, V_ACC); uintptr_t r = AP_accept_or_suspend_raw(&P, G.me); VF_CANARY("after accept_or_suspend_raw"); if (r) { VF_CANARY("accept can claim a caller"); } else { VF_CANARY("accept can publish itself"); } }
void h_try_claim_caller(void) { h_init(R_TRY_ACCEPT, 0); struct caller_base* r = AP_try_claim_caller(&P); VF_CANARY("after try_claim_caller"); if (r) { VF_CANARY("try_claim_caller can succeed"); } }
void h_call_or_suspend(void) { h_init(R_CALL, V_CALL); struct accept_op_base_noargs* r = AP_call_or_suspend(&P, &CALL.base); VF_CANARY("after call_or_suspend"); if (r) { VF_CANARY("call_or_suspend can claim"); } else { VF_CANARY("call_or_suspend can publish"); } }
void h_accept_or_suspend(void) { h_init(R_ACCEPT, V_ACC); struct caller_base* r = AP_accept_or_suspend(&P, &ACC.base); VF_CANARY("after accept_or_suspend"); if (r) { VF_CANARY("accept_or_suspend can claim"); } else { VF_CANARY("accept_or_suspend can publish"); } }
void h_call_stop(void) { h_init(R_STOP, V_CALL); call_op_stop(&CALL); VF_CANARY("after call_op::stop"); if (G.lin_count) { VF_CANARY("call stop can un-claim"); } else { VF_CANARY("call stop can come too late"); } }
void h_throw_stop(void) { h_init(R_STOP, V_THROW); throw_op_stop(&THROW); VF_CANARY("after throw_op::stop"); if (G.lin_count) { VF_CANARY("throw stop can un-claim"); } }
void h_accept_stop(void) { h_init(R_STOP, V_ACC); accept_op_stop(&ACC); VF_CANARY("after accept_op::stop"); if (G.lin_count) { VF_CANARY("accept stop can un-claim"); } else { VF_CANARY("accept stop can come too late"); } }
void h_call_forward_set_value(void) { h_init(R_OBSERVE, V_CALL); CALL.cancelled_ = VF_nondet_bool(); call_op_forward_set_value(&CALL); VF_CANARY("after call_op::forward_set_value"); }
void h_throw_forward_set_value(void) { h_init(R_OBSERVE, V_THROW); THROW.cancelled_ = VF_nondet_bool(); throw_op_forward_set_value(&THROW); VF_CANARY("after throw_op::forward_set_value"); }
void h_is_idle(void) { h_init(R_OBSERVE, 0); async_pass_is_idle(&P); VF_CANARY("after is_idle"); }
void h_is_expecting_call(void) { h_init(R_OBSERVE, 0); async_pass_is_expecting_call(&P); VF_CANARY("after is_expecting_call"); }
void h_is_expecting_accept(void) { h_init(R_OBSERVE, 0); async_pass_is_expecting_accept(&P); VF_CANARY("after is_expecting_accept"); }

/* ---------------- M4 lemmas over the contracts ---------------- */
void lemma_pass_tags(void) {
  VF_P(kAcceptorTag == 1 && state_INIT == 0, "lemma: the acceptor tag is bit 0 and a fresh async_pass is idle");
  uintptr_t s = VF_nondet_uptr();
  VF_P(AP_is_caller(s) == IS_CALLER(s) && AP_is_acceptor(s) == IS_ACCEPTOR(s), "lemma: is_caller / is_acceptor decode the word as specified");
  VF_P((s == 0) + (IS_CALLER(s) ? 1 : 0) + (IS_ACCEPTOR(s) ? 1 : 0) == 1, "lemma: every word value is exactly one of idle / caller / acceptor");
  VF_P(IS_CALLER(V_CALL) && IS_CALLER(V_THROW) && IS_CALLER(V_OC) && IS_ACCEPTOR(V_ACC) && IS_ACCEPTOR(V_OA), "lemma: operation addresses are even, so tagging is unambiguous");
  VF_P(AP_as_acceptor(V_ACC) == &ACC.base && AP_as_acceptor(V_OA) == &OA && AP_as_caller(V_CALL) == &CALL.base, "lemma: untagging returns the published operation");
  VF_P((((uintptr_t)&ACC.base) | kAcceptorTag) == V_ACC && (V_ACC ^ kAcceptorTag) == (uintptr_t)&ACC, "lemma: tag / untag round trip");
  VF_CANARY("lemma_pass_tags reachable");
}
/* one step of ANOTHER party (its published value `their`), summarised by its contract: allowed by my rely in each role */
void lemma_pass_rely(void) {
  uintptr_t o = pick_state(), n = pick_state();
  int their_role = VF_nondet_int();
  uintptr_t their = pick_state();
  G.role = VF_nondet_int(); G.me = pick_state();
  __CPROVER_assume(G.role >= R_OBSERVE && G.role <= R_STOP && their_role >= R_CALL && their_role <= R_STOP);
  __CPROVER_assume((G.role == R_CALL ==> IS_CALLER(G.me)) && (G.role == R_ACCEPT ==> IS_ACCEPTOR(G.me)) && (G.role == R_STOP ==> G.me != 0));
  __CPROVER_assume(their != G.me);                                                      /* distinct operations have distinct addresses */
  __CPROVER_assume(their_role == R_CALL ==> IS_CALLER(their));
  __CPROVER_assume(their_role == R_ACCEPT ==> IS_ACCEPTOR(their));
  __CPROVER_assume(their_role == R_STOP ==> their != 0);
  /* the usage assumption: one outstanding publisher per side */
  __CPROVER_assume((G.role == R_CALL && IS_CALLER(G.me)) ==> (their_role != R_CALL && !IS_CALLER(o)));
  __CPROVER_assume((G.role == R_ACCEPT && IS_ACCEPTOR(G.me)) ==> (their_role != R_ACCEPT && !IS_ACCEPTOR(o)));
  _Bool step = their_role == R_CALL ? (STEP_PUBLISH(o, n, their) || STEP_CLAIM_ACCEPTOR(o, n))
             : their_role == R_ACCEPT ? (STEP_PUBLISH(o, n, their) || STEP_CLAIM_CALLER(o, n))
             : their_role == R_TRY_CALL ? STEP_CLAIM_ACCEPTOR(o, n)
             : their_role == R_TRY_ACCEPT ? STEP_CLAIM_CALLER(o, n)
             : STEP_UNCLAIM(o, n, their);
  __CPROVER_assume(step);
  VF_CANARY("lemma premises satisfiable");
  VF_P(RELY(o, n), "lemma: every guarantee step of another party is allowed by my rely (in each role)");
  VF_P(n == 0 || o == 0, "lemma: every step either leaves idle by publishing or returns to idle");
}
/* ME is published; whatever two steps follow, ME leaves the word at most once */
void lemma_pass_claim_or_unclaim(void) {
  uintptr_t me = pick_state();
  __CPROVER_assume(me != 0);
  uintptr_t s0 = pick_state(), s1 = pick_state(), s2 = pick_state();
  /* each step: by me = my stop() (un-claim), or by anybody else = a publish of THEIR value, or a claim */
  _Bool mine1 = VF_nondet_bool(), mine2 = VF_nondet_bool();
  uintptr_t t1 = pick_state(), t2 = pick_state();
  __CPROVER_assume(t1 != me && t2 != me);
  __CPROVER_assume(mine1 ? STEP_UNCLAIM(s0, s1, me) : (STEP_PUBLISH(s0, s1, t1) || STEP_CLAIM_ACCEPTOR(s0, s1) || STEP_CLAIM_CALLER(s0, s1)));
  __CPROVER_assume(mine2 ? STEP_UNCLAIM(s1, s2, me) : (STEP_PUBLISH(s1, s2, t2) || STEP_CLAIM_ACCEPTOR(s1, s2) || STEP_CLAIM_CALLER(s1, s2)));
  VF_CANARY("lemma premises satisfiable");
  _Bool left1 = (s0 == me && s1 != me), left2 = (s1 == me && s2 != me);
  _Bool claimed1 = left1 && !mine1, claimed2 = left2 && !mine2, unclaimed1 = left1 && mine1, unclaimed2 = left2 && mine2;
  VF_P((s0 != me) ==> (s1 != me), "lemma: nobody but the operation itself (its one start) publishes it: once gone it stays gone");
  VF_P(!(left1 && left2), "lemma: a published party leaves the word at most once");
  VF_P(!((claimed1 || claimed2) && (unclaimed1 || unclaimed2)), "lemma: claimed by a counterpart OR un-claimed by its own stop(), never both");
  VF_P(!(claimed1 && claimed2), "lemma: claimed by at most one counterpart");
  VF_P(mine1 ==> (s0 == me), "lemma: stop() changes the word only while the operation is still published");
  VF_P((claimed1 && IS_CALLER(me)) ==> STEP_CLAIM_CALLER(s0, s1), "lemma: a caller is claimed only by the accept side");
  VF_P((claimed1 && IS_ACCEPTOR(me)) ==> STEP_CLAIM_ACCEPTOR(s0, s1), "lemma: an acceptor is claimed only by the call side");
}
