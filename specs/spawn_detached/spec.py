import re

H = 'include/unifex/spawn_detached.hpp'
RCV = r'struct _spawn_detached_receiver<Alloc, WithAsyncStackSupport>::type final \{'
OPC = r'struct _spawn_detached_op<Sender, Alloc, WithAsyncStackSupport>::type final \{'
FN = r'struct _spawn_detached_fn \{'

USING = [(r'(?s)\busing \w+ =[^;]*;', '')]


# scope_guard g = [&]() noexcept { B };  ->  armed flag + VF_GUARD_g() (run once if armed); g.release() disarms; the guard's
# destructor is written out on the exceptional edge (at the may-throw stub) and at the end of the function
# (general rule missing from the table, as in stop_on_request / spawn_future / let_error_done)
def _guard(m):
    body = re.sub(r'\s+', ' ', m.group(2)).strip()
    return '_Bool %s_armed = 1;\n#define VF_GUARD_%s() do { if (%s_armed) { %s_armed = 0; %s } } while (0)\n' % (m.group(1), m.group(1), m.group(1), m.group(1), body)


fn_ctx = dict(
    cls='sd_fn', members=[], methods=[],
    pre=USING + [
        (r'allocator_t allocator\{alloc\};', 'int allocator = EV_rebind(alloc);'),
        # allocation may throw std::bad_alloc: the exception leaves the function (`return` = unwinding; no guard exists yet)
        (r'auto op = traits::allocate\(allocator, 1\);', 'struct sd_op* op = EV_allocate(allocator, 1); if (op == NULL) return;'),
        (r'(?s)scope_guard (\w+) = \[&\]\(\) noexcept \{\s*([^{};]*;)\s*\};', _guard),
        # traits::construct(allocator, op, nest(sender, scope), allocator, return address): nest() + the operation's constructor
        # (extracted as sd_op_ctor); an exception runs the guard and leaves the function
        (r'(?s)traits::construct\(\s*allocator,\s*op,\s*nest\(static_cast<Sender&&>\(sender\), scope\),\s*(\w+),\s*instruction_ptr::read_return_address\(\)\);',
         r'if (EV_construct(allocator, op, scope, \1)) { VF_GUARD_g(); return; }'),
        (r'\b(g)\.release\(\);', r'\1_armed = 0;'),
        (r'traits::deallocate\(', 'EV_deallocate('),
        (r'unifex::start\(\*op\);', 'sd_op_start(op);'),
        # the guard's destructor at the end of the function
        (r'(?s)\}\s*$', ' VF_GUARD_g(); }'),
    ],
)
op_ctx = dict(
    cls='sd_op', members=[], methods=[],
    typemap=[(r'^type\s*\*$', 'struct sd_op*')],
    pre=USING + [
        (r'static_assert\([^;]*\);', ''),
        # ::new (op_address()) op_t{connect(std::move(sender), receiver{this, destroy, alloc})}: may throw; strong guarantee
        (r'(?s)::new \(op_address\(\)\) op_t\{connect\(\s*std::move\(sender\),\s*spawn_detached_receiver_t<Alloc, WithAsyncStackSupport>\{\s*([^,{}]*),\s*([^,{}]*),\s*([^,{}]*)\}\)\};',
         r'if (EV_connect(this, sender, \1, DELETER_\2, \3)) return;'),
        (r'if constexpr \(WithAsyncStackSupport\)', 'if (VF_CFG_async_stack)'),
        (r'frame_\.setReturnAddress\(returnAddress\);', 'EV_set_return_address(this);'),
        (r'(?<![\w>.])op\(\)\.~op_t\(\)', 'EV_inner_destruct(this)'),
        (r'unifex::start\(op\.op\(\)\)', 'EV_start_inner(op)'),
        # destroy(): allocator round trip
        (r'allocator_t allocator\{std::move\(alloc\)\};', 'int allocator = EV_rebind(alloc);'),
        (r'traits_t::destroy\(', 'EV_destroy('),
        (r'traits_t::deallocate\(', 'EV_deallocate('),
    ],
)
rcv_ctx = dict(
    cls='sd_receiver', members=['op_', 'deleter_', 'alloc_'], methods=['set_value'],
    pre=[
        (r'(?<![\w>.])deleter_\(std::move\(([^()]*)\), ([^(),]*)\)', r'EV_call_deleter(deleter_, \1, \2)'),
        (r'std::terminate\(\)', 'EV_terminate(TERM_ERROR_COMPLETION)'),
    ],
    # instrumentation (no statement changed): every access through the receiver asserts the receiver still exists
    post=[(r'\bself->', 'VF_RCV(self)->')],
)

SPEC = dict(
    properties=['C09', 'C02'],
    ctx={},
    extracts={
        'rcv_set_value': dict(file=H, sig=r'void set_value\(\) noexcept', within=RCV, ctx=rcv_ctx),
        'rcv_set_error': dict(file=H, sig=r'\[\[noreturn\]\] void set_error\(std::exception_ptr\) noexcept', within=RCV, ctx=rcv_ctx),
        'rcv_set_done': dict(file=H, sig=r'void set_done\(\) noexcept', within=RCV, ctx=rcv_ctx),
        'op_ctor': dict(file=H, sig=r'explicit type\(Sender&& sender, const Alloc& alloc, \[\[maybe_unused\]\] instruction_ptr returnAddress\) noexcept', within=OPC, ctx=op_ctx,
                        must_contain=[r'::new \(op_address\(\)\)']),
        'op_dtor': dict(file=H, sig=r'~type\(\)', within=OPC, ctx=op_ctx),
        'op_start': dict(file=H, sig=r'friend void tag_invoke\(tag_t<start>, type& op\) noexcept', within=OPC, ctx=op_ctx),
        'op_destroy': dict(file=H, sig=r'static void destroy\(Alloc alloc, void\* p\) noexcept', within=OPC, ctx=op_ctx),
        'fn_call': dict(file=H, sig=r'operator\(\)\(Sender&& sender, Scope& scope, const Alloc& alloc = \{\}\) const', within=FN, ctx=fn_ctx,
                        must_contain=[r'traits::allocate', r'scope_guard']),
    },
    closed_world=[dict(file=H, members=['deleter_'], within=RCV, allow=[r'void \(\*deleter_\)\(Alloc, void\*\) noexcept;'])],
    units=[
        dict(name='op_ctor', harness='h_op_ctor', enforce='sd_op_ctor'),
        dict(name='op_dtor', harness='h_op_dtor', enforce='sd_op_dtor'),
        dict(name='op_start', harness='h_op_start', enforce='sd_op_start'),
        dict(name='op_destroy', harness='h_op_destroy', enforce='sd_op_destroy', replace=['sd_op_dtor']),
        dict(name='receiver_set_value', harness='h_rcv_set_value', enforce='sd_receiver_set_value', replace=['sd_op_destroy']),
        dict(name='receiver_set_done', harness='h_rcv_set_done', enforce='sd_receiver_set_done', replace=['sd_receiver_set_value']),
        dict(name='receiver_set_error', harness='h_rcv_set_error', enforce='sd_receiver_set_error'),
        dict(name='spawn_detached', harness='h_fn_call', enforce='sd_fn_call', replace=['sd_op_ctor', 'sd_op_start']),
        dict(name='lemma_lifecycle', harness='lemma_lifecycle', mode='lemma'),
    ],
    assumptions=[
        'the nested operation completes exactly once, through set_value / set_done / set_error of the receiver the constructor connected it to, and not before it was started (C01 for the nested sender)',
        'allocator_traits::allocate either throws or returns a block; allocator_traits::construct(a, p, args...) is `::new (p) T(args...)` (the extracted constructor), allocator_traits::destroy is the extracted destructor: the allocator round trip is stubbed, rebinding an allocator keeps its identity (C12 not reached)',
        'nest(sender, scope) returns a nest sender that holds a scope reference iff the scope is open (group scope_v1 v2_nest); when the operation constructor throws, that temporary is destroyed and releases the reference (group nest_sender dtor); when connect succeeds the reference moves into the nest operation (nest sender connect, not reached)',
        'connect() has the strong exception guarantee (nothing constructed in op_ when it throws)',
        'if constexpr (WithAsyncStackSupport): both branches verified (symbolic VF_CFG_async_stack)',
        'std::terminate() does not return; EV_terminate records the reason and the contracts say "terminate iff error completion"',
    ],
    drops=['template genericity (Sender, Scope, Alloc), using-aliases, static_assert, exception specifications',
           'placement new of connect(...) -> EV_connect(op, sender, receiver.op_, receiver.deleter_, receiver.alloc_) (may throw)',
           'op().~op_t() -> EV_inner_destruct, unifex::start(op.op()) -> EV_start_inner, frame_.setReturnAddress -> EV_set_return_address',
           'allocator_traits allocate / construct / destroy / deallocate -> EV_allocate / EV_construct (nest() + the extracted constructor) / EV_destroy (the extracted destructor) / EV_deallocate',
           'scope_guard g -> armed flag + VF_GUARD_g() at the may-throw construct and at the end of the function; g.release() -> disarm',
           'deleter_(std::move(alloc_), op_) (function pointer) -> EV_call_deleter, which checks the pointer is destroy and calls the extracted destroy',
           'get_allocator / get_async_stack_frame receiver queries, the bind_back overload and deref are not extracted (pure forwarding)'],
)
