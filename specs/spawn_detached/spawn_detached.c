/* C09 (last clause) / C02: spawn_detached (include/unifex/spawn_detached.hpp).
 * A detached operation is one heap block holding the nested operation; it owns itself:
 *   - spawn_detached(sender, scope, alloc): allocate, construct (nest + connect), start.  Strong exception guarantee: allocation
 *     throws -> nothing happened; nest()/connect throws -> the block is deallocated exactly once through the allocator it came
 *     from, the scope reference taken by nest() is released, nothing is started, the exception propagates;
 *   - the receiver's set_value / set_done destroy the operation and deallocate the block, each exactly once, destroy first,
 *     through the allocator the block was allocated with, and never terminate; set_error terminates and does nothing else:
 *     "terminate iff error completion";
 *   - the receiver (part of the operation it frees) is not touched after the operation was destroyed.
 * Bodies marked @BODY are extracted from /repo on every run; everything else here is specification. */
#include <stddef.h>
struct sd_op { int frame_; int op_; };                       /* _spawn_detached_op: async-stack frame + storage of the nested operation */
struct sd_receiver { void* op_; int deleter_; int alloc_; };  /* lives inside the nested operation, i.e. inside the block */
struct sd_fn { int dummy; };
struct v_scope { int dummy; };
enum { DELETER_none = 0, DELETER_destroy = 5 };
enum { TERM_NONE = 0, TERM_ERROR_COMPLETION = 1 };
enum { SENDER_USER = 1, SENDER_NEST = 2 };
struct vf_ghost {
  _Bool threw;                    /* an exception is propagating out of the verified function */
  unsigned allocs, deallocs;      /* heap block */
  unsigned constructs, destroys;  /* the _spawn_detached_op object */
  unsigned inner_constructs, inner_destructs;   /* the nested operation state (connect result) */
  unsigned starts, deleter_calls, terminates, set_ra; int term_reason;
  _Bool block_alive, obj_alive, inner_alive;
  int alloc_id;                   /* the allocator the block was allocated with */
  unsigned refs_acquired, refs_released; _Bool ref_in_temp, ref_in_op;   /* the scope reference taken by nest() */
  _Bool gone;                     /* the started operation may have completed and freed itself */
  _Bool rcv_dead; struct sd_receiver snap;
};
static struct vf_ghost G;
#include "vf.h"
static void vf_interfere(void) {}

static struct sd_op OPD;
static struct sd_receiver RCV;
static struct v_scope SC;
static struct sd_fn FN;
static _Bool VF_CFG_async_stack;   /* if constexpr (WithAsyncStackSupport): symbolic, both branches verified */

/* ---------------- event stubs ---------------- */
static void EV_terminate(int reason) { VF_CANARY("std::terminate() reachable"); G.terminates++; G.term_reason = reason; }
static int EV_rebind(int alloc) { return alloc; }   /* allocator_t{alloc}: rebinding keeps the allocator's identity */
static struct sd_op* EV_allocate(int allocator, int n) {
  VF_P(n == 1 && !G.block_alive && G.allocs == 0, "one block per spawn_detached");
  if (VF_nondet_bool()) { G.threw = 1; return NULL; }   /* std::bad_alloc */
  G.allocs++; G.block_alive = 1; G.alloc_id = allocator;
  return &OPD;
}
static void EV_deallocate(int allocator, struct sd_op* p, int n) {
  VF_CANARY("deallocate reachable");
  VF_P(p == &OPD && n == 1 && G.block_alive, "C02: the block of a detached operation is deallocated exactly once");
  VF_P(allocator == G.alloc_id, "C02: the block is deallocated through the allocator it was allocated with");
  VF_P(!G.obj_alive && !G.inner_alive, "C02: the block is deallocated only after the operation in it was destroyed (or never constructed)");
  G.block_alive = 0; G.deallocs++;
}
static struct sd_receiver* VF_RCV(struct sd_receiver* r) {
  VF_P(!G.rcv_dead, "C02: the receiver (part of the operation it frees) is not accessed after that operation was destroyed");
  return r;
}
static _Bool EV_connect(struct sd_op* self, int sender, struct sd_op* rcv_op, int deleter, int alloc) {
  VF_P(self == &OPD && G.block_alive && !G.inner_alive && G.inner_constructs == 0, "the nested operation is connected once, into the block");
  VF_P(sender == SENDER_NEST, "C08: what is connected is the sender nested in the scope (counted by it)");
  if (VF_nondet_bool()) { G.threw = 1; return 1; }   /* connect throws: nothing constructed */
  G.inner_alive = 1; G.inner_constructs++;
  RCV.op_ = rcv_op; RCV.deleter_ = deleter; RCV.alloc_ = alloc;
  return 0;
}
static void EV_set_return_address(struct sd_op* self) { VF_P(self == &OPD && G.inner_alive, "the frame is initialised after the nested operation was connected"); G.set_ra++; }
static void EV_inner_destruct(struct sd_op* self) {
  VF_P(self == &OPD && G.inner_alive && G.block_alive, "C02: the nested operation state is destroyed exactly once, while its block exists");
  G.inner_alive = 0; G.inner_destructs++;
  struct sd_receiver f; f.op_ = NULL; f.deleter_ = DELETER_none; f.alloc_ = VF_nondet_int();   /* the receiver is part of the nested operation state */
  RCV = f; G.snap = f; G.rcv_dead = 1;
}
static void EV_start_inner(struct sd_op* op) {
  VF_CANARY("start of the nested operation reachable");
  VF_P(op == &OPD && G.obj_alive && G.inner_alive && G.starts == 0, "the nested operation is started once, after it was constructed");
  VF_P(!G.threw, "nothing is started on the exceptional path");
  G.starts++;
  if (VF_nondet_bool()) { G.gone = 1; G.block_alive = 0; G.obj_alive = 0; G.inner_alive = 0; G.rcv_dead = 1; }   /* it may complete at once and free itself */
}

/* ---------------- the operation ---------------- */
void sd_op_ctor(struct sd_op* self, int sender, int alloc, int returnAddress)
__CPROVER_requires(self == &OPD && sender == SENDER_NEST) /*P*/
__CPROVER_requires(G.block_alive && !G.obj_alive && !G.inner_alive && G.inner_constructs == 0 && G.set_ra == 0 && !G.threw)
__CPROVER_assigns(RCV, G.threw, G.inner_alive, G.inner_constructs, G.set_ra)
__CPROVER_ensures(G.threw ? (!G.inner_alive && G.inner_constructs == 0) : (G.inner_alive && G.inner_constructs == 1)) /* C02: connect threw => nothing was constructed */
__CPROVER_ensures(!G.threw ==> (RCV.op_ == &OPD && RCV.deleter_ == DELETER_destroy && RCV.alloc_ == alloc)) /* the receiver can find and free its own operation, with the allocator passed in */
__CPROVER_ensures(!G.threw ==> G.set_ra == (VF_CFG_async_stack ? 1 : 0))
/*@BODY op_ctor*/

void sd_op_dtor(struct sd_op* self)
__CPROVER_requires(self == &OPD) /*P*/
__CPROVER_requires(G.inner_alive && G.block_alive && G.inner_destructs == 0)
__CPROVER_assigns(RCV, G.inner_alive, G.inner_destructs, G.rcv_dead, G.snap)
__CPROVER_ensures(!G.inner_alive && G.inner_destructs == 1 && G.rcv_dead && RCV.op_ == G.snap.op_ && RCV.deleter_ == G.snap.deleter_ && RCV.alloc_ == G.snap.alloc_) /* C02: the nested operation is destroyed exactly once */
/*@BODY op_dtor*/

void sd_op_start(struct sd_op* op)
__CPROVER_requires(op == &OPD && G.obj_alive && G.inner_alive && G.starts == 0 && !G.threw) /*P*/
__CPROVER_assigns(G.starts, G.gone, G.block_alive, G.obj_alive, G.inner_alive, G.rcv_dead)
__CPROVER_ensures(G.starts == 1 && (G.gone || (G.block_alive && G.obj_alive && G.inner_alive)))
/*@BODY op_start*/

static void EV_destroy(int allocator, struct sd_op* typed) {
  VF_P(typed == &OPD && G.obj_alive && G.destroys == 0, "C02: the detached operation object is destroyed exactly once");
  sd_op_dtor(typed);
  G.obj_alive = 0; G.destroys++;
}
#define DESTROY_PRE (G.block_alive && G.obj_alive && G.inner_alive && G.destroys == 0 && G.deallocs == 0 && G.inner_destructs == 0)
#define DESTROY_ASSIGNS RCV, G.inner_alive, G.inner_destructs, G.rcv_dead, G.snap, G.obj_alive, G.destroys, G.block_alive, G.deallocs
#define DESTROY_POST (G.destroys == 1 && G.inner_destructs == 1 && G.deallocs == 1 && !G.obj_alive && !G.inner_alive && !G.block_alive /* destroyed and deallocated, exactly once each (order: EV_deallocate) */ \
                      && G.rcv_dead && RCV.op_ == G.snap.op_ && RCV.deleter_ == G.snap.deleter_ && RCV.alloc_ == G.snap.alloc_)
void sd_op_destroy(int alloc, void* p)
__CPROVER_requires(p == (void*)&OPD && alloc == G.alloc_id) /*P*/
__CPROVER_requires(DESTROY_PRE)
__CPROVER_assigns(DESTROY_ASSIGNS)
__CPROVER_ensures(DESTROY_POST)
/*@BODY op_destroy*/

/* ---------------- the receiver ---------------- */
static void EV_call_deleter(int deleter, int alloc, void* p) {
  VF_CANARY("deleter call reachable");
  VF_P(deleter == DELETER_destroy, "the stored deleter is _spawn_detached_op::destroy");
  VF_P(G.deleter_calls == 0, "C02: the deleter runs once");
  G.deleter_calls++;
  sd_op_destroy(alloc, p);
}
#define RCV_PRE (self == &RCV && RCV.op_ == (void*)&OPD && RCV.deleter_ == DELETER_destroy && RCV.alloc_ == G.alloc_id && !G.rcv_dead && DESTROY_PRE \
                 && G.deleter_calls == 0 && G.terminates == 0 && G.term_reason == TERM_NONE && G.starts == 1)
#define RCV_FREE_POST (G.deleter_calls == 1 && DESTROY_POST /* C02: operation destroyed + block deallocated exactly once, through its own allocator */ \
                       && G.terminates == 0 /* C09: a value / done completion never terminates the process */)
void sd_receiver_set_value(struct sd_receiver* self)
__CPROVER_requires(RCV_PRE)
__CPROVER_assigns(DESTROY_ASSIGNS, G.deleter_calls)
__CPROVER_ensures(RCV_FREE_POST)
/*@BODY rcv_set_value*/

void sd_receiver_set_done(struct sd_receiver* self)
__CPROVER_requires(RCV_PRE)
__CPROVER_assigns(DESTROY_ASSIGNS, G.deleter_calls)
__CPROVER_ensures(RCV_FREE_POST)
/*@BODY rcv_set_done*/

void sd_receiver_set_error(struct sd_receiver* self)
__CPROVER_requires(RCV_PRE)
__CPROVER_assigns(G.terminates, G.term_reason)
__CPROVER_ensures(G.terminates == 1 && G.term_reason == TERM_ERROR_COMPLETION) /* C09: spawn_detached terminates the process for an error completion ... */
__CPROVER_ensures(G.deleter_calls == 0 && G.destroys == 0 && G.deallocs == 0) /* ... and does not pretend the operation completed normally */
/*@BODY rcv_set_error*/

/* ---------------- spawn_detached(sender, scope, alloc) ---------------- */
/* traits::construct(allocator, op, nest(sender, scope), allocator, return address) */
static _Bool EV_construct(int allocator, struct sd_op* op, struct v_scope* scope, int alloc2) {
  VF_P(op == &OPD && scope == &SC && G.block_alive && !G.obj_alive && G.constructs == 0, "the operation is constructed once, into the freshly allocated block, nested in the scope passed in");
  VF_P(alloc2 == G.alloc_id, "C02: the operation remembers the allocator its block was allocated with");
  if (VF_nondet_bool()) { G.threw = 1; return 1; }                    /* nest() itself throws (copying the sender): no reference taken */
  if (VF_nondet_bool()) { G.ref_in_temp = 1; G.refs_acquired++; }     /* the scope is open: the nest sender temporary holds a reference */
  sd_op_ctor(op, SENDER_NEST, alloc2, 0);
  if (G.threw) { if (G.ref_in_temp) { G.ref_in_temp = 0; G.refs_released++; } return 1; }   /* the temporary is destroyed: reference released */
  if (G.ref_in_temp) { G.ref_in_temp = 0; G.ref_in_op = 1; }         /* connect moved it into the nest operation */
  G.obj_alive = 1; G.constructs++;
  return 0;
}
#define FN_FRESH (!G.threw && G.allocs == 0 && G.deallocs == 0 && G.constructs == 0 && G.destroys == 0 && G.inner_constructs == 0 && G.inner_destructs == 0 && G.starts == 0 \
                  && G.deleter_calls == 0 && G.terminates == 0 && G.set_ra == 0 && !G.block_alive && !G.obj_alive && !G.inner_alive && G.refs_acquired == 0 && G.refs_released == 0 \
                  && !G.ref_in_temp && !G.ref_in_op && !G.gone && !G.rcv_dead)
void sd_fn_call(struct sd_fn* self, int sender, struct v_scope* scope, int alloc)
__CPROVER_requires(self == &FN && scope == &SC && FN_FRESH)
__CPROVER_assigns(G, OPD, RCV)
__CPROVER_ensures(G.terminates == 0 && G.destroys == 0 && G.deleter_calls == 0) /* C09: spawning never terminates */
__CPROVER_ensures(G.threw ==> (G.starts == 0 && G.constructs == 0 && !G.block_alive && !G.obj_alive && !G.inner_alive && G.deallocs == G.allocs)) /* C02: allocation / nest / connect threw: nothing started, the block (if any) deallocated exactly once, the exception propagates */
__CPROVER_ensures(G.threw ==> (G.refs_released == G.refs_acquired && !G.ref_in_op && !G.ref_in_temp)) /* C08/C09: the scope reference taken by nest() is released: a failed spawn does not block the join */
__CPROVER_ensures(!G.threw ==> (G.allocs == 1 && G.constructs == 1 && G.inner_constructs == 1 && G.starts == 1 && G.deallocs == 0 && G.refs_released == 0)) /* success: started exactly once; from now on the operation owns itself (allocate is balanced by destroy()) */
/*@BODY fn_call*/

/* ---------------- harnesses ---------------- */
static void h_common(void) {
  G.threw = 0; G.allocs = 0; G.deallocs = 0; G.constructs = 0; G.destroys = 0; G.inner_constructs = 0; G.inner_destructs = 0;
  G.starts = 0; G.deleter_calls = 0; G.terminates = 0; G.set_ra = 0; G.term_reason = TERM_NONE;
  G.block_alive = 0; G.obj_alive = 0; G.inner_alive = 0; G.alloc_id = VF_nondet_int();
  G.refs_acquired = 0; G.refs_released = 0; G.ref_in_temp = 0; G.ref_in_op = 0; G.gone = 0; G.rcv_dead = 0;
  VF_CFG_async_stack = VF_nondet_bool() ? 1 : 0;
}
static void h_running(void) {   /* a started detached operation that is about to complete */
  h_common(); G.allocs = 1; G.constructs = 1; G.inner_constructs = 1; G.starts = 1; G.block_alive = 1; G.obj_alive = 1; G.inner_alive = 1;
  RCV.op_ = &OPD; RCV.deleter_ = DELETER_destroy; RCV.alloc_ = G.alloc_id;
}
void h_op_ctor(void) { h_common(); G.allocs = 1; G.block_alive = 1; int a = VF_nondet_int(); sd_op_ctor(&OPD, SENDER_NEST, a, VF_nondet_int()); VF_CANARY("after op ctor"); if (G.threw) { VF_CANARY("connect can throw"); } else if (G.set_ra) { VF_CANARY("async-stack configuration"); } else { VF_CANARY("no-async-stack configuration"); } }
void h_op_dtor(void) { h_running(); sd_op_dtor(&OPD); VF_CANARY("after op dtor"); }
void h_op_start(void) { h_running(); G.starts = 0; sd_op_start(&OPD); VF_CANARY("after op start"); }
void h_op_destroy(void) { h_running(); sd_op_destroy(G.alloc_id, &OPD); VF_CANARY("after destroy"); }
void h_rcv_set_value(void) { h_running(); sd_receiver_set_value(&RCV); VF_CANARY("after receiver set_value"); }
void h_rcv_set_done(void) { h_running(); sd_receiver_set_done(&RCV); VF_CANARY("after receiver set_done"); }
void h_rcv_set_error(void) { h_running(); sd_receiver_set_error(&RCV); VF_CANARY("after receiver set_error"); }
void h_fn_call(void) {
  h_common(); int alloc = VF_nondet_int(); sd_fn_call(&FN, SENDER_USER, &SC, alloc); VF_CANARY("after spawn_detached");
  if (G.threw && G.allocs == 0) { VF_CANARY("allocation can throw"); }
  if (G.threw && G.allocs == 1 && G.refs_acquired == 0) { VF_CANARY("nest or connect can throw without a reference"); }
  if (G.threw && G.refs_acquired == 1) { VF_CANARY("connect can throw while the nest sender holds a scope reference"); }
  if (!G.threw && G.ref_in_op) { VF_CANARY("spawn into an open scope"); }
  if (!G.threw && !G.ref_in_op) { VF_CANARY("spawn into a closed scope (the nest operation will complete with done)"); }
}

/* ---------------- lemma over the contracts: the life cycle adds up ---------------- */
/* spawn_detached's success postcondition followed by exactly one completion (C01 for the nested sender) through one of the
 * three receiver contracts: every allocation is balanced, every construction is balanced, terminate iff error */
void lemma_lifecycle(void) {
  unsigned allocs = 1, constructs = 1, inner_constructs = 1, deallocs = 0, destroys = 0, inner_destructs = 0, terminates = 0;   /* !threw post of sd_fn_call */
  int kind = VF_nondet_int();
  __CPROVER_assume(kind >= 0 && kind <= 2);   /* value, done, error */
  if (kind <= 1) { destroys += 1; inner_destructs += 1; deallocs += 1; }   /* RCV_FREE_POST */
  else { terminates += 1; }                                                 /* set_error post */
  VF_CANARY("lemma_lifecycle reachable");
  VF_P((terminates == 1) == (kind == 2), "lemma: spawn_detached terminates the process iff the operation completed with an error");
  VF_P(kind <= 1 ==> (allocs == deallocs && constructs == destroys && inner_constructs == inner_destructs), "lemma: a value / done completion frees everything spawn_detached created, exactly once");
  VF_P(DELETER_destroy != DELETER_none && TERM_ERROR_COMPLETION != TERM_NONE, "lemma: tags are distinct");
}
