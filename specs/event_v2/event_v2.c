/* C16: v2 async_manual_reset_event (source/async_manual_reset_event_v2.cpp, include/unifex/v2/async_manual_reset_event.hpp).
 *
 *   waiters_ : latchable concurrent waiter list; LATCHED <=> the event is signalled.  Used through the linearisation-point
 *              CONTRACTS of specs/atomic_list/ail_contract.h (contract stubs AIL_* below).
 *   set()    : latch_and_drain(local) -- latches and takes ALL waiters in one linearisation point -- then pops and resumes
 *              every taken waiter from the stack-local list; the event object is not touched after latch_and_drain.
 *   start()  : push_front_unless_latched -- queued, or (already signalled) completes at once.
 *   stop()   : try_remove decides between cancellation (done) and a pending resume.
 * Scalar ghost state only (the list is behind contracts); set()'s loop is a native loop contract.
 * Bodies marked @BODY are extracted from /repo on every run; everything else here is specification. */
#include <stddef.h>
#include <stdint.h>
struct waiter { void (*resume_)(struct waiter*); };                 /* async_manual_reset_event::waiter_base */
struct ail { char opaque_; };                                        /* atomic_intrusive_list<waiter_base, true> */
struct ail_local { char opaque_; };                                  /* the stack-local list of set() */
struct amre2 { struct ail waiters_; };
struct wait_op { struct waiter base; struct amre2* evt_; int receiver_; int reschedule_op_; };   /* wait_raw_sender::_op<Receiver>::type : waiter_base */

enum { W_NOT, W_INLIST, W_INLOCAL, W_POPPED, W_REMOVED };   /* never pushed / waiting in the event's list / taken by a set() into its local list / popped by that set() / removed by its own stop() */

struct vf_ghost {
  struct { _Bool op_mine, keep_alive; } c;   /* configuration of the unit: never assigned by verified code */
  struct {                                   /* the lists as seen by the verified call */
    _Bool latched;                           /* the event's list is latched (signalled) at my last linearisation point */
    unsigned lad_calls; _Bool latched_before;/* my latch_and_drain calls; what the (last) one found */
    unsigned taken, local_n, removed, resumed, pops;   /* waiters taken by my latch_and_drain / still in the local list / removed from it by their own stop() / resumed by me */
    struct waiter* last_popped; _Bool pending;         /* popped but not yet resumed */
    unsigned ctor, dtor; _Bool local_live;
    _Bool evt_dead;                          /* a resumed waiter may have destroyed the event object */
    unsigned is_latched_calls, unlatch_calls; unsigned n_evt_before, n_evt_after; _Bool latched_after_unlatch;
  } l;
  struct { int op_state; _Bool popped_by_me; _Bool completed, op_dead; struct wait_op snap; } o;   /* the operand operation as the environment can change it */
  struct { unsigned pushes; _Bool push_result; unsigned tr_calls; _Bool tr_result; unsigned tc_calls; _Bool tc_won;
           unsigned resched, set_done; int state_at_complete; unsigned set_calls; } s;               /* what the verified call did with its own operation */
};
static struct vf_ghost G;
static struct amre2 E;
static struct ail_local local;        /* set()'s stack-local list */
static struct wait_op OP;             /* the operand operation; its waiter node is OP.base */
static struct waiter W1;              /* some other waiter */

#include "vf.h"
#include "../atomic_list/ail_contract.h"
#define VF_NB() (VF_nondet_bool() ? (_Bool)1 : (_Bool)0)
static void vf_interfere(void) { VF_P(0, "no raw atomic access is expected: the list is used through its operations only"); }
#define NMAX (1u << 30)

#define OP_EQ_SNAP (OP.base.resume_ == G.o.snap.base.resume_ && OP.evt_ == G.o.snap.evt_ && OP.receiver_ == G.o.snap.receiver_ && OP.reschedule_op_ == G.o.snap.reschedule_op_)
#define OP_OK (!G.o.op_dead || OP_EQ_SNAP)
#define VF_ALIVE(p) ({ VF_P(!G.o.op_dead, "the operation is not touched after a completer may have destroyed it"); (p); })
#define VF_EVT_ALIVE(p) ({ VF_P(!G.l.evt_dead, "the event object is not touched after a waiter was resumed (its completion may destroy the event)"); (p); })
static void vf_op_dies(void) {
  struct wait_op f;
  OP.base.resume_ = f.base.resume_; OP.evt_ = f.evt_; OP.receiver_ = f.receiver_; OP.reschedule_op_ = f.reschedule_op_;
  G.o.snap = OP; G.o.op_dead = 1;
}

/* ---- rely (environment step at every list operation) ----
 * the event: other threads set() / reset() it at any time;
 * my own node (start / stop / resume_): once in the list, a set() may take it, pop it and run its resume_ (complete; the receiver may destroy the operation);
 * the local list of my set(): waiters in it may remove themselves (their stop()), nobody else pops it or adds to it */
static void vf_env(void) {
  G.l.latched = VF_NB();
  if (G.c.op_mine) {
    if (G.o.op_state == W_INLIST && VF_NB()) { G.o.op_state = W_POPPED; G.o.popped_by_me = 0; }     /* taken and popped by somebody's set() */
    if (G.o.op_state == W_POPPED && !G.o.popped_by_me && !G.o.completed && VF_NB()) G.o.completed = 1;
    if (G.o.op_state == W_POPPED && !G.o.popped_by_me && G.o.completed && !G.s.tc_won && !G.c.keep_alive && !G.o.op_dead && VF_NB()) vf_op_dies();
  } else {
    if (G.o.op_state == W_NOT && VF_NB()) G.o.op_state = W_INLIST;
    else if (G.o.op_state == W_INLIST && VF_NB()) G.o.op_state = W_REMOVED;
    else if (G.o.op_state == W_INLOCAL && G.l.local_n >= 1 && VF_NB()) { G.o.op_state = W_REMOVED; G.l.local_n--; G.l.removed++; }
  }
  if (G.l.local_live && G.l.lad_calls >= 1) {       /* other waiters of the local list cancel themselves */
    unsigned k = VF_nondet_u32();
    __CPROVER_assume(k <= G.l.local_n && (G.o.op_state != W_INLOCAL || k + 1 <= G.l.local_n));
    G.l.local_n -= k; G.l.removed += k;
  }
}

/* ---------------- the waiter lists: contract stubs (specs/atomic_list/ail_contract.h) ---------------- */
static void AIL_LOCAL_CTOR(struct ail_local* l) { VF_A(l == &local, "the stack-local list"); VF_P(G.l.ctor == 0, "one local list"); G.l.ctor++; G.l.local_live = 1; G.l.local_n = 0; }
static void AIL_LOCAL_DTOR(struct ail_local* l) {
  VF_A(l == &local, "the stack-local list");
  VF_P(G.l.local_live && G.l.local_n == 0 && !G.l.pending, "P-int: the local list is empty when it is destroyed (~atomic_intrusive_list_impl asserts it): no taken waiter is left behind");
  G.l.dtor++; G.l.local_live = 0;
}
static void AIL_latch_and_drain(struct ail* q, struct ail_local* target) {
  VF_CANARY("latch_and_drain reachable");
  VF_A(q == &E.waiters_ && target == &local, "latch_and_drain of the event's list into the local list");
  VF_P(G.l.local_live && G.l.local_n == 0 && G.l.lad_calls == 0, "the target of latch_and_drain is a fresh, empty, private list");
  vf_env();
  _Bool lb = G.l.latched;
  unsigned n = VF_nondet_u32(); __CPROVER_assume(n < NMAX && (G.o.op_state != W_INLIST || G.c.op_mine || n >= 1) && (!lb || n == 0));   /* a latched list holds no item */
  unsigned n_tgt = VF_nondet_u32(); _Bool la = VF_NB(); unsigned n_src = VF_nondet_u32();
  __CPROVER_assume(AIL_ENS_LATCH_AND_DRAIN(lb, n, n_src, n_tgt, la));
  G.l.latched_before = lb; G.l.latched = la; G.l.taken = n_tgt; G.l.local_n = n_tgt; G.l.removed = 0; G.l.resumed = 0; G.l.lad_calls++;
  if (!lb && G.o.op_state == W_INLIST && !G.c.op_mine) G.o.op_state = W_INLOCAL;    /* ALL waiters are taken, the operand among them */
}
static struct waiter* AIL_pop_front(struct ail_local* q) {
  VF_A(q == &local, "pop_front on the local list");
  VF_P(G.l.lad_calls == 1 && G.l.local_live, "waiters are popped from the local list, after latch_and_drain");
  VF_P(!G.l.pending, "the previously popped waiter has been resumed before the next one is popped");
  vf_env();
  struct waiter* front = (G.o.op_state == W_INLOCAL && VF_NB()) ? &OP.base : &W1;
  __CPROVER_assume(front == &OP.base || G.o.op_state != W_INLOCAL || G.l.local_n >= 2);      /* if the operand is the only one left it is the front */
  struct waiter* rv = VF_NB() ? front : NULL;
  __CPROVER_assume(AIL_ENS_POP_FRONT(rv, G.l.local_n, front));
  if (rv) { G.l.local_n--; G.l.pending = 1; }
  if (rv == &OP.base) { G.o.op_state = W_POPPED; G.o.popped_by_me = 1; }
  G.l.pops++; G.l.last_popped = rv;
  return rv;
}
static _Bool AIL_is_latched(struct ail* q) {
  VF_A(q == &E.waiters_, "is_latched on the event's list");
  vf_env();
  _Bool rv = VF_NB(); __CPROVER_assume(AIL_ENS_IS_LATCHED(rv, G.l.latched));
  G.l.is_latched_calls++;
  return rv;
}
static void AIL_unlatch(struct ail* q) {
  VF_A(q == &E.waiters_, "unlatch on the event's list");
  vf_env();
  unsigned nb = VF_nondet_u32(), na = VF_nondet_u32(); _Bool la = VF_NB();
  __CPROVER_assume(nb < NMAX && (!G.l.latched || nb == 0) && (G.o.op_state != W_INLIST || nb >= 1));
  __CPROVER_assume(AIL_ENS_UNLATCH(nb, na, la));
  G.l.n_evt_before = nb; G.l.n_evt_after = na; G.l.latched = la; G.l.latched_after_unlatch = la; G.l.unlatch_calls++;
}
static _Bool AIL_push_front_unless_latched(struct ail* q, struct waiter* item) {
  VF_A(q == &E.waiters_ && item == &OP.base, "push of the operation's own node on the event's list");
  VF_P(G.o.op_state == W_NOT && G.s.pushes == 0 && AIL_REQ_PUSH(G.o.op_state == W_INLIST), "a waiter node is pushed once, while it is in no list");
  VF_P(!G.o.op_dead, "push of a live operation");
  vf_env();
  _Bool rv = VF_NB(); __CPROVER_assume(AIL_ENS_PUSH_UNLESS_LATCHED(rv, G.l.latched));
  G.s.pushes++; G.s.push_result = rv;
  if (rv) { G.o.op_state = W_INLIST; vf_env(); }      /* published: a set() may take, pop, complete and destroy it at once */
  return rv;
}
static _Bool AIL_try_remove(struct ail* q, struct waiter* item) {
  VF_A(q == &E.waiters_ && item == &OP.base, "try_remove of the operation's own node");
  vf_env();
  _Bool rv = VF_NB(); __CPROVER_assume(AIL_ENS_TRY_REMOVE(rv, G.o.op_state == W_INLIST || G.o.op_state == W_INLOCAL));   /* wherever the node is: the event's list or a set()'s local list */
  if (rv) G.o.op_state = W_REMOVED;
  G.s.tr_calls++; G.s.tr_result = rv;
  return rv;
}

/* ---------------- event stubs ---------------- */
/* w->resume_(w): the waiter's resume_ (verified as op_resume) completes it; its receiver may destroy the operation and the event */
static void EV_resume(struct waiter* w) {
  VF_CANARY("a waiter can be resumed");
  VF_P(G.l.pending && w != NULL && w == G.l.last_popped, "set() resumes exactly the waiter it just popped, once");
  G.l.pending = 0; G.l.resumed++; G.l.evt_dead = 1;
  if (w == &OP.base) {
    VF_P(G.o.op_state == W_POPPED && G.o.popped_by_me, "a waiter is resumed only after it was popped");
    G.o.completed = 1;
    if (!G.c.keep_alive && !G.o.op_dead && VF_NB()) vf_op_dies();
  }
}
static _Bool EV_try_complete(struct wait_op* op) {
  VF_CANARY("try_complete reachable");
  VF_P(op == &OP && !G.o.op_dead, "try_complete on the live operand operation");
  vf_env();
  _Bool r = !G.o.completed;
  G.o.completed = 1; G.s.tc_calls++; G.s.tc_won = r;
  return r;
}
static void vf_completed(struct wait_op* op) {
  VF_P(op == &OP && !G.o.op_dead, "completion of the live operand operation");
  VF_P(G.s.tc_won, "the operation is completed only by the party that won try_complete");
  VF_P(G.s.resched + G.s.set_done == 0, "the operation is completed at most once");
  G.s.state_at_complete = G.o.op_state;
  if (!G.c.keep_alive && VF_NB()) vf_op_dies();
}
/* reschedule(): hop to the receiver's scheduler, then set_value */
static void EV_reschedule(struct wait_op* op) {
  VF_CANARY("completion with value reachable");
  vf_completed(op);
  VF_P(G.o.op_state == W_NOT || G.o.op_state == W_POPPED, "a wait completes with value only if the event was found signalled (never queued) or a set() popped it");
  G.s.resched++;
}
static void EV_set_done(struct wait_op* op) {
  VF_CANARY("completion with done reachable");
  vf_completed(op);
  VF_P(G.o.op_state == W_REMOVED, "a wait completes with done only after its own try_remove took it out of the list (it can no longer be resumed)");
  G.s.set_done++;
}

/* ---------------- functions under contract ---------------- */
#define SET_ASSIGNS G.l, G.o, OP
#define SUM_OK (G.l.taken < NMAX && G.l.local_n <= G.l.taken && G.l.removed <= G.l.taken && G.l.resumed <= G.l.taken && G.l.local_n + G.l.removed + G.l.resumed == G.l.taken)
#define SET_INV (G.l.lad_calls == 1 && G.l.ctor == 1 && G.l.dtor == 0 && G.l.local_live && !G.l.pending && SUM_OK && OP_OK \
                 && G.l.latched_before == __CPROVER_loop_entry(G.l.latched_before) && G.l.taken == __CPROVER_loop_entry(G.l.taken) \
                 && (G.o.op_state == W_INLOCAL ==> G.l.local_n >= 1) && (__CPROVER_loop_entry(G.o.op_state) != W_INLOCAL ==> G.o.op_state != W_INLOCAL) \
                 && (__CPROVER_loop_entry(G.o.op_state) == W_INLOCAL ==> (G.o.op_state == W_INLOCAL || G.o.op_state == W_POPPED || G.o.op_state == W_REMOVED)) \
                 && (__CPROVER_loop_entry(G.o.op_state) == W_REMOVED ==> G.o.op_state == W_REMOVED) && (__CPROVER_loop_entry(G.o.op_state) == W_POPPED ==> G.o.op_state == W_POPPED))
/* set(): ONE latch_and_drain (the event is latched from that linearisation point on, all waiters taken with it); then every taken
 * waiter that did not cancel itself meanwhile is resumed exactly once; nothing is left in the local list; the event object is
 * not touched after the first resume */
void AMRE2_set(struct amre2* self)
__CPROVER_requires(self == &E && !G.c.op_mine && G.l.lad_calls == 0 && G.l.ctor == 0 && G.l.dtor == 0 && !G.l.local_live && !G.l.pending && !G.l.evt_dead && G.l.pops == 0 && !G.o.op_dead)
__CPROVER_requires(G.o.op_state == W_NOT || G.o.op_state == W_INLIST || G.o.op_state == W_REMOVED)
__CPROVER_assigns(SET_ASSIGNS)
__CPROVER_ensures(G.l.lad_calls == 1 && G.l.ctor == 1 && G.l.dtor == 1 && !G.l.local_live) /* one atomic latch + take; the local list is destroyed (empty) */
__CPROVER_ensures(G.l.latched_before ==> (G.l.taken == 0 && G.l.resumed == 0)) /* already set: nothing else happens */
__CPROVER_ensures(!G.l.pending && G.l.local_n == 0 && G.l.resumed + G.l.removed == G.l.taken) /* every waiter taken is resumed exactly once, except those that cancelled themselves first */
__CPROVER_ensures(G.o.op_state != W_INLOCAL && OP_OK) /* in particular the operand, if it was waiting at the latch, was popped or removed itself */
__CPROVER_ensures(__CPROVER_old(G.o.op_state) == W_INLIST ==> (G.o.op_state == W_POPPED || G.o.op_state == W_REMOVED)) /* a wait queued before this set() is resumed by it (or had cancelled itself): never stranded */
/*@BODY set*/

void AMRE2_ctor_signalled(struct amre2* self, _Bool startSignalled)
__CPROVER_requires(self == &E && !G.c.op_mine && G.l.lad_calls == 0 && G.l.ctor == 0 && G.l.dtor == 0 && !G.l.local_live && !G.l.pending && !G.l.evt_dead && G.l.pops == 0 && !G.o.op_dead && G.o.op_state == W_NOT)
__CPROVER_assigns(SET_ASSIGNS)
__CPROVER_ensures((G.l.lad_calls == 1) == (startSignalled != 0)) /* signalled at construction <=> set() ran */
/*@BODY ctor_signalled*/

_Bool AMRE2_ready(struct amre2* self)
__CPROVER_requires(self == &E && !G.l.evt_dead && G.l.is_latched_calls == 0)
__CPROVER_assigns(G.l, G.o, OP)
__CPROVER_ensures(G.l.is_latched_calls == 1 && AIL_ENS_IS_LATCHED(__CPROVER_return_value, G.l.latched)) /* ready() <=> latched at its linearisation point */
__CPROVER_ensures(G.l.lad_calls == 0 && G.l.unlatch_calls == 0)
/*@BODY ready*/

void AMRE2_reset(struct amre2* self)
__CPROVER_requires(self == &E && !G.l.evt_dead && G.l.unlatch_calls == 0)
__CPROVER_assigns(G.l, G.o, OP)
__CPROVER_ensures(G.l.unlatch_calls == 1 && !G.l.latched_after_unlatch && G.l.n_evt_after == G.l.n_evt_before) /* clears the latch; no waiter is removed, resumed or stranded by it */
__CPROVER_ensures(G.l.lad_calls == 0 && G.l.pops == 0 && G.l.resumed == 0)
/*@BODY reset*/

/* start(): queued (event not signalled at the push's linearisation point), or the event was signalled: completes at once */
void WOP_start(struct wait_op* self)
__CPROVER_requires(self == &OP && OP.evt_ == &E && G.c.op_mine && !G.c.keep_alive && G.o.op_state == W_NOT && !G.o.completed && !G.o.op_dead)
__CPROVER_requires(G.s.pushes == 0 && G.s.tc_calls == 0 && G.s.resched == 0 && G.s.set_done == 0)
__CPROVER_assigns(G.l, G.o, G.s, OP)
__CPROVER_ensures(G.s.pushes == 1 && OP_OK)
__CPROVER_ensures(G.s.push_result ==> (G.s.tc_calls == 0 && G.s.resched == 0 && G.s.set_done == 0)) /* queued: completed later by a set() (lemma_event2_never_stranded) */
__CPROVER_ensures(!G.s.push_result ==> (G.s.tc_calls == 1 && G.s.resched == 1 && G.s.set_done == 0 && G.s.state_at_complete == W_NOT)) /* signalled: completes with value without another set() */
/*@BODY op_start*/

/* stop(): removed from whatever list it is in => done, exactly once, never resumed; otherwise nothing (a set() popped it: its resume_ decides) */
void WOP_stop(struct wait_op* self)
__CPROVER_requires(self == &OP && OP.evt_ == &E && G.c.op_mine && G.c.keep_alive && !G.o.op_dead)
__CPROVER_requires(G.s.tr_calls == 0 && G.s.tc_calls == 0 && G.s.resched == 0 && G.s.set_done == 0)
__CPROVER_requires((G.o.op_state == W_NOT || G.o.op_state == W_INLIST || G.o.op_state == W_POPPED) && (G.o.op_state == W_INLIST ==> !G.o.completed))
__CPROVER_assigns(G.l, G.o, G.s, OP)
__CPROVER_ensures(G.s.tr_calls == 1 && G.s.resched == 0)
__CPROVER_ensures(G.s.tr_result ==> (G.o.op_state == W_REMOVED && G.s.tc_calls == 1 && G.s.set_done == 1)) /* cancelled: done, once */
__CPROVER_ensures(!G.s.tr_result ==> (G.s.tc_calls == 0 && G.s.set_done == 0)) /* already popped (or completed at start): nothing */
/*@BODY op_stop*/

/* op->evt_.ready() (not used by the pinned resume_): the event may have been reset meanwhile by anybody */
static _Bool EV_evt_ready(void* op) { return VF_NB(); }

void WOP_resume(struct waiter* self)
__CPROVER_requires(self == &OP.base && OP.evt_ == &E && G.c.op_mine && !G.o.op_dead && G.o.op_state == W_POPPED && G.o.popped_by_me)
__CPROVER_requires(G.s.tc_calls == 0 && G.s.resched == 0 && G.s.set_done == 0)
__CPROVER_assigns(G.l, G.o, G.s, OP)
__CPROVER_ensures(G.s.tc_calls == 1 && G.s.set_done == 0 && G.s.resched == (G.s.tc_won ? 1u : 0u) && OP_OK) /* resumed by set(): completes with value iff it wins try_complete */
/*@BODY op_resume*/

/* ---------------- harnesses ---------------- */
static void h_init(void) {
  G.c.op_mine = 0; G.c.keep_alive = 0;
  G.l.latched = VF_NB(); G.l.lad_calls = 0; G.l.latched_before = 0; G.l.taken = 0; G.l.local_n = 0; G.l.removed = 0; G.l.resumed = 0; G.l.pops = 0;
  G.l.last_popped = NULL; G.l.pending = 0; G.l.ctor = 0; G.l.dtor = 0; G.l.local_live = 0; G.l.evt_dead = 0;
  G.l.is_latched_calls = 0; G.l.unlatch_calls = 0; G.l.n_evt_before = 0; G.l.n_evt_after = 0; G.l.latched_after_unlatch = 0;
  G.o.op_state = W_NOT; G.o.popped_by_me = 0; G.o.completed = 0; G.o.op_dead = 0;
  G.s.pushes = 0; G.s.push_result = 0; G.s.tr_calls = 0; G.s.tr_result = 0; G.s.tc_calls = 0; G.s.tc_won = 0; G.s.resched = 0; G.s.set_done = 0; G.s.state_at_complete = W_NOT; G.s.set_calls = 0;
  OP.evt_ = &E; OP.receiver_ = VF_nondet_int(); OP.reschedule_op_ = VF_nondet_int();
}
void h_set(void) {
  h_init(); int s = VF_nondet_int(); __CPROVER_assume(s == W_NOT || s == W_INLIST || s == W_REMOVED); G.o.op_state = s;
  AMRE2_set(&E); VF_CANARY("after set");
  if (G.l.latched_before) { VF_CANARY("set on a signalled event"); } else if (G.l.taken == 0) { VF_CANARY("set with no waiter"); }
  if (G.l.resumed >= 2) { VF_CANARY("set can resume several waiters"); }
  if (G.l.removed >= 1 && G.l.resumed >= 1) { VF_CANARY("a taken waiter can cancel itself while set() drains"); }
  if (G.o.op_state == W_POPPED) { VF_CANARY("set can resume the operand"); }
}
void h_ctor_signalled(void) { h_init(); _Bool b = VF_NB(); AMRE2_ctor_signalled(&E, b); VF_CANARY("after constructor"); if (b) { VF_CANARY("constructed signalled"); } }
void h_ready(void) { h_init(); _Bool r = AMRE2_ready(&E); VF_CANARY("after ready"); if (r) { VF_CANARY("ready can be true"); } else { VF_CANARY("ready can be false"); } }
void h_reset(void) { h_init(); int s = VF_nondet_int(); __CPROVER_assume(s == W_NOT || s == W_INLIST); G.o.op_state = s; AMRE2_reset(&E); VF_CANARY("after reset"); }
void h_op_start(void) {
  h_init(); G.c.op_mine = 1; WOP_start(&OP); VF_CANARY("after start");
  if (G.s.push_result) { VF_CANARY("start can queue"); if (G.o.op_dead) { VF_CANARY("the operation can be destroyed before start returns"); } } else { VF_CANARY("start can find the event signalled"); }
}
void h_op_stop(void) {
  h_init(); G.c.op_mine = 1; G.c.keep_alive = 1;
  int s = VF_nondet_int(); __CPROVER_assume(s == W_NOT || s == W_INLIST || s == W_POPPED); G.o.op_state = s; G.o.completed = (s == W_INLIST) ? 0 : VF_NB();
  WOP_stop(&OP); VF_CANARY("after stop");
  if (G.s.tr_result) { VF_CANARY("stop can cancel the wait"); } else { VF_CANARY("stop can find the waiter already popped"); }
}
void h_op_resume(void) {
  h_init(); G.c.op_mine = 1; G.o.op_state = W_POPPED; G.o.popped_by_me = 1; G.o.completed = VF_NB();
  WOP_resume(&OP.base); VF_CANARY("after resume_");
  if (G.s.tc_won) { VF_CANARY("resume_ can complete with value"); }
}

/* ---------------- M4 lemmas over the contracts ---------------- */
/* a wait racing with set(): push_front_unless_latched (P) and latch_and_drain (L) both linearise under the head lock: totally ordered */
void lemma_event2_never_stranded(void) {
  _Bool p_first = VF_NB();
  _Bool latched0 = 0;                                  /* the event is not signalled before either */
  _Bool push_rv, in_taken;
  if (p_first) {                                        /* P then L */
    push_rv = VF_NB(); __CPROVER_assume(AIL_ENS_PUSH_UNLESS_LATCHED(push_rv, latched0));
    unsigned n = VF_nondet_u32() % 1000, n_src = VF_nondet_u32(), n_tgt = VF_nondet_u32(); _Bool la = VF_NB();
    __CPROVER_assume(n >= (push_rv ? 1u : 0u));          /* the pushed waiter is an item (unless it removed itself: then it is cancelled, not stranded) */
    __CPROVER_assume(AIL_ENS_LATCH_AND_DRAIN(latched0, n, n_src, n_tgt, la));
    in_taken = push_rv && n_tgt == n && n_src == 0;     /* ALL items are taken: the waiter is among them */
    VF_P(push_rv && in_taken, "lemma: a wait queued before the set()'s latch is in the set of waiters that set() takes and resumes (set's contract: resumed + removed == taken)");
  } else {                                              /* L then P */
    unsigned n = VF_nondet_u32() % 1000, n_src = VF_nondet_u32(), n_tgt = VF_nondet_u32(); _Bool la = VF_NB();
    __CPROVER_assume(AIL_ENS_LATCH_AND_DRAIN(latched0, n, n_src, n_tgt, la));
    push_rv = VF_NB(); __CPROVER_assume(AIL_ENS_PUSH_UNLESS_LATCHED(push_rv, la));
    VF_P(!push_rv, "lemma: a wait started after the latch finds the event signalled: start() completes it at once (start's contract), without another set()");
  }
  VF_CANARY("lemma premises satisfiable");
}
/* reset() only affects later waits: unlatch never removes an item; waiters already taken by a set() are in that set()'s local list */
void lemma_event2_reset(void) {
  unsigned nb = VF_nondet_u32() % 1000, na = VF_nondet_u32(); _Bool latched = VF_NB(), la = VF_NB();
  __CPROVER_assume(!latched || nb == 0);                /* a latched list holds no item */
  __CPROVER_assume(AIL_ENS_UNLATCH(nb, na, la));
  VF_CANARY("lemma premises satisfiable");
  VF_P(na == nb, "lemma: reset() removes no waiter from the event's list");
  VF_P(!la, "lemma: after reset() the event is not signalled: a later wait queues until the next set()");
  _Bool push_rv = VF_NB(); __CPROVER_assume(AIL_ENS_PUSH_UNLESS_LATCHED(push_rv, la));
  VF_P(push_rv, "lemma: a wait started after reset() (and before the next set()) is queued, not completed");
}
/* cancel vs. resume: NOT -push-> INLIST -latch_and_drain-> INLOCAL -pop_front-> POPPED ; try_remove takes INLIST / INLOCAL -> REMOVED */
void lemma_event2_cancel(void) {
  int s = VF_nondet_int(); __CPROVER_assume(s >= W_NOT && s <= W_REMOVED);
  int kind = VF_nondet_int(); __CPROVER_assume(kind >= 0 && kind <= 2);
  int s2 = s; _Bool tr = 0, popped = 0;
  if (kind == 0) { if (s == W_INLIST) s2 = W_INLOCAL; }                                                                   /* a set()'s latch_and_drain: takes all */
  else if (kind == 1) { popped = (s == W_INLOCAL) && VF_NB(); if (popped) s2 = W_POPPED; }                                 /* that set()'s pop_front */
  else { tr = VF_NB(); __CPROVER_assume(AIL_ENS_TRY_REMOVE(tr, s == W_INLIST || s == W_INLOCAL)); if (tr) s2 = W_REMOVED; } /* the waiter's stop() */
  VF_CANARY("lemma premises satisfiable");
  VF_P(s == W_POPPED ==> s2 == W_POPPED, "lemma: a popped waiter can no longer be removed (stop() does nothing, resume_ completes it)");
  VF_P(s == W_REMOVED ==> s2 == W_REMOVED, "lemma: a removed waiter is never popped, hence never resumed");
  VF_P(!(tr && popped), "lemma: of pop_front and try_remove at most one takes the node: the wait completes with value or with done, never both");
}
