CPP = 'source/async_manual_reset_event_v2.cpp'
H = 'include/unifex/v2/async_manual_reset_event.hpp'
ECLS = r'class async_manual_reset_event \{'
OPCLS = r'class type : waiter_base \{'

# the waiter list (a latch list) is used through the CONTRACTS of specs/atomic_list/ail_contract.h (contract stubs AIL_*)
LIST = {'latch_and_drain': 'AIL_latch_and_drain', 'pop_front': 'AIL_pop_front', 'is_latched': 'AIL_is_latched', 'unlatch': 'AIL_unlatch',
        'push_front_unless_latched': 'AIL_push_front_unless_latched', 'try_remove': 'AIL_try_remove'}
TYPEMAP = [(r'\bwaiter_base\b', 'struct waiter'), (r'\btype\b', 'struct wait_op')]

ctx = dict(
    cls='AMRE2',
    members=['waiters_'],
    methods=['set'],
    obj_methods=LIST,
    typemap=TYPEMAP,
    # set(): the stack-local list is an RAII object (constructor / destructor made explicit); `while (auto* w = e) S` has a declaration in
    # its condition: normalised to `while (1) { T* w = e; if (!w) break; S }`
    raii={'ail_local': ('AIL_LOCAL_CTOR', 'AIL_LOCAL_DTOR')},
    pre=[(r'atomic_intrusive_list<waiter_base, true> local;', 'ail_local local;'),
         (r'latch_and_drain\(local\)', 'latch_and_drain(&local)'),
         (r'while \(auto\* w = local\.pop_front\(\)\) \{', 'while (true) { waiter_base* w = local.pop_front(); if (!w) { break; }'),
         (r'(\w+)->resume_\(\1\)', r'EV_resume(\1)')],
    # the local list lives at file scope (shared with the contract stubs); every access to the event object asserts it is alive
    post=[(r'struct ail_local local;', ';'), (r'\bself->', 'VF_EVT_ALIVE(self)->')],
)
op_ctx = dict(
    cls='WOP', members=['evt_'], methods=[], obj_methods=LIST, typemap=TYPEMAP,
    pre=[(r'\bevt_\.', 'evt_->'),
         (r'\b(push_front_unless_latched|try_remove)\(this\)', r'\1(&this->base)'),          # type : waiter_base upcast made explicit
         (r'(\w+)->evt_(?:\.|->)ready\(\)', r'EV_evt_ready(\1)'),                                    # not in the pinned code: lets a variant that consults the event compile (and fail its contract)
         (r'\btry_complete\((\w+)\)', r'EV_try_complete(\1)'),                                # cancellable<> arbitration (C19)
         (r'(\w+)->reschedule\(\)', r'EV_reschedule(\1)'),                                     # schedule() on the receiver's scheduler, then set_value
         (r'(?<![\w>.])reschedule\(\)', 'EV_reschedule(this)'),
         (r'unifex::set_done\(std::move\(receiver_\)\)', 'EV_set_done(this)')],
    post=[(r'\bself->', 'VF_ALIVE(self)->'), (r'\bop->', 'VF_ALIVE(op)->')],
)

SET_LOOP = '__CPROVER_assigns(SET_ASSIGNS)\n__CPROVER_loop_invariant(SET_INV)'

SPEC = dict(
    properties=['C16'],
    ctx=ctx,
    extracts={
        'set': dict(file=CPP, sig=r'void async_manual_reset_event::set\(\) noexcept', loops={0: SET_LOOP}),
        'ctor_signalled': dict(file=H, sig=r'explicit async_manual_reset_event\(bool startSignalled\) noexcept', within=ECLS),
        'ready': dict(file=H, sig=r'bool ready\(\) const noexcept', within=ECLS),
        'reset': dict(file=H, sig=r'void reset\(\) noexcept', within=ECLS),
        'op_start': dict(file=H, sig=r'void async_manual_reset_event::wait_raw_sender::_op<\s*Receiver>::type::start\(\) noexcept', ctx=op_ctx),
        'op_stop': dict(file=H, sig=r'void async_manual_reset_event::wait_raw_sender::_op<\s*Receiver>::type::stop\(\) noexcept', ctx=op_ctx),
        'op_resume': dict(file=H, sig=r'this->resume_ = \[\]\(waiter_base\* self\) noexcept', within=OPCLS,
                          ctx=dict(op_ctx, members=[], post=[(r'\bop->', 'VF_ALIVE(op)->')])),
    },
    closed_world=[
        dict(file=CPP, members=['waiters_']),
        dict(file=H, members=['waiters_'], within=ECLS, allow=[r'atomic_intrusive_list<waiter_base, true> waiters_;']),
    ],
    units=[
        dict(name='set', harness='h_set', enforce='AMRE2_set', expect_loop_obligations=True),
        dict(name='ctor_signalled', harness='h_ctor_signalled', enforce='AMRE2_ctor_signalled', replace=['AMRE2_set']),
        dict(name='ready', harness='h_ready', enforce='AMRE2_ready'),
        dict(name='reset', harness='h_reset', enforce='AMRE2_reset'),
        dict(name='op_start', harness='h_op_start', enforce='WOP_start'),
        dict(name='op_stop', harness='h_op_stop', enforce='WOP_stop'),
        dict(name='op_resume', harness='h_op_resume', enforce='WOP_resume'),
        dict(name='lemma_event2_never_stranded', harness='lemma_event2_never_stranded', mode='lemma'),
        dict(name='lemma_event2_reset', harness='lemma_event2_reset', mode='lemma'),
        dict(name='lemma_event2_cancel', harness='lemma_event2_cancel', mode='lemma'),
    ],
    assumptions=[
        'the latchable waiter list is used through the linearisation-point contracts of specs/atomic_list/ail_contract.h '
        '(latch_and_drain: not latched -> ALL items move to the private target and the source is latched, one linearisation point under the head lock; '
        'latched -> nothing.  push_front_unless_latched: true iff not latched.  pop_front / try_remove / is_latched / unlatch).  Group atomic_list checks '
        'them sequentially on bounded lists plus the unbounded link discipline; that every concurrent execution linearises to them stays an assumption',
        'cancellable<> (C19, specs/cancellable): try_complete(op) returns true for exactly one caller; stop() is not run concurrently with start() and at most once; '
        'the operation stays alive while stop() runs (the stop callback\'s destructor waits)',
        'the resumed waiter (resume_ -> reschedule -> receiver) may destroy its operation AND the event object: set() must not touch the event after latch_and_drain',
        'reschedule() (connect + start of schedule() on the receiver\'s scheduler, then set_value): template code, event stub; '
        '"completion on the waiter\'s own scheduler" is not reached',
        'number of waiters < 2^30 (resource bound for the ghost counters)',
        'atomics sequentially consistent',
    ],
    drops=['noexcept/[[nodiscard]]', 'template genericity (Receiver)', 'reference member evt_ -> pointer member', 'type : waiter_base upcast/downcast made explicit',
           'stack-local atomic_intrusive_list<waiter_base, true> -> file-scope object with explicit constructor / destructor events',
           '`while (auto* w = local.pop_front())` -> `while (1) { w = ...; if (!w) break; ... }`',
           'w->resume_(w) -> event stub EV_resume; the lambda stored in resume_ is extracted and verified separately (op_resume)',
           'try_complete / reschedule / set_done -> event stubs', 'waiters_ operations -> contract stubs AIL_*',
           'async_wait() / wait_raw_sender / connect / reschedule_receiver / complete_value (template glue) not reached'],
)
