import re

HI = 'include/unifex/indexed_for.hpp'
HJ = 'include/unifex/bulk_join.hpp'
I_RCV = r'struct _receiver<Policy, Range, Func, Receiver>::type \{'
I_SND = r'struct _sender<Predecessor, Policy, Range, Func>::type \{'
J_RCV = r'class _join_receiver<Receiver>::type \{'
J_SND = r'class _join_sender<Source>::type \{'

BAL = r'(?:[^{}]|\{[^{}]*\})*'          # one (possibly once nested) brace level

# ---------------------------------------------------------------------------------------------------------------------------
# indexed_for: apply_func_with_policy (both overloads)
# ---------------------------------------------------------------------------------------------------------------------------
# range-based for (general rule missing from the table): the language's own desugaring [stmt.ranged]
#     for (decl : r) S   ==   { auto b = r.begin(), e = r.end(); for (; b != e; ++b) { decl = *b; S } }
# with the iterator operations of the abstract range as IT_* / RANGE_* macros (positions in [0, n]).
RANGE_FOR = (r'for\s*\(\s*(?:const\s+)?auto\s*&{0,2}\s*(\w+)\s*:\s*(\w+)\s*\)\s*\{',
             r'for (IT_T vf_it = RANGE_begin(\2), vf_end = RANGE_end(\2); IT_NE(vf_it, vf_end); IT_INC(vf_it)) { ELEM_T \1 = IT_DEREF(vf_it);')
apply_ctx = dict(
    cls='ifor', members=[], methods=[],
    typemap=[(r'\bsize_type\b', 'size_t')],
    pre=[
        RANGE_FOR,
        (r'using size_type = decltype\(range\.size\(\)\);', ''),
        (r'\b(\w+)\.(begin|end|size)\(\)', r'RANGE_\2(\1)'),
        (r'\b(first)\[([^\[\]]*)\]', r'IT_AT(\1, \2)'),
        # std::invoke(func, element, values...): the user's function -- a may-throw event.  apply_func_with_policy has no handler of
        # its own and its noexcept specification is false exactly when the call may throw: the exception leaves the function
        (r'std::invoke\(\s*func,\s*([^;]*?),\s*values\.\.\.\);', r'if (EV_invoke(func, \1, values)) return;'),
    ],
)
SEQ_INV = ('__CPROVER_assigns(vf_it, G.count, G.last, G.kvis, G.exc, G.throw_at)\n'
           '__CPROVER_loop_invariant(vf_end == G.n && vf_it <= vf_end && G.count == vf_it && (vf_it > 0 ==> G.last == vf_it - 1)'
           ' && G.kvis == (G.k < vf_it ? 1u : 0u) && G.exc == 0)\n'
           '__CPROVER_decreases(vf_end - vf_it)')
PAR_INV = ('__CPROVER_assigns(idx, G.count, G.last, G.kvis, G.exc, G.throw_at)\n'
           '__CPROVER_loop_invariant(idx <= G.n && G.count == idx && (idx > 0 ==> G.last == idx - 1)'
           ' && G.kvis == (G.k < idx ? 1u : 0u) && G.exc == 0)\n'
           '__CPROVER_decreases(G.n - idx)')

# ---------------------------------------------------------------------------------------------------------------------------
# indexed_for: the receiver
# ---------------------------------------------------------------------------------------------------------------------------
APPLY_CALL = r'apply_func_with_policy\(\s*policy_,\s*\(Range&&\)\s*range_,\s*\(Func&&\)\s*func_,\s*values\.\.\.\);'
SET_VALUE_CALL = r'unifex::set_value\(\s*\(Receiver&&\)\s*receiver_,\s*\(Values&&\)\s*values\.\.\.\);'


def _try(m):
    """UNIFEX_TRY { A } UNIFEX_CATCH(...) { B } -> { A' } if (0) { vf_catch_body: ; B }  (DESIGN 3.1 last row; spec-level rule):
    the may-throw events INSIDE the try block jump to the handler; the same events outside a try block (the rules further down)
    reach std::terminate (noexcept function)."""
    a = m.group(1)
    a = re.sub(APPLY_CALL, 'ifor_apply(policy_, &range_, func_, values); if (G.exc) goto vf_catch_body;', a)
    a = re.sub(SET_VALUE_CALL, 'if (EV_set_value(receiver_, values, 1)) goto vf_catch_body;', a)
    return '{' + a + '} if (0) { vf_catch_body: ;'


rcv_ctx = dict(
    cls='ifor_rcv', members=['func_', 'policy_', 'range_', 'receiver_'], methods=[],
    pre=[
        # which `if constexpr` branch an instantiation takes: one symbolic configuration constant, BOTH branches verified
        (r'(?s)std::is_nothrow_invocable_v<\s*Func&,\s*typename std::iterator_traits<\s*typename Range::iterator>::reference,\s*Values\.\.\.>', 'VF_CFG_nothrow'),
        (r'(?s)UNIFEX_TRY\s*\{(' + BAL + r')\}\s*UNIFEX_CATCH\s*\(\.\.\.\)\s*\{', _try),
        # outside any try block of the (unconditionally noexcept) set_value
        (APPLY_CALL, 'ifor_apply(policy_, &range_, func_, values); if (G.exc) VF_terminate();'),
        (SET_VALUE_CALL, 'if (EV_set_value(receiver_, values, 0)) VF_terminate();'),
        (r'unifex::set_error\(\s*\(Receiver&&\)\s*receiver_,\s*std::current_exception\(\)\);', 'EV_set_error(receiver_, PAY_EXCEPTION);'),
        (r'unifex::set_error\(\s*\(Receiver&&\)\s*receiver_,\s*\(Error&&\)\s*(\w+)\);', r'EV_set_error(receiver_, \1);'),
        (r'unifex::set_done\(\s*\(Receiver&&\)\s*receiver_\);', 'EV_set_done(receiver_);'),
    ],
)
isnd_ctx = dict(
    cls='ifor_sender', members=['pred_', 'policy_', 'range_', 'func_'], methods=[],
    pre=[
        # connect(std::move(pred_), receiver_t{func_, policy_, range_, receiver}): aggregate initialisation, positional (IFOR_RCV_INIT)
        (r'(?s)return unifex::connect\(\s*std::move\(pred_\),\s*_ifor::receiver_t<Policy, Range, Func, Receiver>\{\s*\(Func&&\)\s*(\w+),\s*\(Policy&&\)\s*(\w+),\s*'
         r'\(Range&&\)\s*(\w+),\s*\(Receiver&&\)\s*(\w+)\s*\}\);', r'return EV_connect(pred_, IFOR_RCV_INIT(\1, \2, \3, \4));'),
        (r'unifex::blocking\(\s*(\w+)\.(\w+)\s*\)', r'EV_blocking(\1->\2)'),
    ],
)

# ---------------------------------------------------------------------------------------------------------------------------
# bulk_join
# ---------------------------------------------------------------------------------------------------------------------------
POLICY_NAMES = dict(sequenced_policy='POL_seq', unsequenced_policy='POL_unseq', parallel_policy='POL_par', parallel_unsequenced_policy='POL_par_unseq')
jrcv_ctx = dict(
    cls='bj_rcv', members=['receiver_'], methods=[],
    pre=[
        # conditional noexcept(is_nothrow_receiver_of_v<Receiver, Values...>), no try block: an exception of the downstream set_value
        # propagates back into the bulk source
        (r'unifex::set_value\(\s*std::move\(receiver_\),\s*\(Values\s*&&\)\s*values\.\.\.\);', 'if (EV_set_value(receiver_, values, 1)) { G.propagated = 1; return; }'),
        (r'unifex::set_error\(\s*std::move\(receiver_\),\s*\(Error\s*&&\)\s*(\w+)\);', r'EV_set_error(receiver_, \1);'),
        (r'unifex::set_done\(\s*std::move\(receiver_\)\);', 'EV_set_done(receiver_);'),
        # `return {};` value-initialises the declared return type, which is extracted from the signature (bj_policy_type)
        (r'return \{\};', 'return BJ_POLICY_RESULT;'),
        (r'^\s*(\w+_policy)\s*$', lambda m: POLICY_NAMES[m.group(1)]),
        # mem-initialiser of the join receiver's constructor: receiver_((Receiver2&&) r)
        (r'^\(Receiver2\s*&&\)\s*(\w+)$', r'\1'),
    ],
)
jsnd_ctx = dict(
    cls='bj_sender', members=[], methods=[],
    pre=[
        (r'(?s)return unifex::connect\(\s*static_cast<Self&&>\(self\)\.source_,\s*join_receiver<remove_cvref_t<Receiver>>\{static_cast<Receiver&&>\((\w+)\)\}\);',
         r'return EV_connect_join(self->source_, bj_rcv_make(\1));'),
        (r'unifex::blocking\(\s*(\w+)\.(\w+)\s*\)', r'EV_blocking(\1->\2)'),
    ],
)

I = lambda sig, within, ctx, **kw: dict(file=HI, sig=sig, within=within, ctx=ctx, **kw)
J = lambda sig, within, ctx, **kw: dict(file=HJ, sig=sig, within=within, ctx=ctx, **kw)

SPEC = dict(
    properties=['C17', 'C01'],
    ctx={},
    extracts={
        # indexed_for
        'apply_seq': I(r'static void apply_func_with_policy\(\s*const execution::sequenced_policy&,[^)]*\)', I_RCV, apply_ctx, loops={0: SEQ_INV}),
        'apply_par': I(r'static void apply_func_with_policy\(\s*const execution::parallel_policy&,[^)]*\)', I_RCV, apply_ctx, loops={0: PAR_INV}),
        'ifor_set_value': I(r'void set_value\(Values&&\.\.\. values\) && noexcept', I_RCV, rcv_ctx),
        'ifor_set_error': I(r'void set_error\(Error&& error\) && noexcept', I_RCV, rcv_ctx),
        'ifor_set_done': I(r'void set_done\(\) && noexcept', I_RCV, rcv_ctx),
        'ifor_connect': I(r'auto connect\(Receiver&& receiver\) &&', I_SND, isnd_ctx),
        'ifor_blocking': I(r'tag_invoke\(tag_t<blocking>, const sender& sender\)', I_SND, isnd_ctx),
        # bulk_join
        'bj_ctor_init': dict(file=HJ, kind='expr', sig=r'(?s)explicit type\(Receiver2&& r\) noexcept\(\s*std::is_nothrow_constructible_v<Receiver, Receiver2>\)\s*:\s*receiver_\(([^;{}]*)\)\s*\{', within=J_RCV, ctx=jrcv_ctx),
        'bj_ctor': J(r'explicit type\(Receiver2&& r\) noexcept\(\s*std::is_nothrow_constructible_v<Receiver, Receiver2>\)', J_RCV, jrcv_ctx),
        'bj_set_next': J(r'void set_next\(\) & noexcept', J_RCV, jrcv_ctx),
        'bj_set_value': J(r'void set_value\(Values&&\.\.\. values\) noexcept\(\s*is_nothrow_receiver_of_v<Receiver, Values\.\.\.>\)', J_RCV, jrcv_ctx),
        'bj_set_error': J(r'void set_error\(Error&& error\) noexcept', J_RCV, jrcv_ctx),
        'bj_set_done': J(r'void set_done\(\) noexcept', J_RCV, jrcv_ctx),
        'bj_policy_type': dict(file=HJ, kind='expr', sig=r'friend constexpr unifex::(\w+) tag_invoke\(\s*tag_t<get_execution_policy>', within=J_RCV, ctx=jrcv_ctx),
        'bj_policy': J(r'tag_t<get_execution_policy>, \[\[maybe_unused\]\] const type& r\) noexcept', J_RCV, jrcv_ctx),
        'bj_connect': J(r'tag_t<unifex::connect>,\s*Self&& self,\s*Receiver&&\s*r\)', J_SND, jsnd_ctx),
        'bj_blocking': J(r'tag_invoke\(tag_t<unifex::blocking>, const type& s\) noexcept', J_SND, jsnd_ctx),
    },
    units=[
        # indexed_for
        dict(name='ifor_apply_sequenced', harness='h_apply_seq', enforce='ifor_apply_seq', expect_loop_obligations=True, falsify_unwind=6),
        dict(name='ifor_apply_parallel', harness='h_apply_par', enforce='ifor_apply_par', expect_loop_obligations=True, falsify_unwind=6),
        dict(name='ifor_set_value', harness='h_ifor_set_value', enforce='ifor_rcv_set_value', replace=['ifor_apply_seq', 'ifor_apply_par']),
        dict(name='ifor_set_error', harness='h_ifor_set_error', enforce='ifor_rcv_set_error'),
        dict(name='ifor_set_done', harness='h_ifor_set_done', enforce='ifor_rcv_set_done'),
        dict(name='ifor_connect', harness='h_ifor_connect', enforce='ifor_sender_connect'),
        dict(name='ifor_blocking', harness='h_ifor_blocking', enforce='ifor_sender_blocking'),
        # bulk_join
        dict(name='bj_ctor', harness='h_bj_ctor', enforce='bj_rcv_ctor'),
        dict(name='bj_set_next', harness='h_bj_set_next', enforce='bj_rcv_set_next'),
        dict(name='bj_set_value', harness='h_bj_set_value', enforce='bj_rcv_set_value'),
        dict(name='bj_set_error', harness='h_bj_set_error', enforce='bj_rcv_set_error'),
        dict(name='bj_set_done', harness='h_bj_set_done', enforce='bj_rcv_set_done'),
        dict(name='bj_policy', harness='h_bj_policy', enforce='bj_rcv_get_execution_policy'),
        dict(name='bj_connect', harness='h_bj_connect', enforce='bj_sender_connect'),
        dict(name='bj_blocking', harness='h_bj_blocking', enforce='bj_sender_blocking'),
        dict(name='lemma_ifor_visits', harness='lemma_ifor_visits', mode='lemma'),
    ],
    assumptions=[
        'the range is an abstract random-access range of symbolic size n (any size_t): an iterator is a position in [0, n], begin() = 0, end() = n, size() = n, '
        'the element at position p is base + p (base symbolic, wrapping), *it / it[i] / ++it are checked to stay inside the range; '
        'the range is not modified by the function while it is being traversed (size() is re-read by the parallel overload on every iteration)',
        'range-based for is desugared by the language rule [stmt.ranged] (begin/end evaluated once, != , ++, *) -- spec-level rewrite',
        'std::is_nothrow_invocable_v<Func&, reference, Values...> is a symbolic configuration constant: both branches of the if constexpr are verified; the user\'s function throws only in '
        'the configuration in which it is not nothrow-invocable. NOT CHECKED (type level): set_value tests the trait for Func& with the value categories of Values&&, '
        'apply_func_with_policy invokes with lvalue `values` and declares noexcept for Func (rvalue): a function whose lvalue overload throws while its rvalue overload is noexcept would terminate',
        'a throwing downstream set_value leaves the downstream receiver un-completed (the library then calls set_error on it): EV_set_value counts a completion only when it returns normally',
        'indexed_for, branch for nothrow functions: the downstream set_value is called outside any try block in an unconditionally noexcept function, so a throwing downstream set_value '
        'reaches std::terminate (same convention as then / let_value; OBSERVATION, outside the claimed property): the stub does not throw there',
        'the predecessor (indexed_for) / the bulk source (bulk_join) completes its receiver exactly once (C01 for the children); bulk_join: set_next may be called any number of times, '
        'from any thread, before the terminal signal (the source\'s C17 obligation)',
        'only the two overloads of apply_func_with_policy exist: the policy is execution::sequenced_policy or execution::parallel_policy (anything else does not compile); '
        'the dispatcher ifor_apply stands for that overload resolution',
        'the parallel overload may be called with any order of the indices by the property; the library runs it in increasing order on the calling thread (no concurrency to verify)',
        'connect paths: unifex::connect(child, receiver) is an event stub that does not start or complete anything (C01 for the child sender); an exception thrown by it propagates out of connect',
        'sequential code: no atomics, vf_interfere is empty',
    ],
    drops=['template genericity (Policy, Range, Func, Receiver, Values...: one symbolic instantiation; the values pack is one identity token -- the function receives the values by lvalue '
           'reference and may modify their content, "the same values" means the same objects)',
           'payloads of set_error are identity tokens; std::current_exception() is the token PAY_EXCEPTION',
           'UNIFEX_TRY / UNIFEX_CATCH -> goto vf_catch_body at the may-throw events inside the try block (apply_func_with_policy, the downstream set_value)',
           'exception propagation out of apply_func_with_policy -> ghost G.exc + return',
           'forwarding casts (Range&&) / (Func&&) / (Receiver&&) / (Values&&) / std::move; `using size_type = decltype(range.size())` -> size_t',
           'overload resolution on the policy tag -> dispatcher ifor_apply(policy, ...) in the template',
           'receiver query forwarding (tag_invoke(CPO, const type&)), visit_continuations, the sender\'s type-level traits (value_types, error_types, sends_done, static blocking), the CPO objects / bind_back'],
)
