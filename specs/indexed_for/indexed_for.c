/* C17 (indexed_for / bulk_join half) and C01: include/unifex/indexed_for.hpp and include/unifex/bulk_join.hpp.
 *
 * indexed_for(pred, policy, range, func): when the predecessor completes with values..., func(element, values...) is invoked for
 * every element of the range, then the SAME values are forwarded downstream; a throwing func turns into set_error.
 *   _receiver::type::apply_func_with_policy  (sequenced overload: range-based for; parallel overload: index loop over first[idx])
 *   _receiver::type::set_value / set_error / set_done,  _sender::type::connect, tag_invoke(blocking)
 * bulk_join(source): turns a bulk (many-)sender into a single sender: set_next is dropped, the terminal signal forwarded.
 *   _join_receiver::type::{ctor, set_next, set_value, set_error, set_done, get_execution_policy}, _join_sender::type connect / blocking
 *
 * Bodies marked @BODY / @EXPR are extracted from /repo on every run; everything else here is specification.
 * Sequential code, no atomics: no interference; the content is in the event stubs.
 *
 * The index space is UNBOUNDED: n = size of the range is any size_t, the loops are closed by native loop contracts.
 * "every index exactly once" without a quantifier: a witness index G.k (nondeterministic, fixed before the call) and the number of
 * invocations for it, G.kvis; the contracts demand  kvis == 1 if k < n  and  kvis == 0 otherwise  (for ALL k, as k is arbitrary),
 * plus count == n: a function from n invocations onto [0,n) that hits every k exactly once. */
#include <stddef.h>
#include <stdint.h>

typedef size_t IT_T;     /* abstract iterator: a position in [0, n] */
typedef size_t ELEM_T;   /* std::iterator_traits<Range::iterator>::reference: the element at position p is base + p */
struct ifor_range { size_t n; size_t base; };
struct ifor_rcv { int func_; int policy_; struct ifor_range range_; int receiver_; };         /* members in declaration order */
struct ifor_sender { int pred_; int policy_; struct ifor_range range_; int func_; };
struct bj_rcv { int receiver_; };
struct bj_sender { int source_; };
#define IFOR_RCV_INIT(a, b, c, d) ((struct ifor_rcv){ (a), (b), (c), (d) })

enum { POL_seq, POL_unseq, POL_par, POL_par_unseq };
#define ALLOWS_UNSEQ(p) ((p) == POL_unseq || (p) == POL_par_unseq)
#define ALLOWS_PAR(p) ((p) == POL_par || (p) == POL_par_unseq)
enum { CH_NONE, CH_VALUE, CH_ERROR, CH_DONE };
#define PAY_EXCEPTION (-1)                       /* std::current_exception() */

struct vf_ghost {
  /* the index space and the run's identities */
  size_t n, base, k;               /* size of the range, element offset, witness index */
  int policy, func, in_values, downstream;
  /* invocations of the user's function */
  size_t count;                    /* number of invocations so far */
  size_t last;                     /* index of the latest invocation (valid if count > 0) */
  unsigned kvis;                   /* invocations for the witness index k */
  uint8_t exc;                     /* an exception thrown by the function is in flight / was thrown */
  size_t throw_at;                 /* index at which it threw */
  /* completion of the downstream receiver */
  unsigned completed; int channel, payload;
  size_t count_at_completion;      /* invocations made when the completion signal was delivered */
  unsigned sv_calls;               /* calls of the downstream set_value (completing or throwing) */
  uint8_t rcv_threw;               /* the downstream set_value threw */
  uint8_t propagated;              /* ... and the exception left the adaptor's set_value (bulk_join) */
  uint8_t dead; struct ifor_rcv snap;   /* the adaptor's receiver object may have been destroyed by the completion */
  /* bulk_join */
  uint8_t in_set_next;
  /* connect / queries */
  unsigned connects, starts, blk_queries; int child, child_blocking;
  struct ifor_rcv conn_ifor; struct bj_rcv conn_bj;
};
static struct vf_ghost G;
#include "vf.h"
static void vf_interfere(void) {}

static struct ifor_rcv R;
static struct ifor_sender S;
static struct bj_rcv J;
static struct bj_sender JS;
static _Bool VF_CFG_nothrow;      /* std::is_nothrow_invocable_v<Func&, reference, Values...>: both configurations verified */
static _Bool CFG_rcv_nothrow;     /* the downstream receiver's set_value is noexcept */

/* ---------------- the abstract range (macros: they are used in loop heads and loop invariants) ---------------- */
#define RANGE_begin(r)  ((IT_T)0)
#define RANGE_end(r)    ((IT_T)((r)->n))
#define RANGE_size(r)   ((r)->n)
#define IT_NE(a, b)     ((a) != (b))
#define IT_INC(it)      ({ VF_P((it) < G.n, "an iterator is incremented only inside [begin, end)"); ++(it); })
#define IT_DEREF(it)    ({ VF_P((it) < G.n, "an iterator is dereferenced only inside [begin, end): func sees only elements of the range"); (ELEM_T)(G.base + (it)); })
#define IT_AT(it, i)    ({ VF_P((it) <= G.n && (i) < G.n - (it), "first[idx] is evaluated only for idx inside [0, size): func sees only elements of the range"); (ELEM_T)(G.base + (it) + (i)); })

/* ---------------- event stubs ---------------- */
/* std::invoke(func, element, values...) */
static _Bool EV_invoke(int func, ELEM_T elem, int values) {
  size_t pos = elem - G.base;       /* the index this element has in the range */
  VF_CANARY("func is invoked");
  VF_P(G.completed == 0, "func is never invoked after (or while) the downstream receiver is completed");
  VF_P(G.exc == 0, "after func threw at index j no further index is visited");
  VF_P(func == G.func, "the function invoked is the one given to indexed_for");
  VF_P(values == G.in_values, "func is applied to the values the predecessor delivered");
  VF_P(pos < G.n, "func is invoked only for indices in [0, n)");
  if (G.policy == POL_seq) VF_P(G.count == 0 || pos > G.last, "sequenced policy: the indices are visited in increasing order");
  if (pos == G.k) { VF_P(G.kvis == 0, "no index is visited twice"); G.kvis++; }
  G.count++; G.last = pos;
  if (!VF_CFG_nothrow && VF_nondet_bool()) { G.exc = 1; G.throw_at = pos; return 1; }
  return 0;
}

static void vf_rcv_may_be_gone(void) {
  struct ifor_rcv f; struct bj_rcv g;
  R.func_ = f.func_; R.policy_ = f.policy_; R.range_.n = f.range_.n; R.range_.base = f.range_.base; R.receiver_ = f.receiver_;
  J.receiver_ = g.receiver_;
  G.snap = R; G.dead = 1;
}
#define R_EQ(a, b) ((a).func_ == (b).func_ && (a).policy_ == (b).policy_ && (a).range_.n == (b).range_.n && (a).range_.base == (b).range_.base && (a).receiver_ == (b).receiver_)
#define UNTOUCHED_IF_DEAD (!G.dead || R_EQ(R, G.snap))      /* nothing of the receiver object is written after the completion signal */

static void vf_final_pre(int rcv) {
  VF_P(!G.in_set_next, "bulk_join: set_next never completes the receiver");
  VF_P(!G.dead, "nothing is read from the receiver object after the completion signal was delivered");
  VF_P(rcv == G.downstream, "the signal goes to the receiver the adaptor was connected with");
  VF_P(G.completed == 0, "the downstream receiver is completed at most once");
}
static void vf_final(int ch, int payload) { G.completed++; G.channel = ch; G.payload = payload; G.count_at_completion = G.count; vf_rcv_may_be_gone(); }
/* may_throw: the call site has somewhere for an exception to go (a handler, or a conditionally-noexcept function) */
static _Bool EV_set_value(int rcv, int values, int may_throw) {
  vf_final_pre(rcv);
  VF_P(G.exc == 0, "no set_value after func threw");
  VF_P(G.count == G.n, "set_value is delivered only after all n invocations");
  VF_P(G.kvis == (G.k < G.n ? 1u : 0u), "set_value is delivered only after every index was visited exactly once");
  VF_P(values == G.in_values, "set_value carries the same values the predecessor delivered");
  VF_P(G.sv_calls == 0, "the downstream set_value is called at most once");
  G.sv_calls++;
  if (may_throw && !CFG_rcv_nothrow && VF_nondet_bool()) { G.rcv_threw = 1; return 1; }    /* leaves the receiver un-completed */
  vf_final(CH_VALUE, values);
  return 0;
}
static void EV_set_error(int rcv, int error) {
  vf_final_pre(rcv);
  VF_P(error != PAY_EXCEPTION || G.exc || G.rcv_threw, "set_error(current_exception()) only when an exception was caught");
  vf_final(CH_ERROR, error);
}
static void EV_set_done(int rcv) { vf_final_pre(rcv); vf_final(CH_DONE, 0); }

/* unifex::connect(child, receiver): nothing is started, nothing completes */
static int EV_connect(int child, struct ifor_rcv r) {
  VF_P(child == G.child && G.connects == 0, "the predecessor is connected once");
  G.conn_ifor = r; G.connects++;
  return 1;
}
static int EV_connect_join(int child, struct bj_rcv r) {
  VF_P(child == G.child && G.connects == 0, "the bulk source is connected once");
  G.conn_bj = r; G.connects++;
  return 1;
}
static int EV_blocking(int child) { VF_P(child == G.child, "the blocking query is forwarded to the wrapped sender"); G.blk_queries++; return G.child_blocking; }

/* ======================================================= indexed_for ======================================================= */
#define VISIT_GHOSTS G.count, G.last, G.kvis, G.exc, G.throw_at
#define NO_VISITS (G.count == 0 && G.kvis == 0 && G.exc == 0)
#define APPLY_REQ (range == &R.range_ && R.range_.n == G.n && R.range_.base == G.base && func == G.func && values == G.in_values && G.completed == 0)
/* what the property says about ONE traversal, for both policies */
#define APPLY_ENS_COMMON \
  (G.exc == 0 || G.exc == 1) && G.count <= G.n && (VF_CFG_nothrow ==> G.exc == 0) \
  && (G.exc == 0 ==> (G.count == G.n && G.kvis == (G.k < G.n ? 1u : 0u)))            /* every index in [0,n) exactly once, no other */ \
  && (G.exc == 1 ==> (G.count >= 1 && G.throw_at < G.n && G.last == G.throw_at && G.kvis <= 1))   /* the throwing invocation was the last one */

/* sequenced overload: `for (auto idx : range) std::invoke(func, idx, values...)` */
void ifor_apply_seq(struct ifor_range* range, int func, int values)
__CPROVER_requires(APPLY_REQ && G.policy == POL_seq)
__CPROVER_requires(NO_VISITS) /*P*/ /* the range is traversed once per completion */
__CPROVER_assigns(VISIT_GHOSTS)
__CPROVER_ensures(APPLY_ENS_COMMON)
__CPROVER_ensures(G.exc == 0 ==> (G.n > 0 ==> G.last == G.n - 1))                      /* in increasing order: the last index visited is n-1 */
__CPROVER_ensures(G.exc == 1 ==> (G.count == G.throw_at + 1 && G.kvis == (G.k <= G.throw_at ? 1u : 0u)))   /* threw at j: exactly 0..j were visited, nothing later */
/*@BODY apply_seq*/

/* parallel overload: `first = range.begin(); for (idx = 0; idx < range.size(); ++idx) std::invoke(func, first[idx], values...)` */
void ifor_apply_par(struct ifor_range* range, int func, int values)
__CPROVER_requires(APPLY_REQ && G.policy == POL_par)
__CPROVER_requires(NO_VISITS) /*P*/ /* the range is traversed once per completion */
__CPROVER_assigns(VISIT_GHOSTS)
__CPROVER_ensures(APPLY_ENS_COMMON)
/*@BODY apply_par*/

/* overload resolution on the type of policy_ (only these two overloads exist) */
static void ifor_apply(int policy, struct ifor_range* range, int func, int values) {
  VF_P(policy == G.policy, "the function is applied with the policy given to indexed_for");
  if (policy == POL_seq) ifor_apply_seq(range, func, values); else ifor_apply_par(range, func, values);
}

#define IFOR_REQ (self == &R && R.func_ == G.func && R.policy_ == G.policy && R.range_.n == G.n && R.range_.base == G.base && R.receiver_ == G.downstream \
  && (G.policy == POL_seq || G.policy == POL_par) && NO_VISITS && G.completed == 0 && G.channel == CH_NONE && G.sv_calls == 0 && !G.rcv_threw && !G.propagated && !G.dead && !G.in_set_next)

/* predecessor completed with values...: apply func over the range, then forward the same values */
void ifor_rcv_set_value(struct ifor_rcv* self, int values)
__CPROVER_requires(IFOR_REQ && values == G.in_values)
__CPROVER_assigns(G, R, J)
__CPROVER_ensures(G.completed == 1 && UNTOUCHED_IF_DEAD)                                   /* C01: exactly one completion signal */
__CPROVER_ensures((G.exc == 0 && !G.rcv_threw) ==> (G.channel == CH_VALUE && G.payload == values && G.count_at_completion == G.n && G.count == G.n \
                                                    && G.kvis == (G.k < G.n ? 1u : 0u)))   /* C17/C01: the SAME values, after every index was visited exactly once */
__CPROVER_ensures(G.exc != 0 ==> (!VF_CFG_nothrow && G.channel == CH_ERROR && G.payload == PAY_EXCEPTION && G.sv_calls == 0 \
                                  && G.count_at_completion == G.count && G.last == G.throw_at && G.count <= G.n))   /* func threw at j: one set_error(current_exception), no set_value, nothing visited after j */
__CPROVER_ensures((G.exc != 0 && G.policy == POL_seq) ==> (G.count == G.throw_at + 1 && G.kvis == (G.k <= G.throw_at ? 1u : 0u)))
__CPROVER_ensures(G.rcv_threw ==> (G.exc == 0 && !VF_CFG_nothrow && G.channel == CH_ERROR && G.payload == PAY_EXCEPTION && G.count == G.n))   /* a throwing downstream set_value becomes set_error */
__CPROVER_ensures(G.sv_calls <= 1 && !G.propagated)
/*@BODY ifor_set_value*/

/* predecessor completed with an error / done: forwarded unchanged; func is never invoked */
void ifor_rcv_set_error(struct ifor_rcv* self, int error)
__CPROVER_requires(IFOR_REQ && error != PAY_EXCEPTION)
__CPROVER_assigns(G, R, J)
__CPROVER_ensures(G.completed == 1 && G.channel == CH_ERROR && G.payload == error && UNTOUCHED_IF_DEAD)
__CPROVER_ensures(NO_VISITS && G.sv_calls == 0)
/*@BODY ifor_set_error*/

void ifor_rcv_set_done(struct ifor_rcv* self)
__CPROVER_requires(IFOR_REQ)
__CPROVER_assigns(G, R, J)
__CPROVER_ensures(G.completed == 1 && G.channel == CH_DONE && UNTOUCHED_IF_DEAD)
__CPROVER_ensures(NO_VISITS && G.sv_calls == 0)
/*@BODY ifor_set_done*/

/* sender: connect wraps the receiver; nothing is started or delivered by connect (C01: nothing before start) */
#define CONNECT_REQ (G.connects == 0 && G.starts == 0 && G.completed == 0 && NO_VISITS && G.blk_queries == 0)
int ifor_sender_connect(struct ifor_sender* self, int receiver)
__CPROVER_requires(self == &S && S.pred_ == G.child && CONNECT_REQ)
__CPROVER_assigns(G)
__CPROVER_ensures(G.connects == 1 && G.starts == 0 && G.completed == 0 && NO_VISITS)
__CPROVER_ensures(G.conn_ifor.func_ == S.func_ && G.conn_ifor.policy_ == S.policy_ && G.conn_ifor.range_.n == S.range_.n && G.conn_ifor.range_.base == S.range_.base \
                  && G.conn_ifor.receiver_ == receiver)   /* the predecessor's receiver carries this sender's function, policy and range, and completes the given receiver */
/*@BODY ifor_connect*/

int ifor_sender_blocking(const struct ifor_sender* sender)
__CPROVER_requires(sender == &S && S.pred_ == G.child && CONNECT_REQ)
__CPROVER_assigns(G.blk_queries)
__CPROVER_ensures(__CPROVER_return_value == G.child_blocking && G.blk_queries == 1)   /* indexed_for completes where its predecessor completes */
/*@BODY ifor_blocking*/

/* ======================================================= bulk_join ======================================================= */
/* value-initialised object of get_execution_policy's declared return type (extracted from the signature) */
#define BJ_POLICY_RESULT (/*@EXPR bj_policy_type*/)

#define BJ_REQ (self == &J && J.receiver_ == G.downstream && G.completed == 0 && G.channel == CH_NONE && G.sv_calls == 0 && !G.rcv_threw && !G.propagated && !G.dead && !G.in_set_next \
  && G.exc == 0 && G.count == G.n && G.kvis == (G.k < G.n ? 1u : 0u))   /* bulk_join has no function of its own: the visit ghosts are those of a finished run */

/* explicit type(Receiver2&& r) : receiver_((Receiver2&&) r) {} */
void bj_rcv_ctor(struct bj_rcv* self, int r)
__CPROVER_requires(self == &J && G.completed == 0)
__CPROVER_assigns(J)
__CPROVER_ensures(J.receiver_ == r && G.completed == 0)
{ self->receiver_ = /*@EXPR bj_ctor_init*/;
  /*@BODY bj_ctor*/ }
static struct bj_rcv bj_rcv_make(int r) { struct bj_rcv t; bj_rcv_ctor(&t, r); return t; }

/* set_next: dropped.  It never completes the receiver and leaves everything as it was (so any number of calls, in any
 * interleaving, is tolerated: this is what justifies reporting parallel_unsequenced_policy upstream) */
void bj_rcv_set_next(struct bj_rcv* self)
__CPROVER_requires(self == &J && G.in_set_next)
__CPROVER_assigns(G, J)
__CPROVER_ensures(G.completed == __CPROVER_old(G.completed) && G.channel == __CPROVER_old(G.channel) && G.sv_calls == __CPROVER_old(G.sv_calls) \
                  && J.receiver_ == __CPROVER_old(J.receiver_) && G.dead == __CPROVER_old(G.dead))
/*@BODY bj_set_next*/

void bj_rcv_set_value(struct bj_rcv* self, int values)
__CPROVER_requires(BJ_REQ && values == G.in_values)
__CPROVER_assigns(G, R, J)
__CPROVER_ensures(!G.rcv_threw ==> (G.completed == 1 && G.channel == CH_VALUE && G.payload == values && !G.propagated))   /* exactly one completion, same channel, same values */
__CPROVER_ensures(G.rcv_threw ==> (G.completed == 0 && G.propagated && !CFG_rcv_nothrow))   /* conditional noexcept: the downstream exception goes back to the bulk source, receiver not completed */
__CPROVER_ensures(G.sv_calls == 1)
/*@BODY bj_set_value*/

void bj_rcv_set_error(struct bj_rcv* self, int error)
__CPROVER_requires(self == &J && J.receiver_ == G.downstream && G.completed == 0 && G.channel == CH_NONE && G.sv_calls == 0 && !G.dead && !G.in_set_next && error != PAY_EXCEPTION)
__CPROVER_assigns(G, R, J)
__CPROVER_ensures(G.completed == 1 && G.channel == CH_ERROR && G.payload == error && G.sv_calls == 0)   /* an error arriving after any number of set_next calls is delivered */
/*@BODY bj_set_error*/

void bj_rcv_set_done(struct bj_rcv* self)
__CPROVER_requires(self == &J && J.receiver_ == G.downstream && G.completed == 0 && G.channel == CH_NONE && G.sv_calls == 0 && !G.dead && !G.in_set_next)
__CPROVER_assigns(G, R, J)
__CPROVER_ensures(G.completed == 1 && G.channel == CH_DONE && G.sv_calls == 0)
/*@BODY bj_set_done*/

/* the policy bulk_join reports upstream.  The property demands that the source's set_next calls are not concurrent / interleaved
 * beyond what the policy permits AND what the receiver tolerates: set_next is a no-op with an empty frame (unit bj_set_next), so
 * every policy is sound here (the library answers parallel_unsequenced_policy; a stricter answer would cost speed, not safety).
 * What is demanded: the query answers with one of the four policies, touches nothing and completes nothing. */
int bj_rcv_get_execution_policy(const struct bj_rcv* r)
__CPROVER_requires(r == &J)
__CPROVER_assigns()
__CPROVER_ensures(__CPROVER_return_value >= POL_seq && __CPROVER_return_value <= POL_par_unseq)
__CPROVER_ensures(G.completed == __CPROVER_old(G.completed))
/*@BODY bj_policy*/

int bj_sender_connect(struct bj_sender* self, int r)
__CPROVER_requires(self == &JS && JS.source_ == G.child && CONNECT_REQ)
__CPROVER_assigns(G)
__CPROVER_ensures(G.connects == 1 && G.starts == 0 && G.completed == 0)
__CPROVER_ensures(G.conn_bj.receiver_ == r)               /* the source's receiver completes exactly the receiver given to connect */
/*@BODY bj_connect*/

int bj_sender_blocking(const struct bj_sender* s)
__CPROVER_requires(s == &JS && JS.source_ == G.child && CONNECT_REQ)
__CPROVER_assigns(G.blk_queries)
__CPROVER_ensures(__CPROVER_return_value == G.child_blocking && G.blk_queries == 1)
/*@BODY bj_blocking*/

/* ---------------- harnesses ---------------- */
static void h_init(void) {
  G.n = VF_nondet_size_t(); G.base = VF_nondet_size_t(); G.k = VF_nondet_size_t();
  G.policy = VF_nondet_bool() ? POL_seq : POL_par;
  G.func = VF_nondet_int(); G.in_values = VF_nondet_int(); G.downstream = VF_nondet_int();
  G.count = 0; G.last = 0; G.kvis = 0; G.exc = 0; G.throw_at = 0;
  G.completed = 0; G.channel = CH_NONE; G.payload = 0; G.count_at_completion = 0; G.sv_calls = 0; G.rcv_threw = 0; G.propagated = 0; G.dead = 0;
  G.in_set_next = 0;
  G.connects = 0; G.starts = 0; G.blk_queries = 0; G.child = VF_nondet_int(); G.child_blocking = VF_nondet_int();
  VF_CFG_nothrow = VF_nondet_bool(); CFG_rcv_nothrow = VF_nondet_bool();
  R.func_ = G.func; R.policy_ = G.policy; R.range_.n = G.n; R.range_.base = G.base; R.receiver_ = G.downstream;
  G.snap = R;
  J.receiver_ = G.downstream;
  S.pred_ = G.child; S.policy_ = G.policy; S.range_.n = G.n; S.range_.base = G.base; S.func_ = G.func;
  JS.source_ = G.child;
}
static void h_visit_canaries(void) {
  if (G.exc) { VF_CANARY("func can throw at some index"); if (G.throw_at + 1 < G.n) { VF_CANARY("func can throw before the last index"); } }
  else { VF_CANARY("all invocations can return normally"); if (G.n == 0) { VF_CANARY("empty range"); } if (G.n > 2 && G.k < G.n) { VF_CANARY("witness inside a range of several elements"); }
         if (G.k >= G.n) { VF_CANARY("witness outside the range"); } }
}
void h_apply_seq(void) { h_init(); G.policy = POL_seq; R.policy_ = POL_seq; ifor_apply_seq(&R.range_, G.func, G.in_values); VF_CANARY("after apply (sequenced)"); h_visit_canaries(); }
void h_apply_par(void) { h_init(); G.policy = POL_par; R.policy_ = POL_par; ifor_apply_par(&R.range_, G.func, G.in_values); VF_CANARY("after apply (parallel)"); h_visit_canaries(); }
void h_ifor_set_value(void) {
  h_init(); ifor_rcv_set_value(&R, G.in_values);
  VF_CANARY("after set_value");
  if (G.channel == CH_VALUE) { VF_CANARY("values forwarded"); if (VF_CFG_nothrow) { VF_CANARY("branch for nothrow functions"); } else { VF_CANARY("try branch completes with values"); } }
  if (G.exc) { VF_CANARY("func threw: set_error"); }
  if (G.rcv_threw) { VF_CANARY("downstream set_value threw: set_error"); }
  if (G.policy == POL_seq) { VF_CANARY("sequenced policy"); } else { VF_CANARY("parallel policy"); }
}
void h_ifor_set_error(void) { h_init(); int e = VF_nondet_int(); __CPROVER_assume(e != PAY_EXCEPTION); ifor_rcv_set_error(&R, e); VF_CANARY("after set_error"); }
void h_ifor_set_done(void) { h_init(); ifor_rcv_set_done(&R); VF_CANARY("after set_done"); }
void h_ifor_connect(void) { h_init(); int r = VF_nondet_int(); ifor_sender_connect(&S, r); VF_CANARY("after connect"); }
void h_ifor_blocking(void) { h_init(); ifor_sender_blocking(&S); VF_CANARY("after blocking query"); }

/* bulk_join: the visit ghosts describe the bulk source's finished run (its own C17 obligation) */
static void h_bj_init(void) { h_init(); G.count = G.n; G.kvis = (G.k < G.n ? 1u : 0u); }
/* any number of set_next calls precede the terminal signal: by bj_set_next's contract each leaves the state as it was, so the state
 * after m calls is the state before; two of them are run concretely here in front of every terminal signal */
static void h_bj_some_nexts(void) {
  G.in_set_next = 1;
  if (VF_nondet_bool()) { bj_rcv_set_next(&J); VF_CANARY("a set_next call before the terminal signal"); if (VF_nondet_bool()) bj_rcv_set_next(&J); }
  G.in_set_next = 0;
}
void h_bj_ctor(void) { h_bj_init(); int r = VF_nondet_int(); J.receiver_ = VF_nondet_int(); bj_rcv_ctor(&J, r); VF_CANARY("after the join receiver's constructor"); }
void h_bj_set_next(void) {
  h_bj_init(); if (VF_nondet_bool()) { G.completed = 1; G.channel = CH_DONE; }   /* even a (forbidden) late set_next does nothing */
  G.in_set_next = 1; bj_rcv_set_next(&J); G.in_set_next = 0; VF_CANARY("after set_next");
}
void h_bj_set_value(void) {
  h_bj_init(); h_bj_some_nexts(); bj_rcv_set_value(&J, G.in_values);
  VF_CANARY("after join set_value");
  if (G.rcv_threw) { VF_CANARY("downstream set_value threw: propagated to the source"); } else { VF_CANARY("values forwarded"); }
}
void h_bj_set_error(void) { h_bj_init(); G.count = VF_nondet_size_t(); h_bj_some_nexts(); int e = VF_nondet_int(); __CPROVER_assume(e != PAY_EXCEPTION); bj_rcv_set_error(&J, e); VF_CANARY("after join set_error"); }
void h_bj_set_done(void) { h_bj_init(); G.count = VF_nondet_size_t(); h_bj_some_nexts(); bj_rcv_set_done(&J); VF_CANARY("after join set_done"); }
void h_bj_policy(void) { h_bj_init(); bj_rcv_get_execution_policy(&J); VF_CANARY("after get_execution_policy"); }
void h_bj_connect(void) { h_bj_init(); int r = VF_nondet_int(); bj_sender_connect(&JS, r); VF_CANARY("after join connect"); }
void h_bj_blocking(void) { h_bj_init(); bj_sender_blocking(&JS); VF_CANARY("after join blocking query"); }

/* ---------------- M4 lemma over the contracts' predicates ----------------
 * The witness encoding says what it is meant to say: if after a traversal  count == n  and, for an ARBITRARY k,
 * kvis(k) == (k < n), then no index below n was skipped (kvis(k) >= 1) and none visited twice (kvis(k) <= 1); together with the
 * stub's "pos < n" this is a bijection between invocations and [0,n).  And the exceptional outcome of the sequenced overload
 * (threw at j, count == j+1, kvis == (k <= j)) leaves every index after j unvisited. */
void lemma_ifor_visits(void) {
  size_t n = VF_nondet_size_t(), k = VF_nondet_size_t(), j = VF_nondet_size_t(), count = VF_nondet_size_t(); unsigned kvis = VF_nondet_u32();
  if (VF_nondet_bool()) {
    __CPROVER_assume(count == n && kvis == (k < n ? 1u : 0u));
    VF_CANARY("lemma premises satisfiable (normal)");
    VF_P(k < n ? kvis == 1 : kvis == 0, "lemma: after a complete traversal every index of [0,n) was visited exactly once and no other index at all");
  } else {
    __CPROVER_assume(j < n && count == j + 1 && kvis == (k <= j ? 1u : 0u));
    VF_CANARY("lemma premises satisfiable (threw)");
    VF_P(k > j ? kvis == 0 : kvis == 1, "lemma: after a throw at j no later index was visited, every earlier one exactly once");
    VF_P(count <= n, "lemma: never more invocations than indices");
  }
}
