CPP = 'source/static_thread_pool.cpp'
H = 'include/unifex/static_thread_pool.hpp'
IQ = 'include/unifex/detail/intrusive_queue.hpp'
IQC = r'class intrusive_queue \{'
iq_ctx = dict(cls='intrusive_queue', members=['head_', 'tail_'], methods=['empty'], ptrmem={'Next': 'next'},
              obj_methods={'empty': 'intrusive_queue_empty'}, typemap=[(r'\bItem\b', 'struct task_base')],
              pre=[(r'\bintrusive_queue other\b', 'struct intrusive_queue other')])
ts_ctx = dict(cls='thread_state', members=['mut_', 'cv_', 'queue_', 'stopRequested_'],
              obj_methods={'empty': 'intrusive_queue_empty', 'pop_front': 'intrusive_queue_pop_front', 'push_back': 'intrusive_queue_push_back'})
cx_ctx = dict(cls='context', members=['threadCount_', 'threadStates_', 'nextThread_', 'threads_'],
              typemap=[(r'\btask_base\*', 'struct task_base*')],
              obj_methods={'try_pop': 'thread_state_try_pop', 'pop': 'thread_state_pop', 'try_push': 'thread_state_try_push',
                           'push': 'thread_state_push', 'request_stop': 'thread_state_request_stop'},
              pre=[(r'static_cast<std::uint32_t>\(threads_\.size\(\)\)', 'EV_threads_size(this)'),
                   (r'threadStates_\[(\w+)\]\.(\w+)\(\)', r'thread_state_\2(TS_AT(this, \1))'),
                   (r'threadStates_\[(\w+)\]\.(\w+)\(', r'thread_state_\2(TS_AT(this, \1), '),
                   (r'threadStates_\[(\w+)\]', r'(*TS_AT(this, \1))'),
                   (r'for \(auto& state : threadStates_\) \{', 'for (std::uint32_t vf_i = 0; vf_i < EV_threadStates_size(this); ++vf_i) { auto& state = (*TS_AT(this, vf_i));'),
                   (r'(\w+)->execute\(\1\)', r'EV_execute(\1)')],
              atomic=['nextThread_'])
op_ctx = dict(cls='op', members=[],
              pre=[(r'auto& op = \*static_cast<type\*>\(t\);', 'struct op* op_p = (struct op*)t;'),
                   (r'!is_stop_never_possible_v<stop_token_type_t<Receiver>>', '!VF_CFG_stop_never_possible'),
                   (r'get_stop_token\(op\.receiver_\)\.stop_requested\(\)', 'EV_stop_requested(op_p)'),
                   (r'unifex::set_value\(\(Receiver &&\) op\.receiver_\)', 'EV_set_value(op_p)'),
                   (r'unifex::set_done\(\(Receiver &&\) op\.receiver_\)', 'EV_set_done(op_p)')])
LOOP_TRY = ('__CPROVER_assigns(i, TS, G.m, G.appends, G.t_queued, G.last_index, T.next, W0.next, WT.next)\n'
            '__CPROVER_loop_invariant(i <= threadCount && G.appends == 0 && !TS.mut_.held && G.t_queued == 0 && startIndex < threadCount && threadCount == self->threadCount_ && G.exec == 0)\n'
            '__CPROVER_decreases(threadCount - i)')
LOOP_RUN = ('__CPROVER_assigns(i, task, G.m, G.pops, G.have, G.last_index, TS, W0.next, WT.next, vf_ret)\n'
            '__CPROVER_loop_invariant(i <= self->threadCount_ && task == NULL && !G.have && !TS.mut_.held && G.exec == 0 && G.pops == 0)\n'
            '__CPROVER_decreases(self->threadCount_ - i)')
SPEC = dict(
    properties=['C06', 'C01'],
    ctx=ts_ctx,
    extracts={
        'iq_head_init': dict(file=IQ, kind='expr', sig=r'Item\* head_ = ([^;]*);'),
        'iq_tail_init': dict(file=IQ, kind='expr', sig=r'Item\* tail_ = ([^;]*);'),
        'stop_init': dict(file=H, kind='expr', sig=r'bool stopRequested_ = ([^;]*);'),
        'iq_empty': dict(file=IQ, sig=r'bool empty\(\) const noexcept', within=IQC, ctx=iq_ctx),
        'iq_pop_front': dict(file=IQ, sig=r'Item\* pop_front\(\) noexcept', within=IQC, ctx=iq_ctx),
        'iq_push_front': dict(file=IQ, sig=r'void push_front\(Item\* item\) noexcept', within=IQC, ctx=iq_ctx),
        'iq_push_back': dict(file=IQ, sig=r'void push_back\(Item\* item\) noexcept', within=IQC, ctx=iq_ctx),
        'iq_append': dict(file=IQ, sig=r'void append\(intrusive_queue other\) noexcept', within=IQC, ctx=iq_ctx),
        'iq_prepend': dict(file=IQ, sig=r'void prepend\(intrusive_queue other\) noexcept', within=IQC, ctx=iq_ctx),
        'try_pop': dict(file=CPP, sig=r'task_base\* context::thread_state::try_pop\(\)'),
        'pop': dict(file=CPP, sig=r'task_base\* context::thread_state::pop\(\)', outline={0: 'VF_LOOP0;'}),
        'try_push': dict(file=CPP, sig=r'bool context::thread_state::try_push\(task_base\* task\)'),
        'push': dict(file=CPP, sig=r'void context::thread_state::push\(task_base\* task\)'),
        'ts_request_stop': dict(file=CPP, sig=r'void context::thread_state::request_stop\(\)'),
        'enqueue': dict(file=CPP, sig=r'void context::enqueue\(task_base\* task\) noexcept', ctx=cx_ctx, loops={0: LOOP_TRY}),
        'run': dict(file=CPP, sig=r'void context::run\(std::uint32_t index\) noexcept', ctx=cx_ctx, outline={0: 'VF_RUNLOOP;'}),
        'run_body': dict(from_key='run.loop0.body', loops={0: LOOP_RUN}),
        'request_stop': dict(file=CPP, sig=r'void context::request_stop\(\) noexcept', ctx=cx_ctx,
                             loops={0: '__CPROVER_assigns(vf_i, TS, G.m, G.stops, G.last_index, W0.next, WT.next)\n__CPROVER_loop_invariant(vf_i <= self->threadCount_ && G.stops == vf_i && !TS.mut_.held)\n__CPROVER_decreases(self->threadCount_ - vf_i)'}),
        'op_execute': dict(file=H, sig=r'this->execute = \[\]\(task_base\* t\) noexcept', ctx=op_ctx),
    },
    closed_world=[
        dict(file=CPP, members=['queue_', 'stopRequested_', 'nextThread_'], allow=[r', nextThread_\(0\)']),
        dict(file=IQ, members=['head_', 'tail_'], within=IQC,
             allow=[r'(?s)intrusive_queue\(intrusive_queue&& other\) noexcept.*?\{\}', r'(?s)intrusive_queue& operator=\(intrusive_queue other\) noexcept \{.*?\n  \}',
                    r'(?s)static intrusive_queue make_reversed\(Item\* list\) noexcept \{.*?\n  \}', r'Item\* head_ = nullptr;', r'Item\* tail_ = nullptr;']),
    ],
    units=[
        dict(name='iq_empty', harness='h_iq_empty', enforce='intrusive_queue_empty', defines=['VF_VERIFY_IQ']),
        dict(name='iq_pop_front', harness='h_iq_pop_front', enforce='intrusive_queue_pop_front', defines=['VF_VERIFY_IQ']),
        dict(name='iq_push_front', harness='h_iq_push_front', enforce='intrusive_queue_push_front', defines=['VF_VERIFY_IQ']),
        dict(name='iq_push_back', harness='h_iq_push_back', enforce='intrusive_queue_push_back', defines=['VF_VERIFY_IQ']),
        dict(name='iq_append', harness='h_iq_append', enforce='intrusive_queue_append', defines=['VF_VERIFY_IQ']),
        dict(name='iq_prepend', harness='h_iq_prepend', enforce='intrusive_queue_prepend', defines=['VF_VERIFY_IQ']),
        dict(name='try_pop', replace=['intrusive_queue_empty', 'intrusive_queue_pop_front', 'intrusive_queue_push_back'], harness='h_try_pop', enforce='thread_state_try_pop', defines=['VF_VERIFY_TS']),
        dict(name='pop', replace=['intrusive_queue_empty', 'intrusive_queue_pop_front', 'intrusive_queue_push_back'], harness='h_pop', enforce='thread_state_pop', defines=['VF_VERIFY_TS']),
        dict(name='pop_wait_body', replace=['intrusive_queue_empty', 'intrusive_queue_pop_front', 'intrusive_queue_push_back'], harness='h_pop_loop0_body', enforce='pop__loop0_body', defines=['VF_VERIFY_TS']),
        dict(name='try_push', replace=['intrusive_queue_empty', 'intrusive_queue_pop_front', 'intrusive_queue_push_back'], harness='h_try_push', enforce='thread_state_try_push', defines=['VF_VERIFY_TS']),
        dict(name='push', replace=['intrusive_queue_empty', 'intrusive_queue_pop_front', 'intrusive_queue_push_back'], harness='h_push', enforce='thread_state_push', defines=['VF_VERIFY_TS']),
        dict(name='ts_request_stop', replace=['intrusive_queue_empty', 'intrusive_queue_pop_front', 'intrusive_queue_push_back'], harness='h_ts_request_stop', enforce='thread_state_request_stop', defines=['VF_VERIFY_TS']),
        dict(name='enqueue', replace=['thread_state_try_pop', 'thread_state_pop', 'thread_state_try_push', 'thread_state_push', 'thread_state_request_stop'], harness='h_enqueue', enforce='context_enqueue', expect_loop_obligations=True),
        dict(name='run', replace=['thread_state_try_pop', 'thread_state_pop', 'thread_state_try_push', 'thread_state_push', 'thread_state_request_stop'], harness='h_run', enforce='context_run'),
        dict(name='run_body', replace=['thread_state_try_pop', 'thread_state_pop', 'thread_state_try_push', 'thread_state_push', 'thread_state_request_stop'], harness='h_run_body', enforce='run__loop0_body', expect_loop_obligations=True),
        dict(name='request_stop', replace=['thread_state_try_pop', 'thread_state_pop', 'thread_state_try_push', 'thread_state_push', 'thread_state_request_stop'], harness='h_request_stop', enforce='context_request_stop', expect_loop_obligations=True),
        dict(name='op_execute', harness='h_op_execute', enforce='op_execute'),
        dict(name='lemma_pool', harness='lemma_pool', mode='lemma'),
    ],
    assumptions=[
        'std::mutex + std::condition_variable behave as a monitor; each thread_state has one waiter (only the owning worker calls pop()), so notify_one reaches it',
        'threads_.size() == threadStates_.size() == threadCount_ and 0 < threadCount_ <= 2^31 (established by the constructor: UNIFEX_ASSERT(threadCount > 0), one emplace_back per index)',
        'an operation is enqueued at most once at a time; thread identity of completion is not expressed (the task is executed by run() of the pool, outside any queue lock, exactly once)',
        'M2 meta-argument: the queue window (empty / one node / head .. tail with opaque middle) enumerates every shape of a well-formed intrusive_queue; append-at-tail + pop-at-head is FIFO',
        'std::thread creation / join in the constructor and destructor (context destructors join every thread they created) is not reached',
        'intrusive_queue::make_reversed (list walk) is verified in group atomic_queue (bounded)',
    ],
    drops=['std::unique_lock / lock_guard RAII release made explicit at every exit', 'std::vector<thread_state> indexing -> TS_AT(self, i): index-in-range obligation + one window thread_state',
           'task->execute(task) -> event stub EV_execute (may destroy the task)', 'range-for over threadStates_ -> index loop', 'receiver completion signals, stop-token query -> event stubs; if constexpr -> symbolic config'],
)
