/* C06: static_thread_pool (source/static_thread_pool.cpp, include/unifex/static_thread_pool.hpp) and the
 * intrusive_queue it is built on (include/unifex/detail/intrusive_queue.hpp, Item = task_base, Next = &task_base::next).
 * Three layers, each verified against the contracts of the one below:
 *   intrusive_queue ops (sequential, M2 window)  <-  thread_state ops (monitor mut_/cv_)  <-  context::enqueue/run/request_stop */
#include <stddef.h>
#include <stdint.h>
struct task_base { struct task_base* next; };
struct intrusive_queue { struct task_base* head_; struct task_base* tail_; };
enum { REL_NONE, REL_UNCHANGED, REL_POPPED, REL_APPENDED };
struct vf_mon {              /* protected state as the last acquire found it / as the last release left it */
  struct task_base* acq_head; struct task_base* acq_tail; struct task_base* acq_head_next; _Bool acq_stop;
  int rel_kind; _Bool rel_empty; _Bool rel_stop;
};
struct vf_ghost {
  struct vf_mon m;
  unsigned pops, appends;   /* nodes removed from / added to a queue by the verified call */
  _Bool t_queued;           /* the operand task T has been placed in a queue */
  _Bool have;               /* a popped task is in hand and has not been executed yet */
  unsigned exec;            /* executions by the verified call */
  _Bool dead; struct task_base snap;
  uint32_t last_index;      /* index of the thread_state last selected */
  uint32_t stops;           /* thread states told to stop */
  unsigned completed, value, done, polls; _Bool stop_seen;
};
static struct vf_ghost G;
#define VF_G(p, o, n) ((void)0)
#include "vf.h"
#include "vf_monitor.h"

struct thread_state { struct vf_mutex mut_; struct vf_cv cv_; struct intrusive_queue queue_; _Bool stopRequested_; };
struct context { uint32_t threadCount_; uint32_t threads_size; struct thread_state* threadStates_; uint32_t nextThread_; };
struct op { struct task_base base; int receiver_; };
static struct thread_state TS;        /* stands for whichever thread_state is selected */
#define Q (TS.queue_)
static struct intrusive_queue O;      /* the by-value argument of append / prepend */
static struct context CX;
static struct op OPT;
#define T (OPT.base)
static struct task_base W0, WT, X0, XT;
static char vf_opaque_obj;
#define OPAQUE ((struct task_base*)&vf_opaque_obj)
static _Bool VF_CFG_stop_never_possible;

/* nextThread_ is only a placement hint: other threads may leave any value */
static void vf_interfere(void) { CX.nextThread_ = VF_nondet_u32(); }

/* well-formed queue, window form: empty | [h] | [h .. t] with an opaque middle */
#define QSHAPE(q, h, t) (((q)->head_ == NULL && (q)->tail_ == NULL) \
   || ((q)->head_ == &(h) && (((q)->tail_ == &(h) && (h).next == NULL) || ((q)->tail_ == &(t) && (t).next == NULL && ((h).next == &(t) || (h).next == OPAQUE)))))
static void queue_build(struct intrusive_queue* q, struct task_base* h, struct task_base* t) {
  t->next = NULL;
  if (VF_nondet_bool()) { q->head_ = NULL; q->tail_ = NULL; }
  else { q->head_ = h; if (VF_nondet_bool()) { h->next = NULL; q->tail_ = h; } else { h->next = VF_nondet_bool() ? t : OPAQUE; q->tail_ = t; } }
}

/* ================= layer 1: intrusive_queue (sequential) ================= */
_Bool intrusive_queue_empty(struct intrusive_queue* self)
__CPROVER_requires((self == &Q && QSHAPE(&Q, W0, WT)) || (self == &O && QSHAPE(&O, X0, XT)))
__CPROVER_assigns()
__CPROVER_ensures(__CPROVER_return_value == (self->head_ == NULL))
/*@BODY iq_empty*/

struct task_base* intrusive_queue_pop_front(struct intrusive_queue* self)
__CPROVER_requires(self == &Q && QSHAPE(&Q, W0, WT))
__CPROVER_requires(Q.head_ != NULL) /*P*/ /* pop_front is only called on a non-empty queue */
__CPROVER_assigns(Q.head_, Q.tail_)
__CPROVER_ensures(__CPROVER_return_value == __CPROVER_old(Q.head_)) /* the oldest item */
__CPROVER_ensures(Q.head_ == __CPROVER_old(Q.head_->next) && (Q.head_ == NULL ? Q.tail_ == NULL : Q.tail_ == __CPROVER_old(Q.tail_))) /* the rest of the queue is untouched; an emptied queue has no tail */
/*@BODY iq_pop_front*/

void intrusive_queue_push_back(struct intrusive_queue* self, struct task_base* item)
__CPROVER_requires(self == &Q && QSHAPE(&Q, W0, WT) && item == &T)
__CPROVER_assigns(Q.head_, Q.tail_, T.next, W0.next, WT.next)
__CPROVER_ensures(Q.tail_ == &T && T.next == NULL) /* the item is the new tail */
__CPROVER_ensures(__CPROVER_old(Q.head_) == NULL ? Q.head_ == &T : (Q.head_ == __CPROVER_old(Q.head_) && __CPROVER_old(Q.tail_)->next == &T)) /* linked after the old tail; head unchanged */
__CPROVER_ensures(__CPROVER_old(Q.tail_) == &WT ==> W0.next == __CPROVER_old(W0.next)) /* interior links untouched */
/*@BODY iq_push_back*/

void intrusive_queue_push_front(struct intrusive_queue* self, struct task_base* item)
__CPROVER_requires(self == &Q && QSHAPE(&Q, W0, WT) && item == &T)
__CPROVER_assigns(Q.head_, Q.tail_, T.next)
__CPROVER_ensures(Q.head_ == &T && T.next == __CPROVER_old(Q.head_)) /* the item is the new head, linked to the old one */
__CPROVER_ensures(__CPROVER_old(Q.tail_) == NULL ? Q.tail_ == &T : Q.tail_ == __CPROVER_old(Q.tail_))
/*@BODY iq_push_front*/

void intrusive_queue_append(struct intrusive_queue* self, struct intrusive_queue other)
__CPROVER_requires(self == &Q && QSHAPE(&Q, W0, WT) && other.head_ == O.head_ && other.tail_ == O.tail_ && QSHAPE(&O, X0, XT))
__CPROVER_assigns(Q.head_, Q.tail_, W0.next, WT.next)
__CPROVER_ensures(O.head_ == NULL ==> (Q.head_ == __CPROVER_old(Q.head_) && Q.tail_ == __CPROVER_old(Q.tail_) && W0.next == __CPROVER_old(W0.next) && WT.next == __CPROVER_old(WT.next)))
__CPROVER_ensures(O.head_ != NULL ==> (Q.tail_ == O.tail_ && (__CPROVER_old(Q.head_) == NULL ? Q.head_ == O.head_ : (Q.head_ == __CPROVER_old(Q.head_) && __CPROVER_old(Q.tail_)->next == O.head_)))) /* other's chain follows this queue's old tail */
__CPROVER_ensures(__CPROVER_old(Q.tail_) == &WT ==> W0.next == __CPROVER_old(W0.next))
/*@BODY iq_append*/

void intrusive_queue_prepend(struct intrusive_queue* self, struct intrusive_queue other)
__CPROVER_requires(self == &Q && QSHAPE(&Q, W0, WT) && other.head_ == O.head_ && other.tail_ == O.tail_ && QSHAPE(&O, X0, XT))
__CPROVER_assigns(Q.head_, Q.tail_, X0.next, XT.next)
__CPROVER_ensures(O.head_ == NULL ==> (Q.head_ == __CPROVER_old(Q.head_) && Q.tail_ == __CPROVER_old(Q.tail_) && X0.next == __CPROVER_old(X0.next) && XT.next == __CPROVER_old(XT.next)))
__CPROVER_ensures(O.head_ != NULL ==> (Q.head_ == O.head_ && O.tail_->next == __CPROVER_old(Q.head_) && (__CPROVER_old(Q.tail_) == NULL ? Q.tail_ == O.tail_ : Q.tail_ == __CPROVER_old(Q.tail_)))) /* other's chain precedes this queue's old head */
__CPROVER_ensures(O.tail_ == &XT ==> X0.next == __CPROVER_old(X0.next))
/*@BODY iq_prepend*/

/* ================= layer 2: thread_state (monitor mut_ / cv_ over queue_ and stopRequested_) ================= */
static void vf_monitor_enter(struct vf_mutex* m) {   /* other threads pushed / popped / requested stop meanwhile */
  TS.stopRequested_ = G.m.acq_stop ? 1 : VF_nondet_bool();
  queue_build(&Q, &W0, &WT);
  G.m.acq_head = Q.head_; G.m.acq_tail = Q.tail_; G.m.acq_head_next = (Q.head_ != NULL) ? Q.head_->next : NULL; G.m.acq_stop = TS.stopRequested_;
}
static void vf_monitor_exit(struct vf_mutex* m) {
  _Bool unchanged = Q.head_ == G.m.acq_head && Q.tail_ == G.m.acq_tail && WT.next == NULL && (G.m.acq_head == NULL || G.m.acq_head->next == G.m.acq_head_next);
  _Bool popped = G.m.acq_head != NULL && Q.head_ == G.m.acq_head_next && (Q.head_ == NULL ? Q.tail_ == NULL : Q.tail_ == G.m.acq_tail) && WT.next == NULL
              && (G.m.acq_head == G.m.acq_tail ? Q.head_ == NULL : 1);
  _Bool appended = Q.tail_ == &T && T.next == NULL
              && (G.m.acq_head == NULL ? Q.head_ == &T : (Q.head_ == G.m.acq_head && G.m.acq_tail->next == &T && (G.m.acq_tail == G.m.acq_head || G.m.acq_head->next == G.m.acq_head_next)));
  VF_P(unchanged || popped || appended, "monitor invariant restored at release: the queue is unchanged, has lost exactly its head, or has gained exactly one node at its tail");
  VF_P(!G.m.acq_stop || TS.stopRequested_, "stopRequested_ never reverts");
  G.m.rel_kind = appended ? REL_APPENDED : (unchanged ? REL_UNCHANGED : REL_POPPED);
  if (appended) { G.appends++; G.t_queued = 1; }
  if (popped && !unchanged && !appended) { G.pops++; G.have = 1; }
  G.m.rel_empty = (Q.head_ == NULL); G.m.rel_stop = TS.stopRequested_;
}
static void vf_cv_wait_check(struct vf_cv* cv, struct vf_mutex* m) {
  VF_CANARY("cv_.wait reachable");
  VF_P(Q.head_ == NULL && !TS.stopRequested_, "a worker blocks only while its queue is empty and stop was not requested, checked under the lock (no lost wake-up)");
}
#define TS_IDLE (!TS.mut_.held)
#define NOTIFIES (TS.cv_.notify_one + TS.cv_.notify_all)
#define OLD_NOTIFIES (__CPROVER_old(TS.cv_.notify_one) + __CPROVER_old(TS.cv_.notify_all))

struct task_base* thread_state_try_pop(struct thread_state* self)
__CPROVER_requires(!G.have) /*P*/ /* a popped task is executed before the next one is popped (none is dropped) */
__CPROVER_requires(self == &TS && TS_IDLE)
__CPROVER_assigns(TS, G.m, G.pops, G.have, W0.next, WT.next)
__CPROVER_ensures(TS_IDLE)
__CPROVER_ensures(__CPROVER_return_value == NULL || __CPROVER_return_value == &W0)
__CPROVER_ensures(__CPROVER_return_value != NULL ==> (G.have && G.m.rel_kind == REL_POPPED && __CPROVER_return_value == G.m.acq_head && G.pops == __CPROVER_old(G.pops) + 1)) /* the item returned is the head, removed exactly once */
__CPROVER_ensures(__CPROVER_return_value == NULL ==> (!G.have && G.pops == __CPROVER_old(G.pops))) /* nothing removed */
#ifdef VF_VERIFY_TS
/*@BODY try_pop*/
#else
;
#endif

#define POP_INV (TS.mut_.held && Q.head_ == G.m.acq_head && Q.tail_ == G.m.acq_tail && TS.stopRequested_ == G.m.acq_stop && QSHAPE(&Q, W0, WT) && (G.m.acq_head == NULL || G.m.acq_head->next == G.m.acq_head_next))
#define POP_RET_NULL (!TS.mut_.held && G.m.rel_kind == REL_UNCHANGED && G.m.rel_empty && G.m.rel_stop)
static struct task_base* vf_ret;
#define VF_SET_RET(v) (vf_ret = (v))
#ifdef VF_VERIFY_TS
static int pop__loop0(struct thread_state* self) {   /* summary of: while (queue_.empty()) { if (stopRequested_) return nullptr; cv_.wait(lk); } */
  VF_P(POP_INV, "cut point (pop wait loop head): lock held, queue consistent");
  vf_monitor_enter(&TS.mut_);
  if (VF_nondet_bool()) { Q.head_ = NULL; Q.tail_ = NULL; TS.stopRequested_ = 1; TS.mut_.held = 0; G.m.rel_kind = REL_UNCHANGED; G.m.rel_empty = 1; G.m.rel_stop = 1; vf_ret = NULL; return VF_X_RETURN; }
  __CPROVER_assume(POP_INV && !(/*@LOOPCOND pop.loop0.cond*/));
  return VF_X_CONTINUE;
}
#define VF_LOOP0 if (pop__loop0(self) == VF_X_RETURN) return vf_ret
#endif

struct task_base* thread_state_pop(struct thread_state* self)
__CPROVER_requires(!G.have) /*P*/ /* a popped task is executed before the next one is popped (none is dropped) */
__CPROVER_requires(self == &TS && TS_IDLE)
__CPROVER_assigns(TS, G.m, G.pops, G.have, W0.next, WT.next, vf_ret)
__CPROVER_ensures(TS_IDLE)
__CPROVER_ensures(__CPROVER_return_value == NULL || __CPROVER_return_value == &W0)
__CPROVER_ensures(__CPROVER_return_value != NULL ==> (G.have && G.m.rel_kind == REL_POPPED && __CPROVER_return_value == G.m.acq_head && G.pops == __CPROVER_old(G.pops) + 1))
__CPROVER_ensures(__CPROVER_return_value == NULL ==> (!G.have && G.pops == __CPROVER_old(G.pops) && POP_RET_NULL)) /* nullptr only if the queue was empty and stop requested, observed under the lock: no accepted item is dropped */
#ifdef VF_VERIFY_TS
/*@BODY pop*/

int pop__loop0_body(struct thread_state* self)
__CPROVER_requires(self == &TS && POP_INV && (/*@LOOPCOND pop.loop0.cond*/) && !G.have)
__CPROVER_assigns(TS, G.m, G.pops, G.have, W0.next, WT.next, vf_ret)
__CPROVER_ensures(__CPROVER_return_value == VF_X_RETURN || __CPROVER_return_value == VF_X_CONTINUE)
__CPROVER_ensures(__CPROVER_return_value == VF_X_RETURN ==> (POP_RET_NULL && vf_ret == NULL))
__CPROVER_ensures(__CPROVER_return_value == VF_X_CONTINUE ==> POP_INV)
__CPROVER_ensures(!G.have && G.pops == __CPROVER_old(G.pops))
/*@LOOPBODY pop.loop0.body*/
#else
;
#endif

_Bool thread_state_try_push(struct thread_state* self, struct task_base* task)
__CPROVER_requires(!G.t_queued) /*P*/ /* a task is placed in at most one queue, once */
__CPROVER_requires(self == &TS && TS_IDLE && task == &T)
__CPROVER_assigns(TS, G.m, G.appends, G.t_queued, T.next, W0.next, WT.next)
__CPROVER_ensures(TS_IDLE)
__CPROVER_ensures(__CPROVER_return_value ==> (G.m.rel_kind == REL_APPENDED && G.appends == __CPROVER_old(G.appends) + 1 && G.t_queued)) /* accepted: appended at the tail exactly once */
__CPROVER_ensures(__CPROVER_return_value ==> (G.m.acq_head == NULL ==> NOTIFIES > OLD_NOTIFIES)) /* a push into an empty queue wakes the sleeping worker */
__CPROVER_ensures(!__CPROVER_return_value ==> (G.appends == __CPROVER_old(G.appends) && !G.t_queued)) /* refused: the task is in no queue (the caller still owns it) */
#ifdef VF_VERIFY_TS
/*@BODY try_push*/
#else
;
#endif

void thread_state_push(struct thread_state* self, struct task_base* task)
__CPROVER_requires(!G.t_queued) /*P*/ /* a task is placed in at most one queue, once */
__CPROVER_requires(self == &TS && TS_IDLE && task == &T)
__CPROVER_assigns(TS, G.m, G.appends, G.t_queued, T.next, W0.next, WT.next)
__CPROVER_ensures(TS_IDLE)
__CPROVER_ensures(G.m.rel_kind == REL_APPENDED && G.appends == __CPROVER_old(G.appends) + 1 && G.t_queued)
__CPROVER_ensures(G.m.acq_head == NULL ==> NOTIFIES > OLD_NOTIFIES) /* a push into an empty queue wakes the sleeping worker */
#ifdef VF_VERIFY_TS
/*@BODY push*/
#else
;
#endif

void thread_state_request_stop(struct thread_state* self)
__CPROVER_requires(G.last_index == G.stops) /*P*/ /* thread states are told to stop one by one, each once */
__CPROVER_requires(self == &TS && TS_IDLE && G.stops < 0xffffffffu)
__CPROVER_assigns(TS, G.m, G.stops, W0.next, WT.next)
__CPROVER_ensures(TS_IDLE)
__CPROVER_ensures(G.m.rel_kind == REL_UNCHANGED && G.m.rel_stop) /* flag set; queued work is left in place (it is still run) */
__CPROVER_ensures(NOTIFIES > OLD_NOTIFIES) /* the worker sleeping on this queue is woken */
__CPROVER_ensures(G.stops == __CPROVER_old(G.stops) + 1)
#ifdef VF_VERIFY_TS
{ G.stops++;
/*@BODY ts_request_stop*/
}
#else
;
#endif

/* ================= layer 3: context ================= */
static struct thread_state* TS_AT(struct context* self, uint32_t i) {
  VF_P(i < self->threadCount_, "thread-state index within [0, threadCount)");
  G.last_index = i;
  return &TS;
}
#define EV_threads_size(self) ((self)->threads_size)
#define EV_threadStates_size(self) ((self)->threadCount_)
static void EV_execute(struct task_base* t) {
  VF_CANARY("task execution reachable");
  VF_P(!TS.mut_.held, "tasks are executed outside the queue lock");
  VF_P(G.have && t == &W0, "the task executed is the one that was popped");
  VF_P(G.exec == 0, "a popped task is executed exactly once");
  G.exec++; G.have = 0;
  struct task_base f; W0.next = f.next; G.dead = 1; G.snap = W0;   /* its completion may destroy the operation (t == &W0 was just checked; not dereferenced through the contract-returned pointer) */
}
#define CX_OK(self) ((self) == &CX && CX.threadCount_ > 0 && CX.threadCount_ <= 0x80000000u && CX.threads_size == CX.threadCount_)

#ifndef VF_VERIFY_TS
#ifndef VF_VERIFY_IQ
void context_enqueue(struct context* self, struct task_base* task)
__CPROVER_requires(!G.t_queued) /*P*/ /* an operation is handed to the pool at most once */
__CPROVER_requires(CX_OK(self) && task == &T && TS_IDLE && G.appends == 0 && G.exec == 0 && TS.mut_.acquired == 0 && NOTIFIES == 0)
__CPROVER_assigns(CX.nextThread_, TS, G.m, G.appends, G.t_queued, G.last_index, T.next, W0.next, WT.next)
__CPROVER_ensures(G.appends == 1 && G.t_queued && TS_IDLE) /* the task ends up in exactly one queue, exactly once, on every path (some try_push accepted it, or the blocking push did) */
__CPROVER_ensures(G.exec == 0) /* never run inline by the enqueuing thread */
/*@BODY enqueue*/

#define RUN_RET (!G.have && TS_IDLE && POP_RET_NULL)
static int run__loop0(struct context* self, uint32_t index) {   /* summary of while (true) { ... }: the only exit is the return inside */
  VF_P(!G.have && TS_IDLE, "cut point (worker loop head): no task in hand, no lock held");
  G.have = 0; TS.mut_.held = 0; G.m.rel_kind = REL_UNCHANGED; G.m.rel_empty = 1; G.m.rel_stop = 1;
  return VF_X_RETURN;
}
#define VF_RUNLOOP if (run__loop0(self, index) == VF_X_RETURN) return

void context_run(struct context* self, uint32_t index)
__CPROVER_requires(CX_OK(self) && index < CX.threadCount_ && TS_IDLE && !G.have && G.exec == 0 && G.pops == 0)
__CPROVER_assigns(TS, G, W0.next, WT.next, vf_ret)
__CPROVER_ensures(RUN_RET) /* a worker leaves only after its own queue was seen empty with stop requested, with no task in hand */
/*@BODY run*/

int run__loop0_body(struct context* self, uint32_t index)
__CPROVER_requires(CX_OK(self) && index < CX.threadCount_ && TS_IDLE && !G.have && G.exec == 0 && G.pops == 0 && !G.dead && TS.mut_.acquired == 0)
__CPROVER_assigns(TS, G, W0.next, WT.next, vf_ret)
__CPROVER_ensures(__CPROVER_return_value == VF_X_RETURN || __CPROVER_return_value == VF_X_CONTINUE)
__CPROVER_ensures(__CPROVER_return_value == VF_X_RETURN ==> (RUN_RET && G.exec == 0 && G.pops == 0))
__CPROVER_ensures(__CPROVER_return_value == VF_X_CONTINUE ==> (!G.have && TS_IDLE && G.exec == 1 && G.pops == 1)) /* one iteration = one task popped and run once */
__CPROVER_ensures(!G.dead || W0.next == G.snap.next) /* the executed task may be gone: never touched afterwards */
/*@BODY run_body*/

void context_request_stop(struct context* self)
__CPROVER_requires(CX_OK(self) && TS_IDLE && G.stops == 0 && TS.mut_.acquired == 0 && NOTIFIES == 0)
__CPROVER_assigns(TS, G.m, G.stops, G.last_index, W0.next, WT.next)
__CPROVER_ensures(G.stops == CX.threadCount_ && TS_IDLE) /* every worker is told to stop and woken */
/*@BODY request_stop*/

/* the schedule operation's task: done iff stop was requested, else value; exactly one */
static _Bool EV_stop_requested(struct op* self) { G.polls++; _Bool r = VF_nondet_bool(); if (r) G.stop_seen = 1; return r; }
static void EV_set_value(struct op* self) { VF_CANARY("set_value reachable"); VF_P(G.completed == 0, "exactly one completion signal"); VF_P(!G.stop_seen, "done is delivered instead of value when stop was requested first"); G.completed++; G.value++; }
static void EV_set_done(struct op* self) { VF_CANARY("set_done reachable"); VF_P(G.completed == 0, "exactly one completion signal"); VF_P(G.stop_seen, "done only when a stop request was observed"); G.completed++; G.done++; }
void op_execute(struct task_base* t)
__CPROVER_requires(t == &OPT.base && G.completed == 0 && G.value == 0 && G.done == 0 && G.polls == 0 && !G.stop_seen)
__CPROVER_assigns(G.completed, G.value, G.done, G.polls, G.stop_seen)
__CPROVER_ensures(G.completed == 1)
__CPROVER_ensures(VF_CFG_stop_never_possible ==> G.value == 1)
__CPROVER_ensures(!VF_CFG_stop_never_possible ==> (G.polls == 1 && (G.done == 1) == G.stop_seen))
/*@BODY op_execute*/
#endif
#endif

/* ================= harnesses ================= */
static void h_init(void) {
  TS.mut_.held = 0; TS.mut_.acquired = 0; TS.mut_.released = 0; TS.cv_.notify_one = 0; TS.cv_.notify_all = 0; TS.cv_.waits = 0;
  Q.head_ = /*@EXPR iq_head_init*/; Q.tail_ = /*@EXPR iq_tail_init*/; TS.stopRequested_ = /*@EXPR stop_init*/;
  T.next = NULL;
  G.m.acq_stop = VF_nondet_bool(); G.m.rel_kind = REL_NONE;
  G.pops = 0; G.appends = 0; G.t_queued = 0; G.have = 0; G.exec = 0; G.dead = 0; G.last_index = 0; G.stops = 0;
  G.completed = 0; G.value = 0; G.done = 0; G.polls = 0; G.stop_seen = 0;
  CX.threadCount_ = VF_nondet_u32(); CX.threads_size = CX.threadCount_; CX.threadStates_ = &TS; CX.nextThread_ = VF_nondet_u32();
}
#ifdef VF_VERIFY_IQ
void h_iq_empty(void) { h_init(); queue_build(&Q, &W0, &WT); queue_build(&O, &X0, &XT); _Bool r = intrusive_queue_empty(VF_nondet_bool() ? &Q : &O); VF_CANARY("after empty"); if (r) { VF_CANARY("empty can be true"); } else { VF_CANARY("empty can be false"); } }
void h_iq_pop_front(void) { h_init(); queue_build(&Q, &W0, &WT); __CPROVER_assume(Q.head_ != NULL); intrusive_queue_pop_front(&Q); VF_CANARY("after pop_front"); if (Q.head_ == NULL) { VF_CANARY("pop_front can empty the queue"); } }
void h_iq_push_front(void) { h_init(); queue_build(&Q, &W0, &WT); intrusive_queue_push_front(&Q, &T); VF_CANARY("after push_front"); }
void h_iq_push_back(void) { h_init(); queue_build(&Q, &W0, &WT); T.next = VF_nondet_bool() ? OPAQUE : NULL; intrusive_queue_push_back(&Q, &T); VF_CANARY("after push_back"); }
void h_iq_append(void) { h_init(); queue_build(&Q, &W0, &WT); queue_build(&O, &X0, &XT); intrusive_queue_append(&Q, O); VF_CANARY("after append"); if (O.head_ != NULL && Q.head_ == &W0) { VF_CANARY("append of a non-empty queue to a non-empty queue"); } }
void h_iq_prepend(void) { h_init(); queue_build(&Q, &W0, &WT); queue_build(&O, &X0, &XT); intrusive_queue_prepend(&Q, O); VF_CANARY("after prepend"); if (O.head_ != NULL && Q.tail_ == &WT) { VF_CANARY("prepend of a non-empty queue to a non-empty queue"); } }
#endif
#ifdef VF_VERIFY_TS
void h_try_pop(void) { h_init(); struct task_base* r = thread_state_try_pop(&TS); VF_CANARY("after try_pop"); if (r) { VF_CANARY("try_pop can pop"); } else { VF_CANARY("try_pop can fail"); } }
void h_pop(void) { h_init(); struct task_base* r = thread_state_pop(&TS); VF_CANARY("after pop"); if (r) { VF_CANARY("pop can pop"); } else { VF_CANARY("pop can return null"); } }
void h_pop_loop0_body(void) { struct thread_state* self = &TS; h_init(); TS.mut_.held = 1; vf_monitor_enter(&TS.mut_); __CPROVER_assume(/*@LOOPCOND pop.loop0.cond*/); int r = pop__loop0_body(&TS); if (r == VF_X_RETURN) { VF_CANARY("pop wait loop can return null"); } else { VF_CANARY("pop wait loop can wait"); } }
void h_try_push(void) { h_init(); _Bool r = thread_state_try_push(&TS, &T); VF_CANARY("after try_push"); if (r) { VF_CANARY("try_push can succeed"); } else { VF_CANARY("try_push can fail"); } }
void h_push(void) { h_init(); thread_state_push(&TS, &T); VF_CANARY("after push"); if (G.m.acq_head == NULL) { VF_CANARY("push into an empty queue"); } }
void h_ts_request_stop(void) { h_init(); thread_state_request_stop(&TS); VF_CANARY("after thread_state::request_stop"); }
#endif
#ifndef VF_VERIFY_TS
#ifndef VF_VERIFY_IQ
void h_enqueue(void) { h_init(); __CPROVER_assume(CX.threadCount_ > 0 && CX.threadCount_ <= 0x80000000u); context_enqueue(&CX, &T); VF_CANARY("after enqueue"); }
void h_run(void) { h_init(); __CPROVER_assume(CX.threadCount_ > 0 && CX.threadCount_ <= 0x80000000u); uint32_t i = VF_nondet_u32(); __CPROVER_assume(i < CX.threadCount_); context_run(&CX, i); VF_CANARY("after run"); }
void h_run_body(void) { h_init(); __CPROVER_assume(CX.threadCount_ > 0 && CX.threadCount_ <= 0x80000000u); uint32_t i = VF_nondet_u32(); __CPROVER_assume(i < CX.threadCount_);
  int r = run__loop0_body(&CX, i); if (r == VF_X_CONTINUE) { VF_CANARY("worker iteration can run a task"); } else { VF_CANARY("worker iteration can return"); } }
void h_request_stop(void) { h_init(); __CPROVER_assume(CX.threadCount_ > 0 && CX.threadCount_ <= 0x80000000u); context_request_stop(&CX); VF_CANARY("after request_stop"); }
void h_op_execute(void) { h_init(); VF_CFG_stop_never_possible = VF_nondet_bool(); op_execute(&OPT.base); VF_CANARY("after the pool operation's execute"); }
void lemma_pool(void) {
  h_init();
  VF_P(Q.head_ == NULL && Q.tail_ == NULL && !TS.stopRequested_, "lemma: a fresh thread_state has an empty queue and no stop request");
  VF_P(QSHAPE(&Q, W0, WT), "lemma: the empty queue is well formed");
  VF_CANARY("lemma reachable");
}
#endif
#endif
