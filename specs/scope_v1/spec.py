H1 = 'include/unifex/v1/async_scope.hpp'
H2 = 'include/unifex/v2/async_scope.hpp'
CLS1 = r'struct async_scope \{'
CLS2 = r'struct async_scope final \{'
NOP = r'struct _nest_op<Sender, Receiver>::type final \{'

# sequence(just_from([this]() noexcept { A }), B)  ->  { A }; B;     (predecessor runs to its value completion, then the
# successor is started: group `sequence`; just_from of a noexcept lambda completes inline with a value)
JOINS = r'scope_\.join\(\)|evt_\.async_wait\(\)'
STAGES = [
    (r'just_from\(\[this\]\(\) noexcept (\{[^{}]*\})\)', r'\1'),
    (r'(?s)return sequence\(\s*(\{[^{}]*\}|' + JOINS + r')\s*,\s*(\{[^{}]*\}|' + JOINS + r')\s*\);', r'\1; \2;'),
]

# ---- v1 async_scope (self = the v1 scope; scope_ = the v2 scope inside it)
v1_ctx = dict(
    cls='async_scope', members=['scope_'], methods=['request_stop', 'attach'],
    pre=STAGES + [
        (r'return scope_\.join\(\);', 'v2_scope_join(&scope_); return;'),
        (r'scope_\.join\(\)', 'v2_scope_join(&scope_)'),
        (r'scope_\.end_scope\(\)', 'v2_scope_end_scope(&scope_)'),
        (r'scope_\.join_started\(\)', 'AS_scope_ended(scope_.opState_)'),   # v2 join_started(): a plain read of the state word (variant forms only)
        (r'(?<![\w>.])stopSource_\.request_stop\(\)', 'EV_stop_source_request_stop(this)'),
        (r'(?<![\w>.])stopSource_\.get_token\(\)', 'EV_scope_token(this)'),
        (r'\binplace_stop_token\{\}', 'TOKEN_NONE'),
        # attach(): the attach sender carries the scope's stop token and is nested in the v2 scope
        (r'(?s)using attach_sender_t =[^;]*;', ''),
        (r'(?s)return nest\(\s*attach_sender_t\{([^,{}]*),\s*static_cast<Sender&&>\(sender\)\},\s*(\w+)\);', r'return EV_nest_attach_sender(this, \1, &\2);'),
        # forwarding members: which scope object the spawned work is nested in
        (r'(?s)return spawn_future\(static_cast<Sender&&>\(sender\), ([^()]*)\);', r'return EV_spawn_future(this, &(\1));'),
        (r'(?s)spawn_detached\(static_cast<Sender&&>\(sender\), ([^()]*)\);', r'EV_spawn_detached(this, &(\1));'),
        (r'(?s)return scope\.attach\(static_cast<Sender&&>\(sender\)\);', r'return async_scope_attach(scope);'),
    ],
)
# ---- v2 async_scope (self = the v2 scope)
v2_ctx = dict(
    cls='v2_scope', members=['opState_'], methods=['end_scope'],
    raii={'scope_reference': ('SR_CTOR', 'SR_DTOR')},
    pre=STAGES + [
        (r'\buse_count\((?=\w)', 'AS_use_count('),
        (r'\bscope_ended\(', 'AS_scope_ended('),   # not used by the pinned end_scope(); the obvious repair of the finding uses it
        (r'(?<![\w>.])evt_\.set\(\)', 'EV_evt_set(this)'),
        (r'(?<![\w>.])evt_\.async_wait\(\)', 'EV_evt_async_wait(this)'),
        # nest(): `if (scope_reference scope{this})` = construct the reference (try_record_start), test it, destroy it at every exit
        (r'if \(scope_reference scope\{this\}\) \{', 'scope_reference scope; SR_ACQUIRE(&scope, this); if (SR_BOOL(&scope)) {'),
        (r'(?s)return nest_sender<remove_cvref_t<Sender>>\{\s*static_cast<Sender&&>\(sender\), std::move\((\w+)\)\};', r'return EV_make_nest_sender(this, &\1);'),
        (r'return nest_sender<remove_cvref_t<Sender>>\{\};', 'return EV_make_empty_nest_sender(this);'),
    ],
)
# ---- v2 _nest_op (self / op = the nest operation)
nop_ctx = dict(
    cls='nest_op', members=['scope_', 'op_', 'receiver_'],
    pre=[
        (r'if \(op\.scope_\)', 'if (SR_BOOL(&op->scope_))'),
        (r'if \(scope_\)', 'if (SR_BOOL(&scope_))'),
        (r'unifex::start\(op\.op_\.get\(\)\)', 'EV_start_inner(op)'),
        (r'unifex::set_done\(std::move\(op\)\.receiver_\)', 'EV_set_done(op)'),
        (r'(?<![\w>.])op_\.destruct\(\)', 'EV_inner_destruct(this)'),
    ],
)

SPEC = dict(
    properties=['C08', 'C09'],
    ctx={},
    extracts={
        # the v2 word this group talks about (constants and initial value from the code)
        'scopeEndedBit': dict(file=H2, kind='expr', sig=r'static constexpr std::size_t scopeEndedBit\{([^}]*)\}'),
        'opState_init': dict(file=H2, kind='expr', sig=r'std::atomic<std::size_t> opState_\{([^}]*)\}'),
        'scope_ended': dict(file=H2, sig=r'static bool scope_ended\(std::size_t state\) noexcept'),
        'use_count_s': dict(file=H2, sig=r'static std::size_t use_count\(std::size_t state\) noexcept'),
        'v2_end_scope': dict(file=H2, sig=r'void end_scope\(\) noexcept', within=CLS2, ctx=v2_ctx),
        'v2_join': dict(file=H2, sig=r'\[\[nodiscard\]\] auto join\(\) noexcept', within=CLS2, ctx=v2_ctx),
        'v2_nest': dict(file=H2, sig=r'\[\[nodiscard\]\] auto nest\(Sender&& sender\) noexcept', within=CLS2, ctx=v2_ctx,
                        must_contain=[r'scope_reference scope\{this\}']),
        'nest_op_start': dict(file=H2, sig=r'friend void tag_invoke\(tag_t<start>, type& op\) noexcept', within=NOP, ctx=nop_ctx),
        'nest_op_dtor': dict(file=H2, sig=r'~type\(\)', within=NOP, ctx=nop_ctx),
        # v1
        'request_stop': dict(file=H1, sig=r'void request_stop\(\) noexcept', within=CLS1, ctx=v1_ctx),
        'get_stop_token': dict(file=H1, sig=r'inplace_stop_token get_stop_token\(\) noexcept', within=CLS1, ctx=v1_ctx),
        'complete': dict(file=H1, sig=r'\[\[nodiscard\]\] auto complete\(\) noexcept', within=CLS1, ctx=v1_ctx),
        'cleanup': dict(file=H1, sig=r'\[\[nodiscard\]\] auto cleanup\(\) noexcept', within=CLS1, ctx=v1_ctx),
        'attach': dict(file=H1, sig=r'\[\[nodiscard\]\] auto attach\(Sender&& sender\) noexcept', within=CLS1, ctx=v1_ctx),
        'spawn': dict(file=H1, sig=r'auto spawn\(Sender&& sender\)', within=CLS1, ctx=v1_ctx),
        'detached_spawn': dict(file=H1, sig=r'UNIFEX_ALWAYS_INLINE auto detached_spawn\(Sender&& sender\)', within=CLS1, ctx=v1_ctx),
        'nest_tag_invoke': dict(file=H1, sig=r'(?s)friend auto tag_invoke\(\s*tag_t<nest>,\s*Sender&& sender,\s*Scope& scope\)', within=CLS1, ctx=v1_ctx),
    },
    closed_world=[
        dict(file=H1, members=['scope_', 'stopSource_'], within=CLS1,
             allow=[r'inplace_stop_source stopSource_;', r'unifex::v2::async_scope scope_;']),
    ],
    units=[
        dict(name='v2_end_scope', harness='h_v2_end_scope', enforce='v2_scope_end_scope'),
        # the event is set only by the step that MAKES (closed and count 0) true.  FAILS on the code as written (finding): v1 cleanup()
        # always closes twice (request_stop, then join); the second end_scope() can overtake the last record_completion()
        dict(name='v2_end_scope_single_setter', harness='h_v2_end_scope', enforce='v2_scope_end_scope', defines=['VF_SINGLE_SETTER']),
        dict(name='v2_join', harness='h_v2_join', enforce='v2_scope_join', replace=['v2_scope_end_scope']),
        dict(name='v2_nest', harness='h_v2_nest', enforce='v2_scope_nest'),
        dict(name='nest_op_start', harness='h_nest_op_start', enforce='nest_op_start'),
        dict(name='nest_op_dtor', harness='h_nest_op_dtor', enforce='nest_op_dtor'),
        dict(name='request_stop', harness='h_request_stop', enforce='async_scope_request_stop', replace=['v2_scope_end_scope']),
        dict(name='get_stop_token', harness='h_get_stop_token', enforce='async_scope_get_stop_token'),
        dict(name='complete', harness='h_complete', enforce='async_scope_complete', replace=['v2_scope_join']),
        dict(name='cleanup', harness='h_cleanup', enforce='async_scope_cleanup', replace=['async_scope_request_stop', 'v2_scope_join']),
        dict(name='attach', harness='h_attach', enforce='async_scope_attach'),
        dict(name='spawn', harness='h_spawn', enforce='async_scope_spawn'),
        dict(name='detached_spawn', harness='h_detached_spawn', enforce='async_scope_detached_spawn'),
        dict(name='nest_tag_invoke', harness='h_nest_tag_invoke', enforce='async_scope_nest_tag_invoke', replace=['async_scope_attach']),
        dict(name='lemma_scope_protocol', harness='lemma_scope_protocol', mode='lemma'),
        dict(name='lemma_scope_single_setter', harness='lemma_scope_protocol', mode='lemma', defines=['VF_SINGLE_SETTER']),
        dict(name='lemma_scope_init', harness='lemma_scope_init', mode='lemma'),
    ],
    assumptions=[
        'sequence(just_from(f), s): f runs to completion, then s is started (groups sequence / just_from); written out as "first; second" by spec-level regexes',
        'async_manual_reset_event: set() wakes the waiters, async_wait() completes only after some set() (C16); after the wait the scope word is 0 by lemma_scope_protocol',
        'inplace_stop_source::request_stop() runs the registered callbacks (C03); the attach operation forwards the scope token\'s stop request to the attached child (group attach_op)',
        'scope_reference{scope} is try_record_start, ~scope_reference is record_completion (both proved in group scope_v2): SR_ACQUIRE / SR_DTOR are stubs that perform the admit / done step on the word under the same rely',
        'spawn_future(sender, scope) / spawn_detached(sender, scope) nest the sender through nest(sender, scope), i.e. through the v1 scope\'s tag_invoke(nest) = attach() (groups spawn_future, spawn_detached)',
        'a nest operation whose scope_ holds a reference has a constructed inner operation (constructor of _nest_op; invariant of group nest_sender)',
        'count < 2^40 (resource bound standing in for UNIFEX_ASSERT(opState + 2u > opState)); atomics sequentially consistent',
        'FINDING (not repaired): v2 end_scope() sets evt_ whenever the old count is 0, also when the scope was already closed. v1 cleanup() = request_stop() (end_scope + stop request) followed by join() (end_scope again + wait): the join\'s end_scope() can run between the last record_completion()\'s fetch_sub and its evt_.set(), set the event itself, the join completes, the scope is destroyed and record_completion() calls set() on the destroyed event (ASan heap-use-after-free: probes/native/async_scope_v1_cleanup_second_close_overtakes_last_completion.cpp; repair specs/scope_v1/proposed_repair.diff). The obligation is unit v2_end_scope_single_setter (+ lemma_scope_single_setter), tier=thorough only; the quick tier proves "set only when the new state is (closed, 0), and set by the step that makes it so" (true of the code as written and of the repaired code)',
    ],
    drops=['memory orders', 'noexcept/[[nodiscard]]/UNIFEX_ALWAYS_INLINE/friend, trailing return types',
           'evt_.set(), evt_.async_wait(), stopSource_.request_stop(), stopSource_.get_token() -> event stubs',
           'sequence / just_from sender composition in cleanup() and v2 join() -> sequential stages',
           'attach(): attach_sender_t{token, sender} nested in scope_ -> EV_nest_attach_sender(self, token, &scope_) (the sender payload is dropped)',
           'spawn / detached_spawn / tag_invoke(nest): the sender argument; spawn_future / spawn_detached -> EV_spawn_future / EV_spawn_detached keeping the scope argument',
           'v2 nest(): if (scope_reference scope{this}) -> SR_ACQUIRE + SR_BOOL + explicit destructor at every exit; nest_sender construction -> EV_make_nest_sender (moves the reference out) / EV_make_empty_nest_sender',
           '_nest_op start / destructor: unifex::start(inner) / set_done(receiver) / op_.destruct() -> event stubs; scope_reference -> bool via SR_BOOL',
           'spawn_on / spawn_call_on / detached_spawn_on / detached_spawn_call_on / attach_call / attach_on / attach_call_on are pure forwarding (on(), just_from()) to spawn / detached_spawn / attach and are not extracted',
           'template<typename... Ts> using future = v2::future<v1::async_scope, Ts...> is a type alias: the v1 future IS spawn_future\'s future (group spawn_future), nothing to extract'],
)
