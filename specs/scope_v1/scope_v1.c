/* C08 / C09: v1 async_scope (include/unifex/v1/async_scope.hpp) = a stop source + a v2 async_scope, and the parts of the v2
 * scope that groups scope_v2 / nest_sender do not reach: join(), nest(), _nest_op start / destructor.
 *   - request_stop(): closes the v2 scope and delivers a stop request; cleanup(): request_stop() THEN join - the stop request is
 *     delivered before (never after) the join can complete; complete(): join only, no stop request;
 *   - every started join goes through end_scope() exactly once and waits only on a closed scope;
 *   - attach(): the attached sender gets the scope's stop token and is nested in the v2 scope; spawn / detached_spawn /
 *     tag_invoke(nest) go through the v1 scope (hence through attach), never around it;
 *   - v2 nest(): admitted before close => a sender that holds the reference; after close => the empty sender, nothing counted;
 *     _nest_op::start: a nest operation without reference never starts its inner operation and completes with done.
 * The v2 word (opState_ = 2*count + open) is modelled as in scope_v2 (same rely / guarantee, lemma repeated for this group).
 * Bodies marked @BODY/@EXPR are extracted from /repo on every run; everything else here is specification. */
#include <stddef.h>
struct v2_scope { size_t opState_; int evt_; };
struct async_scope { int stopSource_; struct v2_scope scope_; };
struct scope_reference { struct v2_scope* scope_; };
struct nest_op { struct scope_reference scope_; int receiver_; int op_; };
enum { SENDER_NONE, SENDER_LIVE, SENDER_EMPTY };
struct vf_ghost {
  size_t lin_old, lin_new;   /* values at the verified call's latest write */
  unsigned lin_count;        /* number of writes (= end_scope() calls on the join paths) */
  unsigned evt_set;
  size_t my_refs;            /* units of count the calling party owns */
  unsigned stop_requests, waits;
  _Bool want_stop, waited;
  /* attach / spawn forwarding */
  unsigned nests, spawn_futures, spawn_detacheds;
  /* v2 nest(), _nest_op */
  unsigned acquired, released; int sender_kind;
  unsigned inner_started, done_sent, inner_destructs;
  _Bool dead; struct nest_op snap;
};
static struct vf_ghost G;
#define VF_G(p, o, n) (vf_guarantee((size_t)(o), (size_t)(n)), G.lin_old = (size_t)(o), G.lin_new = (size_t)(n), G.lin_count++)
static void vf_guarantee(size_t o, size_t n);
#include "vf.h"

static struct async_scope S1;
#define S2 (S1.scope_)
static struct nest_op NOP;

#define AS_COUNT_MAX ((size_t)1 << 40)
enum { TOKEN_NONE = 0, TOKEN_SCOPE = 7, H_ATTACHED = 11, H_FUTURE = 12, H_LIVE = 13, H_EMPTY = 14 };

static const size_t scopeEndedBit = /*@EXPR scopeEndedBit*/;
static const size_t opState_INIT = /*@EXPR opState_init*/;
static size_t AS_use_count(size_t state)
/*@BODY use_count_s*/
static _Bool AS_scope_ended(size_t state)
/*@BODY scope_ended*/

#define OPEN(s)   (((s) & (size_t)1) != 0)
#define COUNT(s)  ((s) >> 1)
#define STEP_ADMIT(o, n) (OPEN(o) && (n) == (o) + 2)
#define STEP_DONE(o, n)  (COUNT(o) >= 1 && (n) == (o) - 2)
#define STEP_CLOSE(o, n) ((n) == ((o) & ~(size_t)1))
static void vf_guarantee(size_t o, size_t n) {
  VF_P(STEP_ADMIT(o, n) || STEP_DONE(o, n) || STEP_CLOSE(o, n),
       "guarantee: every write to the scope word is admit(+1 while open), done(-1) or close");
}
#define RELY(o, n) ((!OPEN(o) ? !OPEN(n) : 1) && (!OPEN(o) ? COUNT(n) <= COUNT(o) : 1) \
                    && COUNT(n) >= G.my_refs && COUNT(n) < AS_COUNT_MAX)
static void vf_interfere(void) {
  size_t o = S2.opState_;
  size_t n = VF_nondet_size_t();
  __CPROVER_assume(RELY(o, n));
  S2.opState_ = n;
}

/* ---------------- event stubs ---------------- */
static void EV_evt_set(struct v2_scope* s) { VF_CANARY("evt_.set() reachable"); VF_P(s == &S2, "the event that is set is the scope's"); G.evt_set++; }
static void EV_evt_async_wait(struct v2_scope* s) {
  VF_CANARY("join wait reachable");
  VF_P(s == &S2 && G.waits == 0, "a started join waits exactly once");
  VF_P(!OPEN(S2.opState_), "C08: the scope is closed before the join starts waiting (nothing is admitted while it waits)");
  VF_P(G.want_stop ? G.stop_requests == 1 : G.stop_requests == 0,
       "C08: cleanup() delivers the stop request before (never after) its join can complete; complete()/join() request no stop");
  G.waits++;
  size_t n = VF_nondet_size_t();
  __CPROVER_assume(n == 0);     /* the wait completes only after some set(): the word is 0 and stays 0 (lemma_scope_protocol) */
  S2.opState_ = n; G.waited = 1;
}
static void EV_stop_source_request_stop(struct async_scope* s) {
  VF_CANARY("stopSource_.request_stop() reachable");
  VF_P(s == &S1 && G.stop_requests == 0, "one stop request per request_stop()/cleanup()");
  VF_P(!G.waited, "C08: the stop request is delivered before the join completed (the scope may be gone afterwards)");
  G.stop_requests++;
  vf_interfere();   /* the callbacks may complete outstanding operations inline */
}
static int EV_scope_token(struct async_scope* s) { VF_P(s == &S1, "token of the scope's own stop source"); return TOKEN_SCOPE; }
static int EV_nest_attach_sender(struct async_scope* s, int token, struct v2_scope* scope) {
  VF_CANARY("attach reachable");
  VF_P(s == &S1 && token == TOKEN_SCOPE, "C08: attached work observes the scope's stop token (request_stop()/cleanup() reach it)");
  VF_P(scope == &S2, "C08: attached work is nested (counted) in the scope's own v2 scope: the join waits for it");
  G.nests++;
  return H_ATTACHED;
}
static int EV_spawn_future(struct async_scope* s, const void* scope) {
  VF_P(s == &S1 && scope == (const void*)&S1, "C08/C09: spawn() nests through the v1 scope (attach: stop token + count), never around it");
  G.spawn_futures++;
  return H_FUTURE;
}
static void EV_spawn_detached(struct async_scope* s, const void* scope) {
  VF_P(s == &S1 && scope == (const void*)&S1, "C08/C09: detached_spawn() nests through the v1 scope (attach: stop token + count), never around it");
  G.spawn_detacheds++;
}

/* scope_reference{scope} / ~scope_reference: try_record_start / record_completion (bodies proved in group scope_v2) */
#define SR_CTOR(r) ((r)->scope_ = NULL)
#define SR_BOOL(r) ((r)->scope_ != NULL)
static void SR_ACQUIRE(struct scope_reference* r, struct v2_scope* s) {
  VF_P(s == &S2 && r->scope_ == NULL, "a reference is acquired once, on this scope");
  vf_interfere();
  if (OPEN(S2.opState_)) { S2.opState_ += 2; G.my_refs++; G.acquired++; r->scope_ = s; }
  else { r->scope_ = NULL; }
}
static void SR_DTOR(struct scope_reference* r) {
  if (r->scope_ != NULL) {
    VF_P(r->scope_ == &S2 && G.my_refs >= 1, "a released reference is one this party holds");
    vf_interfere();
    S2.opState_ -= 2; G.my_refs--; G.released++; r->scope_ = NULL;
  }
}
static int EV_make_nest_sender(struct v2_scope* s, struct scope_reference* r) {
  VF_CANARY("nest() can admit");
  VF_P(s == &S2 && r->scope_ == &S2, "a non-empty nest sender is built only with a held reference");
  VF_P(G.sender_kind == SENDER_NONE, "nest() returns one sender");
  G.sender_kind = SENDER_LIVE; r->scope_ = NULL;   /* std::move(scope): the sender now owns the unit */
  return H_LIVE;
}
static int EV_make_empty_nest_sender(struct v2_scope* s) {
  VF_CANARY("nest() can refuse");
  VF_P(G.sender_kind == SENDER_NONE, "nest() returns one sender");
  G.sender_kind = SENDER_EMPTY;
  return H_EMPTY;
}
static void vf_op_may_die(void) { struct nest_op f; f.scope_.scope_ = NULL; f.receiver_ = VF_nondet_int(); f.op_ = VF_nondet_int(); NOP = f; G.snap = f; G.dead = 1; }
static void EV_start_inner(struct nest_op* op) {
  VF_CANARY("inner start reachable");
  VF_P(op == &NOP && !G.dead && G.inner_started == 0 && G.done_sent == 0, "the inner operation is started at most once, and not after a completion");
  VF_P(NOP.scope_.scope_ != NULL, "C08: work is started only while it holds a scope reference (admitted before the close)");
  G.inner_started++;
  vf_op_may_die();   /* it may complete synchronously and the receiver may destroy the nest operation */
}
static void EV_set_done(struct nest_op* op) {
  VF_CANARY("set_done reachable");
  VF_P(op == &NOP && !G.dead && G.done_sent == 0 && G.inner_started == 0, "done is delivered at most once, and only instead of starting");
  VF_P(NOP.scope_.scope_ == NULL, "C08: only work nested after the close completes with done without being started");
  G.done_sent++;
  vf_op_may_die();
}
static void EV_inner_destruct(struct nest_op* op) {
  VF_P(op == &NOP && G.inner_destructs == 0, "the inner operation is destroyed at most once");
  VF_P(NOP.scope_.scope_ != NULL, "C02: an inner operation exists (and is destroyed) only in a nest operation that holds a reference");
  G.inner_destructs++;
}

/* ---------------- the v2 scope: end_scope / join / nest ---------------- */
void v2_scope_end_scope(struct v2_scope* self)
__CPROVER_requires(self == &S2 && G.my_refs == 0 && COUNT(S2.opState_) < AS_COUNT_MAX && G.lin_count < 8 && G.evt_set < 8)
__CPROVER_assigns(S2.opState_, G.lin_old, G.lin_new, G.lin_count, G.evt_set)
__CPROVER_ensures(G.lin_count == __CPROVER_old(G.lin_count) + 1 && G.lin_new == (G.lin_old & ~(size_t)1) && !OPEN(S2.opState_) && COUNT(S2.opState_) < AS_COUNT_MAX) /* closes, count untouched */
__CPROVER_ensures(G.evt_set >= __CPROVER_old(G.evt_set) && G.evt_set <= __CPROVER_old(G.evt_set) + 1)
__CPROVER_ensures((G.evt_set == __CPROVER_old(G.evt_set) + 1) ==> (G.lin_new == 0)) /* join event set only when closed and nothing outstanding */
__CPROVER_ensures((G.lin_new == 0 && G.lin_old != 0) ==> (G.evt_set == __CPROVER_old(G.evt_set) + 1)) /* and the step that MAKES (closed and count 0) true sets it */
#ifdef VF_SINGLE_SETTER
__CPROVER_ensures((G.evt_set == __CPROVER_old(G.evt_set) + 1) ==> (G.lin_old != 0)) /* ... and no other step does: a close that finds (closed, 0) must not set the event again (it could overtake the real setter) */
#endif
/*@BODY v2_end_scope*/

#define JOIN_PRE (G.my_refs == 0 && COUNT(S2.opState_) < AS_COUNT_MAX && G.lin_count < 4 && G.evt_set < 4 && G.waits == 0 && !G.waited)
void v2_scope_join(struct v2_scope* self)
__CPROVER_requires(self == &S2 && JOIN_PRE)
__CPROVER_requires(G.want_stop ? G.stop_requests == 1 : G.stop_requests == 0) /*P*/
__CPROVER_assigns(S2.opState_, G.lin_old, G.lin_new, G.lin_count, G.evt_set, G.waits, G.waited)
__CPROVER_ensures(G.lin_count == __CPROVER_old(G.lin_count) + 1) /* C08: exactly one end_scope() per started join */
__CPROVER_ensures(G.waits == 1 && G.waited && S2.opState_ == 0) /* completes after the wait: closed and every nested operation completed or discarded */
/*@BODY v2_join*/

int v2_scope_nest(struct v2_scope* self)
__CPROVER_requires(self == &S2 && G.my_refs == 0 && COUNT(S2.opState_) < AS_COUNT_MAX - 1 && G.acquired == 0 && G.released == 0 && G.sender_kind == SENDER_NONE)
__CPROVER_assigns(S2.opState_, G.my_refs, G.acquired, G.released, G.sender_kind)
__CPROVER_ensures(G.sender_kind != SENDER_NONE && (G.sender_kind == SENDER_LIVE) == (G.acquired == 1)) /* a sender that will run holds a reference; an admitted reference always ends up in the sender */
__CPROVER_ensures((__CPROVER_return_value == H_LIVE) == (G.sender_kind == SENDER_LIVE) && (__CPROVER_return_value == H_EMPTY) == (G.sender_kind == SENDER_EMPTY))
__CPROVER_ensures(G.released == 0 && G.my_refs == G.acquired) /* the unit is neither lost nor given back by nest() itself */
__CPROVER_ensures(G.acquired == 0 ==> !OPEN(S2.opState_)) /* refused only after the close */
/*@BODY v2_nest*/

void nest_op_start(struct nest_op* op)
__CPROVER_requires(op == &NOP && (NOP.scope_.scope_ == &S2 || NOP.scope_.scope_ == NULL) && G.inner_started == 0 && G.done_sent == 0 && !G.dead)
__CPROVER_assigns(NOP, G.inner_started, G.done_sent, G.dead, G.snap)
__CPROVER_ensures(__CPROVER_old(NOP.scope_.scope_) != NULL ? (G.inner_started == 1 && G.done_sent == 0) : (G.inner_started == 0 && G.done_sent == 1)) /* C08: nested after the close: never started, completes with done */
__CPROVER_ensures(G.dead && NOP.scope_.scope_ == G.snap.scope_.scope_ && NOP.receiver_ == G.snap.receiver_ && NOP.op_ == G.snap.op_) /* nothing touched after the hand-off */
/*@BODY nest_op_start*/

void nest_op_dtor_body(struct nest_op* self)
/*@BODY nest_op_dtor*/
void nest_op_dtor(struct nest_op* self)
__CPROVER_requires(self == &NOP && (NOP.scope_.scope_ == &S2 || NOP.scope_.scope_ == NULL) && G.inner_destructs == 0 && G.released == 0)
__CPROVER_requires(G.my_refs == (NOP.scope_.scope_ != NULL ? 1 : 0) && COUNT(S2.opState_) >= G.my_refs && COUNT(S2.opState_) < AS_COUNT_MAX)
__CPROVER_assigns(S2.opState_, NOP.scope_.scope_, G.inner_destructs, G.released, G.my_refs)
__CPROVER_ensures(G.inner_destructs == (__CPROVER_old(NOP.scope_.scope_) != NULL ? 1 : 0)) /* C02: an unstarted, admitted nest operation destroys its inner operation exactly once; an empty one has none */
__CPROVER_ensures(G.released == (__CPROVER_old(NOP.scope_.scope_) != NULL ? 1 : 0) && G.my_refs == 0) /* C08: and gives its unit back exactly once (discarded work does not block the join) */
{
  nest_op_dtor_body(self);
  SR_DTOR(&self->scope_);   /* member destruction after the body */
}

/* ---------------- the v1 scope ---------------- */
void async_scope_request_stop(struct async_scope* self)
__CPROVER_requires(self == &S1 && G.my_refs == 0 && COUNT(S2.opState_) < AS_COUNT_MAX && G.lin_count < 4 && G.evt_set < 4 && G.stop_requests == 0 && !G.waited)
__CPROVER_assigns(S2.opState_, G.lin_old, G.lin_new, G.lin_count, G.evt_set, G.stop_requests)
__CPROVER_ensures(G.lin_count == __CPROVER_old(G.lin_count) + 1 && !OPEN(S2.opState_) && COUNT(S2.opState_) < AS_COUNT_MAX) /* closes the scope: nothing is admitted afterwards */
__CPROVER_ensures(G.stop_requests == 1) /* C08: and delivers a stop request to the outstanding spawned / attached work */
__CPROVER_ensures(G.evt_set <= __CPROVER_old(G.evt_set) + 1)
/*@BODY request_stop*/

int async_scope_get_stop_token(struct async_scope* self)
__CPROVER_requires(self == &S1)
__CPROVER_assigns()
__CPROVER_ensures(__CPROVER_return_value == TOKEN_SCOPE) /* the token of the source that request_stop() signals and that attach() hands to attached work */
/*@BODY get_stop_token*/

#define V1_JOIN_PRE (self == &S1 && JOIN_PRE && G.lin_count == 0 && G.evt_set == 0 && G.stop_requests == 0)
void async_scope_complete(struct async_scope* self)
__CPROVER_requires(V1_JOIN_PRE && !G.want_stop)
__CPROVER_assigns(S2.opState_, G.lin_old, G.lin_new, G.lin_count, G.evt_set, G.stop_requests, G.waits, G.waited)
__CPROVER_ensures(G.lin_count == 1) /* exactly one end_scope() per started join */
__CPROVER_ensures(G.waits == 1 && G.waited && S2.opState_ == 0)
__CPROVER_ensures(G.stop_requests == 0) /* complete() does not cancel outstanding work */
/*@BODY complete*/

void async_scope_cleanup(struct async_scope* self)
__CPROVER_requires(V1_JOIN_PRE && G.want_stop)
__CPROVER_assigns(S2.opState_, G.lin_old, G.lin_new, G.lin_count, G.evt_set, G.stop_requests, G.waits, G.waited)
__CPROVER_ensures(G.lin_count == 2) /* request_stop()'s close + the join's own end_scope(), once each */
__CPROVER_ensures(G.waits == 1 && G.waited && S2.opState_ == 0)
__CPROVER_ensures(G.stop_requests == 1) /* C08: cleanup() additionally delivers a stop request (before waiting: EV_evt_async_wait / v2_scope_join's precondition) */
/*@BODY cleanup*/

int async_scope_attach(struct async_scope* self)
__CPROVER_requires(self == &S1) /*P*/
__CPROVER_requires(G.nests < 8)
__CPROVER_assigns(G.nests)
__CPROVER_ensures(G.nests == __CPROVER_old(G.nests) + 1 && __CPROVER_return_value == H_ATTACHED) /* nested once, with the scope's token, in the scope's v2 scope (EV_nest_attach_sender) */
/*@BODY attach*/

int async_scope_spawn(struct async_scope* self)
__CPROVER_requires(self == &S1 && G.spawn_futures == 0)
__CPROVER_assigns(G.spawn_futures)
__CPROVER_ensures(G.spawn_futures == 1 && __CPROVER_return_value == H_FUTURE) /* the future handed back is spawn_future's */
/*@BODY spawn*/

void async_scope_detached_spawn(struct async_scope* self)
__CPROVER_requires(self == &S1 && G.spawn_detacheds == 0)
__CPROVER_assigns(G.spawn_detacheds)
__CPROVER_ensures(G.spawn_detacheds == 1)
/*@BODY detached_spawn*/

int async_scope_nest_tag_invoke(struct async_scope* scope)
__CPROVER_requires(scope == &S1 && G.nests == 0)
__CPROVER_assigns(G.nests)
__CPROVER_ensures(G.nests == 1 && __CPROVER_return_value == H_ATTACHED) /* nest(sender, v1 scope) IS attach(): stop token + count */
/*@BODY nest_tag_invoke*/

/* ---------------- harnesses ---------------- */
static void h_common(void) {
  S2.opState_ = VF_nondet_size_t();
  G.lin_count = 0; G.evt_set = 0; G.my_refs = 0; G.stop_requests = 0; G.waits = 0; G.waited = 0; G.want_stop = 0;
  G.nests = 0; G.spawn_futures = 0; G.spawn_detacheds = 0;
  G.acquired = 0; G.released = 0; G.sender_kind = SENDER_NONE; G.inner_started = 0; G.done_sent = 0; G.inner_destructs = 0; G.dead = 0;
}
void h_v2_end_scope(void) { h_common(); G.lin_count = VF_nondet_u32(); G.evt_set = VF_nondet_u32(); v2_scope_end_scope(&S2); VF_CANARY("after end_scope"); if (G.lin_old == 0) { VF_CANARY("end_scope on a scope that is already closed with nothing outstanding"); } if (G.lin_new != 0) { VF_CANARY("end_scope with work outstanding"); } }
void h_v2_join(void) { h_common(); G.want_stop = VF_nondet_bool() ? 1 : 0; G.stop_requests = VF_nondet_u32(); G.lin_count = VF_nondet_u32(); G.evt_set = VF_nondet_u32(); v2_scope_join(&S2); VF_CANARY("after join"); }
void h_v2_nest(void) { h_common(); int r = v2_scope_nest(&S2); VF_CANARY("after nest"); if (r == H_LIVE) { VF_CANARY("nest into an open scope"); } else { VF_CANARY("nest into a closed scope"); } }
static void h_nop(void) { h_common(); if (VF_nondet_bool()) { NOP.scope_.scope_ = &S2; G.my_refs = 1; } else { NOP.scope_.scope_ = NULL; } NOP.receiver_ = VF_nondet_int(); NOP.op_ = VF_nondet_int(); }
void h_nest_op_start(void) { h_nop(); nest_op_start(&NOP); VF_CANARY("after nest op start"); if (G.done_sent) { VF_CANARY("start of an empty nest operation"); } else { VF_CANARY("start of an admitted nest operation"); } }
void h_nest_op_dtor(void) { h_nop(); nest_op_dtor(&NOP); VF_CANARY("after ~nest_op"); if (G.inner_destructs) { VF_CANARY("destruction of an admitted, unstarted nest operation"); } }
void h_request_stop(void) { h_common(); G.lin_count = VF_nondet_u32(); G.evt_set = VF_nondet_u32(); async_scope_request_stop(&S1); VF_CANARY("after request_stop"); }
void h_get_stop_token(void) { h_common(); async_scope_get_stop_token(&S1); VF_CANARY("after get_stop_token"); }
void h_complete(void) { h_common(); async_scope_complete(&S1); VF_CANARY("after complete"); }
void h_cleanup(void) { h_common(); G.want_stop = 1; async_scope_cleanup(&S1); VF_CANARY("after cleanup"); }
void h_attach(void) { h_common(); G.nests = VF_nondet_u32(); async_scope_attach(&S1); VF_CANARY("after attach"); }
void h_spawn(void) { h_common(); async_scope_spawn(&S1); VF_CANARY("after spawn"); }
void h_detached_spawn(void) { h_common(); async_scope_detached_spawn(&S1); VF_CANARY("after detached_spawn"); }
void h_nest_tag_invoke(void) { h_common(); async_scope_nest_tag_invoke(&S1); VF_CANARY("after tag_invoke(nest)"); }

/* ---------------- M4 lemmas over the contracts (the v2 word as this group uses it) ---------------- */
void lemma_scope_protocol(void) {
  size_t o = VF_nondet_size_t(), n = VF_nondet_size_t();
  __CPROVER_assume(COUNT(o) < AS_COUNT_MAX);
  int kind = VF_nondet_int();
  __CPROVER_assume(kind >= 0 && kind <= 2);
  _Bool evt;
  if (kind == 0) { __CPROVER_assume(STEP_ADMIT(o, n)); evt = 0; }            /* SR_ACQUIRE */
  else if (kind == 1) { __CPROVER_assume(STEP_DONE(o, n)); evt = (n == 0); } /* SR_DTOR = record_completion (scope_v2) */
#ifdef VF_SINGLE_SETTER
  else { __CPROVER_assume(STEP_CLOSE(o, n)); evt = (n == 0 && o != 0); }
#else
  else { __CPROVER_assume(STEP_CLOSE(o, n)); evt = VF_nondet_bool() ? 1 : 0; __CPROVER_assume((!evt || n == 0) && (!(n == 0 && o != 0) || evt)); }   /* end_scope's quick contract */
#endif
  VF_CANARY("lemma premises satisfiable");
  size_t others = VF_nondet_size_t();
  __CPROVER_assume(others <= COUNT(o) && (kind == 1 ? others <= COUNT(o) - 1 : 1));
  VF_P((!OPEN(o) ? !OPEN(n) : 1), "lemma: open bit never comes back");
  VF_P((!OPEN(o) ? COUNT(n) <= COUNT(o) : 1), "lemma: once closed the count never grows (nothing starts after close)");
  VF_P(COUNT(n) >= others, "lemma: a step never consumes a unit owned by another party");
  VF_P(evt ==> (!OPEN(n) && COUNT(n) == 0), "lemma: join event set only when closed and nothing outstanding");
  VF_P((n == 0 && o != 0) ==> evt, "lemma: the step that makes (closed and count 0) true sets the join event");
  VF_P((o == 0) ==> (n == 0 || kind == 1), "lemma: (closed,0) is absorbing (done needs an owned unit, which count 0 excludes)");
  VF_P((o == 0 && kind == 1) ==> 0, "lemma: no completion step is enabled at count 0");
#ifdef VF_SINGLE_SETTER
  VF_P(evt ==> o != 0, "lemma: only the step that reaches (closed, 0) sets the join event (a single setter: nobody overtakes it)");
#endif
}
void lemma_scope_init(void) {
  VF_P(OPEN(opState_INIT) && COUNT(opState_INIT) == 0, "lemma: a fresh scope is open with count 0");
  VF_P(scopeEndedBit == 1, "lemma: the open bit is bit 0 (count = state >> 1)");
  size_t s = VF_nondet_size_t();
  VF_P(AS_use_count(s) == COUNT(s), "lemma: use_count(state) = state >> 1");
  VF_P(AS_scope_ended(s) == !OPEN(s), "lemma: scope_ended(state) <=> open bit clear");
  VF_CANARY("lemma_scope_init reachable");
}
