H = 'include/unifex/stop_immediately.hpp'
NS = r'namespace _stop_immediately \{'
CNC = r'struct cancel_next_callback \{'
NR = r'struct next_receiver \{'
NSND = r'struct next_sender \{'
CSND = r'struct cleanup_sender \{'
CONC = r'struct concrete_receiver final : next_receiver_base \{'
WRAP = r'struct receiver_wrapper \{'


def refs(*names):
    """C++ reference members / locals that become C pointers of the same name: r.m -> r->m (general rule missing from the
    global table, which only knows `auto& r = E;`)"""
    return [(r'(?<![\w.>])' + n + r'\.(?=\w)', n + '->') for n in names]


# UNIFEX_TRY { A } UNIFEX_CATCH(...) { B }  ->  { A' } if (0) { vf_catch_k: ; B }  (DESIGN 3.1, last row; not in the global table);
# the two handlers of the next operation's start() are told apart by their first statement
TRY_CATCH_NEXT = [
    (r'UNIFEX_TRY\s*\{', '{'),
    (r'\}\s*UNIFEX_CATCH\s*\(\.\.\.\)\s*\{(?=\s*stream_\.nextReceiver_ = nullptr;)', '} if (0) { vf_catch_in: ;'),
    (r'\}\s*UNIFEX_CATCH\s*\(\.\.\.\)\s*\{(?=\s*stream_\.state_\.store\()', '} if (0) { vf_catch_out: ;'),
]
TRY_CATCH_ONE = [(r'UNIFEX_TRY\s*\{', '{'), (r'\}\s*UNIFEX_CATCH\s*\(\.\.\.\)\s*\{', '} if (0) { vf_catch: ;')]

ENUMS = {'state': 'ST'}

k_ctx = dict(cls='cancel_next_callback', members=['stream_'], pre=[
    (r'stream_\.stopSource_\.request_stop\(\);', 'EV_request_stop(stream_);'),
    (r'std::move\(\*receiver\)\.set_done\(\);', 'EV_receiver_set_done(receiver);'),
] + refs('stream_'))

s_ctx = dict(cls='next_receiver', members=['stream_'], pre=[
    (r'auto& strm = stream_;', 'struct stream* strm = stream_;'),
    (r'strm\.nextOp_\.destruct\(\);', 'EV_nextOp_destruct(strm);'),
    (r'deliverSignalTo\(receiver\);', 'EV_deliver(receiver);'),
    (r'stream_\.cleanupOp_->start_cleanup\(\);', 'EV_start_cleanup(stream_.cleanupOp_);'),
] + refs('stream_', 'strm'))

# instrumentation of accesses to the next operation object (no statement is changed): see VF_OP in the template
n_ctx = dict(cls='next_op', members=['stream_', 'receiver_', 'concreteReceiver_', 'stopCallback_'], pre=[
    (r'auto stopToken = get_stop_token\(receiver_\);', 'EV_get_stop_token(this);'),
    (r'stopToken\.stop_requested\(\)', 'EV_stop_requested(this)'),
    (r'static_assert\([^;]*\);', ''),
    (r'(?s)stream_\.nextOp_\.construct_with\(\[&\] \{\s*return unifex::connect\([^;]*;\s*\}\);', 'if (EV_nextOp_construct(stream_)) goto vf_catch_out;'),
    # `stream& strm = stream_;` (a local alias taken BEFORE the callback is registered): reference -> pointer
    (r'stream& strm = stream_;', 'struct stream* strm = stream_;'),
    (r'(?s)stopCallback_\.construct\(\s*std::move\(stopToken\), cancel_next_callback\{(?:stream_|strm)\}\);', 'if (EV_cb_construct(this)) goto vf_catch_in;'),
    (r'unifex::start\((stream_|strm)\.nextOp_\.get\(\)\);', r'EV_source_next_start(\1);'),
    (r'stream_\.nextOp_\.destruct\(\);', 'EV_nextOp_destruct(stream_);'),
    (r'unifex::set_done\(std::move\(receiver_\)\);', 'EV_consumer_done(this);'),
    (r'unifex::set_error\(std::move\(receiver_\), std::current_exception\(\)\);', 'EV_consumer_error(this);'),
] + TRY_CATCH_NEXT + refs('stream_', 'strm'),
    post=[(r'\bself->', 'VF_OP(self)->')])

# inside the cleanup operation the bare name `cleanupOp_` is its own manual_lifetime member (not touched by start()),
# `stream_.cleanupOp_` the stream's pointer: only stream_ / receiver_ are rewritten as members of this class
l_ctx = dict(cls='cleanup_op', members=['stream_', 'receiver_'], pre=[
    (r'(?<![\w.>])start_cleanup\(\);', 'EV_start_cleanup(this);'),
    (r'unifex::set_done\(std::move\(receiver_\)\);', 'EV_cleanup_done(this);'),
] + refs('stream_'))

sc_ctx = dict(cls='cleanup_op', members=['stream_', 'receiver_'], pre=[
    (r'(?s)cleanupOp_\.construct_with\(\[&\] \{\s*return unifex::connect\([^;]*;\s*\}\);', 'if (EV_src_cleanup_construct(this)) goto vf_catch;'),
    (r'unifex::start\(cleanupOp_\.get\(\)\);', 'EV_src_cleanup_start(this);'),
    (r'(?s)unifex::set_error\(\s*std::move\(receiver_\), std::move\(stream_\.nextError_\)\);', 'EV_cleanup_error_next(this);'),
    (r'unifex::set_error\(std::move\(receiver_\), std::current_exception\(\)\);', 'EV_cleanup_error(this);'),
] + TRY_CATCH_ONE + refs('stream_'))

conc_ctx = dict(cls='concrete_receiver', members=['op_'], pre=[
    (r'op_\.stopCallback_\.destruct\(\);', 'EV_cb_destruct(op_);'),
    (r'(?s)unifex::set_(value|done|error)\(std::move\(op_\.receiver_\)[^;]*\);', r'EV_consumer_\1(op_);'),
])

wrap_ctx = dict(cls='receiver_wrapper', members=['op_'], pre=[
    (r'auto& op = op_;', 'struct cleanup_op* op = op_;'),
    (r'op\.cleanupOp_\.destruct\(\);', 'EV_src_cleanup_destruct(op);'),
    (r'(?s)unifex::set_error\(\s*std::move\(op\.receiver_\), std::move\(op\.stream_\.nextError_\)\);', 'EV_cleanup_error_next(op);'),
    (r'unifex::set_done\(std::move\(op\.receiver_\)\);', 'EV_cleanup_done(op);'),
    (r'unifex::set_error\(std::move\(op\.receiver_\), \(Error&&\)error\);', 'EV_cleanup_error(op);'),
    (r'op\.stream_\.nextError_', 'op->stream_->nextError_'),
])

SPEC = dict(
    properties=['C13', 'C02'],   # C02: no access to the stream / the next operation after the consumer may have been signalled
    ctx=dict(enums=ENUMS),
    extracts={
        # the six-state enum, generated from the source (enumerators in source order, prefixed ST_)
        'state_enum': dict(file=H, kind='expr', sig=r'enum class state \{([^}]*)\}', ctx=dict(pre=[(r'\b([a-z_]+)\b', r'ST_\1')])),
        'state_init': dict(file=H, kind='expr', sig=r'std::atomic<state> state_\{([^}]*)\}'),
        'cleanupOp_init': dict(file=H, kind='expr', sig=r'cleanup_operation_base\* cleanupOp_ = ([^;]*);'),
        'nextReceiver_init': dict(file=H, kind='expr', sig=r'next_receiver_base\* nextReceiver_ = ([^;]*);'),
        'cancel_callback': dict(file=H, sig=r'void operator\(\)\(\) noexcept', within=[NS, CNC], ctx=k_ctx, must_contain=[r'stopSource_\.request_stop\(\)|nextReceiver_']),
        'handle_signal': dict(file=H, sig=r'void handle_signal\(Func deliverSignalTo\) noexcept', within=[NS, NR], ctx=s_ctx),
        'next_start': dict(file=H, sig=r'void start\(\) noexcept', within=[NS, NSND], ctx=n_ctx, must_contain=[r'nextReceiver_ = &concreteReceiver_']),
        'cleanup_start': dict(file=H, sig=r'void start\(\) noexcept', within=[NS, CSND], ctx=l_ctx, must_contain=[r'source_next_active_cleanup_requested']),
        'start_cleanup': dict(file=H, sig=r'void start_cleanup\(\) noexcept final', within=[NS, CSND], ctx=sc_ctx),
        'concrete_set_value': dict(file=H, sig=r'void set_value\(Values&&\.\.\. values\) && noexcept final', within=[NS, CONC], ctx=conc_ctx),
        'concrete_set_done': dict(file=H, sig=r'void set_done\(\) && noexcept final', within=[NS, CONC], ctx=conc_ctx),
        'concrete_set_error': dict(file=H, sig=r'void set_error\(std::exception_ptr ex\) && noexcept final', within=[NS, CONC], ctx=conc_ctx),
        'wrapper_set_done': dict(file=H, sig=r'void set_done\(\) && noexcept', within=[NS, CSND, WRAP], ctx=wrap_ctx),
        'wrapper_set_error': dict(file=H, sig=r'void set_error\(Error&& error\) && noexcept', within=[NS, CSND, WRAP], ctx=wrap_ctx),
    },
    closed_world=[dict(file=H, members=['state_', 'cleanupOp_', 'nextReceiver_'], within=NS, allow=[
        r'std::atomic<state> state_\{state::not_started\};',
        r'cleanup_operation_base\* cleanupOp_ = nullptr;',
        r'next_receiver_base\* nextReceiver_ = nullptr;',
        # the cleanup operation's own manual_lifetime member of the same name (the source stream's cleanup operation), declaration
        r'manual_lifetime<cleanup_operation_t<SourceStream, receiver_wrapper>>\s*cleanupOp_;',
    ])],
    units=[
        dict(name='cancel_next_callback', harness='h_cancel_callback', enforce='cancel_next_callback_call'),
        dict(name='handle_signal', harness='h_handle_signal', enforce='next_receiver_handle_signal'),
        dict(name='next_start', harness='h_next_start', enforce='next_op_start'),
        # the same text, with the consumer allowed to destroy the next operation as soon as the stop callback has completed it
        # (operation-state lifetime rule): start() must not read a member of the operation after registering the callback
        dict(name='next_start_op_lifetime', harness='h_next_start', enforce='next_op_start', defines=['VF_OP_MAY_DIE']),
        dict(name='cleanup_start', harness='h_cleanup_start', enforce='cleanup_op_start'),
        dict(name='start_cleanup', harness='h_start_cleanup', enforce='cleanup_op_start_cleanup'),
        dict(name='concrete_receiver_set_value', harness='h_concrete_set_value', enforce='concrete_receiver_set_value'),
        dict(name='concrete_receiver_set_done', harness='h_concrete_set_done', enforce='concrete_receiver_set_done'),
        dict(name='concrete_receiver_set_error', harness='h_concrete_set_error', enforce='concrete_receiver_set_error'),
        dict(name='receiver_wrapper_set_done', harness='h_wrapper_set_done', enforce='receiver_wrapper_set_done'),
        dict(name='receiver_wrapper_set_error', harness='h_wrapper_set_error', enforce='receiver_wrapper_set_error'),
        dict(name='lemma_si_protocol', harness='lemma_si_protocol', mode='lemma'),
        dict(name='lemma_si_rely', harness='lemma_si_rely', mode='lemma'),
        dict(name='lemma_si_init', harness='lemma_si_init', mode='lemma'),
    ],
    assumptions=[
        'consumer protocol (stream concept): next() is not called again before the previous next() was signalled, not after done / error, and not after cleanup(); cleanup() is called once, after the last next() was signalled',
        'the stop callback runs at most once per registration, only while registered; its destructor waits for a run in progress on another thread and returns at once when called from inside the callback (C03, specs/stop_token)',
        'the source stream completes each started next() exactly once, by calling one of next_receiver::set_value/set_done/set_error (each of which is handle_signal with a delivery lambda); unifex::start() does not throw',
        'unit next_start assumes that the consumer does not destroy the next operation while its start() is still running; unit next_start_op_lifetime drops that assumption (the consumer may destroy the operation as soon as the stop callback has completed it) and checks that start() reads no member of the operation after registering the callback (fixed defect C13-stop-immediately-start-reads-op-after-callback)',
        'the cleanup operation passed to start_cleanup lives until its receiver is completed; the stream outlives its cleanup',
        'NOT REACHED: element order / values of every adaptor, reduce_stream / for_each folds, type_erased_stream, the delivery lambdas of next_receiver::set_value/set_done/set_error (nextError_ hand-off), take_until (group specs/take_until)',
        'atomics sequentially consistent',
    ],
    drops=['memory orders', 'template genericity (SourceStream, Values, Receiver)', 'reference members -> pointers (spec-level rule)',
           'virtual dispatch next_receiver_base::set_* -> event stubs EV_receiver_set_done / EV_deliver (their targets, concrete_receiver::set_*, are verified in their own units)',
           'manual_lifetime construct / destruct of nextOp_, stopCallback_, cleanupOp_ -> event stubs; connect() may throw, start() does not',
           'UNIFEX_TRY / UNIFEX_CATCH -> goto vf_catch at the may-throw stubs', 'static_assert', 'payload values and exception_ptr values',
           'get_stop_token(receiver_).stop_requested() -> EV_stop_requested'],
)
