/* C13 (scoped): include/unifex/stop_immediately.hpp -- the six-state state_ machine of the stop_immediately stream.
 * Bodies marked @BODY / @EXPR are extracted from /repo on every run; everything else here is specification.
 *
 * M1: rely/guarantee on state_ between four parties
 *     N  the consumer inside next-operation start()            stores  -> source_next_active   (error paths: -> source_next_completed)
 *     K  the stop callback (cancel_next_callback)               CAS     source_next_active -> source_next_active_stream_stopped
 *     S  the source's next() completion (handle_signal)         CAS     source_next_active -> source_next_completed  (wins: delivers)
 *                                                               CAS     ..._stream_stopped -> source_next_completed  (swallowed)
 *     L  the consumer inside cleanup-operation start()          CAS     ..._stream_stopped -> ..._cleanup_requested
 * Every atomic write and every event stub executes one step of the abstract transition system `step()` below and
 * checks that it is enabled; M4: lemma units prove the protocol invariant inductive over those steps, every step of a
 * party inside the relies of the others, and the property statements as consequences. */
#include <stddef.h>
#include <stdint.h>

enum { /*@EXPR state_enum*/ };
#define W_NS        ST_not_started
#define W_COMPLETED ST_source_next_completed
#define W_ACTIVE    ST_source_next_active
#define W_STOPPED   ST_source_next_active_stream_stopped
#define W_CREQ      ST_source_next_active_cleanup_requested

struct next_op; struct cleanup_op; struct stream;
struct concrete_receiver { struct next_op* op_; };          /* next_receiver_base / concrete_receiver */
struct stream { int state_; struct cleanup_op* cleanupOp_; struct concrete_receiver* nextReceiver_; _Bool nextError_; };
struct next_op { struct stream* stream_; struct concrete_receiver concreteReceiver_; int receiver_; int stopCallback_; };
struct cleanup_op { struct stream* stream_; int receiver_; };
struct cancel_next_callback { struct stream* stream_; };
struct next_receiver { struct stream* stream_; };
struct receiver_wrapper { struct cleanup_op* op_; };

enum { N_OUT, N_IN };                                   /* consumer: outside / inside next-operation start() */
enum { CB_NONE, CB_LIVE, CB_DESTROYED };                /* the stop callback of the current next operation */
enum { K_IDLE, K_RUNNING, K_DONE };                     /* the stop callback's invocation */
enum { S_IDLE, S_FLIGHT, S_HANDLING, S_DELIVERING };    /* source next(): none outstanding / started / completion handler running, undecided / it won and is delivering */
enum { L_NONE, L_IN, L_DONE };                          /* cleanup-operation start(): not called / before its decision / decided */
enum { P_N, P_K, P_S, P_L, P_X };

/* protocol state: the shared word and the auxiliary variables */
struct proto {
  uint8_t w;                 /* state_ */
  uint8_t np, cb, k, s, lq;
  uint8_t cs;                /* start_cleanup() calls */
  _Bool kw, sw;              /* this round: the stop callback / the next completion took the state from active (owns nextReceiver_) */
  _Bool sig;                 /* the consumer has been signalled for its latest next() (true before the first one) */
  _Bool ld;                  /* cleanup completed at once: nothing was ever started */
};

struct vf_ghost {
  int me;
  struct proto p;            /* p.w is not used: the word is STRM.state_ */
  int lin_old, lin_new; unsigned lin_count;
  _Bool nop;                 /* nextOp_ holds a connected operation */
  _Bool dead; struct stream snap;     /* the consumer was signalled / cleanup was started: the stream may be gone */
  _Bool op_dead;             /* the consumer may have destroyed the next operation */
  unsigned stop_requests, delivers, swallows, start_cleanups, cleanup_dones, cleanup_errors;
  unsigned nextop_constructs, nextop_destructs, cb_constructs, cb_destructs, source_starts, consumer_signals, consumer_dones, consumer_errors;
  unsigned polls; _Bool stop_seen;
  unsigned src_cleanup_constructs, src_cleanup_starts, src_cleanup_destructs;
  struct cleanup_op* clop_at_cas;
};
static struct vf_ghost G;
static struct stream STRM;
static struct next_op NOP;
static struct cleanup_op CLOP;
static struct cancel_next_callback CNC;
static struct next_receiver NRCV;
static struct receiver_wrapper WRAP;
#define RCV (NOP.concreteReceiver_)

#define STATE_INIT (/*@EXPR state_init*/)
#define CLEANUPOP_INIT ((struct cleanup_op*)/*@EXPR cleanupOp_init*/)
#define NEXTRECEIVER_INIT ((struct concrete_receiver*)/*@EXPR nextReceiver_init*/)

static void vf_guar(void* p, uint64_t o, uint64_t n);
#define VF_G(p, o, n) vf_guar((void*)(p), (uint64_t)(o), (uint64_t)(n))
#include "vf.h"

/* ------------------------------------------------------------------------------------------------
 * protocol invariant
 * ---------------------------------------------------------------------------------------------- */
#define IMP(a, b) (!(a) || (b))
#define IN3(x, a, b, c) ((x) == (a) || (x) == (b) || (x) == (c))
#define INVV(w, np, cb, k, s, lq, cs, kw, sw, sig, ld) ( \
     ((w) == W_NS || (w) == W_COMPLETED || (w) == W_ACTIVE || (w) == W_STOPPED || (w) == W_CREQ)   /* cleanup_completed is never entered */ \
  && (np) <= N_IN && (cb) <= CB_DESTROYED && (k) <= K_DONE && (s) <= S_DELIVERING && (lq) <= L_DONE && (cs) <= 1 \
  && IMP((np) == N_IN, (s) == S_IDLE && !(sw)) \
  && IMP((np) == N_IN && (cb) == CB_NONE, !(kw) && (k) == K_IDLE && !(sig) && (lq) == L_NONE) \
  && IMP((np) == N_IN && (cb) != CB_NONE, IN3(w, W_ACTIVE, W_STOPPED, W_CREQ)) \
  && IMP((np) == N_IN && (sig), (kw)) \
  && IMP((lq) != L_NONE, (sig)) \
  && IMP((s) != S_IDLE, (np) == N_OUT && (cb) != CB_NONE) \
  && IMP((s) == S_FLIGHT || (s) == S_HANDLING, IN3(w, W_ACTIVE, W_STOPPED, W_CREQ))               /* the completion handler never meets not_started / completed */ \
  && IMP((s) == S_DELIVERING, (w) == W_COMPLETED && (sw) && !(sig)) \
  && IMP((w) == W_ACTIVE, !(sig) && !(kw) && !(sw) && (cb) != CB_DESTROYED) \
  && IMP((w) == W_STOPPED, (kw) && ((s) == S_FLIGHT || (s) == S_HANDLING || (np) == N_IN)) \
  && IMP((w) == W_CREQ, (kw) && (sig) && (lq) == L_DONE && ((s) == S_FLIGHT || (s) == S_HANDLING || (np) == N_IN || (cs) == 1)) \
  && IMP((w) == W_NS, !(kw) && !(sw) && (s) == S_IDLE && (cs) == 0 && (cb) == CB_NONE) \
  && IMP((kw), (k) != K_IDLE && IN3(w, W_STOPPED, W_CREQ, W_COMPLETED) && (cb) != CB_NONE && !(sw)) \
  && IMP((kw) && (k) == K_RUNNING, !(sig)) \
  && IMP((kw) && !(sig), (k) == K_RUNNING && (cb) == CB_LIVE) \
  && IMP((sw), (cb) != CB_NONE && (np) == N_OUT && ((sig) || (s) == S_DELIVERING)) \
  && IMP((k) == K_RUNNING, (cb) == CB_LIVE) && IMP((k) != K_IDLE, (cb) != CB_NONE) \
  && IMP((cb) == CB_DESTROYED, (sig) && ((kw) || (sw))) && IMP((sig), (cb) != CB_LIVE)             /* never signalled with the stop callback still registered */ \
  && IMP((cb) == CB_LIVE && !(kw), (w) == W_ACTIVE || ((w) == W_COMPLETED && (sw) && (s) == S_DELIVERING)) \
  && IMP(!(sig) && (np) == N_OUT, ((w) == W_ACTIVE && ((s) == S_FLIGHT || (s) == S_HANDLING)) || ((kw) && (k) == K_RUNNING) || (s) == S_DELIVERING) /* somebody still owes the signal */ \
  && IMP((sig) && !(kw) && (np) == N_OUT, (s) == S_IDLE && (k) != K_RUNNING && ((w) == W_NS || (w) == W_COMPLETED)) \
  && IMP((np) == N_OUT && (s) == S_IDLE, (w) == W_NS || (w) == W_COMPLETED || ((w) == W_CREQ && (cs) == 1)) \
  && IMP((cs) == 1, (lq) == L_DONE && (s) == S_IDLE && (np) == N_OUT && !(ld))                     /* the source's cleanup runs only with no next() outstanding */ \
  && IMP((ld), (lq) == L_DONE && (w) == W_NS) \
  && IMP((lq) == L_DONE, (cs) == 1 || (ld) || (w) == W_CREQ) )
#define INV(p) INVV((p).w, (p).np, (p).cb, (p).k, (p).s, (p).lq, (p).cs, (p).kw, (p).sw, (p).sig, (p).ld)
#define INV_NOW INVV(STRM.state_, G.p.np, G.p.cb, G.p.k, G.p.s, G.p.lq, G.p.cs, G.p.kw, G.p.sw, G.p.sig, G.p.ld)

/* ------------------------------------------------------------------------------------------------
 * the abstract steps of the four parties
 * ---------------------------------------------------------------------------------------------- */
enum { ST_N_ENTER, ST_N_EARLY, ST_N_STORE, ST_N_CB, ST_N_START, ST_N_ERR_STORE, ST_N_ERR_SIGNAL,
       ST_K_ENTER, ST_K_WIN, ST_K_DELIVER, ST_K_LOSE,
       ST_S_ENTER, ST_S_WIN, ST_S_DELIVER, ST_S_SWALLOW, ST_S_HANDOVER,
       ST_L_ENTER, ST_L_REQ, ST_L_START, ST_L_TRIVIAL, ST_NKINDS };
#define PARTY_OF(kind) ((kind) <= ST_N_ERR_SIGNAL ? P_N : (kind) <= ST_K_LOSE ? P_K : (kind) <= ST_S_HANDOVER ? P_S : P_L)
/* -> enabled?  The enabling conditions are what the stepping party itself knows; everything else comes from INV. */
static _Bool step(int kind, struct proto a, struct proto* out) {
  struct proto b = a;
  _Bool en = 0;
  switch (kind) {
  /* consumer, next-operation start() */
  case ST_N_ENTER:      en = a.np == N_OUT && a.sig && a.lq == L_NONE && !a.kw;                 /* stream protocol: previous next() signalled, not ended by the stop callback's done, no cleanup yet */
                        b.np = N_IN; b.sig = 0; b.cb = CB_NONE; b.k = K_IDLE; b.kw = 0; b.sw = 0; break;
  case ST_N_EARLY:      en = a.np == N_IN && a.cb == CB_NONE && (a.w == W_NS || a.w == W_COMPLETED);   /* stop already requested: done at once */
                        b.sig = 1; b.np = N_OUT; break;
  case ST_N_STORE:      en = a.np == N_IN && a.cb == CB_NONE && (a.w == W_NS || a.w == W_COMPLETED); b.w = W_ACTIVE; break;
  case ST_N_CB:         en = a.np == N_IN && a.cb == CB_NONE && a.w == W_ACTIVE; b.cb = CB_LIVE; break;
  case ST_N_START:      en = a.np == N_IN && a.cb != CB_NONE; b.s = S_FLIGHT; b.np = N_OUT; break;      /* unifex::start(nextOp_) */
  case ST_N_ERR_STORE:  en = a.np == N_IN && a.cb == CB_NONE; b.w = W_COMPLETED; break;                 /* catch handlers */
  case ST_N_ERR_SIGNAL: en = a.np == N_IN && a.cb == CB_NONE && a.w == W_COMPLETED; b.sig = 1; b.np = N_OUT; break;
  /* stop callback */
  case ST_K_ENTER:      en = a.cb == CB_LIVE && a.k == K_IDLE; b.k = K_RUNNING; break;
  case ST_K_WIN:        en = a.k == K_RUNNING && !a.kw && a.w == W_ACTIVE; b.w = W_STOPPED; b.kw = 1; break;
  case ST_K_DELIVER:    en = a.k == K_RUNNING && a.kw; b.cb = CB_DESTROYED; b.sig = 1; b.k = K_DONE; break;   /* done to the consumer (callback destroyed from inside) */
  case ST_K_LOSE:       en = a.k == K_RUNNING && !a.kw && a.w != W_ACTIVE; b.k = K_DONE; break;
  /* source next() completion */
  case ST_S_ENTER:      en = a.s == S_FLIGHT; b.s = S_HANDLING; break;
  case ST_S_WIN:        en = a.s == S_HANDLING && a.w == W_ACTIVE; b.w = W_COMPLETED; b.sw = 1; b.s = S_DELIVERING; break;
  case ST_S_DELIVER:    en = a.s == S_DELIVERING && a.k != K_RUNNING; b.cb = CB_DESTROYED; b.sig = 1; b.s = S_IDLE; break; /* callback destructor waited for a run in progress */
  case ST_S_SWALLOW:    en = a.s == S_HANDLING && a.w == W_STOPPED; b.w = W_COMPLETED; b.s = S_IDLE; break;
  case ST_S_HANDOVER:   en = a.s == S_HANDLING && a.w == W_CREQ; b.cs = a.cs + 1; b.s = S_IDLE; break;
  /* consumer, cleanup-operation start() */
  case ST_L_ENTER:      en = a.lq == L_NONE && a.sig; b.lq = L_IN; break;                                /* stream protocol: cleanup() after the last next() was signalled, once */
  case ST_L_REQ:        en = a.lq == L_IN && a.w == W_STOPPED; b.w = W_CREQ; b.lq = L_DONE; break;
  case ST_L_START:      en = a.lq == L_IN && a.w == W_COMPLETED; b.cs = a.cs + 1; b.lq = L_DONE; break;
  case ST_L_TRIVIAL:    en = a.lq == L_IN && a.w == W_NS; b.ld = 1; b.lq = L_DONE; break;
  default: en = 0;
  }
  *out = b;
  return en;
}

/* ------------------------------------------------------------------------------------------------
 * relies: what the other parties may do between two atomic accesses of the party under verification
 * ---------------------------------------------------------------------------------------------- */
#define SAME(a, b, f) ((b).f == (a).f)
#define MONO_KL(a, b) ((b).k >= (a).k && IMP((a).kw, (b).kw) && IMP((a).sig, (b).sig) && (b).lq >= (a).lq && (b).cb >= (a).cb)
/* K is running (its destructor blocks whoever wants to signal the consumer): only the source completion moves */
#define RELY_K(a, b) ( INV(b) && SAME(a, b, k) && SAME(a, b, kw) && SAME(a, b, cb) && SAME(a, b, sig) && SAME(a, b, lq) && SAME(a, b, cs) && SAME(a, b, ld) \
   && IMP((a).sw, (b).sw) && IMP((a).np == N_OUT, (b).np == N_OUT) \
   && (SAME(a, b, w) || ((a).w == W_ACTIVE && (b).w == W_COMPLETED) || ((a).w == W_STOPPED && (b).w == W_COMPLETED)) )
/* S is in handle_signal: the stop callback may win and deliver, after which the consumer may request cleanup */
#define RELY_S(a, b) ( INV(b) && SAME(a, b, s) && SAME(a, b, sw) && SAME(a, b, np) && SAME(a, b, cs) && SAME(a, b, ld) && MONO_KL(a, b) \
   && (SAME(a, b, w) || ((a).w == W_ACTIVE && ((b).w == W_STOPPED || (b).w == W_CREQ)) || ((a).w == W_STOPPED && (b).w == W_CREQ)) \
   && IMP((a).s == S_DELIVERING, SAME(a, b, w) && SAME(a, b, sig) && SAME(a, b, cb) && SAME(a, b, lq) && SAME(a, b, kw)) )
/* L is in cleanup start(): the consumer has been signalled, the callback is gone; only a late source completion moves */
#define RELY_L(a, b) ( INV(b) && SAME(a, b, lq) && SAME(a, b, sig) && SAME(a, b, k) && SAME(a, b, kw) && SAME(a, b, sw) && SAME(a, b, cb) && SAME(a, b, cs) && SAME(a, b, ld) \
   && (SAME(a, b, w) || ((a).w == W_STOPPED && (b).w == W_COMPLETED)) )
/* N is in next start(): nothing moves until the callback is registered; then the callback may win and deliver and the consumer may request cleanup */
#define RELY_N(a, b) ( INV(b) && SAME(a, b, np) && SAME(a, b, s) && SAME(a, b, sw) && SAME(a, b, cs) && SAME(a, b, ld) && MONO_KL(a, b) \
   && IMP((a).cb == CB_NONE, SAME(a, b, w) && SAME(a, b, k) && SAME(a, b, kw) && SAME(a, b, sig) && SAME(a, b, lq) && SAME(a, b, cb)) \
   && (SAME(a, b, w) || ((a).w == W_ACTIVE && ((b).w == W_STOPPED || (b).w == W_CREQ)) || ((a).w == W_STOPPED && (b).w == W_CREQ)) )

static struct proto now(void) { struct proto a = G.p; a.w = (uint8_t)STRM.state_; return a; }
static void commit(struct proto b) { G.p = b; }
/* one step of the party under verification: must be enabled */
#define DO_STEP(kind, msg) do { struct proto vf_a = now(), vf_b; _Bool vf_en = step((kind), vf_a, &vf_b); VF_P(vf_en, msg); vf_b.w = vf_a.w; commit(vf_b); } while (0)

/* whoever is signalled / started may run to the end of the stream's life: nothing of it may be touched afterwards */
static void vf_stream_may_die(void) {
  struct stream f;
  STRM.state_ = f.state_; STRM.cleanupOp_ = f.cleanupOp_; STRM.nextReceiver_ = f.nextReceiver_; STRM.nextError_ = f.nextError_;
  G.snap = STRM; G.dead = 1;
}
#define STRM_EQ_SNAP (STRM.state_ == G.snap.state_ && STRM.cleanupOp_ == G.snap.cleanupOp_ && STRM.nextReceiver_ == G.snap.nextReceiver_ && STRM.nextError_ == G.snap.nextError_)

static void vf_interfere(void) {
  if (G.dead || G.me == P_X) return;
  struct proto a = now(), b;
  b.w = VF_nondet_u8(); b.np = VF_nondet_u8(); b.cb = VF_nondet_u8(); b.k = VF_nondet_u8(); b.s = VF_nondet_u8(); b.lq = VF_nondet_u8(); b.cs = VF_nondet_u8();
  b.kw = VF_nondet_bool(); b.sw = VF_nondet_bool(); b.sig = VF_nondet_bool(); b.ld = VF_nondet_bool();
  if (G.me == P_K) __CPROVER_assume(RELY_K(a, b));
  else if (G.me == P_S) __CPROVER_assume(RELY_S(a, b));
  else if (G.me == P_L) __CPROVER_assume(RELY_L(a, b));
  else __CPROVER_assume(RELY_N(a, b));
  if (a.w == W_ACTIVE && b.w != W_ACTIVE) STRM.nextReceiver_ = NULL;      /* whoever took the state from active took the receiver */
  if (b.w == W_CREQ && a.w != W_CREQ) STRM.cleanupOp_ = &CLOP;            /* the cleanup operation registered itself before its CAS */
  STRM.state_ = b.w; commit(b);
#ifdef VF_OP_MAY_DIE
  if (G.me == P_N && b.sig && VF_nondet_bool()) G.op_dead = 1;           /* completed by the stop callback: the consumer may destroy the operation */
#endif
}

/* guarantee: every atomic write is one enabled step of the writing party */
static void vf_guar(void* p, uint64_t o, uint64_t n) {
  VF_P(p == (void*)&STRM.state_, "atomic write to an unexpected location");
  VF_P(!G.dead, "no write to the stream after the consumer was signalled / cleanup was started by this call");
  VF_P(G.lin_count == 0 || (G.me == P_N && G.lin_count == 1 && n == W_COMPLETED), "each party writes state_ at most once per call (start(): a second time only on its error path)");
  int kind = -1;
  if (G.me == P_K && o == W_ACTIVE && n == W_STOPPED) kind = ST_K_WIN;
  else if (G.me == P_S && o == W_ACTIVE && n == W_COMPLETED) kind = ST_S_WIN;
  else if (G.me == P_S && o == W_STOPPED && n == W_COMPLETED) { kind = ST_S_SWALLOW; G.swallows++; }
  else if (G.me == P_L && o == W_STOPPED && n == W_CREQ) { kind = ST_L_REQ; G.clop_at_cas = STRM.cleanupOp_; }
  else if (G.me == P_N && n == W_ACTIVE) kind = ST_N_STORE;
  else if (G.me == P_N && n == W_COMPLETED) kind = ST_N_ERR_STORE;
  VF_P(kind >= 0, "guarantee: state_ is written only by the transitions of the writing party (callback: active->stopped; completion: active->completed, stopped->completed; cleanup: stopped->cleanup_requested; start(): ->active, error ->completed)");
  if (kind >= 0) {
    struct proto a = now(), b;
    VF_P(step(kind, a, &b), "guarantee: the transition is enabled in the current protocol state");
    VF_P(b.w == n, "guarantee: the value written is the transition's target state");
    if (kind == ST_N_STORE) {
      VF_P(G.nop, "the source's next operation is connected before state_ says source_next_active");
      VF_P(STRM.nextReceiver_ == &RCV, "nextReceiver_ is set before state_ says source_next_active (whoever takes the state from active takes the receiver)");
    }
    if (kind == ST_N_ERR_STORE) {
      VF_P(STRM.nextReceiver_ == NULL && !G.nop, "error path: receiver withdrawn and nextOp_ destroyed before state_ says source_next_completed");
    }
    if (kind == ST_L_REQ) VF_P(STRM.cleanupOp_ == &CLOP, "the cleanup operation registers itself in cleanupOp_ before it publishes cleanup_requested");
    b.w = a.w; commit(b);
  }
  G.lin_old = (int)o; G.lin_new = (int)n; G.lin_count++;
}

/* access instrumentation of the next operation object (spec.py post) */
#define VF_OP(p) ({ VF_P(!G.op_dead, "no access to the next operation after the consumer may have been signalled (it may destroy the operation)"); (p); })

/* ------------------------------------------------------------------------------------------------
 * event stubs
 * ---------------------------------------------------------------------------------------------- */
/* the consumer is signalled through nextReceiver_: virtual next_receiver_base::set_*, i.e. concrete_receiver::set_*
 * (verified below): destroy the stop callback, then complete the consumer, who may do anything next */
static void vf_signal_consumer(struct concrete_receiver* receiver, int kind) {
  VF_P(receiver == &RCV, "the signal goes to the receiver taken from nextReceiver_");
  VF_P(STRM.nextReceiver_ == NULL, "nextReceiver_ is cleared before the consumer is signalled (it may start the next next() from inside)");
  VF_P(G.delivers == 0 && G.consumer_signals == 0, "the consumer is signalled at most once per call");
  if (kind == ST_S_DELIVER) { vf_interfere(); __CPROVER_assume(G.p.k != K_RUNNING); }   /* ~callback blocks until a run in progress has returned (C03) */
  { struct proto a = now(); VF_P(!a.sig, "the consumer is signalled exactly once per next(): nobody has signalled it yet"); }
  DO_STEP(kind, "the consumer is signalled only by the party that took the state from active");
  G.delivers++; G.consumer_signals++; G.op_dead = 1;
  vf_stream_may_die();
}
static void EV_receiver_set_done(struct concrete_receiver* receiver) {      /* stop callback: std::move(*receiver).set_done() */
  VF_CANARY("callback delivers done reachable");
  VF_P(G.me == P_K, "only the stop callback sends done on its own");
  VF_P(G.stop_requests == 1, "the stop request is sent to the still-running next() before done is delivered");
  vf_signal_consumer(receiver, ST_K_DELIVER);
}
static void EV_deliver(struct concrete_receiver* receiver) {                /* handle_signal: deliverSignalTo(receiver) */
  VF_CANARY("completion delivers reachable");
  VF_P(G.me == P_S, "only the next completion forwards the source's signal");
  vf_signal_consumer(receiver, ST_S_DELIVER);
}
static void EV_request_stop(struct stream* s) {
  VF_P(s == &STRM && !G.dead, "stop request on the live stream's stop source");
  VF_P(G.me == P_K && G.p.kw && G.p.k == K_RUNNING, "the source's next() is told to stop only by the stop callback that took the state from active");
  VF_P(G.stop_requests == 0, "stop is requested once");
  G.stop_requests++;
}
static void EV_nextOp_destruct(struct stream* s) {
  VF_P(s == &STRM && !G.dead, "nextOp_ of the live stream");
  VF_P(G.nop && G.nextop_destructs == 0, "nextOp_ is destroyed exactly once, while it holds an operation");
  G.nop = 0; G.nextop_destructs++;
  if (G.me == P_S) { VF_P(G.lin_count == 0, "the completed next operation is destroyed before the state is touched"); DO_STEP(ST_S_ENTER, "handle_signal runs only for a started next()"); }
}
static void EV_start_cleanup(struct cleanup_op* op) {
  VF_CANARY("start_cleanup reachable");
  VF_P(!G.dead, "start_cleanup before anything else ended the stream");
  VF_P(op == &CLOP, "start_cleanup is called on the cleanup operation that registered itself");
  VF_P(G.start_cleanups == 0, "start_cleanup at most once per call");
  { struct proto a = now(); VF_P(a.cs == 0, "the source's cleanup is started exactly once: nobody has started it yet"); }
  DO_STEP(G.me == P_S ? ST_S_HANDOVER : ST_L_START, "start_cleanup only by the late completion after a request, or by cleanup start() after the next() completed");
  VF_P(G.p.s == S_IDLE, "cleanup of the source starts only after the outstanding next() has completed");
  G.start_cleanups++;
  vf_stream_may_die();
}
static void EV_cleanup_done(struct cleanup_op* op) {
  VF_CANARY("trivial cleanup done reachable");
  VF_P(op == &CLOP && G.cleanup_dones == 0 && G.cleanup_errors == 0, "the cleanup receiver is completed at most once");
  if (G.me == P_L) DO_STEP(ST_L_TRIVIAL, "done at once only when no next() was ever started");
  G.cleanup_dones++;
  if (G.me != P_X) vf_stream_may_die();
}
/* next-operation start() */
static void EV_get_stop_token(struct next_op* op) {}
static _Bool EV_stop_requested(struct next_op* op) { G.polls++; G.stop_seen = VF_nondet_bool(); return G.stop_seen; }
static void EV_consumer_done(struct next_op* op) {
  VF_CANARY("consumer done reachable");
  VF_P(op == &NOP && G.consumer_signals == 0, "the consumer is signalled at most once");
  if (G.me == P_N) { VF_P(G.stop_seen && G.lin_count == 0, "start() sends done itself only when stop was already requested, before anything was set up"); DO_STEP(ST_N_EARLY, "early done only before the state was touched"); }
  else VF_P(G.cb_destructs == 1, "the stop callback is destroyed before the consumer is signalled");
  G.consumer_signals++; G.consumer_dones++; G.op_dead = 1;
  if (G.me == P_N) vf_stream_may_die();
}
static void EV_consumer_value(struct next_op* op) {
  VF_P(op == &NOP && G.consumer_signals == 0, "the consumer is signalled at most once");
  VF_P(G.cb_destructs == 1, "the stop callback is destroyed before the consumer is signalled");
  G.consumer_signals++; G.op_dead = 1;
}
static void EV_consumer_error(struct next_op* op) {
  VF_CANARY("consumer error reachable");
  VF_P(op == &NOP && G.consumer_signals == 0, "the consumer is signalled at most once");
  if (G.me == P_N) DO_STEP(ST_N_ERR_SIGNAL, "start() reports an error only after state_ says source_next_completed and with no callback registered (cleanup() will then run the source's cleanup)");
  else VF_P(G.cb_destructs == 1, "the stop callback is destroyed before the consumer is signalled");
  G.consumer_signals++; G.consumer_errors++; G.op_dead = 1;
  if (G.me == P_N) vf_stream_may_die();
}
static _Bool EV_nextOp_construct(struct stream* s) {
  VF_P(s == &STRM && !G.nop && G.nextop_constructs == 0, "next(source) is connected into an empty nextOp_, once");
  VF_P(G.polls == 1 && !G.stop_seen, "next(source) is connected only after the stop check came back negative");
  if (VF_nondet_bool()) return 1;           /* connect throws */
  G.nop = 1; G.nextop_constructs++;
  return 0;
}
static _Bool EV_cb_construct(struct next_op* op) {
  VF_CANARY("callback construction reachable");
  VF_P(op == &NOP && G.cb_constructs == 0, "the stop callback is constructed once");
  if (VF_nondet_bool()) return 1;           /* callback construction throws: nothing registered */
  DO_STEP(ST_N_CB, "the stop callback is registered only after state_ says source_next_active (it does nothing otherwise)");
  G.cb_constructs++;
  vf_interfere();                           /* from here on the callback may fire (inline if stop was requested meanwhile) */
  return 0;
}
static void EV_source_next_start(struct stream* s) {
  VF_CANARY("source next start reachable");
  VF_P(s == &STRM, "the stream's own nextOp_ is started");
  VF_P(G.nop && G.source_starts == 0, "the connected next operation is started once");
  VF_P(G.cb_constructs == 1, "the stop callback is registered before the source's next() can complete");
  DO_STEP(ST_N_START, "the source's next() is started only with the callback registered");
  { struct proto a = now(); VF_P(INV(a), "the source's next() is started only after state_ was set to source_next_active (its completion handler relies on it)"); }
  G.source_starts++;
  vf_stream_may_die();                      /* the source may complete inline; the consumer runs */
}
/* concrete_receiver::set_* and the cleanup side */
static void EV_cb_destruct(struct next_op* op) {
  VF_P(op == &NOP && G.cb_destructs == 0 && G.consumer_signals == 0, "the stop callback is destroyed once, before the consumer is signalled");
  G.cb_destructs++;
}
static _Bool EV_src_cleanup_construct(struct cleanup_op* op) {
  VF_P(op == &CLOP && G.src_cleanup_constructs == 0, "cleanup(source) is connected once");
  if (VF_nondet_bool()) return 1;
  G.src_cleanup_constructs++;
  return 0;
}
static void EV_src_cleanup_start(struct cleanup_op* op) {
  VF_CANARY("source cleanup start reachable");
  VF_P(op == &CLOP && G.src_cleanup_constructs == 1 && G.src_cleanup_starts == 0, "the connected source cleanup is started once");
  G.src_cleanup_starts++;
}
static void EV_src_cleanup_destruct(struct cleanup_op* op) {
  VF_P(op == &CLOP && G.src_cleanup_destructs == 0 && G.cleanup_dones == 0 && G.cleanup_errors == 0, "the source's cleanup operation is destroyed once, before the cleanup receiver is completed");
  G.src_cleanup_destructs++;
}
static void EV_cleanup_error(struct cleanup_op* op) {
  VF_P(op == &CLOP && G.cleanup_dones == 0 && G.cleanup_errors == 0, "the cleanup receiver is completed at most once");
  VF_P(!STRM.nextError_, "the error of next(source) is preferred over the error of cleanup(source)");
  G.cleanup_errors++;
}
static void EV_cleanup_error_next(struct cleanup_op* op) {
  VF_CANARY("cleanup reports the swallowed next error reachable");
  VF_P(op == &CLOP && G.cleanup_dones == 0 && G.cleanup_errors == 0, "the cleanup receiver is completed at most once");
  VF_P(STRM.nextError_, "the stored next error is reported only if there is one");
  G.cleanup_errors++;
}

/* ------------------------------------------------------------------------------------------------
 * functions under contract
 * ---------------------------------------------------------------------------------------------- */
#define COUNTERS_ZERO (G.lin_count == 0 && G.stop_requests == 0 && G.delivers == 0 && G.swallows == 0 && G.start_cleanups == 0 && G.cleanup_dones == 0 && G.cleanup_errors == 0 \
  && G.nextop_constructs == 0 && G.nextop_destructs == 0 && G.cb_constructs == 0 && G.cb_destructs == 0 && G.source_starts == 0 && G.consumer_signals == 0 && G.consumer_dones == 0 && G.consumer_errors == 0 \
  && G.polls == 0 && !G.stop_seen && G.src_cleanup_constructs == 0 && G.src_cleanup_starts == 0 && G.src_cleanup_destructs == 0 && !G.dead && !G.op_dead && G.clop_at_cas == NULL)
/* nextReceiver_ belongs to whoever takes the state from active */
#define RECEIVER_OK (STRM.nextReceiver_ == (STRM.state_ == W_ACTIVE ? &RCV : NULL))

/* K: cancel_next_callback::operator() */
void cancel_next_callback_call(struct cancel_next_callback* self)
__CPROVER_requires(self == &CNC && CNC.stream_ == &STRM && G.me == P_K && COUNTERS_ZERO && INV_NOW && G.p.k == K_RUNNING && !G.p.kw && RECEIVER_OK)
__CPROVER_assigns(STRM, G)
__CPROVER_ensures(G.lin_count <= 1 && (G.lin_count == 1 ==> (G.lin_old == W_ACTIVE && G.lin_new == W_STOPPED)))
__CPROVER_ensures((G.delivers == 1) == (G.lin_count == 1))       /* the callback signals the consumer iff ITS compare-exchange took the state from active */
__CPROVER_ensures(G.stop_requests == G.delivers && G.delivers <= 1) /* and then, and only then, tells the abandoned next() to stop */
__CPROVER_ensures(G.swallows == 0 && G.start_cleanups == 0 && G.nextop_destructs == 0)
__CPROVER_ensures(!G.dead || STRM_EQ_SNAP)                        /* nothing is touched after the consumer was signalled */
__CPROVER_ensures(G.lin_count == 0 ==> (G.p.sw && STRM.state_ == W_COMPLETED)) /* lost: the completion had taken the receiver */
/*@BODY cancel_callback*/

/* S: next_receiver::handle_signal */
void next_receiver_handle_signal(struct next_receiver* self)
__CPROVER_requires(self == &NRCV && NRCV.stream_ == &STRM && G.me == P_S && COUNTERS_ZERO && INV_NOW && G.p.s == S_FLIGHT && G.nop && RECEIVER_OK)
__CPROVER_requires(STRM.cleanupOp_ == (STRM.state_ == W_CREQ ? &CLOP : CLEANUPOP_INIT))
__CPROVER_assigns(STRM, G)
__CPROVER_ensures(G.nextop_destructs == 1)                                           /* the completed next operation is destroyed, once */
__CPROVER_ensures(G.delivers + G.swallows + G.start_cleanups == 1)                   /* exactly one of: deliver / swallow / hand over to the requested cleanup */
__CPROVER_ensures((G.delivers == 1) == (G.lin_count == 1 && G.lin_old == W_ACTIVE))  /* deliver iff THIS call took the state from active */
__CPROVER_ensures((G.swallows == 1) == (G.lin_count == 1 && G.lin_old == W_STOPPED)) /* cancel path won, no cleanup requested yet: marks source_next_completed, signal discarded */
__CPROVER_ensures((G.start_cleanups == 1) == (G.lin_count == 0))                     /* cancel path won and cleanup was requested: start_cleanup, no write */
__CPROVER_ensures(G.lin_count <= 1 && (G.lin_count == 1 ==> G.lin_new == W_COMPLETED))
__CPROVER_ensures(G.stop_requests == 0 && G.cleanup_dones == 0)
__CPROVER_ensures(!G.dead || STRM_EQ_SNAP)                                           /* nothing is touched after delivering / handing over */
/*@BODY handle_signal*/

/* N: next_sender::operation::start */
void next_op_start(struct next_op* self)
__CPROVER_requires(self == &NOP && NOP.stream_ == &STRM && G.me == P_N && COUNTERS_ZERO && INV_NOW && G.p.np == N_IN && G.p.cb == CB_NONE && !G.nop)
__CPROVER_requires((STRM.state_ == W_NS || STRM.state_ == W_COMPLETED) && STRM.nextReceiver_ == NEXTRECEIVER_INIT)
__CPROVER_assigns(STRM, G)
__CPROVER_ensures(G.source_starts + G.consumer_dones + G.consumer_errors == 1) /* exactly one of: the source's next() was started (its completion or the stop callback will signal), or start() signalled the consumer itself */
__CPROVER_ensures(G.consumer_dones == 1 ==> (G.stop_seen && G.lin_count == 0 && G.nextop_constructs == 0 && G.cb_constructs == 0)) /* stop already requested: done, nothing set up, state untouched */
__CPROVER_ensures(G.source_starts == 1 ==> (G.nextop_constructs == 1 && G.cb_constructs == 1 && G.lin_count == 1 && G.lin_new == W_ACTIVE))
__CPROVER_ensures(G.consumer_errors == 1 ==> (!G.nop && G.source_starts == 0 && G.lin_count >= 1 && G.lin_new == W_COMPLETED)) /* error: nothing left behind, cleanup() will run the source's cleanup */
__CPROVER_ensures(G.delivers == 0 && G.start_cleanups == 0 && G.stop_requests == 0)
__CPROVER_ensures(G.p.np == N_OUT)
__CPROVER_ensures(!G.dead || STRM_EQ_SNAP)
/*@BODY next_start*/

/* L: cleanup_sender::operation::start */
void cleanup_op_start(struct cleanup_op* self)
__CPROVER_requires(self == &CLOP && CLOP.stream_ == &STRM && G.me == P_L && COUNTERS_ZERO && INV_NOW && G.p.lq == L_IN && STRM.cleanupOp_ == CLEANUPOP_INIT)
__CPROVER_assigns(STRM, G)
__CPROVER_ensures(G.lin_count + G.start_cleanups + G.cleanup_dones == 1)            /* exactly one of: leave the start to the late completion / start the source's cleanup / nothing to clean up */
__CPROVER_ensures(G.lin_count == 1 ==> (G.lin_old == W_STOPPED && G.lin_new == W_CREQ && G.clop_at_cas == &CLOP)) /* request published with the operation registered */
__CPROVER_ensures(G.cleanup_dones == 1 ==> G.p.ld)
__CPROVER_ensures(G.p.lq == L_DONE && G.delivers == 0 && G.stop_requests == 0 && G.cleanup_errors == 0)
__CPROVER_ensures(!G.dead || STRM_EQ_SNAP)
/*@BODY cleanup_start*/

/* cleanup operation: start_cleanup (connect + start the source's cleanup; connect may throw) */
void cleanup_op_start_cleanup(struct cleanup_op* self)
__CPROVER_requires(self == &CLOP && CLOP.stream_ == &STRM && G.me == P_X && COUNTERS_ZERO)
__CPROVER_assigns(G)
__CPROVER_ensures(G.src_cleanup_starts + G.cleanup_errors == 1)                      /* the source's cleanup is started, or the failure is reported, exactly one of the two */
__CPROVER_ensures(G.src_cleanup_starts == 1 ==> G.src_cleanup_constructs == 1)
__CPROVER_ensures(G.cleanup_dones == 0)
/*@BODY start_cleanup*/

/* concrete_receiver::set_value / set_done / set_error: what "signalling the consumer" is */
void concrete_receiver_set_value(struct concrete_receiver* self)
__CPROVER_requires(self == &RCV && RCV.op_ == &NOP && G.me == P_X && COUNTERS_ZERO)
__CPROVER_assigns(G)
__CPROVER_ensures(G.cb_destructs == 1 && G.consumer_signals == 1 && G.consumer_dones == 0 && G.consumer_errors == 0)
/*@BODY concrete_set_value*/
void concrete_receiver_set_done(struct concrete_receiver* self)
__CPROVER_requires(self == &RCV && RCV.op_ == &NOP && G.me == P_X && COUNTERS_ZERO)
__CPROVER_assigns(G)
__CPROVER_ensures(G.cb_destructs == 1 && G.consumer_signals == 1 && G.consumer_dones == 1)
/*@BODY concrete_set_done*/
void concrete_receiver_set_error(struct concrete_receiver* self)
__CPROVER_requires(self == &RCV && RCV.op_ == &NOP && G.me == P_X && COUNTERS_ZERO)
__CPROVER_assigns(G)
__CPROVER_ensures(G.cb_destructs == 1 && G.consumer_signals == 1 && G.consumer_errors == 1)
/*@BODY concrete_set_error*/

/* cleanup operation's receiver for the source's cleanup */
void receiver_wrapper_set_done(struct receiver_wrapper* self)
__CPROVER_requires(self == &WRAP && WRAP.op_ == &CLOP && CLOP.stream_ == &STRM && G.me == P_X && COUNTERS_ZERO)
__CPROVER_assigns(G)
__CPROVER_ensures(G.src_cleanup_destructs == 1 && G.cleanup_dones + G.cleanup_errors == 1)  /* the consumer's cleanup result is delivered exactly once, after the source's cleanup finished */
__CPROVER_ensures((G.cleanup_errors == 1) == (STRM.nextError_ != 0))                         /* a swallowed next() error surfaces here */
/*@BODY wrapper_set_done*/
void receiver_wrapper_set_error(struct receiver_wrapper* self)
__CPROVER_requires(self == &WRAP && WRAP.op_ == &CLOP && CLOP.stream_ == &STRM && G.me == P_X && COUNTERS_ZERO)
__CPROVER_assigns(G)
__CPROVER_ensures(G.src_cleanup_destructs == 1 && G.cleanup_errors == 1 && G.cleanup_dones == 0)
/*@BODY wrapper_set_error*/

/* ------------------------------------------------------------------------------------------------
 * harnesses
 * ---------------------------------------------------------------------------------------------- */
static void h_zero(int me) {
  G.me = me; G.lin_count = 0; G.lin_old = 0; G.lin_new = 0; G.dead = 0; G.op_dead = 0;
  G.stop_requests = 0; G.delivers = 0; G.swallows = 0; G.start_cleanups = 0; G.cleanup_dones = 0; G.cleanup_errors = 0;
  G.nextop_constructs = 0; G.nextop_destructs = 0; G.cb_constructs = 0; G.cb_destructs = 0; G.source_starts = 0; G.consumer_signals = 0; G.consumer_dones = 0; G.consumer_errors = 0;
  G.polls = 0; G.stop_seen = 0; G.src_cleanup_constructs = 0; G.src_cleanup_starts = 0; G.src_cleanup_destructs = 0; G.clop_at_cas = NULL;
  NOP.stream_ = &STRM; RCV.op_ = &NOP; CLOP.stream_ = &STRM; CNC.stream_ = &STRM; NRCV.stream_ = &STRM; WRAP.op_ = &CLOP;
  STRM.nextError_ = VF_nondet_bool();
}
static struct proto any_proto(void) {
  struct proto p;
  p.w = VF_nondet_u8(); p.np = VF_nondet_u8(); p.cb = VF_nondet_u8(); p.k = VF_nondet_u8(); p.s = VF_nondet_u8(); p.lq = VF_nondet_u8(); p.cs = VF_nondet_u8();
  p.kw = VF_nondet_bool(); p.sw = VF_nondet_bool(); p.sig = VF_nondet_bool(); p.ld = VF_nondet_bool();
  return p;
}
/* an arbitrary protocol state satisfying the invariant, with the data that goes with it */
static void h_any_state(void) {
  struct proto p = any_proto();
  __CPROVER_assume(INV(p));
  STRM.state_ = p.w; commit(p);
  STRM.nextReceiver_ = (p.w == W_ACTIVE) ? &RCV : NULL;
  STRM.cleanupOp_ = (p.w == W_CREQ) ? &CLOP : CLEANUPOP_INIT;
  G.nop = VF_nondet_bool();
}
void h_cancel_callback(void) {
  h_zero(P_K); h_any_state();
  __CPROVER_assume(G.p.k == K_RUNNING && !G.p.kw);     /* the callback has just been entered */
  cancel_next_callback_call(&CNC);
  VF_CANARY("after cancel_next_callback");
  if (G.delivers) { VF_CANARY("callback can win"); } else { VF_CANARY("callback can lose"); }
}
void h_handle_signal(void) {
  h_zero(P_S); h_any_state();
  __CPROVER_assume(G.p.s == S_FLIGHT && G.nop);
  next_receiver_handle_signal(&NRCV);
  VF_CANARY("after handle_signal");
  if (G.delivers) { VF_CANARY("completion can win and deliver"); }
  if (G.swallows) { VF_CANARY("late completion can be swallowed"); }
  if (G.start_cleanups) { VF_CANARY("late completion can hand over to the requested cleanup"); }
}
void h_next_start(void) {
  h_zero(P_N); h_any_state();
  { struct proto a = now(), b; __CPROVER_assume(step(ST_N_ENTER, a, &b)); b.w = a.w; commit(b); }   /* the consumer calls next(): stream protocol */
  G.nop = 0;
  next_op_start(&NOP);
  VF_CANARY("after next start()");
  if (G.source_starts) { VF_CANARY("start() can start the source's next()"); }
  if (G.consumer_dones) { VF_CANARY("start() can finish early with done"); }
  if (G.consumer_errors && G.lin_count == 1) { VF_CANARY("connect failure path"); }
  if (G.consumer_errors && G.lin_count == 2) { VF_CANARY("callback construction failure path"); }
}
void h_cleanup_start(void) {
  h_zero(P_L); h_any_state();
  { struct proto a = now(), b; __CPROVER_assume(step(ST_L_ENTER, a, &b)); b.w = a.w; commit(b); }   /* the consumer calls cleanup(): stream protocol */
  STRM.cleanupOp_ = CLEANUPOP_INIT;
  cleanup_op_start(&CLOP);
  VF_CANARY("after cleanup start()");
  if (G.lin_count) { VF_CANARY("cleanup can leave the start to the late completion"); }
  if (G.start_cleanups) { VF_CANARY("cleanup can start the source's cleanup itself"); }
  if (G.cleanup_dones) { VF_CANARY("cleanup with nothing started"); }
}
void h_start_cleanup(void) { h_zero(P_X); cleanup_op_start_cleanup(&CLOP); VF_CANARY("after start_cleanup"); if (G.cleanup_errors) { VF_CANARY("connect of cleanup(source) can fail"); } }
void h_concrete_set_value(void) { h_zero(P_X); concrete_receiver_set_value(&RCV); VF_CANARY("after concrete_receiver::set_value"); }
void h_concrete_set_done(void) { h_zero(P_X); concrete_receiver_set_done(&RCV); VF_CANARY("after concrete_receiver::set_done"); }
void h_concrete_set_error(void) { h_zero(P_X); concrete_receiver_set_error(&RCV); VF_CANARY("after concrete_receiver::set_error"); }
void h_wrapper_set_done(void) { h_zero(P_X); receiver_wrapper_set_done(&WRAP); VF_CANARY("after receiver_wrapper::set_done"); if (G.cleanup_dones) { VF_CANARY("cleanup done"); } }
void h_wrapper_set_error(void) { h_zero(P_X); receiver_wrapper_set_error(&WRAP); VF_CANARY("after receiver_wrapper::set_error"); }

/* ------------------------------------------------------------------------------------------------
 * M4 lemmas over the contracts
 * ---------------------------------------------------------------------------------------------- */
/* (i) INV inductive over every step; (ii) every step of a party is inside the rely of each other party that can be
 * running; (iii) the property statements as consequences */
void lemma_si_protocol(void) {
  struct proto a = any_proto(), b;
  int kind = VF_nondet_int();
  __CPROVER_assume(kind >= 0 && kind < ST_NKINDS);
  __CPROVER_assume(INV(a));
  _Bool en = step(kind, a, &b);
  __CPROVER_assume(en);
  VF_CANARY("lemma premises satisfiable");
  /* every step kind is enabled in some state of the invariant (none of the checks below is vacuous for a kind) */
  if (kind == ST_N_ENTER) { VF_CANARY("lemma: step ST_N_ENTER enabled in some invariant state"); }
  if (kind == ST_N_EARLY) { VF_CANARY("lemma: step ST_N_EARLY enabled in some invariant state"); }
  if (kind == ST_N_STORE) { VF_CANARY("lemma: step ST_N_STORE enabled in some invariant state"); }
  if (kind == ST_N_CB) { VF_CANARY("lemma: step ST_N_CB enabled in some invariant state"); }
  if (kind == ST_N_START) { VF_CANARY("lemma: step ST_N_START enabled in some invariant state"); }
  if (kind == ST_N_ERR_STORE) { VF_CANARY("lemma: step ST_N_ERR_STORE enabled in some invariant state"); }
  if (kind == ST_N_ERR_SIGNAL) { VF_CANARY("lemma: step ST_N_ERR_SIGNAL enabled in some invariant state"); }
  if (kind == ST_K_ENTER) { VF_CANARY("lemma: step ST_K_ENTER enabled in some invariant state"); }
  if (kind == ST_K_WIN) { VF_CANARY("lemma: step ST_K_WIN enabled in some invariant state"); }
  if (kind == ST_K_DELIVER) { VF_CANARY("lemma: step ST_K_DELIVER enabled in some invariant state"); }
  if (kind == ST_K_LOSE) { VF_CANARY("lemma: step ST_K_LOSE enabled in some invariant state"); }
  if (kind == ST_S_ENTER) { VF_CANARY("lemma: step ST_S_ENTER enabled in some invariant state"); }
  if (kind == ST_S_WIN) { VF_CANARY("lemma: step ST_S_WIN enabled in some invariant state"); }
  if (kind == ST_S_DELIVER) { VF_CANARY("lemma: step ST_S_DELIVER enabled in some invariant state"); }
  if (kind == ST_S_SWALLOW) { VF_CANARY("lemma: step ST_S_SWALLOW enabled in some invariant state"); }
  if (kind == ST_S_HANDOVER) { VF_CANARY("lemma: step ST_S_HANDOVER enabled in some invariant state"); }
  if (kind == ST_L_ENTER) { VF_CANARY("lemma: step ST_L_ENTER enabled in some invariant state"); }
  if (kind == ST_L_REQ) { VF_CANARY("lemma: step ST_L_REQ enabled in some invariant state"); }
  if (kind == ST_L_START) { VF_CANARY("lemma: step ST_L_START enabled in some invariant state"); }
  if (kind == ST_L_TRIVIAL) { VF_CANARY("lemma: step ST_L_TRIVIAL enabled in some invariant state"); }
  if (kind == ST_L_ENTER && a.np == N_IN) { VF_CANARY("lemma: cleanup can be requested while start() is still running"); }
  VF_P(INV(b), "lemma: every step of every party preserves the protocol invariant");
  int who = PARTY_OF(kind);
  if (who != P_K && a.k == K_RUNNING) VF_P(RELY_K(a, b), "lemma: while the stop callback runs, every step of the other parties is inside its rely");
  if (who != P_S && (a.s == S_HANDLING || a.s == S_DELIVERING)) VF_P(RELY_S(a, b), "lemma: while handle_signal runs, every step of the other parties is inside its rely");
  if (who != P_L && a.lq == L_IN) VF_P(RELY_L(a, b), "lemma: while cleanup start() runs, every step of the other parties is inside its rely");
  if (who != P_N && a.np == N_IN) VF_P(RELY_N(a, b), "lemma: while next start() runs, every step of the other parties is inside its rely");
  /* (iii) */
  VF_P(IMP(b.sig && !a.sig, kind == ST_N_EARLY || kind == ST_N_ERR_SIGNAL || kind == ST_K_DELIVER || kind == ST_S_DELIVER), "lemma: only the four delivery steps signal the consumer");
  VF_P(IMP(kind == ST_N_EARLY || kind == ST_N_ERR_SIGNAL || kind == ST_K_DELIVER || kind == ST_S_DELIVER, !a.sig), "lemma: the consumer is signalled at most once per next() (a delivery step is never enabled after a signal)");
  VF_P(!(b.kw && b.sw), "lemma: at most one of {next completion, cancel callback} takes nextReceiver_");
  VF_P(IMP(kind == ST_K_DELIVER, a.kw && !a.sw) && IMP(kind == ST_S_DELIVER, a.sw && !a.kw), "lemma: the party that signals is the one that took the state from active");
  VF_P(IMP(kind == ST_S_SWALLOW, a.kw && b.w == W_COMPLETED && b.cs == a.cs), "lemma: a swallowed completion means the cancel path had won; it marks source_next_completed and starts nothing");
  VF_P(IMP(kind == ST_S_HANDOVER || kind == ST_L_START, a.cs == 0 && b.cs == 1), "lemma: the source's cleanup is started at most once (a starting step is never enabled after a start)");
  VF_P(IMP(b.cs == 1 && a.cs == 0, b.s == S_IDLE && a.s != S_FLIGHT && b.np == N_OUT), "lemma: the source's cleanup starts only after the outstanding next() has completed");
  VF_P(IMP(kind == ST_L_REQ, a.s != S_IDLE || a.np == N_IN), "lemma: cleanup is left to the completion only while a next() is still outstanding (somebody will pick it up)");
  VF_P(IMP(kind == ST_S_HANDOVER, a.lq == L_DONE && a.kw), "lemma: the late completion starts cleanup only after cleanup was requested");
  VF_P(IMP(b.np == N_OUT && b.s == S_IDLE && b.k != K_RUNNING, b.sig), "lemma: when every party has finished, the consumer has been signalled (exactly once with the at-most-once lemma)");
  VF_P(IMP(b.lq == L_DONE && b.np == N_OUT && b.s == S_IDLE, b.cs == 1 || b.ld), "lemma: when cleanup start() and the completion have both finished, the source's cleanup has been started exactly once (or nothing was ever started)");
  /* the asserts of the code, as consequences of the invariant */
  VF_P(IMP(b.k == K_RUNNING && !b.kw, b.w == W_ACTIVE || b.w == W_COMPLETED), "lemma: a callback that has not won sees active or completed");
  VF_P(IMP(b.lq == L_IN, b.w == W_NS || b.w == W_COMPLETED || b.w == W_STOPPED), "lemma: cleanup start() sees not_started, completed or stream_stopped");
  VF_P(IMP(b.s == S_HANDLING, b.w == W_ACTIVE || b.w == W_STOPPED || b.w == W_CREQ), "lemma: handle_signal sees active, stream_stopped or cleanup_requested");
}
/* relies reflexive and transitive: one havoc per access stands for any number of environment steps */
void lemma_si_rely(void) {
  struct proto a = any_proto(), b = any_proto(), c = any_proto();
  __CPROVER_assume(INV(a));
  int who = VF_nondet_int();
  __CPROVER_assume(who >= P_N && who <= P_L);
  if (who == P_K) { VF_P(RELY_K(a, a), "lemma: RELY_K reflexive"); __CPROVER_assume(RELY_K(a, b) && RELY_K(b, c)); VF_CANARY("RELY_K premises satisfiable"); VF_P(RELY_K(a, c), "lemma: RELY_K transitive"); }
  else if (who == P_S) { VF_P(RELY_S(a, a), "lemma: RELY_S reflexive"); __CPROVER_assume(RELY_S(a, b) && RELY_S(b, c)); VF_CANARY("RELY_S premises satisfiable"); VF_P(RELY_S(a, c), "lemma: RELY_S transitive"); }
  else if (who == P_L) { VF_P(RELY_L(a, a), "lemma: RELY_L reflexive"); __CPROVER_assume(RELY_L(a, b) && RELY_L(b, c)); VF_CANARY("RELY_L premises satisfiable"); VF_P(RELY_L(a, c), "lemma: RELY_L transitive"); }
  else { VF_P(RELY_N(a, a), "lemma: RELY_N reflexive"); __CPROVER_assume(RELY_N(a, b) && RELY_N(b, c)); VF_CANARY("RELY_N premises satisfiable"); VF_P(RELY_N(a, c), "lemma: RELY_N transitive"); }
}
void lemma_si_init(void) {
  VF_P(STATE_INIT == W_NS && CLEANUPOP_INIT == NULL && NEXTRECEIVER_INIT == NULL, "lemma: a fresh stream is not_started with no cleanup operation and no receiver");
  VF_P(W_NS != W_COMPLETED && W_COMPLETED != W_ACTIVE && W_ACTIVE != W_STOPPED && W_STOPPED != W_CREQ && W_NS != W_ACTIVE && W_NS != W_STOPPED && W_NS != W_CREQ && W_COMPLETED != W_STOPPED && W_COMPLETED != W_CREQ && W_ACTIVE != W_CREQ,
       "lemma: the five states used are distinct enumerators");
  struct proto p;
  p.w = STATE_INIT; p.np = N_OUT; p.cb = CB_NONE; p.k = K_IDLE; p.s = S_IDLE; p.lq = L_NONE; p.cs = 0; p.kw = 0; p.sw = 0; p.sig = 1; p.ld = 0;
  VF_P(INV(p), "lemma: a fresh stream satisfies the protocol invariant");
  VF_CANARY("lemma_si_init reachable");
}
