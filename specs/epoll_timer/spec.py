CPP = 'source/linux/io_epoll_context.cpp'
H = 'include/unifex/linux/io_epoll_context.hpp'
SENDER = r'class io_epoll_context::schedule_at_sender \{'
OPCLS = r'struct operation : schedule_at_operation \{'
SAO = r'struct schedule_at_operation : operation_base \{'
OPBASE = r'struct operation_base \{'
W = [SENDER, OPCLS]

RCV = r'std::move\(timerOp\)\.receiver_'
LOGS = [(r'\bLOGX?\([^;]*\);', '')]

# schedule_at_sender::operation<Receiver> (header)
op_pre = [
    (r'schedule_at_operation::(\w+)', r'TM_\1'),
    # operation : schedule_at_operation : operation_base  (single inheritance: the down-cast is the identity)
    (r'auto& timerOp = \*static_cast<operation\*>\(op\);', 'struct timer_op* timerOp = (struct timer_op*)op;'),
    (r'static_cast<operation\*>\(op\)->start_local\(\)', 'TM_start_local((struct timer_op*)op)'),
    # UNIFEX_TRY { may-throw stub } UNIFEX_CATCH(...) { B }  ->  { if (stub) goto vf_catch; } if (0) { vf_catch: ; B }   (general rule missing from the table)
    (r'UNIFEX_TRY\s*\{\s*unifex::set_value\(' + RCV + r'\);\s*\}\s*UNIFEX_CATCH\s*\(\.\.\.\)\s*\{', '{ if (EV_set_value_maythrow(timerOp)) goto vf_catch; } if (0) { vf_catch: ;'),
    (r'unifex::set_value\(' + RCV + r'\)', 'EV_set_value(timerOp)'),
    (r'unifex::set_error\(\s*' + RCV + r',\s*std::current_exception\(\)\)', 'EV_set_error_exception(timerOp)'),
    (r'unifex::set_done\(' + RCV + r'\)', 'EV_set_done(timerOp)'),
    (r'is_nothrow_receiver_of_v<Receiver>', 'VF_CFG_nothrow'),
    (r'get_stop_token\(timerOp\.receiver_\)\.stop_requested\(\)', 'EV_stop_requested(timerOp)'),
    (r'get_stop_token\(receiver_\)\.stop_requested\(\)', 'EV_stop_requested(this)'),
    (r'stopCallback_\.construct\(\s*get_stop_token\(receiver_\), cancel_callback\{\*this\}\)', 'EV_cb_construct(this)'),
    (r'timerOp\.stopCallback_\.destruct\(\)', 'EV_cb_destruct(timerOp)'),
    (r'(?<![\w.>])stopCallback_\.destruct\(\)', 'EV_cb_destruct(this)'),
    # static sibling call
    (r'(?<![\w:&])complete_with_done\(op\)', 'TM_complete_with_done(op)'),
    # the context (contracts: CTX_* below in the same group; scheduling: specs/epoll_queue/eq_contract.h)
    (r'timerOp\.context_\.is_running_on_io_thread\(\)', 'EV_on_io_thread(timerOp)'),
    (r'(?:this->)?context_\.is_running_on_io_thread\(\)', 'EV_on_io_thread(this)'),
    (r'timerOp\.context_\.remove_timer\(&timerOp\)', 'CTX_remove_timer(timerOp->context_, timerOp)'),
    (r'(?:this->)?context_\.remove_timer\(this\)', 'CTX_remove_timer(this->context_, this)'),
    (r'(?:this->)?context_\.schedule_at_impl\(this\)', 'CTX_schedule_at_impl(this->context_, this)'),
    (r'(?:this->)?context_\.schedule_local\(this\)', 'EV_schedule_local(this, &this->base)'),
    (r'(?:this->)?context_\.schedule_remote\(this\)', 'EV_schedule_remote(this, &this->base)'),
    (r'this->execute_', 'this->base.execute_'),
    (r'&operation::(\w+)', r'&TM_\1'),
    (r'\btimerOp\.', 'timerOp->'),
]
op_ctx = dict(cls='TM', members=['receiver_', 'stopCallback_', 'state_', 'context_'],
              methods=['start_local', 'start_remote', 'request_stop_local', 'request_stop_remote'],
              atomic=['state_'], pre=op_pre)

# io_epoll_context (source): timers_ is an intrusive_heap keyed by dueTime_ (stubbed: HEAP_*), currentDueTime_ a std::optional<time_point>
cx_ctx = dict(cls='CTX', members=['timers_', 'currentDueTime_', 'timersAreDirty_'],
              methods=['is_running_on_io_thread', 'try_submit_timer_io'],
              obj_methods={'insert': 'HEAP_insert', 'remove': 'HEAP_remove', 'pop': 'HEAP_pop', 'top': 'HEAP_top', 'empty': 'HEAP_empty'},
              atomic=['state_'],
              typemap=[(r'\bschedule_at_operation\*', 'struct timer_op*'), (r'\btime_point\b(?!\{)', 'int64_t')],
              pre=LOGS + [
                  (r'schedule_at_operation::(\w+)', r'TM_\1'),
                  (r'monotonic_clock::now\(\)', 'VF_now()'),
                  (r'\bschedule_local\(item\)', 'EV_timer_schedule_local(this, item)'),
                  # std::optional<time_point> currentDueTime_
                  (r'currentDueTime_\.has_value\(\)', 'OPT_has(&currentDueTime_)'),
                  (r'if \(currentDueTime_\)', 'if (OPT_has(&currentDueTime_))'),
                  (r'currentDueTime_\.reset\(\)', 'OPT_reset(&currentDueTime_)'),
                  (r'\*currentDueTime_', 'OPT_value(&currentDueTime_)'),
                  (r'currentDueTime_ = earliestDueTime;', 'OPT_set(&currentDueTime_, earliestDueTime);'),
                  (r'time_point\{\}', 'VF_TIME_ZERO'),
                  (r'constexpr auto threshold = std::chrono::microseconds\((\d+)\);', r'const int64_t threshold = VF_MICROSECONDS(\1);'),
              ])

SPEC = dict(
    properties=['C07', 'C04'],
    ctx=op_ctx,
    extracts={
        'ob_enqueued_init': dict(file=H, kind='expr', within=OPBASE, sig=r': enqueued_\(([^)]*)\)'),
        'ob_next_init': dict(file=H, kind='expr', within=OPBASE, sig=r', next_\(([^)]*)\)'),
        'ob_execute_init': dict(file=H, kind='expr', within=OPBASE, sig=r', execute_\(([^)]*)\)'),
        'timer_elapsed_flag': dict(file=H, kind='expr', within=SAO, sig=r'static constexpr std::uint32_t timer_elapsed_flag = ([^;]*);'),
        'cancel_pending_flag': dict(file=H, kind='expr', within=SAO, sig=r'static constexpr std::uint32_t cancel_pending_flag = ([^;]*);'),
        'state_init': dict(file=H, kind='expr', within=SAO, sig=r'std::atomic<std::uint32_t> state_ = ([^;]*);'),
        'start': dict(file=H, within=W, sig=r'void start\(\) noexcept'),
        'on_schedule_complete': dict(file=H, within=W, sig=r'static void on_schedule_complete\(operation_base\* op\) noexcept'),
        'complete_with_done': dict(file=H, within=W, sig=r'static void complete_with_done\(operation_base\* op\) noexcept'),
        'maybe_complete_with_value': dict(file=H, within=W, sig=r'static void maybe_complete_with_value\(operation_base\* op\) noexcept'),
        'remove_timer_and_done': dict(file=H, within=W, sig=r'static void remove_timer_from_queue_and_complete_with_done\(\s*operation_base\* op\) noexcept'),
        'start_local': dict(file=H, within=W, sig=r'void start_local\(\) noexcept'),
        'start_remote': dict(file=H, within=W, sig=r'void start_remote\(\) noexcept'),
        'request_stop': dict(file=H, within=W, sig=r'void request_stop\(\) noexcept'),
        'request_stop_local': dict(file=H, within=W, sig=r'void request_stop_local\(\) noexcept'),
        'request_stop_remote': dict(file=H, within=W, sig=r'void request_stop_remote\(\) noexcept'),
        'schedule_at_impl': dict(file=CPP, ctx=cx_ctx, sig=r'void io_epoll_context::schedule_at_impl\(schedule_at_operation\* op\) noexcept'),
        'remove_timer': dict(file=CPP, ctx=cx_ctx, sig=r'void io_epoll_context::remove_timer\(schedule_at_operation\* op\) noexcept'),
        'update_timers': dict(file=CPP, ctx=cx_ctx, sig=r'void io_epoll_context::update_timers\(\) noexcept', outline={0: 'VF_UT_LOOP;'}),
    },
    closed_world=[
        dict(file=H, members=['state_', 'stopCallback_'], within=SENDER,
             allow=[r'(?s)manual_lifetime<typename stop_token_type_t<\s*Receiver>::template callback_type<cancel_callback>>\s*stopCallback_;']),
        dict(file=H, members=['state_', 'canBeCancelled_'], within=SAO,
             allow=[r'std::atomic<std::uint32_t> state_ = 0;', r'bool canBeCancelled_;', r', canBeCancelled_\(canBeCancelled\) \{\}']),
        dict(file=CPP, members=['timers_', 'timersAreDirty_', 'currentDueTime_'],
             allow=[r'(?s)void io_epoll_context::run_impl\(const bool& shouldStop\) \{.*?\n\}',                 # reads timersAreDirty_, calls update_timers (group epoll_queue)
                    r'(?s)void io_epoll_context::acquire_completion_queue_items\(\) \{.*?\n\}']),               # timer wake-up: currentDueTime_.reset(); timersAreDirty_ = true (group epoll_queue)
    ],
    units=[
        dict(name='start', harness='h_start', enforce='TM_start', replace=['TM_start_local', 'TM_start_remote']),
        dict(name='start_remote', harness='h_start_remote', enforce='TM_start_remote'),
        dict(name='on_schedule_complete', harness='h_on_schedule_complete', enforce='TM_on_schedule_complete', replace=['TM_start_local']),
        dict(name='start_local', harness='h_start_local', enforce='TM_start_local', replace=['CTX_schedule_at_impl', 'TM_request_stop']),
        dict(name='complete_with_done', harness='h_complete_with_done', enforce='TM_complete_with_done'),
        dict(name='maybe_complete_with_value', harness='h_maybe_complete_with_value', enforce='TM_maybe_complete_with_value', replace=['TM_complete_with_done']),
        dict(name='remove_timer_and_done', harness='h_remove_timer_and_done', enforce='TM_remove_timer_from_queue_and_complete_with_done', replace=['CTX_remove_timer']),
        dict(name='request_stop', harness='h_request_stop', enforce='TM_request_stop', replace=['TM_request_stop_local', 'TM_request_stop_remote']),
        dict(name='request_stop_local', harness='h_request_stop_local', enforce='TM_request_stop_local', replace=['CTX_remove_timer']),
        dict(name='request_stop_remote', harness='h_request_stop_remote', enforce='TM_request_stop_remote'),
        dict(name='schedule_at_impl', harness='h_schedule_at_impl', enforce='CTX_schedule_at_impl', props=['C07']),
        dict(name='remove_timer', harness='h_remove_timer', enforce='CTX_remove_timer', props=['C07']),
        dict(name='update_timers', harness='h_update_timers', enforce='CTX_update_timers', props=['C07']),
        dict(name='update_timers_body', harness='h_ut_loop0_body', enforce='ut__loop0_body', props=['C07']),
        dict(name='lemma_timer_init', harness='lemma_timer_init', mode='lemma'),
        dict(name='lemma_timer_election', harness='lemma_timer_election', mode='lemma'),
        dict(name='lemma_timer_env', harness='lemma_timer_env', mode='lemma'),
    ],
    assumptions=[
        'intrusive_heap<schedule_at_operation, timerNext_, timerPrev_, time_point, dueTime_> (insert / remove / pop / top / empty) is an event-stub model: a set with '
        'a minimum; "top() is an element with the least dueTime_, ties in insertion order" (C07-2) is NOT established here (no group for intrusive_heap yet)',
        'monotonic_clock::time_point is represented by an order-isomorphic int64 (DESIGN C07-5: clock lemmas), |t| < 2^62; monotonic_clock::now() is a non-decreasing ghost clock; '
        'std::chrono::microseconds(1) is 1000 units of that scalar; std::optional<time_point> is a (has, value) pair',
        'try_submit_timer_io (timerfd_settime) is an event stub that may fail; real timerfd accuracy and the timer wake-up path (acquire_completion_queue_items: '
        'currentDueTime_.reset(); timersAreDirty_ = true) are not modelled here',
        'schedule_local / schedule_remote are event stubs checked against specs/epoll_queue/eq_contract.h (enforced on the real bodies in group epoll_queue)',
        'the stop callback is invoked at most once, only between its construction and the return of its destructor (C03, group stop_token); request_stop is reached only through '
        'it; the token\'s stop_requested() is monotone; canBeCancelled_ == get_stop_token(r).stop_possible() == is_stop_ever_possible for the tokens reached (constructor, not extracted)',
        'start() is called once per operation; maybe_complete_with_value / complete_with_done / remove_timer_from_queue_and_complete_with_done / on_schedule_complete are entered '
        'only through the context\'s queues with the item dequeued (enqueued_ == 0, execute_ cleared): contract of execute_pending_local, group epoll_queue',
        'rely of the I/O-thread functions: a remote canceller performs request_stop_remote() as summarised by its contract (lemma_timer_env); rely of request_stop_remote: the I/O '
        'thread may pop the timer and take its election step once (update_timers\' loop body contract)',
        'atomics sequentially consistent',
    ],
    drops=['memory orders', 'noexcept', 'LOG/LOGX statements', 'template genericity (Receiver): if constexpr(is_stop_ever_possible), if constexpr(is_nothrow_receiver_of_v) -> both branches (symbolic configuration)',
           'operation : schedule_at_operation : operation_base -> one struct with the operation_base as first member (down-casts are the identity)',
           'receiver completion signals, stop-token query, stopCallback_.construct/destruct -> event stubs; cancel_callback::operator() (one line) not extracted',
           'timers_.insert/remove/pop/top/empty -> event stubs HEAP_*; optional<time_point> operations -> OPT_*; time_point{} -> 0; try_submit_timer_io -> event stub',
           'UNIFEX_TRY/UNIFEX_CATCH made explicit by a spec-level regex (goto vf_catch at the may-throw stub)'],
)
