A = 'include/unifex/any_sender_of.hpp'
I = 'include/unifex/inplace_stop_token.hpp'

OPFOR = r'struct _op_for<Receiver>::type \{'
RECREF = r'struct _rec_ref<CPOs, Values\.\.\.>::type\s*: _rec_ref_base<CPOs>::template type<Values\.\.\.> \{'
SUB = r'struct inplace_stop_token_adapter_subscription \{'
AD_G = r'template <typename StopToken, typename = void>\s*class inplace_stop_token_adapter \{'
AD_I = r'class inplace_stop_token_adapter<inplace_stop_token, void> \{'
AD_N = r'class inplace_stop_token_adapter<\s*StopToken,\s*std::enable_if_t<is_stop_never_possible_v<StopToken>>> \{'
FWD = r'struct forward_stop_request_to_inplace_stop_source \{'

op_ctx = dict(cls='op_for', members=['subscription_'], methods=[],
              obj_methods={'unsubscribe': 'subscription_unsubscribe', 'subscribe': 'subscription_subscribe'},
              pre=[(r'unifex::start\(state_\)', 'EV_start_inner(self)'),
                   # cpo(std::move(self).rec_, args...): the completion signal is forwarded verbatim to the real receiver
                   (r'cpo\(std::move\(self\)\.rec_, \(Args&&\)args\.\.\.\)', 'EV_forward_completion(self)'),
                   (r'unifex::get_stop_token\(rec_\)', 'TOK_PARENT'),
                   (r'(?s)^subscription_\{\};\s*_operation_state state_;$', '1'),
                   (r'\bself\.', 'self->')])
rr_ctx = dict(cls='rec_ref', members=[], methods=[], pre=[(r'\bself\.', 'self->')])
sub_ctx = dict(cls='subscription', members=['isSubscribed_', 'stopTokenAdapter_'], methods=['unsubscribe'],
               obj_methods={'subscribe': 'adapter_dispatch_subscribe', 'unsubscribe': 'adapter_dispatch_unsubscribe'})
adg_ctx = dict(cls='adapter_generic', members=[], methods=[],
               pre=[(r'stoken\.stop_possible\(\)', 'EV_stop_possible(stoken)'),
                    (r'callback_\.construct\(std::move\(stoken\), source_\)', 'EV_cb_construct(self, stoken)'),
                    (r'callback_\.destruct\(\)', 'EV_cb_destruct(self)'),
                    (r'source_\.get_token\(\)', 'TOK_ADAPTER'),
                    (r'inplace_stop_token\{\}', 'TOK_NEVER')])
ad_ctx = dict(cls='adapter', members=[], methods=[], pre=[(r'inplace_stop_token\{\}', 'TOK_NEVER')])
fwd_ctx = dict(cls='fwd_callback', members=[], methods=[], pre=[(r'\bsource\.request_stop\(\)', 'EV_source_request_stop(self->source)')])

SPEC = dict(
    properties=['C04'],
    ctx={},
    extracts={
        # any_sender_of.hpp: _op_for -- the operation state that is also the receiver of the type-erased operation
        'op_start': dict(file=A, sig=r'void start\(\) & noexcept', within=OPFOR, ctx=op_ctx),
        'op_complete': dict(file=A, sig=r'friend void tag_invoke\(CPO cpo, type&& self, Args&&\.\.\. args\) noexcept\(\s*std::is_nothrow_invocable_v<CPO, Receiver, Args\.\.\.>\)', within=OPFOR, ctx=op_ctx),
        'op_child_token': dict(file=A, kind='expr', sig=r'fn\(\{(subscription_\.subscribe\(unifex::get_stop_token\(rec_\)\)), this\}\)', within=OPFOR, ctx=op_ctx),
        'op_decl_order': dict(file=A, kind='expr', sig=r'(?s)(subscription_\{\};\s*_operation_state state_;)', within=OPFOR, ctx=op_ctx),
        'recref_token': dict(file=A, sig=r'tag_invoke\(tag_t<get_stop_token>, const type& self\) noexcept', within=RECREF, ctx=rr_ctx),
        # inplace_stop_token.hpp: the subscription (idempotent unsubscribe) and the three adapters
        'sub_subscribe': dict(file=I, sig=r'inplace_stop_token subscribe\(StopToken stoken\) noexcept', within=SUB, ctx=sub_ctx),
        'sub_unsubscribe': dict(file=I, sig=r'void unsubscribe\(\) noexcept', within=SUB, ctx=sub_ctx),
        'sub_dtor': dict(file=I, sig=r'~inplace_stop_token_adapter_subscription\(\)', within=SUB, ctx=sub_ctx),
        'sub_init': dict(file=I, kind='expr', sig=r'bool isSubscribed_ = ([^;]*);', within=SUB),
        'adg_subscribe': dict(file=I, sig=r'inplace_stop_token subscribe\(StopToken stoken\) noexcept', within=AD_G, ctx=adg_ctx),
        'adg_unsubscribe': dict(file=I, sig=r'void unsubscribe\(\) noexcept', within=AD_G, ctx=adg_ctx),
        'adi_subscribe': dict(file=I, sig=r'inplace_stop_token subscribe\(inplace_stop_token stoken\) noexcept', within=AD_I, ctx=ad_ctx),
        'adi_unsubscribe': dict(file=I, sig=r'void unsubscribe\(\) noexcept', within=AD_I, ctx=ad_ctx),
        'adn_subscribe': dict(file=I, sig=r'inplace_stop_token subscribe\(StopToken\) noexcept', within=AD_N, ctx=ad_ctx),
        'adn_unsubscribe': dict(file=I, sig=r'void unsubscribe\(\) noexcept', within=AD_N, ctx=ad_ctx),
        'fwd_call': dict(file=I, sig=r'void operator\(\)\(\) const noexcept', within=FWD, ctx=fwd_ctx),
    },
    closed_world=[
        dict(file=A, members=['subscription_'], within=OPFOR,
             allow=[r'(?s)detail::inplace_stop_token_adapter_subscription<stop_token_type_t<Receiver>>\s*subscription_\{\};',
                    r'fn\(\{subscription_\.subscribe\(unifex::get_stop_token\(rec_\)\), this\}\)\} \{\}']),
        dict(file=I, members=['isSubscribed_', 'stopTokenAdapter_'], within=SUB,
             allow=[r'bool isSubscribed_ = false;', r'inplace_stop_token_adapter<StopToken> stopTokenAdapter_\{\};']),
        dict(file=I, members=['callback_', 'source_'], within=AD_G,
             allow=[r'inplace_stop_source source_;', r'UNIFEX_NO_UNIQUE_ADDRESS manual_lifetime<stop_callback> callback_;']),
    ],
    units=[
        dict(name='forward_callback_call', harness='h_fwd_call', enforce='fwd_callback_call', replace=['op_for_complete']),
        dict(name='adapter_generic_subscribe', harness='h_adg_subscribe', enforce='adapter_generic_subscribe', replace=['fwd_callback_call']),
        dict(name='adapter_generic_unsubscribe', harness='h_adg_unsubscribe', enforce='adapter_generic_unsubscribe'),
        dict(name='adapter_inplace_subscribe', harness='h_adi_subscribe', enforce='adapter_inplace_subscribe'),
        dict(name='adapter_inplace_unsubscribe', harness='h_adi_unsubscribe', enforce='adapter_inplace_unsubscribe'),
        dict(name='adapter_never_subscribe', harness='h_adn_subscribe', enforce='adapter_never_subscribe'),
        dict(name='adapter_never_unsubscribe', harness='h_adn_unsubscribe', enforce='adapter_never_unsubscribe'),
        dict(name='subscription_subscribe', harness='h_sub_subscribe', enforce='subscription_subscribe',
             replace=['adapter_generic_subscribe', 'adapter_inplace_subscribe', 'adapter_never_subscribe']),
        dict(name='subscription_unsubscribe', harness='h_sub_unsubscribe', enforce='subscription_unsubscribe',
             replace=['adapter_generic_unsubscribe', 'adapter_inplace_unsubscribe', 'adapter_never_unsubscribe']),
        dict(name='subscription_dtor', harness='h_sub_dtor', enforce='subscription_dtor', replace=['subscription_unsubscribe']),
        dict(name='op_start', harness='h_op_start', enforce='op_for_start', replace=['op_for_complete']),
        dict(name='op_complete', harness='h_op_complete', enforce='op_for_complete', replace=['subscription_unsubscribe']),
        dict(name='rec_ref_token', harness='h_recref_token', enforce='rec_ref_get_stop_token'),
        # the adapter's source is a member of the operation: it must outlive its own request_stop().  FAILS on the unchanged tree
        # (foreign stop-token type + erased operation completing with done from inside the forwarded stop request;
        # probes/native/any_sender_of_adapter_request_stop_uaf.cpp)
        dict(name='forward_callback_source_outlives_request_stop', harness='h_fwd_call', enforce='fwd_callback_call', replace=['op_for_complete'],
             defines=['VF_PIN_CHECK']),
        dict(name='lemma_order', harness='lemma_order', mode='lemma'),
        dict(name='lemma_ctor', harness='lemma_ctor', mode='lemma'),
    ],
    assumptions=[
        'the vtable / any_unique / any_ref machinery is type-level and not reached: the erased operation is an event stub (EV_start_inner) that completes through _op_for\'s receiver CPOs exactly once and not before it has been started (C01 for the erased operation)',
        'construction of the stop callback on the receiver\'s token does not throw (subscribe() is noexcept)',
        'the stop callback is invoked at most once per registration, and callback_.destruct() returns only after a concurrent invocation on another thread has returned (C03, group stop_token)',
        'inplace_stop_source::request_stop() of the adapter\'s source is an event stub (group stop_token): the erased operation\'s callbacks run inside it and may complete it synchronously',
        'FINDING (not repaired): with a foreign stop-token type the adapter\'s inplace_stop_source is a member of _op_for and its forwarding callback calls source.request_stop() without pinning the operation; an erased operation that completes from inside that call lets the receiver destroy the source while its request_stop() is still running (heap-use-after-free, probes/native/any_sender_of_adapter_request_stop_uaf.cpp). The obligation is unit forward_callback_source_outlives_request_stop, tier=thorough only',
        'the receiver may destroy the operation as soon as it has been completed; the operation\'s destructor then runs ~inplace_stop_token_adapter_subscription (unit subscription_dtor: no second destruct)',
        'constructor: rec_, subscription_ (default member initialiser) and state_ are initialised in declaration order (checked: subscription_ is declared before state_); if connecting the erased sender throws, the already constructed subscription_ is destroyed (C++ object model, not reached)',
    ],
    drops=['template genericity (Receiver, StopToken, CPO, Args...): one symbolic receiver token; the three adapter specialisations are all verified and selected by a symbolic configuration',
           'payload arguments of the forwarded completion signal (the CPO is kept as a ghost: forwarded unchanged)',
           'manual_lifetime<stop_callback>::construct / destruct -> EV_cb_construct (may run the callback inline) / EV_cb_destruct',
           'unifex::start(state_) -> EV_start_inner'],
)
