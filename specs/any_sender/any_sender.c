/* C04: any_sender_of's operation state _op_for (include/unifex/any_sender_of.hpp) and the stop-token adapter it uses
 * (inplace_stop_token_adapter_subscription / inplace_stop_token_adapter / forward_stop_request_to_inplace_stop_source in
 * include/unifex/inplace_stop_token.hpp): "unsubscribe() before forwarding any completion to the real receiver".
 *
 * Event-order contracts only (the vtable is type-level):
 *   constructor:   the receiver's token is subscribed to the adapter; the erased operation is connected with the adapter's token
 *   start():       starts the erased operation (the subscription already exists: a stop request is never lost)
 *   completion:    subscription_.unsubscribe() (callback destroyed exactly once) THEN the signal is forwarded unchanged, once;
 *                  nothing is touched afterwards; the later destructor does not destroy the callback again
 *   forwarding callback: exactly one request_stop() on the adapter's source
 * Bodies marked @BODY / @EXPR are extracted from /repo on every run; everything else is specification. */
#include <stddef.h>
#include <stdint.h>

enum { TOK_NONE, TOK_PARENT, TOK_ADAPTER, TOK_NEVER };          /* a stop token is identified by the source it belongs to */
enum { CB_NONE, CB_REGISTERED, CB_EXEC_ME, CB_DESTRUCTED };     /* the forwarding callback's registration on the receiver's token */
enum { AV_GENERIC, AV_INPLACE, AV_NEVER };                      /* which inplace_stop_token_adapter specialisation is instantiated */

struct adapter { _Bool cb_alive; /* generic adapter: callback_ is constructed */ };
struct subscription { _Bool isSubscribed_; struct adapter stopTokenAdapter_; };
struct op_for { struct subscription subscription_; };
struct fwd_callback { struct adapter* source; };
struct rec_ref { int stoken_; };

struct vf_ghost {
  int variant; _Bool stop_possible;
  int cb_state; unsigned cb_constructs, cb_destructs; int cb_token; _Bool inline_cb;
  unsigned ad_subs, ad_unsubs;             /* calls of the adapter's subscribe / unsubscribe */
  unsigned inner_starts; _Bool inner_started;
  unsigned stop_forwarded, in_request_stop;
  unsigned completed; int cpo, channel; _Bool sync_completion, subscribed_at_completion;
  _Bool dead; struct op_for snap;
};
static struct vf_ghost G;
static struct op_for OPF;
static struct fwd_callback CB;
static struct rec_ref RR;

#include "vf.h"
static void vf_interfere(void) {}
static _Bool vf_nb(void) { return VF_nondet_bool() ? 1 : 0; }
#define B_IFF(a, b) (((a) != 0) == ((b) != 0))
#define SUB OPF.subscription_
#define AD OPF.subscription_.stopTokenAdapter_

#define DEAD_MSG "no access to the operation after the real receiver was completed (it may have destroyed the operation)"
static void vf_die(void) {
  struct op_for f; f.subscription_.isSubscribed_ = vf_nb(); f.subscription_.stopTokenAdapter_.cb_alive = vf_nb();
  OPF = f; G.snap = f; G.dead = 1;
}
#define UNTOUCHED (!G.dead || (SUB.isSubscribed_ == G.snap.subscription_.isSubscribed_ && AD.cb_alive == G.snap.subscription_.stopTokenAdapter_.cb_alive))
/* what links the flag, the adapter and the registration */
#define SUB_INV (G.variant >= AV_GENERIC && G.variant <= AV_NEVER \
   && (G.variant == AV_GENERIC ? (B_IFF(SUB.isSubscribed_, AD.cb_alive) && B_IFF(AD.cb_alive, G.cb_state == CB_REGISTERED || G.cb_state == CB_EXEC_ME)) \
                               : (G.cb_state == CB_NONE && !AD.cb_alive)))

void fwd_callback_call(struct fwd_callback* self);
void op_for_complete(struct op_for* self);
int adapter_generic_subscribe(struct adapter* self, int stoken);
int adapter_inplace_subscribe(struct adapter* self, int stoken);
int adapter_never_subscribe(struct adapter* self, int stoken);
void adapter_generic_unsubscribe(struct adapter* self);
void adapter_inplace_unsubscribe(struct adapter* self);
void adapter_never_unsubscribe(struct adapter* self);

/* ---------------- event stubs ---------------- */
static _Bool EV_stop_possible(int stoken) { return G.stop_possible; }
/* callback_.construct(stoken, source_): registers the forwarding callback; an already stopped token runs it inline */
static void EV_cb_construct(struct adapter* self, int token) {
  VF_P(!G.dead, "callback_.construct: " DEAD_MSG);
  VF_P(G.cb_state == CB_NONE && !self->cb_alive, "the forwarding callback is constructed at most once");
  VF_P(G.completed == 0 && !G.inner_started, "C04: the receiver's token is subscribed before the erased operation is started");
  VF_P(token == TOK_PARENT, "C04: the forwarding callback is registered on the RECEIVER's token");
  G.cb_constructs++; G.cb_state = CB_REGISTERED; G.cb_token = token; self->cb_alive = 1;
  if (VF_nondet_bool()) {
    VF_CANARY("forwarding callback can run inline inside subscribe");
    G.inline_cb = 1; G.cb_state = CB_EXEC_ME;
    fwd_callback_call(&CB);
    if (G.cb_state == CB_EXEC_ME) G.cb_state = CB_REGISTERED;
  }
}
static void EV_cb_destruct(struct adapter* self) {
  VF_P(!G.dead, "callback_.destruct(): " DEAD_MSG);
  VF_P(G.completed == 0, "C04: unsubscribe() happens BEFORE the completion is forwarded to the real receiver");
  VF_P((G.cb_state == CB_REGISTERED || G.cb_state == CB_EXEC_ME) && self->cb_alive, "the forwarding callback is destroyed exactly once, after it was constructed (manual_lifetime)");
  G.cb_state = CB_DESTRUCTED; G.cb_destructs++; self->cb_alive = 0;
}
/* source.request_stop() on the adapter's source: the erased operation's callbacks run inside and may complete it */
static void EV_source_request_stop(struct adapter* source) {
  VF_P(!G.dead, "source.request_stop(): " DEAD_MSG);
  VF_P(source == &AD, "C04: the receiver's stop request is forwarded to the adapter's source (whose token the erased operation holds)");
  G.stop_forwarded++;
  G.in_request_stop++;
  if (G.inner_started && G.completed == 0 && VF_nondet_bool()) {
    op_for_complete(&OPF);
  }
  G.in_request_stop--;
#ifdef VF_PIN_CHECK
  VF_P(!G.dead, "C02/C04: the adapter's stop source (a member of the operation) is not destroyed while its own request_stop() is still executing");
#endif
}
static void EV_start_inner(struct op_for* self) {
  VF_P(!G.dead, "start(state_): " DEAD_MSG);
  VF_P(!G.inner_started, "the erased operation is started once");
  VF_P(SUB.isSubscribed_ && (G.variant != AV_GENERIC || G.cb_state == CB_REGISTERED), "C04: the receiver's token is subscribed before the erased operation is started");
  VF_P(!G.inline_cb || G.stop_forwarded >= 1, "C04: a stop request that was pending at connect has reached the adapter's source before the erased operation is started");
  G.inner_started = 1; G.inner_starts++;
  if (VF_nondet_bool()) { G.sync_completion = 1; op_for_complete(&OPF); }
  vf_die();
}
/* cpo(std::move(self).rec_, args...) */
static void EV_forward_completion(struct op_for* self) {
  VF_P(G.completed == 0, "C01: the completion is forwarded at most once");
  VF_P(!G.dead, "completion signal: " DEAD_MSG);
  VF_P(G.inner_started, "C01: nothing is delivered before the erased operation was started");
  VF_P(G.cb_state != CB_REGISTERED && G.cb_state != CB_EXEC_ME, "C04: unsubscribe() before forwarding any completion to the real receiver");
  G.completed++; G.channel = G.cpo; G.subscribed_at_completion = SUB.isSubscribed_;
  vf_die();
}
/* subscription -> adapter: which specialisation is instantiated is a symbolic configuration */
static int adapter_dispatch_subscribe(struct adapter* self, int stoken) {
  G.ad_subs++;
  return G.variant == AV_GENERIC ? adapter_generic_subscribe(self, stoken) : G.variant == AV_INPLACE ? adapter_inplace_subscribe(self, stoken) : adapter_never_subscribe(self, stoken);
}
static void adapter_dispatch_unsubscribe(struct adapter* self) {
  G.ad_unsubs++;
  if (G.variant == AV_GENERIC) adapter_generic_unsubscribe(self); else if (G.variant == AV_INPLACE) adapter_inplace_unsubscribe(self); else adapter_never_unsubscribe(self);
}

/* ---------------- contracts ---------------- */
#define A_COMPLETE OPF, G.cb_state, G.cb_destructs, G.ad_unsubs, G.completed, G.channel, G.subscribed_at_completion, G.dead, G.snap
#define A_CB G.stop_forwarded, G.in_request_stop, A_COMPLETE
#define A_SUBSCRIBE G.cb_constructs, G.cb_token, G.inline_cb, A_CB
#define OPF_UNCHANGED (SUB.isSubscribed_ == __CPROVER_old(SUB.isSubscribed_) && AD.cb_alive == __CPROVER_old(AD.cb_alive))
#define CHILD_TOKEN (G.variant == AV_INPLACE ? TOK_PARENT : (G.variant == AV_GENERIC && G.stop_possible) ? TOK_ADAPTER : TOK_NEVER)

/* forward_stop_request_to_inplace_stop_source::operator() */
void fwd_callback_call(struct fwd_callback* self)
__CPROVER_requires(self == &CB && CB.source == &AD && G.variant == AV_GENERIC && !G.dead && G.completed == 0 && G.cb_destructs == 0 && G.in_request_stop == 0 \
   && G.cb_state == CB_EXEC_ME && AD.cb_alive && G.stop_forwarded == 0 && (G.inner_started ==> SUB.isSubscribed_))
__CPROVER_assigns(A_CB)
__CPROVER_ensures(G.stop_forwarded == 1 && G.in_request_stop == 0) /* C04: the receiver's request is chained: exactly one request_stop() on the adapter's source */
__CPROVER_ensures(G.completed <= 1 && B_IFF(G.dead, G.completed == 1) && UNTOUCHED)
__CPROVER_ensures(G.completed == 0 ==> (G.cb_state == CB_EXEC_ME && G.cb_destructs == 0 && OPF_UNCHANGED && G.ad_unsubs == __CPROVER_old(G.ad_unsubs)))
__CPROVER_ensures(!G.inner_started ==> G.completed == 0)
/*@BODY fwd_call*/

/* generic adapter */
int adapter_generic_subscribe(struct adapter* self, int stoken)
__CPROVER_requires(self == &AD && CB.source == &AD && G.variant == AV_GENERIC && !G.dead && G.completed == 0 && G.cb_destructs == 0 && G.in_request_stop == 0 \
   && G.cb_state == CB_NONE && G.cb_constructs == 0 && !AD.cb_alive && !G.inner_started && !G.inline_cb && G.stop_forwarded == 0 && stoken == TOK_PARENT)
__CPROVER_assigns(A_SUBSCRIBE)
__CPROVER_ensures(G.cb_constructs == 1 && G.cb_state == CB_REGISTERED && G.cb_token == TOK_PARENT && AD.cb_alive) /* C04: the adapter's source is chained to the receiver's token */
__CPROVER_ensures(__CPROVER_return_value == (G.stop_possible ? TOK_ADAPTER : TOK_NEVER)) /* the erased operation is given the adapter's token (a never-token if the receiver cannot be stopped) */
__CPROVER_ensures(G.stop_forwarded == (G.inline_cb ? 1u : 0u) && G.in_request_stop == 0 && G.completed == 0 && !G.dead && G.cb_destructs == 0)
__CPROVER_ensures(SUB.isSubscribed_ == __CPROVER_old(SUB.isSubscribed_) && G.ad_unsubs == __CPROVER_old(G.ad_unsubs))
/*@BODY adg_subscribe*/

void adapter_generic_unsubscribe(struct adapter* self)
__CPROVER_requires(self == &AD && G.variant == AV_GENERIC && !G.dead && G.completed == 0 && (G.cb_state == CB_REGISTERED || G.cb_state == CB_EXEC_ME) && AD.cb_alive)
__CPROVER_assigns(OPF, G.cb_state, G.cb_destructs)
__CPROVER_ensures(G.cb_state == CB_DESTRUCTED && G.cb_destructs == __CPROVER_old(G.cb_destructs) + 1 && !AD.cb_alive && SUB.isSubscribed_ == __CPROVER_old(SUB.isSubscribed_))
/*@BODY adg_unsubscribe*/

/* inplace_stop_token: the token is passed through, nothing is registered */
int adapter_inplace_subscribe(struct adapter* self, int stoken)
__CPROVER_requires(self == &AD && G.variant == AV_INPLACE)
__CPROVER_assigns()
__CPROVER_ensures(__CPROVER_return_value == stoken)
/*@BODY adi_subscribe*/

void adapter_inplace_unsubscribe(struct adapter* self)
__CPROVER_requires(self == &AD && G.variant == AV_INPLACE)
__CPROVER_assigns()
__CPROVER_ensures(1)
/*@BODY adi_unsubscribe*/

/* never-stoppable receivers */
int adapter_never_subscribe(struct adapter* self, int stoken)
__CPROVER_requires(self == &AD && G.variant == AV_NEVER)
__CPROVER_assigns()
__CPROVER_ensures(__CPROVER_return_value == TOK_NEVER)
/*@BODY adn_subscribe*/

void adapter_never_unsubscribe(struct adapter* self)
__CPROVER_requires(self == &AD && G.variant == AV_NEVER)
__CPROVER_assigns()
__CPROVER_ensures(1)
/*@BODY adn_unsubscribe*/

/* inplace_stop_token_adapter_subscription */
int subscription_subscribe(struct subscription* self, int stoken)
__CPROVER_requires(self == &SUB && CB.source == &AD && SUB_INV && !SUB.isSubscribed_ && G.ad_subs == 0 && !G.dead && G.completed == 0 && G.cb_destructs == 0 && G.in_request_stop == 0 \
   && G.cb_state == CB_NONE && G.cb_constructs == 0 && !G.inner_started && !G.inline_cb && G.stop_forwarded == 0 && stoken == TOK_PARENT)
__CPROVER_assigns(A_SUBSCRIBE, G.ad_subs)
__CPROVER_ensures(SUB.isSubscribed_ && G.ad_subs == 1 && SUB_INV && !G.dead && G.completed == 0) /* subscribed exactly once; the flag records it */
__CPROVER_ensures(__CPROVER_return_value == CHILD_TOKEN) /* C04: the token the erased operation is connected with is chained to the receiver's */
__CPROVER_ensures(G.cb_constructs == (G.variant == AV_GENERIC ? 1u : 0u) && G.stop_forwarded == (G.inline_cb ? 1u : 0u))
/*@BODY sub_subscribe*/

#define UNSUB_PRE (self == &SUB && SUB_INV && !G.dead && (G.completed == 0 || !SUB.isSubscribed_))
#define UNSUB_POST (!SUB.isSubscribed_ && SUB_INV && G.ad_unsubs == __CPROVER_old(G.ad_unsubs) + (__CPROVER_old(SUB.isSubscribed_) ? 1u : 0u) \
   && G.cb_destructs == __CPROVER_old(G.cb_destructs) + ((G.variant == AV_GENERIC && __CPROVER_old(SUB.isSubscribed_)) ? 1u : 0u) \
   && G.cb_state == ((G.variant == AV_GENERIC && __CPROVER_old(SUB.isSubscribed_)) ? CB_DESTRUCTED : __CPROVER_old(G.cb_state)))   /* idempotent: the adapter is released iff it was subscribed */
void subscription_unsubscribe(struct subscription* self)
__CPROVER_requires(UNSUB_PRE)
__CPROVER_assigns(OPF, G.cb_state, G.cb_destructs, G.ad_unsubs)
__CPROVER_ensures(UNSUB_POST)
/*@BODY sub_unsubscribe*/

/* ~inplace_stop_token_adapter_subscription(): an operation that was connected but never completed releases its registration;
 * one that has completed (already unsubscribed) does not destroy the callback a second time */
void subscription_dtor(struct subscription* self)
__CPROVER_requires(UNSUB_PRE)
__CPROVER_assigns(OPF, G.cb_state, G.cb_destructs, G.ad_unsubs)
__CPROVER_ensures(UNSUB_POST)
/*@BODY sub_dtor*/

/* _op_for */
void op_for_start(struct op_for* self)
__CPROVER_requires(self == &OPF && CB.source == &AD && SUB_INV && SUB.isSubscribed_ && !G.dead && G.completed == 0 && G.cb_destructs == 0 && G.in_request_stop == 0 \
   && (G.variant != AV_GENERIC || G.cb_state == CB_REGISTERED) && !G.inner_started && G.inner_starts == 0 && !G.sync_completion && (G.inline_cb ==> G.stop_forwarded >= 1))
__CPROVER_assigns(A_COMPLETE, G.inner_starts, G.inner_started, G.sync_completion)
__CPROVER_ensures(G.inner_starts == 1 && G.inner_started && G.dead && UNTOUCHED)
__CPROVER_ensures(G.completed <= 1 && (G.completed == 1 ==> G.sync_completion)) /* C01: start() itself delivers nothing */
/*@BODY op_start*/

/* the receiver CPOs of _op_for: tag_invoke(CPO, type&& self, args...) */
void op_for_complete(struct op_for* self)
__CPROVER_requires(self == &OPF && SUB_INV && SUB.isSubscribed_ && !G.dead && G.completed == 0 && G.cb_destructs == 0 && G.inner_started)
__CPROVER_assigns(A_COMPLETE)
__CPROVER_ensures(G.completed == 1 && G.channel == G.cpo && G.dead && UNTOUCHED) /* C01/C05: forwarded once, unchanged; nothing touched afterwards */
__CPROVER_ensures(G.variant == AV_GENERIC ? (G.cb_state == CB_DESTRUCTED && G.cb_destructs == 1) : (G.cb_state == CB_NONE && G.cb_destructs == 0)) /* C04 */
__CPROVER_ensures(!G.subscribed_at_completion && G.ad_unsubs == __CPROVER_old(G.ad_unsubs) + 1) /* the operation's destructor will not release the adapter a second time */
/*@BODY op_complete*/

int rec_ref_get_stop_token(const struct rec_ref* self)
__CPROVER_requires(self == &RR)
__CPROVER_assigns()
__CPROVER_ensures(__CPROVER_return_value == RR.stoken_) /* the erased operation sees the token _op_for's constructor put into the receiver reference (lemma_ctor) */
/*@BODY recref_token*/

/* ---------------- harnesses ---------------- */
static void h_havoc(void) {
  G.variant = VF_nondet_int(); G.stop_possible = vf_nb();
  G.cb_state = VF_nondet_int(); G.cb_constructs = VF_nondet_u32(); G.cb_destructs = VF_nondet_u32(); G.cb_token = VF_nondet_int(); G.inline_cb = vf_nb();
  G.ad_subs = VF_nondet_u32(); G.ad_unsubs = VF_nondet_u32();
  G.inner_starts = VF_nondet_u32(); G.inner_started = vf_nb(); G.stop_forwarded = VF_nondet_u32(); G.in_request_stop = VF_nondet_u32();
  G.completed = VF_nondet_u32(); G.cpo = VF_nondet_int(); G.channel = -1; G.sync_completion = vf_nb(); G.subscribed_at_completion = vf_nb();
  G.dead = vf_nb();
  SUB.isSubscribed_ = vf_nb(); AD.cb_alive = vf_nb(); G.snap = OPF;
  CB.source = &AD; RR.stoken_ = VF_nondet_int();
}
void h_fwd_call(void) {
  h_havoc(); fwd_callback_call(&CB);
  VF_CANARY("after the forwarding callback");
  if (G.completed) { VF_CANARY("the erased operation can complete inside the forwarded request"); } else { VF_CANARY("the erased operation can keep running"); }
}
void h_adg_subscribe(void) { h_havoc(); int t = adapter_generic_subscribe(&AD, TOK_PARENT); VF_CANARY("after generic subscribe"); if (G.inline_cb) { VF_CANARY("subscribed to an already stopped token"); } if (t == TOK_NEVER) { VF_CANARY("receiver token that cannot be stopped"); } }
void h_adg_unsubscribe(void) { h_havoc(); adapter_generic_unsubscribe(&AD); VF_CANARY("after generic unsubscribe"); }
void h_adi_subscribe(void) { h_havoc(); int t = adapter_inplace_subscribe(&AD, VF_nondet_int()); VF_CANARY("after inplace subscribe"); }
void h_adi_unsubscribe(void) { h_havoc(); adapter_inplace_unsubscribe(&AD); VF_CANARY("after inplace unsubscribe"); }
void h_adn_subscribe(void) { h_havoc(); int t = adapter_never_subscribe(&AD, VF_nondet_int()); VF_CANARY("after never subscribe"); }
void h_adn_unsubscribe(void) { h_havoc(); adapter_never_unsubscribe(&AD); VF_CANARY("after never unsubscribe"); }
void h_sub_subscribe(void) {
  h_havoc(); int t = subscription_subscribe(&SUB, TOK_PARENT);
  VF_CANARY("after subscription subscribe");
  if (G.variant == AV_GENERIC) { VF_CANARY("generic adapter"); } if (G.variant == AV_INPLACE) { VF_CANARY("inplace adapter"); } if (G.variant == AV_NEVER) { VF_CANARY("never adapter"); }
}
void h_sub_unsubscribe(void) {
  h_havoc(); _Bool was = SUB.isSubscribed_; subscription_unsubscribe(&SUB);
  VF_CANARY("after subscription unsubscribe");
  if (was) { VF_CANARY("unsubscribe while subscribed"); } else { VF_CANARY("unsubscribe when not subscribed (no-op)"); }
  if (G.cb_destructs) { VF_CANARY("unsubscribe destroys the callback"); }
}
void h_sub_dtor(void) { h_havoc(); _Bool was = SUB.isSubscribed_; subscription_dtor(&SUB); VF_CANARY("after subscription destructor"); if (was) { VF_CANARY("destructor of a never-completed operation"); } else { VF_CANARY("destructor after completion"); } }
void h_op_start(void) { h_havoc(); op_for_start(&OPF); VF_CANARY("after _op_for start"); if (G.completed) { VF_CANARY("the erased operation can complete synchronously in start"); } }
void h_op_complete(void) {
  h_havoc(); op_for_complete(&OPF);
  VF_CANARY("after _op_for completion");
  if (G.variant == AV_GENERIC) { VF_CANARY("completion with a generic adapter"); } else { VF_CANARY("completion with a pass-through adapter"); }
}
void h_recref_token(void) { h_havoc(); int t = rec_ref_get_stop_token(&RR); VF_CANARY("after get_stop_token (receiver reference)"); }

/* ---------------- lemmas over the contracts' predicates ---------------- */
struct ast { int cb; _Bool subscribed, started; unsigned completed; };
#define A_INV(s, generic) ((s).completed <= 1 && ((s).completed == 1 ==> ((s).started && !(s).subscribed)) \
   && ((generic) ? B_IFF((s).subscribed, (s).cb == CB_REGISTERED || (s).cb == CB_EXEC_ME) : (s).cb == CB_NONE) && ((s).started && (s).completed == 0 ==> (s).subscribed))
#define A_STEP_CONNECT(o, n, generic) (!(o).subscribed && !(o).started && (o).cb == CB_NONE && (o).completed == 0 && (n).subscribed && !(n).started && (n).completed == 0 && (n).cb == ((generic) ? CB_REGISTERED : CB_NONE))
#define A_STEP_START(o, n) ((o).subscribed && !(o).started && (o).completed == 0 && (n).started && (n).subscribed && (n).cb == (o).cb && (n).completed == 0)
#define A_STEP_CB_ENTER(o, n) ((o).cb == CB_REGISTERED && (n).cb == CB_EXEC_ME && (n).started == (o).started && (n).subscribed == (o).subscribed && (n).completed == (o).completed)
#define A_STEP_CB_EXIT(o, n) ((o).cb == CB_EXEC_ME && (n).cb == CB_REGISTERED && (n).started == (o).started && (n).subscribed == (o).subscribed && (n).completed == (o).completed)
#define A_STEP_COMPLETE(o, n, generic) ((o).started && (o).subscribed && (o).completed == 0 && (n).completed == 1 && (n).started && !(n).subscribed && (n).cb == ((generic) ? CB_DESTRUCTED : CB_NONE))
#define A_STEP_DTOR(o, n, generic) (((o).completed == 1 || !(o).started) && !(n).subscribed && (n).started == (o).started && (n).completed == (o).completed \
   && (n).cb == (((generic) && (o).subscribed) ? CB_DESTRUCTED : (o).cb))
void lemma_order(void) {
  struct ast o, n; _Bool generic = vf_nb(); int step = VF_nondet_int();
  o.cb = VF_nondet_int(); o.subscribed = vf_nb(); o.started = vf_nb(); o.completed = VF_nondet_u32();
  n.cb = VF_nondet_int(); n.subscribed = vf_nb(); n.started = vf_nb(); n.completed = VF_nondet_u32();
  struct ast i0; i0.cb = CB_NONE; i0.subscribed = (/*@EXPR sub_init*/); i0.started = 0; i0.completed = 0;
  VF_P(A_INV(i0, generic) && !i0.subscribed, "lemma: a freshly constructed subscription (isSubscribed_ initialiser) satisfies the order invariant");
  __CPROVER_assume(step >= 0 && step <= 5 && A_INV(o, generic));
  __CPROVER_assume(step == 0 ? A_STEP_CONNECT(o, n, generic) : step == 1 ? A_STEP_START(o, n) : step == 2 ? A_STEP_CB_ENTER(o, n) : step == 3 ? A_STEP_CB_EXIT(o, n)
                 : step == 4 ? A_STEP_COMPLETE(o, n, generic) : A_STEP_DTOR(o, n, generic));
  VF_CANARY("lemma_order premises satisfiable");
  if (step == 4 && o.cb == CB_EXEC_ME) { VF_CANARY("completion from inside the forwarding callback is a step"); }
  if (step == 5 && o.subscribed) { VF_CANARY("destruction of a connected, never started operation is a step"); }
  VF_P(A_INV(n, generic), "lemma: the order invariant is inductive for connect / start / callback enter / exit / completion / destruction");
  VF_P(n.completed == 1 ==> (n.cb != CB_REGISTERED && n.cb != CB_EXEC_ME), "lemma (C04): whenever the real receiver has been completed no forwarding callback is registered on its token");
  VF_P((o.cb == CB_DESTRUCTED) ==> (n.cb == CB_DESTRUCTED && step == 5), "lemma: a destroyed callback is never destroyed again (after completion only the destructor step is enabled, and it is a no-op)");
}
/* _op_for's constructor (extracted member initialiser): the erased operation is connected with subscribe(receiver's token) */
void lemma_ctor(void) {
  h_havoc();
  struct op_for* self = &OPF;
  __CPROVER_assume(SUB_INV && G.variant >= AV_GENERIC && G.variant <= AV_NEVER && !G.dead && G.completed == 0 && G.cb_destructs == 0 && G.in_request_stop == 0 && G.cb_state == CB_NONE && G.cb_constructs == 0
                   && !G.inner_started && !G.inline_cb && G.stop_forwarded == 0 && G.ad_subs == 0);
  SUB.isSubscribed_ = (/*@EXPR sub_init*/); AD.cb_alive = 0;
  VF_P((/*@EXPR op_decl_order*/) == 1, "subscription_ is declared (constructed) before state_, whose initialiser uses it");
  RR.stoken_ = /*@EXPR op_child_token*/;
  VF_CANARY("lemma_ctor reachable");
  VF_P(RR.stoken_ == CHILD_TOKEN, "lemma (C04): the erased operation's receiver reference carries the adapter's token for the RECEIVER's token");
  VF_P(SUB.isSubscribed_ && G.ad_subs == 1, "lemma: after construction the subscription is active (the destructor / completion will release it)");
  VF_P(G.variant != AV_GENERIC || (G.cb_state == CB_REGISTERED && G.cb_token == TOK_PARENT), "lemma (C04): with a foreign token type the forwarding callback is registered on the receiver's token at connect time");
}
