H = 'include/unifex/when_all.hpp'
OPCLS = r'struct _op<Receiver, Senders\.\.\.>::type \{'
RCVCLS = r'struct _element_receiver<Index, Receiver, Senders\.\.\.>::type final \{'
CANCELCLS = r'struct cancel_operation \{'

# UNIFEX_TRY { A } UNIFEX_CATCH(...) { B }  ->  { A' } if (0) { vf_catch: B }   (DESIGN 3.1, last row; not in the global table yet)
TRY_CATCH = [(r'UNIFEX_TRY\s*\{', '{'),
             (r'\}\s*UNIFEX_CATCH\s*\(\.\.\.\)\s*\{', '} if (0) { vf_catch: ;')]

op_ctx = dict(
    cls='when_all_op',
    members=['refCount_', 'doneOrError_'],
    methods=['element_complete', 'deliver_result', 'deliver_value'],
    pre=TRY_CATCH + [
        # symbolic number of children
        (r'sizeof\.\.\.\(Senders\)', 'VF_N'),
        # start(): registration on the receiver's token, start of every child
        (r'stopCallback_\.construct\(\s*get_stop_token\(receiver_\),\s*cancel_operation<Receiver, Senders\.\.\.>\{\*this\}\)', 'EV_cb_construct(self)'),
        (r'ops_\.start\(\)', 'EV_start_children(self)'),
        (r'stopSource_\.stop_requested\(\)', 'EV_children_stop_requested(self)'),
        (r'stopSource_\.request_stop\(\)', 'EV_stop_children(self)'),
        (r'stopCallback_\.destruct\(\)', 'EV_cb_destruct(self)'),
        (r'get_stop_token\(receiver_\)\.stop_requested\(\)', 'EV_stop_requested(self)'),
        # completion signals: payload dropped, channel kept
        (r'unifex::set_done\(std::move\(receiver_\)\)', 'EV_set_done(self)'),
        (r'std::visit\(\s*\[this\]\(auto&& error\) \{\s*unifex::set_error\(std::move\(receiver_\), \(decltype\(error\)\)error\);\s*\},\s*std::move\(error_\.value\(\)\)\)', 'EV_set_error_stored(self)'),
        (r'unifex::set_error\(std::move\(receiver_\), std::current_exception\(\)\)', 'EV_set_error_exception(self)'),
        (r'unifex::set_value\(\s*std::move\(receiver_\),\s*std::get<Indices>\(std::move\(values_\)\)\.value\(\)\.\.\.\);', 'if (EV_set_value(self)) goto vf_catch;'),
        (r'error_\.has_value\(\)', 'EV_error_has_value(self)'),
        (r'deliver_value\(std::index_sequence_for<Senders\.\.\.>\{\}\)', 'deliver_value()'),
    ],
)
rcv_ctx = dict(
    cls='element_receiver',
    members=['op_'],
    methods=[],
    obj_methods={'element_complete': 'when_all_op_element_complete'},
    pre=TRY_CATCH + [
        (r'std::get<Index>\(op_\.values_\)\s*\.emplace\([^;]*\);', 'if (EV_store_value(self)) goto vf_catch;'),
        (r'this->set_error\(std::current_exception\(\)\)', 'element_receiver_set_error(self)'),
        (r'op_\.error_\.emplace\([^;]*\);', 'EV_store_error(self);'),
        (r'op_\.stopSource_\.stop_requested\(\)', 'EV_children_stop_requested(self->op_)'),
        (r'op_\.stopSource_\.request_stop\(\)', 'EV_stop_children(self->op_)'),
        (r'op_\.error_\.has_value\(\)', 'EV_error_has_value(self->op_)'),   # not consulted by the pinned element receivers: lets a variant that does compile
        (r'\bop_\.', 'op_->'),
    ],
)
cancel_ctx = dict(
    cls='cancel_operation',
    members=['op_'],
    methods=[],
    obj_methods={'request_stop': 'when_all_op_request_stop'},
    pre=[(r'\bop_\.', 'op_->')],
)


SPEC = dict(
    properties=['C01', 'C04', 'C05'],
    ctx={},
    extracts={
        'n_positive': dict(file=H, kind='expr', sig=r'static_assert\((sizeof\.\.\.\(Senders\) > 0)\);', ctx=op_ctx),
        'refCount_init': dict(file=H, kind='expr', sig=r'std::atomic<std::size_t> refCount_\{([^}]*)\}', ctx=op_ctx),
        'doneOrError_init': dict(file=H, kind='expr', sig=r'std::atomic<bool> doneOrError_\{([^}]*)\}', ctx=op_ctx),
        'start': dict(file=H, sig=r'void start\(\) noexcept', within=OPCLS, ctx=op_ctx),
        'request_stop': dict(file=H, sig=r'void request_stop\(\) noexcept', within=OPCLS, ctx=op_ctx),
        'element_complete': dict(file=H, sig=r'void element_complete\(\) noexcept', within=OPCLS, ctx=op_ctx),
        'deliver_result': dict(file=H, sig=r'void deliver_result\(\) noexcept', within=OPCLS, ctx=op_ctx),
        'deliver_value': dict(file=H, sig=r'void deliver_value\(std::index_sequence<Indices\.\.\.>\) noexcept', within=OPCLS, ctx=op_ctx),
        'er_set_value': dict(file=H, sig=r'void set_value\(Values&&\.\.\. values\) noexcept', within=RCVCLS, ctx=rcv_ctx),
        'er_set_error': dict(file=H, sig=r'void set_error\(Error&& error\) noexcept', within=RCVCLS, ctx=rcv_ctx),
        'er_set_done': dict(file=H, sig=r'void set_done\(\) noexcept', within=RCVCLS, ctx=rcv_ctx),
        'cancel_call': dict(file=H, sig=r'void operator\(\)\(\) noexcept', within=CANCELCLS, ctx=cancel_ctx),
    },
    closed_world=[
        dict(file=H, members=['refCount_', 'doneOrError_', 'error_', 'stopCallback_', 'stopSource_'],
             allow=[r'std::atomic<std::size_t> refCount_\{', r'std::atomic<bool> doneOrError_\{',
                    r'std::optional<error_types<std::variant, remove_cvref_t<Senders>\.\.\.>> error_;',
                    r'inplace_stop_source stopSource_;',
                    r'(?s)manual_lifetime<\s*typename stop_token_type_t<Receiver&>::template callback_type<\s*cancel_operation<Receiver, Senders\.\.\.>>>\s*stopCallback_;',
                    # read-only accessor handing the children their stop token (children poll / register on it)
                    r'inplace_stop_source& get_stop_source\(\) const \{ return op_\.stopSource_; \}']),
    ],
    units=[
        dict(name='deliver_value', harness='h_deliver_value', enforce='when_all_op_deliver_value'),
        dict(name='deliver_result', harness='h_deliver_result', enforce='when_all_op_deliver_result',
             replace=['when_all_op_deliver_value']),
        dict(name='element_complete', harness='h_element_complete', enforce='when_all_op_element_complete',
             replace=['when_all_op_deliver_result']),
        dict(name='request_stop', harness='h_request_stop', enforce='when_all_op_request_stop',
             replace=['when_all_op_element_complete']),
        dict(name='cancel_operation_call', harness='h_cancel_call', enforce='cancel_operation_call',
             replace=['when_all_op_request_stop']),
        dict(name='start', harness='h_start', enforce='when_all_op_start', replace=['cancel_operation_call']),
        dict(name='element_set_value', harness='h_er_set_value', enforce='element_receiver_set_value',
             replace=['when_all_op_element_complete', 'element_receiver_set_error']),
        dict(name='element_set_error', harness='h_er_set_error', enforce='element_receiver_set_error',
             replace=['when_all_op_element_complete']),
        dict(name='element_set_done', harness='h_er_set_done', enforce='element_receiver_set_done',
             replace=['when_all_op_element_complete']),
        dict(name='lemma_election', harness='lemma_election', mode='lemma'),
        dict(name='lemma_rely', harness='lemma_rely', mode='lemma'),
        dict(name='lemma_init', harness='lemma_init', mode='lemma'),
        dict(name='lemma_first_failure', harness='lemma_first_failure', mode='lemma'),
    ],
    assumptions=[
        'each child completes exactly once and not before it has been started (C01 for the children); a child signals through exactly one of the element receiver\'s set_value/set_error/set_done',
        'the stop callback is invoked at most once per registration, and stopCallback_.destruct() returns only after a concurrent invocation has returned (C03, group stop_token)',
        'atomics sequentially consistent (memory orders dropped)',
        'payload plumbing dropped: values_/error_ contents, std::visit/std::get/std::apply; only the channel and "error_ has a value" are kept',
        'a throwing receiver set_value leaves the receiver un-completed (the library then calls set_error on it): the may-throw stub EV_set_value counts a completion only when it returns normally',
        'N = sizeof...(Senders) symbolic, 1 <= N <= 2^32 (lower bound from the code\'s static_assert, extracted)',
        'stopSource_.request_stop() may complete children synchronously: modelled as an environment step inside EV_stop_children; child operations themselves are not reached',
        'the operation may be destroyed by the receiver as soon as a completion signal was delivered, and by another owner as soon as the verified call gave up its unit without being elected (after the children have been started)',
    ],
    drops=['memory orders', 'template genericity (Index, Senders...: one symbolic N)', 'payload arguments of set_value/set_error and the value/error stores',
           'std::visit over error_ -> EV_set_error_stored', 'UNIFEX_TRY/UNIFEX_CATCH -> goto vf_catch at the may-throw stubs EV_store_value / EV_set_value',
           'get_stop_token(receiver_).stop_requested() -> EV_stop_requested (nondeterministic)',
           'stopCallback_.construct(...) -> EV_cb_construct (may run the callback inline), ops_.start() -> EV_start_children'],
)
