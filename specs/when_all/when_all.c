/* C01 / C04 / C05: when_all's reference-count election (include/unifex/when_all.hpp).
 *
 * M1 on refCount_ and doneOrError_ under rely/guarantee with the ghost of DESIGN Appendix A.1:
 *   c = refCount_, k = children that have not released their unit, a = the stop callback is between
 *   its fetch_add and its fetch_sub, e = the election happened (some fetch_sub returned 1),
 *   z = the dead increment (callback arriving after the election), f = the callback has fired,
 *   first = kind of the first failure (the child whose exchange on doneOrError_ returned false),
 *   ep = that child has not stored error_ yet.
 * Bodies marked @BODY / @EXPR are extracted from /repo on every run; everything else is specification. */
#include <stddef.h>
#include <stdint.h>

struct when_all_op { size_t refCount_; _Bool doneOrError_; _Bool error_; /* error_.has_value() */ };
struct element_receiver { struct when_all_op* op_; };
struct cancel_operation { struct when_all_op* op_; };

enum { ROLE_NONE, ROLE_CHILD, ROLE_CB };
enum { K_NONE, K_VALUE, K_ERROR, K_DONE };                     /* what the verified child signals */
enum { F_NONE, F_ERROR, F_DONE };                              /* kind of the first failure */
enum { CH_NONE, CH_VALUE, CH_ERROR_STORED, CH_ERROR_EXCEPTION, CH_DONE };
enum { CB_NONE, CB_REGISTERED, CB_EXEC_ME, CB_DESTRUCTED };    /* registration on the receiver's token */

struct pst_g { size_t k; _Bool a, e, z, f, ep; int first; };
struct pst { size_t c; _Bool doe, es; struct pst_g g; };      /* protocol state: real words + ghost */

struct vf_ghost {
  struct pst_g p;            /* protocol ghost (shared with the environment) */
  _Bool started;             /* the children have been started */
  int role; unsigned mine;   /* the verified call: who it is, how many units of refCount_ it owns */
  int my_kind;
  _Bool i_won;               /* my exchange on doneOrError_ returned false: I am the first failure */
  unsigned incs, decs; size_t inc_old, dec_old;   /* my writes to refCount_ and the values they saw */
  _Bool elected;             /* my fetch_sub returned 1 */
  unsigned completed; int channel;                /* completion signals delivered by this call */
  int cb_state; unsigned cb_constructs, cb_destructs;
  unsigned stopped_children, starts;
  _Bool stop_seen; unsigned stop_polls;           /* result / number of polls of the receiver's token */
  unsigned error_stores, value_stores; _Bool threw, dv_threw;
  _Bool dead; struct when_all_op snap;            /* the operation may have been destroyed; its bytes then */
};
static struct vf_ghost G;
static struct when_all_op OP;
static struct element_receiver RCV;
static struct cancel_operation CANCEL;
static size_t VF_N;                               /* sizeof...(Senders) */
#define VF_NMAX ((size_t)1 << 32)

static void vf_guar(void* p, uint64_t o, uint64_t n);
#define VF_G(p, o, n) vf_guar((void*)(p), (uint64_t)(o), (uint64_t)(n))
#include "vf.h"
/* an uninitialised _Bool may hold any byte in CBMC: normalise */
static _Bool vf_nb(void) { return VF_nondet_bool() ? 1 : 0; }

#define refCount_INIT (/*@EXPR refCount_init*/)
#define doneOrError_INIT (/*@EXPR doneOrError_init*/)
#define N_STATIC_ASSERT (/*@EXPR n_positive*/)

/* ---------------- protocol predicates (Appendix A.1) ---------------- */
#define B(x) ((x) != 0)   /* a havocked _Bool may hold any byte: compare truth values only */
#define INV_(c, k, a, e, z, f, doe, es, ep, first) ( \
     ((e) ? ((k) == 0 && !(a) && (c) == ((z) ? (size_t)1 : (size_t)0)) : ((c) == (k) + ((a) ? (size_t)1 : (size_t)0) && (c) >= 1)) \
  && (k) <= VF_NMAX && (!(a) || (f)) && (!(z) || ((f) && (e))) \
  && (first) >= F_NONE && (first) <= F_DONE && (B(doe) == ((first) != F_NONE)) \
  && (!(es) || (first) == F_ERROR) && (!(ep) || (first) == F_ERROR) && ((first) != F_ERROR || (B(es) != B(ep))) \
  && (!(ep) || (k) >= 1) )
#define INV(s) INV_((s).c, (s).g.k, (s).g.a, (s).g.e, (s).g.z, (s).g.f, (s).doe, (s).es, (s).g.ep, (s).g.first)
#define INV_NOW INV_(OP.refCount_, G.p.k, G.p.a, G.p.e, G.p.z, G.p.f, OP.doneOrError_, OP.error_, G.p.ep, G.p.first)
#define SAME_LATCH(o, n) (B((n).doe) == B((o).doe) && B((n).es) == B((o).es) && B((n).g.ep) == B((o).g.ep) && (n).g.first == (o).g.first)
#define SAME_CB(o, n) (B((n).g.a) == B((o).g.a) && B((n).g.z) == B((o).g.z) && B((n).g.f) == B((o).g.f))
/* the steps any party may take (guarantee) */
#define STEP_CHILD_DONE(o, n) ((o).g.k >= 1 && !((o).g.ep && (o).g.k == 1) && (n).c == (o).c - 1 && (n).g.k == (o).g.k - 1 && B((n).g.e) == ((o).c == 1) && !(o).g.e && SAME_CB(o, n) && SAME_LATCH(o, n))
#define STEP_CB_ENTER(o, n) (!(o).g.f && (n).g.f && (n).g.k == (o).g.k && B((n).g.e) == B((o).g.e) && SAME_LATCH(o, n) \
  && ((o).c == 0 ? ((n).c == 1 && (n).g.z && B((n).g.a) == B((o).g.a)) : ((n).c == (o).c + 1 && !(o).g.a && (n).g.a && B((n).g.z) == B((o).g.z))))
#define STEP_CB_EXIT(o, n) ((o).g.a && !(n).g.a && (n).c == (o).c - 1 && B((n).g.e) == ((o).c == 1) && !(o).g.e && (n).g.k == (o).g.k && B((n).g.z) == B((o).g.z) && B((n).g.f) == B((o).g.f) && SAME_LATCH(o, n))
#define STEP_LATCH(o, n, kind) ((o).g.k >= 1 && (n).c == (o).c && (n).g.k == (o).g.k && B((n).g.e) == B((o).g.e) && SAME_CB(o, n) && (n).doe \
  && ((o).doe ? SAME_LATCH(o, n) : ((n).g.first == (kind) && B((n).g.ep) == ((kind) == F_ERROR) && B((n).es) == B((o).es))))
#define STEP_STORE_ERROR(o, n) ((o).g.ep && !(n).g.ep && (n).es && (n).c == (o).c && (n).g.k == (o).g.k && B((n).g.e) == B((o).g.e) && SAME_CB(o, n) && B((n).doe) == B((o).doe) && (n).g.first == (o).g.first)

/* rely of a call with role R owning `mine` units, `won` = it is the first failure, children started or not:
 * any state satisfying Inv that is reachable by the others' steps without consuming what the call owns */
#define MY_CHILD_UNITS(role, mine) ((role) == ROLE_CHILD ? (size_t)(mine) : (size_t)0)
#define RELY_(o, n, role, mine, won, started) ( INV(n) \
  && (n).g.k <= (o).g.k && (!(o).g.e || (n).g.e) && (!(o).g.f || (n).g.f) && (!(o).g.z || (n).g.z) \
  && (!((o).g.f && !(o).g.a) || !(n).g.a)                                  /* C03: a callback that has returned does not run again */ \
  && ((started) || (n).g.k == (o).g.k)                                      /* children do not signal before they are started */ \
  && (SAME_LATCH(o, n) || (!(won) && (o).g.k >= MY_CHILD_UNITS(role, mine) + 1 && (started)))   /* the latch is moved only by ANOTHER child that owns a unit */ \
  && ((o).g.first == F_NONE || (n).g.first == (o).g.first) && (!(o).es || (n).es) \
  && ((won) || !(n).g.ep || (n).g.k >= MY_CHILD_UNITS(role, mine) + 1)       /* somebody else's pending error store pins that child's unit */ \
  && ((role) != ROLE_CHILD || (mine) == 0 || (n).g.k >= 1)                  /* nobody consumes my unit */ \
  && ((role) != ROLE_CB || (B((n).g.a) == ((mine) == 1) && B((n).g.f) == B((o).g.f) && B((n).g.z) == B((o).g.z))) /* I am the callback: nobody else plays it */ )
#define RELY(o, n) RELY_(o, n, G.role, G.mine, G.i_won, G.started)

static struct pst pst_now(void) {
  struct pst s; s.c = OP.refCount_; s.doe = OP.doneOrError_; s.es = OP.error_; s.g = G.p; return s;
}
static void pst_set(struct pst s) { OP.refCount_ = s.c; OP.doneOrError_ = s.doe; OP.error_ = s.es; G.p = s.g; }
static struct pst pst_nondet(void) {
  struct pst n; n.c = VF_nondet_size_t(); n.doe = vf_nb(); n.es = vf_nb();
  n.g.k = VF_nondet_size_t(); n.g.a = vf_nb(); n.g.e = vf_nb(); n.g.z = vf_nb();
  n.g.f = vf_nb(); n.g.ep = vf_nb(); n.g.first = VF_nondet_int();
  return n;
}
/* environment step */
static void vf_env(void) {
  struct pst o = pst_now(), n = pst_nondet();
  __CPROVER_assume(RELY(o, n));
  pst_set(n);
}
#define DEAD_MSG "no access to the operation after it may have been destroyed (completion delivered, or unit given up without being elected)"
static void vf_interfere(void) {
  VF_P(!G.dead, "atomic access: " DEAD_MSG);
  if (!G.dead) vf_env();
}
/* the operation may be destroyed now: its bytes are arbitrary from here on and must not be touched */
static void vf_die(void) {
  struct when_all_op f; f.refCount_ = VF_nondet_size_t(); f.doneOrError_ = vf_nb(); f.error_ = vf_nb();
  OP = f; G.snap = f; G.dead = 1;
}
#define UNTOUCHED (!G.dead || (OP.refCount_ == G.snap.refCount_ && OP.doneOrError_ == G.snap.doneOrError_ && OP.error_ == G.snap.error_))

/* guarantee: checked at every atomic write of the verified call; updates the ghosts */
static void vf_guar(void* p, uint64_t o, uint64_t n) {
  struct pst s0 = pst_now(), s1 = s0;
  VF_P(!G.dead, "atomic write: " DEAD_MSG);
  if (p == (void*)&OP.refCount_) {
    s1.c = (size_t)n;
    if (n == o + 1) {
      VF_P(G.role == ROLE_CB && G.mine == 0, "guarantee: refCount_ is incremented only by the stop callback, while it owns no unit");
      s1.g.f = 1; if (o == 0) s1.g.z = 1; else s1.g.a = 1;
      VF_P(STEP_CB_ENTER(s0, s1), "guarantee: the increment is the callback's cb_enter step (at most once per registration)");
      G.incs++; G.inc_old = (size_t)o; if (o != 0) G.mine = 1;
      G.p = s1.g;
    } else {
      VF_P(G.mine == 1, "guarantee: a unit of refCount_ is released only by a party that owns one (a child that has not signalled yet / the running stop callback)");
      VF_P(!G.i_won || G.stopped_children >= 1, "C04: the first failure requests stop on the children before giving up its reference");
      VF_P(!G.i_won || !G.p.ep, "C05: the first failure stores error_ before its reference is released");
      VF_P(G.role != ROLE_CB || G.stopped_children >= 1, "C04: request_stop() forwards the stop request to the children between its increment and its decrement");
      s1.g.e = (o == 1);
      if (G.role == ROLE_CB) { s1.g.a = 0; VF_P(STEP_CB_EXIT(s0, s1), "guarantee: the callback's decrement is its cb_exit step"); }
      else { s1.g.k = s0.g.k - 1; VF_P(STEP_CHILD_DONE(s0, s1), "guarantee: a child's decrement is its child_done step"); }
      G.decs++; G.dec_old = (size_t)o; G.mine = 0; if (o == 1) G.elected = 1;
      G.p = s1.g;
      /* not elected: the remaining owners may finish and the receiver may destroy the operation at any time
       * (not before the children have been started: they pin it) */
      if (o != 1 && G.started) { vf_die(); G.snap.refCount_ = (size_t)n; }
    }
  } else if (p == (void*)&OP.doneOrError_) {
    int kind = G.my_kind == K_ERROR ? F_ERROR : F_DONE;
    VF_P(G.role == ROLE_CHILD && G.mine == 1 && (G.my_kind == K_ERROR || G.my_kind == K_DONE), "guarantee: doneOrError_ is written only by a failing child that still owns its unit");
    s1.doe = (_Bool)n;
    if (!s0.doe) { s1.g.first = kind; s1.g.ep = (kind == F_ERROR); G.i_won = 1; }
    VF_P(STEP_LATCH(s0, s1, kind), "guarantee: doneOrError_ is only ever latched to true (first failure wins)");
    G.p = s1.g;
  } else {
    VF_P(0, "atomic write to an unexpected location");
  }
}

/* ---------------- event stubs (C++-only callees) ---------------- */
void cancel_operation_call(struct cancel_operation* self);

/* stopCallback_.construct(get_stop_token(receiver_), cancel_operation{*this}): registers; if the token is already
 * stopped the callback runs inline, on this thread, inside the constructor */
static void EV_cb_construct(struct when_all_op* self) {
  VF_P(!G.dead, "stopCallback_.construct: " DEAD_MSG);
  VF_P(G.cb_state == CB_NONE, "the stop callback is constructed at most once");
  VF_P(G.completed == 0, "no registration on the receiver's token after the receiver was completed");
  G.cb_constructs++;
  G.cb_state = CB_REGISTERED;
  if (VF_nondet_bool()) {
    VF_CANARY("stop callback can run inline inside construct");
    int r = G.role; G.role = ROLE_CB; G.cb_state = CB_EXEC_ME;
    cancel_operation_call(&CANCEL);
    G.role = r; if (G.cb_state == CB_EXEC_ME) G.cb_state = CB_REGISTERED;
  }
}
/* ops_.start(): every child is started; children may complete synchronously, the last of them delivers the
 * result and the receiver may destroy the operation before this returns */
static void EV_start_children(struct when_all_op* self) {
  VF_P(!G.dead, "ops_.start(): " DEAD_MSG);
  VF_P(!G.started, "children are started once");
  VF_P(G.cb_state == CB_REGISTERED, "C04: the stop callback is registered before the children are started (afterwards the operation may already be gone; a stop request in between must not be lost)");
  G.started = 1; G.starts++;
  vf_env();
  vf_die();
}
/* stopSource_.request_stop(): children observe the request; they may complete synchronously inside */
/* stopSource_.stop_requested(): true once anybody asked the children to stop (this call or another party) */
static _Bool EV_children_stop_requested(struct when_all_op* self) {
  VF_P(!G.dead, "stopSource_.stop_requested(): " DEAD_MSG);
  return G.stopped_children > 0 ? 1 : VF_nondet_bool();
}
static void EV_stop_children(struct when_all_op* self) {
  VF_P(!G.dead, "stopSource_.request_stop(): " DEAD_MSG);
  VF_P(G.mine == 1, "C04: the children are told to stop while the caller pins the operation with a unit it owns (not after giving it up)");
  G.stopped_children++;
  vf_env();
}
static void EV_cb_destruct(struct when_all_op* self) {
  VF_P(!G.dead, "stopCallback_.destruct(): " DEAD_MSG);
  VF_P(G.completed == 0, "C04: the stop callback is deregistered BEFORE the receiver is completed");
  VF_P(G.cb_state == CB_REGISTERED || G.cb_state == CB_EXEC_ME, "the stop callback is destructed exactly once, after it was constructed");
  VF_P(G.elected, "only the elected completer deregisters the stop callback (until then stop requests must reach the children)");
  G.cb_state = CB_DESTRUCTED; G.cb_destructs++;
}
static _Bool EV_stop_requested(struct when_all_op* self) {
  VF_P(!G.dead && G.completed == 0, "the receiver's stop token is used only before the receiver is completed");
  _Bool r = vf_nb();
  G.stop_seen = r; G.stop_polls++;
  return r;
}
static _Bool EV_error_has_value(struct when_all_op* self) {
  VF_P(!G.dead, "error_.has_value(): " DEAD_MSG);
  VF_P(G.elected, "error_ is read only by the elected completer (every writer has released its unit)");
  return self->error_;
}
static void vf_complete(int ch) {
  VF_P(G.completed == 0, "C01: at most one completion signal per operation");
  VF_P(!G.dead, "completion signal: " DEAD_MSG);
  VF_P(G.elected, "C01: the completion signal is delivered only by the party whose fetch_sub returned 1");
  VF_P(G.cb_state != CB_REGISTERED, "C04: the stop callback is deregistered (destructed) before the receiver is completed");
  G.completed++; G.channel = ch;
  vf_die();   /* the receiver may destroy the operation */
}
static void EV_set_done(struct when_all_op* self) { VF_CANARY("set_done reachable"); vf_complete(CH_DONE); }
static void EV_set_error_stored(struct when_all_op* self) {
  VF_CANARY("set_error(stored error) reachable");
  VF_P(G.dead || self->error_, "C05: the error that is delivered has been stored");
  vf_complete(CH_ERROR_STORED);
}
static void EV_set_error_exception(struct when_all_op* self) { VF_CANARY("set_error(current_exception) reachable"); vf_complete(CH_ERROR_EXCEPTION); }
/* may throw: a throwing receiver set_value leaves the receiver un-completed */
static _Bool EV_set_value(struct when_all_op* self) {
  VF_CANARY("set_value reachable");
  if (VF_nondet_bool()) {
    VF_P(G.completed == 0 && !G.dead && G.elected && G.cb_state != CB_REGISTERED, "C01/C04: set_value attempted only by the elected completer, once, after deregistration");
    G.dv_threw = 1;
    return 1;
  }
  vf_complete(CH_VALUE);
  return 0;
}
/* element receiver side */
static _Bool EV_store_value(struct element_receiver* self) {
  VF_P(!G.dead, "values_ store: " DEAD_MSG);
  VF_P(G.role == ROLE_CHILD && G.mine == 1, "a child stores its value while it still owns its unit");
  if (VF_nondet_bool()) { G.threw = 1; G.my_kind = K_ERROR; return 1; }   /* the copy threw: the same child now fails with an error */
  G.value_stores++;
  return 0;
}
static void EV_store_error(struct element_receiver* self) {
  VF_P(!G.dead, "error_ store: " DEAD_MSG);
  VF_P(G.i_won && G.p.ep, "C05: error_ is written by exactly one child, the one whose exchange on doneOrError_ returned false");
  VF_P(G.mine == 1, "C05: error_ is written before that child's reference is released");
  struct pst s0 = pst_now(), s1 = s0;
  s1.es = 1; s1.g.ep = 0;
  VF_P(STEP_STORE_ERROR(s0, s1), "guarantee: error_ store is the store_error step");
  self->op_->error_ = 1; G.p.ep = 0; G.error_stores++;
}

/* ---------------- contracts ---------------- */
#define EXPECTED_CHANNEL (G.stop_seen ? CH_DONE : G.p.first == F_ERROR ? CH_ERROR_STORED : G.p.first == F_DONE ? CH_DONE : (G.dv_threw ? CH_ERROR_EXCEPTION : CH_VALUE))
#define A_DELIVER_VALUE OP, G.completed, G.channel, G.dead, G.snap, G.dv_threw
#define A_DELIVER_RESULT A_DELIVER_VALUE, G.p, G.cb_state, G.cb_destructs, G.stop_seen, G.stop_polls
#define A_ELEMENT_COMPLETE A_DELIVER_RESULT, G.mine, G.decs, G.dec_old, G.elected
#define A_REQUEST_STOP A_ELEMENT_COMPLETE, G.incs, G.inc_old, G.stopped_children
#define A_FAIL A_ELEMENT_COMPLETE, G.i_won, G.stopped_children, G.error_stores

#define FRESH_CALL (G.incs == 0 && G.decs == 0 && !G.elected && G.completed == 0 && !G.dead && G.stop_polls == 0 && !G.dv_threw && G.cb_destructs == 0)
/* ghost bookkeeping of the verified call is consistent with the protocol state */
#define CALL_CONSISTENT ((!G.i_won || (G.role == ROLE_CHILD && G.p.first == (G.my_kind == K_ERROR ? F_ERROR : F_DONE))) \
   && (G.i_won || !G.p.ep || G.p.k >= MY_CHILD_UNITS(G.role, G.mine) + 1))
/* deliver_result is entered by the party whose decrement returned 1 */
#define DELIVER_PRE (!G.dead && G.completed == 0 && G.elected && G.mine == 0 && INV_NOW && G.p.e && CALL_CONSISTENT \
   && G.cb_destructs == 0 && G.stop_polls == 0 && !G.dv_threw \
   && ((G.role == ROLE_CHILD && G.cb_state == CB_REGISTERED) || (G.role == ROLE_CB && G.cb_state == CB_EXEC_ME && G.p.f)))
/* element_complete is entered by a party that owns one unit and has done what it must do before releasing it */
#define OWNER_PRE (G.decs == 0 && !G.elected && G.completed == 0 && !G.dead && G.stop_polls == 0 && !G.dv_threw && G.cb_destructs == 0 && INV_NOW && CALL_CONSISTENT \
   && ((G.role == ROLE_CHILD && G.p.k >= 1 && G.started && G.cb_state == CB_REGISTERED) || (G.role == ROLE_CB && G.p.a && G.cb_state == CB_EXEC_ME && !G.i_won)) \
   && (!G.i_won || (G.stopped_children >= 1 && !G.p.ep)) && (G.role != ROLE_CB || G.stopped_children >= 1))
#define CHILD_PRE (FRESH_CALL && INV_NOW && CALL_CONSISTENT && G.role == ROLE_CHILD && G.mine == 1 && G.started && !G.i_won && G.p.k >= 1 \
   && G.cb_state == CB_REGISTERED && G.stopped_children == 0 && G.error_stores == 0)
#define CALLBACK_PRE (FRESH_CALL && INV_NOW && CALL_CONSISTENT && G.role == ROLE_CB && G.mine == 0 && !G.i_won && !G.p.f && !G.p.a && G.cb_state == CB_EXEC_ME && G.stopped_children == 0)
/* what "I hold one unit and release it" must achieve (C01): exactly one decrement; the completion signal is
 * delivered iff that decrement returned 1; then on the channel C05 prescribes, after deregistration (C04);
 * nothing is touched once the operation may be gone */
#define RELEASE_POST (G.decs == 1 && G.mine == 0 && G.completed <= 1 && ((G.completed == 1) == (G.dec_old == 1)) \
   && (G.completed == 1 ==> (G.elected && G.channel == EXPECTED_CHANNEL && G.cb_state == CB_DESTRUCTED && G.cb_destructs == 1 && G.stop_polls == 1)) \
   && (G.completed == 0 ==> (G.cb_destructs == 0 && G.stop_polls == 0)) \
   && (G.dec_old != 1 || (G.p.e && G.p.k == 0)) && B(G.dead) == (G.completed == 1 || G.started) && UNTOUCHED && (G.dead || INV_NOW))
/* what the environment cannot undo while / after the call releases its unit */
#define RELEASE_FRAME ((__CPROVER_old(G.p.first) == F_NONE || G.p.first == __CPROVER_old(G.p.first)) && (!G.i_won || B(G.p.ep) == B(__CPROVER_old(G.p.ep))) \
   && (G.started || G.role != ROLE_CB || G.p.k == __CPROVER_old(G.p.k)) && (!__CPROVER_old(G.p.f) || G.p.f) \
   && (G.completed == 1 || G.cb_state == __CPROVER_old(G.cb_state)))
/* the stop callback (C04): increments once; after the election it does nothing else; otherwise it tells the
 * children to stop while it holds its unit and then releases it like any other owner */
#define CALLBACK_POST (G.incs == 1 && G.p.f && UNTOUCHED && (G.dead || INV_NOW) \
   && (G.inc_old == 0 ==> (G.p.e && G.p.z && G.decs == 0 && G.stopped_children == 0 && G.completed == 0 && !G.dead && G.cb_destructs == 0 && G.stop_polls == 0 && G.mine == 0)) \
   && (G.inc_old != 0 ==> (G.stopped_children == 1 && RELEASE_POST)))
/* a failing child (C04/C05): the latch is set; if this child is the first failure it has stored its error (error
 * kind only) and told the children to stop -- both before releasing its unit (order checked at the events) */
#define FAIL_POST(kindF) (G.p.first != F_NONE && (G.i_won ==> (G.p.first == (kindF) && G.stopped_children == 1 && G.error_stores == ((kindF) == F_ERROR ? 1u : 0u) && !G.p.ep)) \
   && (!G.i_won ==> (G.error_stores == 0 && G.stopped_children == 0)))

void when_all_op_deliver_value(struct when_all_op* self)
__CPROVER_requires(self == &OP && !G.dead && G.completed == 0 && G.elected && G.cb_state == CB_DESTRUCTED && !G.dv_threw)
__CPROVER_assigns(A_DELIVER_VALUE)
__CPROVER_ensures(G.completed == 1 && G.dead && UNTOUCHED) /* exactly one completion, nothing touched afterwards */
__CPROVER_ensures(G.channel == (G.dv_threw ? CH_ERROR_EXCEPTION : CH_VALUE)) /* a throwing set_value turns into set_error(current_exception) */
/*@BODY deliver_value*/

void when_all_op_deliver_result(struct when_all_op* self)
__CPROVER_requires(self == &OP && DELIVER_PRE)
__CPROVER_assigns(A_DELIVER_RESULT)
__CPROVER_ensures(G.completed == 1 && G.dead && UNTOUCHED) /* C01: exactly one completion; the dead operation is not touched */
__CPROVER_ensures(G.cb_state == CB_DESTRUCTED && G.cb_destructs == 1) /* C04 */
__CPROVER_ensures(G.stop_polls == 1 && G.channel == EXPECTED_CHANNEL) /* C05: receiver stop > stored error > done > values */
__CPROVER_ensures(G.p.e && G.p.k == 0 && !G.p.ep && G.p.first == __CPROVER_old(G.p.first) && (!__CPROVER_old(G.p.f) || G.p.f)) /* frame: the election is final, the failure latch frozen */
/*@BODY deliver_result*/

void when_all_op_element_complete(struct when_all_op* self)
__CPROVER_requires(self == &OP && G.mine == 1 && OWNER_PRE) /*P*/
__CPROVER_assigns(A_ELEMENT_COMPLETE)
__CPROVER_ensures(RELEASE_POST)
__CPROVER_ensures(RELEASE_FRAME)
/*@BODY element_complete*/

void when_all_op_request_stop(struct when_all_op* self)
__CPROVER_requires(self == &OP && CALLBACK_PRE)
__CPROVER_assigns(A_REQUEST_STOP)
__CPROVER_ensures(CALLBACK_POST)
__CPROVER_ensures((G.started || G.p.k == __CPROVER_old(G.p.k)) && (G.completed == 1 || G.cb_state == __CPROVER_old(G.cb_state))) /* frame */
/*@BODY request_stop*/

void cancel_operation_call(struct cancel_operation* self)
__CPROVER_requires(self == &CANCEL && CANCEL.op_ == &OP && CALLBACK_PRE)
__CPROVER_assigns(A_REQUEST_STOP)
__CPROVER_ensures(CALLBACK_POST)
__CPROVER_ensures((G.started || G.p.k == __CPROVER_old(G.p.k)) && (G.completed == 1 || G.cb_state == __CPROVER_old(G.cb_state))) /* frame */
/*@BODY cancel_call*/

void when_all_op_start(struct when_all_op* self)
__CPROVER_requires(self == &OP && FRESH_CALL && INV_NOW && G.role == ROLE_NONE && G.mine == 0 && !G.i_won && !G.started && G.starts == 0)
__CPROVER_requires(G.cb_state == CB_NONE && G.cb_constructs == 0 && G.stopped_children == 0)
__CPROVER_requires(OP.refCount_ == refCount_INIT && G.p.k == VF_N && N_STATIC_ASSERT && VF_N <= VF_NMAX && !G.p.a && !G.p.e && !G.p.f && !G.p.z) /* freshly constructed */
__CPROVER_assigns(A_REQUEST_STOP, G.role, G.cb_state, G.cb_constructs, G.started, G.starts)
__CPROVER_ensures(G.completed == 0) /* C01: start() itself delivers nothing; a completion during start() comes from a child's own completion */
__CPROVER_ensures(G.cb_constructs == 1 && G.cb_state == CB_REGISTERED && G.cb_destructs == 0) /* C04: registered on the receiver's token, not deregistered by start() */
__CPROVER_ensures(G.starts == 1 && G.started && G.dead && UNTOUCHED) /* children started once; nothing touched after the last child was started */
__CPROVER_ensures(G.incs == 0 || G.stopped_children == 1) /* C04: a stop request that arrived before start() reaches the (not yet started) children's token */
/*@BODY start*/

void element_receiver_set_error(struct element_receiver* self)
__CPROVER_requires(self == &RCV && RCV.op_ == &OP && CHILD_PRE && G.my_kind == K_ERROR)
__CPROVER_assigns(A_FAIL)
__CPROVER_ensures(RELEASE_POST)
__CPROVER_ensures(FAIL_POST(F_ERROR))
/*@BODY er_set_error*/

void element_receiver_set_done(struct element_receiver* self)
__CPROVER_requires(self == &RCV && RCV.op_ == &OP && CHILD_PRE && G.my_kind == K_DONE)
__CPROVER_assigns(A_FAIL)
__CPROVER_ensures(RELEASE_POST)
__CPROVER_ensures(FAIL_POST(F_DONE))
/*@BODY er_set_done*/

void element_receiver_set_value(struct element_receiver* self)
__CPROVER_requires(self == &RCV && RCV.op_ == &OP && CHILD_PRE && G.my_kind == K_VALUE && !G.threw && G.value_stores == 0)
__CPROVER_assigns(A_FAIL, G.value_stores, G.threw, G.my_kind)
__CPROVER_ensures(RELEASE_POST)
__CPROVER_ensures(!G.threw ==> (G.value_stores == 1 && !G.i_won && G.stopped_children == 0 && G.error_stores == 0)) /* value stored, no failure recorded by this child */
__CPROVER_ensures(G.threw ==> FAIL_POST(F_ERROR)) /* C05: a throwing value store becomes the set_error path of the same child */
/*@BODY er_set_value*/

/* ---------------- harnesses ---------------- */
static void h_havoc(void) {
  VF_N = VF_nondet_size_t();
  pst_set(pst_nondet());
  G.started = vf_nb(); G.role = VF_nondet_int(); G.mine = VF_nondet_u32(); G.my_kind = VF_nondet_int();
  G.i_won = vf_nb(); G.incs = VF_nondet_u32(); G.decs = VF_nondet_u32(); G.inc_old = VF_nondet_size_t(); G.dec_old = VF_nondet_size_t();
  G.elected = vf_nb(); G.completed = VF_nondet_u32(); G.channel = CH_NONE;
  G.cb_state = VF_nondet_int(); G.cb_constructs = VF_nondet_u32(); G.cb_destructs = VF_nondet_u32();
  G.stopped_children = VF_nondet_u32(); G.starts = VF_nondet_u32();
  G.stop_seen = 0; G.stop_polls = VF_nondet_u32();
  G.error_stores = VF_nondet_u32(); G.value_stores = VF_nondet_u32(); G.threw = vf_nb(); G.dv_threw = vf_nb();
  G.dead = vf_nb(); G.snap = OP;
  RCV.op_ = &OP; CANCEL.op_ = &OP;
}
void h_deliver_value(void) {
  h_havoc(); when_all_op_deliver_value(&OP);
  VF_CANARY("after deliver_value");
  if (G.channel == CH_VALUE) { VF_CANARY("deliver_value: value channel"); } else { VF_CANARY("deliver_value: exception channel"); }
}
void h_deliver_result(void) {
  h_havoc(); when_all_op_deliver_result(&OP);
  VF_CANARY("after deliver_result");
  if (G.channel == CH_DONE && G.stop_seen) { VF_CANARY("deliver_result: done because the receiver's token is stopped"); }
  if (G.channel == CH_DONE && !G.stop_seen) { VF_CANARY("deliver_result: done because a child was done first"); }
  if (G.channel == CH_ERROR_STORED) { VF_CANARY("deliver_result: stored error"); }
  if (G.channel == CH_VALUE) { VF_CANARY("deliver_result: values"); }
  if (G.cb_state == CB_DESTRUCTED && G.role == ROLE_CB) { VF_CANARY("deliver_result from inside the stop callback"); }
}
void h_element_complete(void) {
  h_havoc(); when_all_op_element_complete(&OP);
  VF_CANARY("after element_complete");
  if (G.completed) { VF_CANARY("element_complete can be the elected completer"); } else { VF_CANARY("element_complete can be a non-last owner"); }
  if (G.role == ROLE_CB && G.completed) { VF_CANARY("the stop callback can be the elected completer"); }
}
void h_request_stop(void) {
  h_havoc(); when_all_op_request_stop(&OP);
  VF_CANARY("after request_stop");
  if (G.inc_old == 0) { VF_CANARY("request_stop after the election (dead increment)"); }
  if (G.completed) { VF_CANARY("request_stop can deliver the result"); }
}
void h_cancel_call(void) { h_havoc(); cancel_operation_call(&CANCEL); VF_CANARY("after cancel_operation::operator()"); }
void h_start(void) {
  h_havoc(); when_all_op_start(&OP);
  VF_CANARY("after start");
  if (G.incs) { VF_CANARY("start with the token already stopped"); }
}
void h_er_set_value(void) {
  h_havoc(); element_receiver_set_value(&RCV);
  VF_CANARY("after element set_value");
  if (G.threw) { VF_CANARY("value store can throw"); }
  if (G.completed) { VF_CANARY("set_value of the last child delivers the result"); }
}
void h_er_set_error(void) {
  h_havoc(); element_receiver_set_error(&RCV);
  VF_CANARY("after element set_error");
  if (G.i_won) { VF_CANARY("set_error can be the first failure"); } else { VF_CANARY("set_error can come second"); }
}
void h_er_set_done(void) {
  h_havoc(); element_receiver_set_done(&RCV);
  VF_CANARY("after element set_done");
  if (G.i_won) { VF_CANARY("set_done can be the first failure"); } else { VF_CANARY("set_done can come second"); }
}

/* ---------------- M4 lemmas over the contracts' predicates ---------------- */
static int vf_step(struct pst o, struct pst n, int step, int kind) {
  switch (step) {
  case 0: return STEP_CHILD_DONE(o, n);
  case 1: return STEP_CB_ENTER(o, n);
  case 2: return STEP_CB_EXIT(o, n);
  case 3: return (kind == F_ERROR || kind == F_DONE) && STEP_LATCH(o, n, kind);
  default: return STEP_STORE_ERROR(o, n);
  }
}
/* Inv is inductive for every step; no lost completion; the election happens at most once, exactly at the
 * count's transition to 0 by a real owner */
void lemma_election(void) {
  struct pst o = pst_nondet(), n = pst_nondet();
  int step = VF_nondet_int(), kind = VF_nondet_int();
  __CPROVER_assume(step >= 0 && step <= 4);
  __CPROVER_assume(INV(o));
  VF_P((o.g.k == 0 && !o.g.a) ==> o.g.e, "lemma: all children signalled and no callback active => the election has happened (no lost completion)");
  VF_P(o.g.e ==> (o.c <= 1), "lemma: after the election the count is 0 (or 1: the dead increment)");
  __CPROVER_assume(vf_step(o, n, step, kind));
  VF_CANARY("lemma_election premises satisfiable");
  if (step == 0) { VF_CANARY("child_done enabled"); } if (step == 1) { VF_CANARY("cb_enter enabled"); } if (step == 2) { VF_CANARY("cb_exit enabled"); }
  if (step == 3) { VF_CANARY("latch enabled"); } if (step == 4) { VF_CANARY("store_error enabled"); }
  VF_P(INV(n), "lemma: Inv is inductive for child_done / cb_enter / cb_exit / latch / store_error");
  VF_P((!o.g.e && n.g.e) ==> ((step == 0 || step == 2) && o.c == 1 && n.c == 0 && n.g.k == 0 && !n.g.a), "lemma: the election is the count's transition 1 -> 0 by a real owner's decrement");
  VF_P(((step == 0 || step == 2) && o.c == 1) ==> (!o.g.e && n.g.e), "lemma: the decrement that returns 1 is the election");
  VF_P(o.g.e ==> (step == 1 && n.g.e && n.g.z && n.g.k == 0 && !n.g.a && SAME_LATCH(o, n)), "lemma: after the election only the late callback's dead increment is enabled (election at most once; nobody else touches the operation)");
  VF_P((step == 0 || step == 2) ==> !o.g.e, "lemma: no decrement after the election (exactly one fetch_sub returns 1)");
}
/* every guarantee step of one party is allowed by the rely of any OTHER party (so the relies are not wishful) */
void lemma_rely(void) {
  struct pst o = pst_nondet(), n = pst_nondet();
  int step = VF_nondet_int(), kind = VF_nondet_int();
  int roleB = VF_nondet_int(); unsigned mineB = VF_nondet_u32(); _Bool wonB = vf_nb(), started = vf_nb();
  __CPROVER_assume(step >= 0 && step <= 4 && roleB >= ROLE_NONE && roleB <= ROLE_CB && mineB <= 1);
  __CPROVER_assume(INV(o) && vf_step(o, n, step, kind));
  /* B's ownership is consistent with the state, and disjoint from what the stepping party A uses */
  _Bool a_is_child = (step == 0 || step == 3 || step == 4), a_is_cb = (step == 1 || step == 2);
  __CPROVER_assume(roleB != ROLE_CHILD || mineB == 0 || o.g.k >= (a_is_child ? 2u : 1u));     /* B's unit is not A's unit */
  __CPROVER_assume(!a_is_cb || roleB != ROLE_CB);                                         /* one stop callback */
  __CPROVER_assume(roleB != ROLE_CB || B(o.g.a) == (mineB == 1));
  __CPROVER_assume(!a_is_child || started);                                              /* a child acts only after it was started */
  __CPROVER_assume(!wonB || (o.g.first != F_NONE && roleB == ROLE_CHILD));                 /* B is the first failure => the latch is set */
  __CPROVER_assume(!(step == 4) || !wonB);                                               /* the pending error store belongs to the winner A, so B is not the winner */
  __CPROVER_assume(wonB || !o.g.ep || step == 4 || o.g.k >= MY_CHILD_UNITS(roleB, mineB) + 1u + (a_is_child ? 1u : 0u)); /* the pending storer is a third child unless it is A (step 4) */
  VF_CANARY("lemma_rely premises satisfiable");
  VF_P(RELY_(o, n, roleB, mineB, wonB, started), "lemma: every guarantee step of a party is allowed by the rely of every other party");
}
void lemma_init(void) {
  VF_N = VF_nondet_size_t();
  __CPROVER_assume(N_STATIC_ASSERT && VF_N <= VF_NMAX);
  struct pst s; s.c = refCount_INIT; s.doe = doneOrError_INIT; s.es = 0; /* std::optional: default-constructed empty */
  s.g.k = VF_N; s.g.a = 0; s.g.e = 0; s.g.z = 0; s.g.f = 0; s.g.ep = 0; s.g.first = F_NONE;
  VF_CANARY("lemma_init reachable");
  VF_P(INV(s), "lemma: a freshly constructed operation satisfies Inv with k = N = sizeof...(Senders) (refCount_ initialiser)");
  VF_P(s.c == VF_N && s.c >= 1, "lemma: refCount_ starts at the number of children, which is at least 1");
}
/* C05: first failure wins, and what the elected completer reads determines it */
void lemma_first_failure(void) {
  struct pst s0 = pst_nondet(), s1 = pst_nondet(), s2 = pst_nondet();
  int k1 = VF_nondet_int(), k2 = VF_nondet_int();
  __CPROVER_assume(INV(s0) && s0.g.first == F_NONE);
  __CPROVER_assume((k1 == F_ERROR || k1 == F_DONE) && (k2 == F_ERROR || k2 == F_DONE));
  __CPROVER_assume(STEP_LATCH(s0, s1, k1) && STEP_LATCH(s1, s2, k2));
  VF_CANARY("lemma_first_failure premises satisfiable");
  VF_P(s1.g.first == k1 && s2.g.first == k1, "lemma: the first exchange decides the failure kind; a later failure does not change it");
  struct pst t = pst_nondet();
  __CPROVER_assume(INV(t) && t.g.e);
  VF_P(!t.g.ep, "lemma: at the election no error store is pending");
  VF_P(B(t.doe) == (t.g.first != F_NONE) && B(t.es) == (t.g.first == F_ERROR), "lemma: doneOrError_ and error_.has_value() as read by the completer determine the first failure");
  VF_P((!t.doe ? CH_VALUE : t.es ? CH_ERROR_STORED : CH_DONE) == (t.g.first == F_ERROR ? CH_ERROR_STORED : t.g.first == F_DONE ? CH_DONE : CH_VALUE), "lemma: channel selection over the words equals the documented function of the first failure");
}
