"""C14 / C04: io_uring_context::accept_sender::operation -- the accept instance of the table of specs/uring_io (read / write).
Same protocol (refCount_ 1 -> 2 / fetch_sub election, stop callback, nested cancel_operation), different value: the accepted descriptor,
wrapped once into async_read_write_file{context_, result_} (a safe_file_descriptor) and handed to set_value."""
H = 'include/unifex/linux/io_uring_context.hpp'
AC_SENDER = r'class io_uring_context::accept_sender \{'
OPCLS = r'class operation\s*: private completion_base'
COPCLS = r'struct cancel_operation final : completion_base'
CTXC = r'class io_uring_context \{'
OPBASE = r'struct operation_base \{'

RCV = r'std::move\(self\.receiver_\)'
# the value: a temporary async_read_write_file (io_uring_context&, safe_file_descriptor) built from the operation's context and its CQE res
VAL = r'async_read_write_file\{\s*([^{},;]*),\s*([^{},;]*)\}'
VAL_NC = r'async_read_write_file\{[^{};]*\}'
LAMBDA = r'auto populateSqe = \[this\]\(io_uring_sqe& sqe\) noexcept '


def op_pre(P, cont):
    """call abstractions for the operation class (P = C prefix, cont = name of the CQE continuation)"""
    return [
        # static member functions recover the operation from its queue item (operation : completion_base : operation_base, single inheritance: identity)
        (r'auto& self = \*static_cast<operation\*>\(op\);', 'struct io_op* self = (struct io_op*)op;'),
        (r'static_cast<operation\*>\(op\)->start_io\(\)', P + '_start_io((struct io_op*)op)'),
        # cancel_operation (member cop_, its own completion_base) delegates to the parent operation (op_ is a reference: a pointer here)
        (r'operation::%s\(&static_cast<cancel_operation\*>\(op\)->op_\)' % cont, P + '_%s(&((struct cancel_op*)op)->op_->cb.base)' % cont),
        (r'static_cast<cancel_operation\*>\(op\)->op_\.request_stop_local\(\)', P + '_request_stop_local(((struct cancel_op*)op)->op_)'),
        # if (char expected = E; !cas(expected, D, mo)) {   ->   char expected = E; if (!cas(...)) {      (if-with-init on a non-auto type: rule missing from the table)
        (r'if \(char expected = (\w+); (!refCount_\.compare_exchange_strong\(\s*expected, \w+, std::memory_order_\w+\))\) \{', r'char expected = \1; if (\2) {'),
        # receiver completion signals -> event stubs; the two constructor arguments of the value (context, descriptor) are kept
        (r'noexcept\(\s*unifex::set_value\(\s*' + RCV + r',\s*' + VAL_NC + r'\)\)', 'VF_CFG_nothrow'),
        (r'UNIFEX_TRY\s*\{\s*unifex::set_value\(\s*' + RCV + r',\s*' + VAL + r'\);\s*\}\s*UNIFEX_CATCH\s*\(\.\.\.\)\s*\{',
         r'{ if (EV_set_value_maythrow(self, \1, \2)) goto vf_catch; } if (0) { vf_catch: ;'),
        (r'unifex::set_value\(\s*' + RCV + r',\s*' + VAL + r'\)', r'EV_set_value(self, \1, \2)'),
        (r'unifex::set_error\(\s*' + RCV + r',\s*std::current_exception\(\)\)', 'EV_set_error_exception(self)'),
        (r'unifex::set_error\(\s*' + RCV + r',\s*std::error_code\{([^{},]*), std::system_category\(\)\}\)', r'EV_set_error(self, \1)'),
        (r'unifex::set_done\(' + RCV + r'\)', 'EV_set_done(self)'),
        # stop token / callback (manual_lifetime<callback_type<cancel_callback>>): construction may run request_stop() inline
        (r'get_stop_token\(self\.receiver_\)\.stop_requested\(\)', 'EV_stop_requested(self)'),
        (r'stopCallback_\.construct\(\s*get_stop_token\(receiver_\), cancel_callback\{\*this\}\)', 'EV_cb_construct(this)'),
        (r'self\.stopCallback_\.destruct\(\)', 'EV_cb_destruct(self)'),
        # the context: thread identity, the scheduling entry points and try_submit_io (contracts: specs/uring_queue/uq_contract.h)
        (r'context_\.is_running_on_io_thread\(\)', 'EV_on_io_thread(this)'),
        (r'context_\.schedule_remote\(this\)', 'EV_schedule_remote(this, &this->cb.base)'),
        (r'context_\.schedule_remote\(&cop_\)', 'EV_schedule_remote(this, &this->cop_.cb.base)'),
        (r'context_\.schedule_pending_io\(this\)', 'EV_schedule_pending_io(this, &this->cb.base)'),
        (r'context_\.schedule_pending_io\(&cop_\)', 'EV_schedule_pending_io(this, &this->cop_.cb.base)'),
        # casts to the completion_base sub-objects made explicit
        (r'static_cast<completion_base\*>\(this\)', '(&this->cb)'),
        (r'static_cast<completion_base\*>\(&cop_\)', '(&this->cop_.cb)'),
        (r'this->execute_', 'this->cb.base.execute_'),
        (r'(?<![\w.>])cop_\.execute_', 'this->cop_.cb.base.execute_'),
        (r'self\.result_', 'self->cb.result_'),
        (r'&operation::(\w+)', '&' + P + r'_\1'),
        (r'&cancel_operation::(\w+)', '&' + P + r'_cop_\1'),
        (r'\bself\.', 'self->'),
    ]


def op_ctx(P, cont):
    return dict(cls=P, members=['context_', 'fd_', 'receiver_', 'stopCallback_', 'refCount_', 'cop_'],
                methods=['start_io', 'request_stop_local', 'request_stop_remote'],
                atomic=['refCount_'], pre=op_pre(P, cont), scalars=['int'],
                typemap=[(r'(?<!struct )\bio_uring_sqe\b', 'struct io_uring_sqe'), (r'(?<!struct )\boperation_base\b', 'struct operation_base')])


def op_extracts(P, cont, SENDER):
    W = [SENDER, OPCLS]
    WC = [SENDER, OPCLS, COPCLS]
    c = op_ctx(P, cont)
    # the populateSqe lambdas are extracted as functions of their own and deleted from the enclosing bodies
    drop_lambda = (r'(?s)' + LAMBDA + r'\{.*?\n      \};', '')
    c_start_io = dict(pre=[drop_lambda, (r'context_\.try_submit_io\(populateSqe\)', 'EV_try_submit_io(this, POP_IO)')])
    c_stop_local = dict(pre=[drop_lambda, (r'context_\.try_submit_io\(populateSqe\)', 'EV_try_submit_io(this, POP_CANCEL)')])
    c_lambda = dict(pre=[(r'\bsqe\.', 'sqe_p->')])
    ex = {}
    ex[P + '_refcount_init'] = dict(file=H, kind='expr', within=W, sig=r'std::atomic_char refCount_\{([^}]*)\};')
    ex[P + '_start'] = dict(file=H, within=W, ctx=c, sig=r'void start\(\) noexcept')
    ex[P + '_on_schedule_complete'] = dict(file=H, within=W, ctx=c, sig=r'static void on_schedule_complete\(operation_base\* op\) noexcept')
    ex[P + '_start_io'] = dict(file=H, within=W, ctx=dict(c, pre=c_start_io['pre'] + c['pre']), sig=r'void start_io\(\) noexcept')
    ex[P + '_start_io_populate'] = dict(file=H, within=W + [r'void start_io\(\) noexcept'], ctx=dict(c, pre=c_lambda['pre'] + c['pre']), sig=LAMBDA)
    ex[P + '_request_stop'] = dict(file=H, within=W, ctx=c, sig=r'void request_stop\(\) noexcept')
    ex[P + '_request_stop_local'] = dict(file=H, within=W, ctx=dict(c, pre=c_stop_local['pre'] + c['pre']), sig=r'void request_stop_local\(\) noexcept')
    ex[P + '_cancel_populate'] = dict(file=H, within=W + [r'void request_stop_local\(\) noexcept'], ctx=dict(c, pre=c_lambda['pre'] + c['pre']), sig=LAMBDA)
    ex[P + '_request_stop_remote'] = dict(file=H, within=W, ctx=c, sig=r'void request_stop_remote\(\) noexcept')
    ex[P + '_on_complete'] = dict(file=H, within=W, ctx=c, sig=r'static void %s\(operation_base\* op\) noexcept' % cont)
    ex[P + '_cop_on_stop_complete'] = dict(file=H, within=WC, ctx=c, sig=r'static void on_stop_complete\(operation_base\* op\) noexcept')
    ex[P + '_cop_on_schedule_stop_complete'] = dict(file=H, within=WC, ctx=c, sig=r'static void on_schedule_stop_complete\(operation_base\* op\) noexcept')
    return ex


extracts = {
    'ob_next_init': dict(file=H, kind='expr', within=[CTXC, OPBASE], sig=r'operation_base\* next_\s*(=?[^;]*);'),
    'ob_execute_init': dict(file=H, kind='expr', within=[CTXC, OPBASE], sig=r'void \(\*execute_\)\(operation_base\*\) noexcept\s*(=?[^;]*);'),
}
extracts.update(op_extracts('AC', 'on_accept', AC_SENDER))

DECLS = [r'std::atomic_char refCount_\{1\};', r'(?s)manual_lifetime<typename stop_token_type_t<\s*Receiver>::template callback_type<cancel_callback>>\s*stopCallback_;',
         r'cancel_operation cop_\{\*this\};']


def units_for(P, cont):
    p = P.lower()
    oc = P + '_' + cont
    return [
        dict(name=p + '_start', harness='h_%s_start' % p, enforce=P + '_start', replace=[P + '_start_io'], props=['C14']),
        dict(name=p + '_on_schedule_complete', harness='h_%s_on_schedule_complete' % p, enforce=P + '_on_schedule_complete', replace=[P + '_start_io'], props=['C14']),
        # start_io is also the retry continuation of an operation that found no ring space (the REAL start_io builds that state, then the continuation runs it again)
        # (VF_INLINE_STOP: a stop request may already be there when the callback is constructed: the REAL request_stop / request_stop_local run inline)
        dict(name=p + '_on_schedule_complete_retry', harness='h_%s_on_schedule_complete_retry' % p, enforce=P + '_on_schedule_complete', defines=['VF_INLINE_STOP']),
        dict(name=p + '_start_io', harness='h_%s_start_io' % p, enforce=P + '_start_io', defines=['VF_INLINE_STOP']),
        dict(name=p + '_request_stop', harness='h_%s_request_stop' % p, enforce=P + '_request_stop', replace=[P + '_request_stop_local', P + '_request_stop_remote']),
        dict(name=p + '_request_stop_local', harness='h_%s_request_stop_local' % p, enforce=P + '_request_stop_local'),
        dict(name=p + '_request_stop_remote', harness='h_%s_request_stop_remote' % p, enforce=P + '_request_stop_remote'),
        dict(name=p + '_on_accept', harness='h_%s_on_accept' % p, enforce=oc),
        dict(name=p + '_on_stop_complete', harness='h_%s_on_stop_complete' % p, enforce=P + '_cop_on_stop_complete', replace=[oc]),
        dict(name=p + '_on_schedule_stop_complete', harness='h_%s_on_schedule_stop_complete' % p, enforce=P + '_cop_on_schedule_stop_complete', replace=[P + '_request_stop_local']),
    ]


SPEC = dict(
    properties=['C14', 'C04'],
    ctx=op_ctx('AC', 'on_accept'),
    extracts=extracts,
    closed_world=[
        dict(file=H, members=['refCount_', 'stopCallback_', 'cop_'], within=AC_SENDER, allow=DECLS),
    ],
    units=units_for('AC', 'on_accept') + [
        dict(name='lemma_uac_init', harness='lemma_uac_init', mode='lemma'),
        dict(name='lemma_uac_refcount', harness='lemma_uac_refcount', mode='lemma'),
        dict(name='lemma_uac_env_cancel', harness='lemma_uac_env_cancel', mode='lemma'),
        dict(name='lemma_uac_fd', harness='lemma_uac_fd', mode='lemma'),
    ],
    assumptions=[
        'kernel model: every SQE taken (published through try_submit_io) produces exactly one CQE carrying its user_data and a result; the loop stores the CQE\'s res in the completion_base '
        'it names and runs that item\'s continuation once (contracts of try_submit_io / acquire_completion_queue_items / execute_pending_local, group uring_queue); an IORING_OP_ASYNC_CANCEL finds '
        'its target only if the target\'s SQE precedes it in the submission queue (the kernel consumes SQEs in order); what the cancel\'s own CQE carries is not used by the code',
        'kernel model of IORING_OP_ACCEPT: a CQE with res >= 0 means the kernel has installed a NEW open descriptor res in the process (owned by nobody until it is wrapped); res < 0 means no descriptor '
        'was created (in particular -ECANCELED: the accept was cancelled before it took a connection)',
        'try_submit_io / schedule_remote / schedule_pending_io are event stubs checked against specs/uring_queue/uq_contract.h (enforced on the real bodies in group uring_queue); '
        'try_submit_io may find no room at any time',
        'async_read_write_file{ctx, fd} / safe_file_descriptor (a 20-line RAII wrapper) are modelled inside the set_value stubs, not extracted: the temporary owns the descriptor from its construction; '
        'the receiver may move it out (delivered); whatever the temporary still owns at the end of the full expression (normal return or unwinding) is closed by ~safe_file_descriptor exactly once; '
        'the temporary lives in the caller\'s frame, not in the operation state (its destruction after the receiver was completed touches nothing of the operation); '
        'what the RECEIVER does with a delivered descriptor is the receiver\'s business',
        'the listening descriptor fd_ belongs to the caller (accept_stream) and is neither closed nor changed by the operation',
        'the stop callback is invoked at most once (C03, group stop_token); it can fire only between its construction and the return of its destructor (which waits for a running invocation); '
        'request_stop is reached only through that callback; the token\'s stop_requested() is monotone; a callback constructed on an already stopped token runs request_stop() inline',
        'start() is called once per operation state; on_schedule_complete / on_accept / on_stop_complete / on_schedule_stop_complete are entered only through the context\'s queues with their own '
        'queue item dequeued',
        'rely of the I/O-thread functions: a remote canceller performs request_stop() as summarised by its contract (lemma_uac_env_cancel); rely of request_stop: the I/O thread may consume the '
        'operation\'s CQE (one fetch_sub) but cannot complete the operation while the cancel half of the count is outstanding (lemma_uac_refcount)',
        'a stop request that arrives after the accept has taken a connection does not turn the result into done: the property\'s "done if its stop token fired" is read as "done only for a CQE with '
        '-ECANCELED"; otherwise the accepted descriptor would have to be closed by the operation (lemma_uac_fd states the alternative that is also leak-free)',
        'accept_stream (next / cleanup / open_socket) is not under contract',
        'atomics sequentially consistent',
    ],
    drops=['memory orders', 'noexcept', 'template genericity (Receiver): if constexpr(noexcept(set_value(...))) -> both branches (symbolic configuration)',
           'private inheritance operation : completion_base : operation_base and the member cancel_operation : completion_base -> nested structs; static_cast up/down-casts -> member access / identity casts',
           'receiver completion signals -> event stubs (context and descriptor arguments of the async_read_write_file temporary and the error code kept; receiver and std::error_category dropped); '
           'std::current_exception() payload; the async_read_write_file temporary itself (construction, move into the receiver, destruction at the end of the full expression) is modelled by the stub',
           'stopCallback_.construct/destruct, get_stop_token(r).stop_requested() -> event stubs (construct may run request_stop() inline); cancel_callback::operator() (one line: op_.request_stop()) not extracted',
           'the populateSqe lambdas of start_io / request_stop_local are extracted as functions of their own and deleted from the enclosing bodies (spec-level regex); context_.try_submit_io(lambda) -> event stub '
           'that runs the extracted lambda on a zeroed SQE when it chooses "room"',
           'if (char expected = 1; !cas) -> declaration + if (spec-level regex); UNIFEX_TRY/UNIFEX_CATCH made explicit by a spec-level regex (goto vf_catch at the may-throw stub)',
           'operation(operation&&) = delete; the constructor (member-wise copy of context and descriptor from the sender)'],
)
