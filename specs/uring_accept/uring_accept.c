/* C14 / C04: io_uring_context accept_sender::operation (include/unifex/linux/io_uring_context.hpp) -- the accept instance of the
 * read / write table of specs/uring_io:
 * start, on_schedule_complete, start_io (+ its populateSqe lambda), request_stop, request_stop_local (+ lambda), request_stop_remote,
 * on_accept, cancel_operation::on_stop_complete / on_schedule_stop_complete.
 *
 * refCount_ counts the CQEs that still have to arrive before the operation may complete:
 *   1   the operation's own CQE (ACCEPT)                                -- initial value
 *   2   ... plus the CQE of the IORING_OP_ASYNC_CANCEL (cop_)           -- request_stop's CAS 1 -> 2 (the stop callback, any thread)
 * every CQE's continuation does fetch_sub(1); the one that takes the count to 0 destroys the stop callback and completes the receiver.
 * Kernel: an SQE taken for the operation (user_data = its completion_base) is a reference the kernel holds until its CQE has been
 * consumed (ghosts G.io_inflight / G.cancel_inflight): no completion while one is in flight.
 * The value: a CQE with res >= 0 carries a NEW open descriptor (ghost G.fd_state): it must get exactly one owner
 * (async_read_write_file{context_, res} = safe_file_descriptor{res}) which is delivered to the receiver or closes it -- never left open and unowned.
 * Unlike the quick tier of uring_io nothing is assumed about when the stop request arrives: it may already be there when the callback is
 * constructed (request_stop runs inline), it may arrive while the operation waits for ring space (if the code has a callback then), and
 * start_io is also verified as the retry continuation.
 * Bodies marked @BODY/@EXPR are extracted from the source tree on every run; everything else here is specification. */
#include <stddef.h>
#include <stdint.h>
#include <string.h>
#include <sys/types.h>
#include <sys/socket.h>
#include <linux/io_uring.h>
#include <errno.h>

struct operation_base { struct operation_base* next_; void (*execute_)(struct operation_base*); };
struct completion_base { struct operation_base base; int result_; };
typedef void (*exec_fn)(struct operation_base*);
struct io_uring_context { int opaque; };
struct io_op;
struct cancel_op { struct completion_base cb; struct io_op* op_; };   /* operation::cancel_operation : completion_base */
struct io_op {                                /* accept_sender::operation<Receiver> : private completion_base */
  struct completion_base cb;                  /* queue item; what the ACCEPT SQE's user_data points to */
  struct io_uring_context* context_; int fd_; int receiver_; int stopCallback_;
  char refCount_;
  struct cancel_op cop_;                      /* queue item of the cancellation; what the ASYNC_CANCEL SQE's user_data points to */
};

enum { CB_NONE, CB_CONSTRUCTED, CB_DESTRUCTED };
enum { ROLE_IO, ROLE_CANCEL };
enum { PATH_NONE, PATH_IO_CQE, PATH_CANCEL_CQE };
enum { POP_IO = 1, POP_CANCEL = 2 };
/* the accepted descriptor: none | created by the kernel, owned by nobody | owned by the async_read_write_file temporary | moved into the receiver | closed */
enum { FD_NONE, FD_RAW, FD_TEMP, FD_DELIVERED, FD_CLOSED };
struct vf_ghost {
  int role;                   /* who executes the verified call: the I/O thread or the stop callback (decides the rely) */
  int path;                   /* on whose behalf on_accept runs: the operation's own CQE or the cancel's CQE */
  _Bool on_io_thread;         /* thread identity of the calling thread */
  /* kernel / ring */
  unsigned io_sqes, cancel_sqes;        /* SQEs taken so far for the accept / for its cancellation */
  _Bool io_inflight, cancel_inflight;   /* taken and its CQE not yet consumed by the loop */
  _Bool io_dispatched; int cqe_res;     /* the accept's CQE has been consumed: its res (stored in result_ by the loop) */
  unsigned submit_calls; int force_room;        /* harness: -1 = try_submit_io chooses, 0 = no ring space, 1 = room */
  /* the accepted descriptor */
  int fd_state; unsigned fd_wraps;
  /* the context's queues */
  _Bool op_queued, cop_queued;          /* the item is in the remote / pending-I/O / local queue */
  unsigned sched_remote, sched_pending; exec_fn sched_fn;       /* the operation's own item handed to the remote / pending-I/O queue by the verified call */
  unsigned cop_remote, cop_pending; exec_fn cop_sched_fn;       /* the cancel item likewise */
  /* stop token and callback */
  int cb_state; unsigned constructs; _Bool stop_requested, stop_seen, cb_fired; unsigned polls;
  /* the count */
  unsigned cancel_cas; _Bool io_subbed, cancel_subbed; unsigned subs; int sub_old;
  /* completion */
  unsigned completed, value, error, exc_error, done;
  _Bool dead; struct io_op snap;   /* the operation may have been destroyed / is now shared with another thread: fields as they were left */
};
static struct vf_ghost G;
static struct io_op S;
static struct io_uring_context CTX;
static struct io_uring_sqe SQE;      /* the submission entry try_submit_io hands to the populate lambda */
static _Bool VF_CFG_nothrow;         /* noexcept(set_value(receiver, async_read_write_file)) */

static void vf_guarantee(void* p, int o, int n);
#define VF_G(p, o, n) vf_guarantee((void*)(p), (int)(o), (int)(n))
#include "vf.h"
#include "../uring_queue/uq_contract.h"

static void operation_base_init(struct operation_base* b) { struct operation_base* vf_n /*@EXPR ob_next_init*/; exec_fn vf_e /*@EXPR ob_execute_init*/; b->next_ = vf_n; b->execute_ = vf_e; }
static void io_op_init(struct io_op* self) {
  operation_base_init(&self->cb.base); operation_base_init(&self->cop_.cb.base);
  self->refCount_ = /*@EXPR AC_refcount_init*/;
  self->cop_.op_ = self;       /* cancel_operation cop_{*this} */
}

void AC_start(struct io_op* self);
void AC_on_schedule_complete(struct operation_base* op);
void AC_start_io(struct io_op* self);
void AC_request_stop(struct io_op* self);
void AC_request_stop_local(struct io_op* self);
void AC_request_stop_remote(struct io_op* self);
void AC_on_accept(struct operation_base* op);
void AC_cop_on_stop_complete(struct operation_base* op);
void AC_cop_on_schedule_stop_complete(struct operation_base* op);
#define ON_SCHEDULE_FN      ((exec_fn)&AC_on_schedule_complete)
#define ON_COMPLETE_FN      ((exec_fn)&AC_on_accept)
#define ON_STOP_FN          ((exec_fn)&AC_cop_on_stop_complete)
#define ON_SCHEDULE_STOP_FN ((exec_fn)&AC_cop_on_schedule_stop_complete)

/* ---------------- protocol predicates (specification, from the property statement) ---------------- */
/* the count is exactly the number of CQEs still owed: the accept's, plus the cancel's once request_stop has won its CAS */
#define OWED ((G.io_subbed ? 0 : 1) + ((G.cancel_cas == 1 && !G.cancel_subbed) ? 1 : 0))
#define REF_OK (G.cancel_cas <= 1 && (G.cancel_subbed ==> G.cancel_cas == 1) && S.refCount_ == OWED && S.cop_.op_ == &S)
/* what the kernel and the context's queues hold is owed: an SQE in flight or a queued item always stands for a CQE that is still to be counted */
#define KERNEL_OK ((G.io_inflight ==> (!G.io_subbed && G.io_sqes >= 1 && !G.op_queued)) && (G.io_subbed ==> (G.io_dispatched && !G.io_inflight && !G.op_queued)) \
                   && (G.io_dispatched ==> (G.io_sqes >= 1 && !G.io_inflight)) \
                   && (G.cancel_inflight ==> (G.cancel_cas == 1 && !G.cancel_subbed && !G.cop_queued)) && (G.cop_queued ==> (G.cancel_cas == 1 && !G.cancel_subbed)) \
                   && ((G.cancel_cas == 0 || G.cancel_subbed) ==> (!G.cancel_inflight && !G.cop_queued)) && (G.cancel_cas == 1 ==> G.cb_state != CB_NONE))
/* the signal delivered is the documented function of THIS operation's CQE result: res >= 0 -> value(file(res)), -ECANCELED -> done, other -> error(-res);
 * a stop request that arrives after the connection was taken does not turn the result into done */
#define DECODED (G.cqe_res >= 0 ? (G.value == 1 || (!VF_CFG_nothrow && G.exc_error == 1)) : (G.cqe_res == -ECANCELED ? G.done == 1 : G.error == 1))
#define ONE_SIGNAL (G.value + G.error + G.exc_error + G.done == 1)
/* no leaked OS resource: a descriptor the kernel created got exactly one owner, and that owner handed it to the receiver or closed it; without one nothing was wrapped */
#define FD_SETTLED (G.cqe_res >= 0 ? (G.fd_wraps == 1 && (G.fd_state == FD_DELIVERED || G.fd_state == FD_CLOSED)) : (G.fd_wraps == 0 && G.fd_state == FD_NONE))
#define FD_KERNEL(res) ((res) >= 0 ? FD_RAW : FD_NONE)
#define OP_UNTOUCHED (S.cb.base.next_ == G.snap.cb.base.next_ && S.cb.base.execute_ == G.snap.cb.base.execute_ && S.cb.result_ == G.snap.cb.result_ && S.context_ == G.snap.context_ && S.fd_ == G.snap.fd_ \
   && S.receiver_ == G.snap.receiver_ && S.stopCallback_ == G.snap.stopCallback_ \
   && S.refCount_ == G.snap.refCount_ && S.cop_.cb.base.next_ == G.snap.cop_.cb.base.next_ && S.cop_.cb.base.execute_ == G.snap.cop_.cb.base.execute_ && S.cop_.cb.result_ == G.snap.cop_.cb.result_ && S.cop_.op_ == G.snap.cop_.op_)
static void op_shared(void) { struct io_op f; S = f; G.dead = 1; G.snap = S; }   /* from here on the operation belongs to somebody else (destroyed, or published to the I/O thread) */

/* guarantee: the only atomic these functions write is refCount_: the stop callback moves it 1 -> 2 once; every CQE continuation takes one off */
static void vf_guarantee(void* p, int o, int n) {
  VF_P(p == (void*)&S.refCount_ && !G.dead, "guarantee: refCount_ of the live operation is the only atomic word written");
  if (G.role == ROLE_CANCEL) {
    VF_P(o == 1 && n == 2, "guarantee: the stop callback's only write is the CAS 1 -> 2 (it registers ONE more CQE to wait for, and only while the accept's CQE is still owed)");
    VF_P(G.cancel_cas == 0, "guarantee: a cancellation is registered at most once");
    G.cancel_cas++;
  } else {
    VF_P(n == o - 1 && o >= 1, "guarantee: a CQE continuation takes exactly one off the count, never below zero");
    if (G.path == PATH_IO_CQE) { VF_P(!G.io_subbed && G.io_dispatched, "guarantee: the accept's CQE is counted once"); G.io_subbed = 1; }
    else { VF_P(G.path == PATH_CANCEL_CQE && G.cancel_cas == 1 && !G.cancel_subbed, "guarantee: the cancel's CQE is counted once, and only if a cancellation was registered"); G.cancel_subbed = 1; }
    G.subs++; G.sub_old = o;
  }
}

/* ---------------- rely ---------------- */
/* a complete request_stop() by a remote canceller, as summarised by request_stop's contract (lemma_uac_env_cancel) */
static void env_cancel(void) {
  G.stop_requested = 1; G.cb_fired = 1;
  if (S.refCount_ == 1) {
    S.refCount_ = 2; G.cancel_cas++;
    S.cop_.cb.base.execute_ = ON_SCHEDULE_STOP_FN; G.cop_queued = 1;       /* request_stop_remote: schedule_remote(&cop_) */
  }
}
static void vf_interfere(void) {
  if (G.role == ROLE_IO) {
    /* the stop callback can fire whenever it is registered with the stop source, and only once; the item it schedules is not run while the I/O thread is inside one of these functions */
    if (G.cb_state == CB_CONSTRUCTED && !G.cb_fired && VF_nondet_bool()) { env_cancel(); }
  } else {
    /* the stop callback runs: on another thread the I/O thread may meanwhile consume the accept's CQE (one fetch_sub); it cannot complete the operation
     * (the callback's destructor waits for this invocation).  Inline on the I/O thread nobody else acts */
    if (G.on_io_thread) { return; }
    if (G.io_inflight && !G.io_subbed && VF_nondet_bool()) { G.io_inflight = 0; G.io_dispatched = 1; G.io_subbed = 1; S.refCount_ = S.refCount_ - 1; S.cb.base.execute_ = NULL; }
  }
}

/* ---------------- event stubs ---------------- */
static _Bool EV_on_io_thread(struct io_op* self) { return G.on_io_thread; }
static void AC_start_io_populate(struct io_op* self, struct io_uring_sqe* sqe_p);
static void AC_cancel_populate(struct io_op* self, struct io_uring_sqe* sqe_p);

/* context_.try_submit_io(populateSqe) (contract: uq_contract.h): if there is room the lambda runs once on the zeroed slot, which is then published */
static _Bool EV_try_submit_io(struct io_op* self, int kind) {
  VF_P(self == &S && !G.dead && G.on_io_thread, "try_submit_io: on the I/O thread, for the live operation");
  G.submit_calls++;
  _Bool room = G.force_room < 0 ? (VF_nondet_bool() ? 1 : 0) : (G.force_room ? 1 : 0);
  unsigned calls = 0;
  if (room) {
    memset(&SQE, 0, sizeof(SQE));
    calls = 1;
    if (kind == POP_IO) {
      AC_start_io_populate(self, &SQE);
      VF_P(SQE.opcode == IORING_OP_ACCEPT && SQE.fd == S.fd_, "C14: the SQE describes THIS operation's accept (opcode, the listening descriptor)");
      VF_P(SQE.addr == 0 && SQE.off == 0 && SQE.len == 0, "C14: the accept names no user buffer (peer address not requested): the kernel's only reference to the operation is user_data");
      VF_P(SQE.user_data == (uint64_t)(uintptr_t)&S.cb, "C14: the CQE will name this operation's completion_base: the result stored is the result of THIS operation");
      VF_P(S.cb.base.execute_ == ON_COMPLETE_FN, "the CQE's continuation is on_accept");
      VF_P(G.io_sqes == 0 && !G.io_inflight && !G.op_queued && !G.io_subbed, "C14: the accept is submitted once; its completion_base is carried by at most one SQE and is in no queue of the context");
      VF_P(G.cancel_sqes == 0 && !G.cancel_inflight && !G.cop_queued, "C14/C04: no cancellation is under way before the SQE it is meant to cancel exists");
      G.io_sqes++; G.io_inflight = 1;
    } else {
      VF_P(kind == POP_CANCEL, "the two populate lambdas");
      AC_cancel_populate(self, &SQE);
      VF_P(SQE.opcode == IORING_OP_ASYNC_CANCEL && SQE.addr == (uint64_t)(uintptr_t)&S.cb && SQE.fd == -1 && SQE.len == 0, "the cancellation names this operation's SQE (user_data of the accept)");
      VF_P(SQE.user_data == (uint64_t)(uintptr_t)&S.cop_.cb && S.cop_.cb.base.execute_ == ON_STOP_FN, "the cancel's CQE names the operation's cancel item, whose continuation is on_stop_complete");
      VF_P(G.cancel_cas == 1 && !G.cancel_subbed && !G.cancel_inflight && !G.cop_queued, "the cancellation was registered in the count; its item is carried by at most one SQE and is in no queue");
      VF_P(G.io_sqes >= 1, "C14/C04 (cancel before start / while parked): the ASYNC_CANCEL is queued BEHIND the SQE it is to cancel (a cancel that precedes its target finds nothing: the stop request is lost)");
      G.cancel_sqes++; G.cancel_inflight = 1;
    }
  }
  VF_A(UQ_ENS_TRY_SUBMIT(room, room, calls, 1, 1), "the stub is a behaviour of try_submit_io's contract (uq_contract.h)");
  return room;
}
/* context_.schedule_remote(item) / schedule_pending_io(item): preconditions = uq_contract.h + "the caller owns the item" */
static void ev_schedule(struct io_op* self, struct operation_base* it, _Bool remote) {
  VF_P(self == &S && !G.dead && (it == &S.cb.base || it == &S.cop_.cb.base), "an item of this live operation is handed to the context");
  VF_P(UQ_REQ_SCHEDULE(it), "precondition of schedule_*: the item has a continuation");
  if (it == &S.cb.base) {
    VF_P(G.sched_remote + G.sched_pending == 0, "the operation's item is handed to the context once");
    VF_P(!G.op_queued && !G.io_inflight && !G.io_subbed && it->execute_ == ON_SCHEDULE_FN, "C14: the operation's own item is queued only while no SQE carries it and it is in no queue; its continuation restarts start_io");
    G.op_queued = 1; G.sched_fn = it->execute_;
    if (remote) { G.sched_remote++; } else { G.sched_pending++; }
  } else {
    VF_P(G.cop_remote + G.cop_pending == 0, "the cancel item is handed to the context once");
    VF_P(!G.cop_queued && !G.cancel_inflight && G.cancel_cas == 1 && !G.cancel_subbed && it->execute_ == ON_SCHEDULE_STOP_FN, "the cancel item is queued only after the cancellation was registered, while no SQE carries it; its continuation is request_stop_local");
    VF_P(remote || G.io_sqes >= 1, "C14/C04 (cancel while parked): a cancellation waiting for ring space waits BEHIND an accept that has its SQE (the pending-I/O queue is FIFO: it would otherwise be submitted in front of its target)");
    G.cop_queued = 1; G.cop_sched_fn = it->execute_;
    if (remote) { G.cop_remote++; } else { G.cop_pending++; }
  }
}
static void EV_schedule_remote(struct io_op* self, struct operation_base* it) {
  VF_P(!G.on_io_thread, "schedule_remote is used from other threads (on the I/O thread the operation acts directly)");
  ev_schedule(self, it, 1);
  op_shared();     /* the I/O thread may run the item at once: nothing of the operation is touched after it was published */
}
static void EV_schedule_pending_io(struct io_op* self, struct operation_base* it) {
  VF_P(G.on_io_thread, "the pending-I/O queue belongs to the I/O thread");
  ev_schedule(self, it, 0);
}

/* stopCallback_.construct(token, cancel_callback{*this}): if the token is already stopped the constructor invokes the callback,
 * i.e. request_stop(), before it returns (units with VF_INLINE_STOP: the real request_stop runs inline) */
static void EV_cb_construct(struct io_op* self) {
  VF_P(self == &S && !G.dead, "the callback of the live operation");
  VF_P(G.cb_state == CB_NONE && G.constructs == 0, "C04/C14: the stop callback is constructed at most once (a second placement-construction over a registered callback corrupts the stop source's list)");
  G.cb_state = CB_CONSTRUCTED; G.constructs++;
#ifdef VF_INLINE_STOP
  if (VF_nondet_bool()) {
    VF_CANARY("stop already requested when the callback is constructed");
    G.stop_requested = 1; G.cb_fired = 1; G.role = ROLE_CANCEL;
    AC_request_stop(self);
    G.role = ROLE_IO;
  }
#endif
}
/* stopCallback_.destruct(): deregisters the callback or, if it is running on another thread, waits for it to return: afterwards it can no longer fire */
static void EV_cb_destruct(struct io_op* self) {
  VF_P(self == &S && !G.dead, "the callback of a live operation is destroyed");
  vf_interfere();
  VF_P(G.cb_state == CB_CONSTRUCTED, "only a constructed stop callback is destroyed, once");
  G.cb_state = CB_DESTRUCTED;
}
/* not used by the current code (result decoding no longer looks at the token); kept so that a variant that does is decided, not undecided */
static _Bool EV_stop_requested(struct io_op* self) {
  VF_P(self == &S && !G.dead, "the stop token of a live operation is queried");
  if (!G.stop_requested && VF_nondet_bool()) { G.stop_requested = 1; }
  G.polls++;
  if (G.stop_requested) { G.stop_seen = 1; }
  return G.stop_requested;
}

/* completion signals: exactly one; only when every CQE owed has been counted; nothing of the operation is referenced by the kernel or the context; the receiver may destroy the operation */
static void ev_complete(struct io_op* self) {
  VF_P(self == &S && !G.dead, "the completion signal is sent on behalf of a live operation");
  VF_P(G.completed == 0, "C14: an I/O operation completes exactly once");
  VF_P(!G.io_inflight && !G.cancel_inflight, "C14: no completion while an SQE referring to this operation (its completion_base, its cancel item) is still in flight");
  VF_P(!G.op_queued && !G.cop_queued, "C14: at completion neither queue item of the operation is in a queue of the context");
  VF_P(S.refCount_ == 0 && G.io_subbed && (G.cancel_cas == 1 ==> G.cancel_subbed), "C14: exactly one of the CQE continuations finishes the operation: the one that counted the last CQE owed");
  VF_P(G.cb_state != CB_CONSTRUCTED, "C04: the stop callback registered on the receiver's token is destroyed (deregistered, not running) before the receiver is completed");
  VF_P(G.fd_state != FD_RAW, "C14 (no leaked OS resource): when the receiver is completed a descriptor accepted by the kernel (CQE res >= 0) has an owner that delivers or closes it");
  G.completed++;
  op_shared();
}
/* async_read_write_file{ctx, fd}: the temporary (safe_file_descriptor{fd}) becomes the owner of the descriptor */
static void fd_wrap(struct io_uring_context* ctx, long fd) {
  VF_P(G.io_dispatched && G.cqe_res >= 0 && fd == G.cqe_res, "C14: the value delivered is the descriptor carried by this operation's CQE (res >= 0)");
  VF_P(G.fd_state == FD_RAW && G.fd_wraps == 0, "C14: the accepted descriptor is given an owner (safe_file_descriptor) exactly once");
  VF_P(ctx == &CTX, "the accepted file is bound to the operation's io_uring_context");
  G.fd_wraps++; G.fd_state = FD_TEMP;
}
/* the receiver may move the file out of the temporary; at the end of the full expression (normal return or unwinding) ~safe_file_descriptor closes what the temporary still owns */
static void fd_temp_end(void) {
  if (G.fd_state == FD_TEMP && VF_nondet_bool()) { G.fd_state = FD_DELIVERED; }
  if (G.fd_state == FD_TEMP) { G.fd_state = FD_CLOSED; }
}
static void EV_set_value(struct io_op* self, struct io_uring_context* ctx, long fd) {
  VF_CANARY("set_value reachable");
  fd_wrap(ctx, fd);
  ev_complete(self); G.value++;
  fd_temp_end();
}
static _Bool EV_set_value_maythrow(struct io_op* self, struct io_uring_context* ctx, long fd) {
  fd_wrap(ctx, fd);
  if (VF_nondet_bool()) { VF_CANARY("set_value may throw"); fd_temp_end(); return 1; }   /* strong guarantee: a throwing set_value has not completed the receiver; the temporary is destroyed by the unwinding */
  ev_complete(self); G.value++;
  fd_temp_end();
  return 0;
}
static void EV_set_error_exception(struct io_op* self) { ev_complete(self); G.exc_error++; }
static void EV_set_error(struct io_op* self, int code) {
  VF_CANARY("set_error reachable");
  VF_P(G.io_dispatched && G.cqe_res < 0 && G.cqe_res != -ECANCELED && code == -G.cqe_res, "C14: the error delivered is the OS error of this operation's CQE (-res); ECANCELED is delivered as done");
  ev_complete(self); G.error++;
}
static void EV_set_done(struct io_op* self) {
  VF_CANARY("set_done reachable");
  VF_P(G.io_dispatched && G.cqe_res == -ECANCELED, "C14: done is delivered for a CQE with res == -ECANCELED only: an accept that took a connection (res >= 0) delivers the descriptor even if a stop request has arrived meanwhile");
  ev_complete(self); G.done++;
}

#define QUIET (G.completed == 0 && G.value == 0 && G.error == 0 && G.exc_error == 0 && G.done == 0 && G.sched_remote == 0 && G.sched_pending == 0 && G.cop_remote == 0 && G.cop_pending == 0 && G.submit_calls == 0 && G.subs == 0 && G.polls == 0 && !G.stop_seen && !G.dead \
               && G.fd_state == FD_NONE && G.fd_wraps == 0)
#define FRESH (QUIET && G.cb_state == CB_NONE && G.constructs == 0 && !G.cb_fired && G.io_sqes == 0 && G.cancel_sqes == 0 && !G.io_inflight && !G.cancel_inflight && !G.io_dispatched && !G.op_queued && !G.cop_queued \
               && G.cancel_cas == 0 && !G.io_subbed && !G.cancel_subbed && REF_OK && S.refCount_ == 1)
/* who runs what does not change under a call (G is one assigns target) */
#define G_FRAME (G.role == __CPROVER_old(G.role) && G.path == __CPROVER_old(G.path) && G.on_io_thread == __CPROVER_old(G.on_io_thread))

/* ---------------- harness states ---------------- */
/* a CQE's res: a descriptor, or -errno (errno < 4096) */
static int cqe_res_any(void) { int r = VF_nondet_int(); __CPROVER_assume(r > -4096); return r; }
/* the loop consumes the accept's CQE: res is stored in the completion_base; res >= 0 is a new descriptor nobody owns yet */
static void cqe_arrives(void) { G.io_inflight = 0; G.io_dispatched = 1; G.cqe_res = cqe_res_any(); S.cb.result_ = G.cqe_res; G.fd_state = FD_KERNEL(G.cqe_res); }
static void h_fresh(void) {
  G.role = ROLE_IO; G.path = PATH_NONE; G.on_io_thread = 1;
  G.io_sqes = 0; G.cancel_sqes = 0; G.io_inflight = 0; G.cancel_inflight = 0; G.io_dispatched = 0; G.cqe_res = 0; G.submit_calls = 0; G.force_room = -1;
  G.fd_state = FD_NONE; G.fd_wraps = 0;
  G.op_queued = 0; G.cop_queued = 0; G.sched_remote = 0; G.sched_pending = 0; G.sched_fn = NULL; G.cop_remote = 0; G.cop_pending = 0; G.cop_sched_fn = NULL;
  G.cb_state = CB_NONE; G.constructs = 0; G.stop_requested = 0; G.stop_seen = 0; G.cb_fired = 0; G.polls = 0;
  G.cancel_cas = 0; G.io_subbed = 0; G.cancel_subbed = 0; G.subs = 0; G.sub_old = 0;
  G.completed = 0; G.value = 0; G.error = 0; G.exc_error = 0; G.done = 0; G.dead = 0;
  VF_CFG_nothrow = VF_nondet_bool();
  io_op_init(&S);
  S.context_ = &CTX; S.fd_ = VF_nondet_int(); S.receiver_ = VF_nondet_int(); S.stopCallback_ = VF_nondet_int();
}
/* start_io found no ring space earlier (the REAL start_io is run with try_submit_io reporting "no room"): the item was parked and has now been
 * dequeued for its retry.  Whether a stop callback is registered in this state is the code's decision */
static void h_parked(void) {
  h_fresh();
  G.force_room = 0;
  AC_start_io(&S);
  G.force_room = -1; G.submit_calls = 0; G.sched_pending = 0; G.sched_fn = NULL; G.op_queued = 0;     /* dequeued by the pending-I/O loop */
}
/* the accept's SQE has been taken: in flight, or its CQE consumed (item in the local queue, or already run and counted) */
static void h_submitted(void) {
  h_fresh();
  G.cb_state = CB_CONSTRUCTED; G.constructs = 1; G.io_sqes = 1; S.cb.base.execute_ = ON_COMPLETE_FN;
  int k = VF_nondet_int();
  if (k == 0) { G.io_inflight = 1; }
  else if (k == 1) { cqe_arrives(); G.op_queued = 1; }
  else { cqe_arrives(); G.io_subbed = 1; S.refCount_ = S.refCount_ - 1; S.cb.base.execute_ = NULL; }
}
/* the state in which the stop callback fires: any state in which the code has a callback registered - also while the operation waits for
 * ring space, if start_io has registered it by then */
static void h_stoppable(void) {
  h_parked();
  if (G.cb_state == CB_CONSTRUCTED && VF_nondet_bool()) { G.op_queued = 1; } else { h_submitted(); }
  G.role = ROLE_CANCEL; G.on_io_thread = VF_nondet_bool(); G.stop_requested = 1; G.cb_fired = 1;
  if (G.on_io_thread && G.io_subbed) { __CPROVER_assume(0); }    /* on the I/O thread the callback cannot run between the last count step and the callback's destruction */
}
/* request_stop has won its CAS: the cancellation is registered in the count */
static void h_stop_registered(_Bool on_io) {
  h_stoppable();
  __CPROVER_assume(S.refCount_ == 1);
  S.refCount_ = 2; G.cancel_cas = 1; G.on_io_thread = on_io;
  if (on_io) { G.role = ROLE_IO; }
}
/* a CQE owed to the operation has been consumed and its continuation is about to run */
static void h_cqe(int path) {
  h_fresh();
  G.cb_state = CB_CONSTRUCTED; G.constructs = 1; G.io_sqes = 1; G.path = path;
  _Bool cancelled = (path == PATH_CANCEL_CQE) || VF_nondet_bool();
  if (cancelled) { G.stop_requested = 1; G.cb_fired = 1; G.cancel_cas = 1; S.refCount_ = 2; }
  if (path == PATH_IO_CQE) {
    cqe_arrives(); S.cb.base.execute_ = NULL;
    if (cancelled) { int k = VF_nondet_int(); if (k == 0) { G.cancel_sqes = 1; G.cancel_inflight = 1; } else if (k == 1) { G.cop_queued = 1; S.cop_.cb.base.execute_ = ON_SCHEDULE_STOP_FN; } else { G.cancel_sqes = 1; G.cancel_subbed = 1; S.refCount_ = 1; } }
  } else {
    G.cancel_sqes = 1; S.cop_.cb.base.execute_ = NULL;
    if (VF_nondet_bool()) { G.io_inflight = 1; S.cb.base.execute_ = ON_COMPLETE_FN; S.cb.result_ = cqe_res_any(); }
    else { cqe_arrives(); if (VF_nondet_bool()) { G.op_queued = 1; S.cb.base.execute_ = ON_COMPLETE_FN; } else { G.io_subbed = 1; S.refCount_ = 1; S.cb.base.execute_ = NULL; } }
  }
}
static void start_io_canaries(void) {
  VF_CANARY("after start_io");
  if (G.io_sqes == 1) { VF_CANARY("start_io can submit the accept"); } else { VF_CANARY("start_io can park the operation"); }
  if (G.cancel_cas == 1) { VF_CANARY("a stop request can be there when start_io registers the callback"); if (G.cop_pending) { VF_CANARY("its cancellation can be parked behind the accept"); } }
}
static void stop_local_canaries(void) {
  VF_CANARY("after request_stop_local");
  if (G.cop_pending) { VF_CANARY("the cancellation can be parked"); } else { VF_CANARY("the cancellation can be submitted"); }
}
static void stop_canaries(void) {
  VF_CANARY("after request_stop");
  if (G.cancel_cas == 1) { VF_CANARY("the stop request can be registered"); } else { VF_CANARY("the stop request can come too late"); }
}
static void on_complete_canaries(void) {
  VF_CANARY("after a CQE continuation");
  if (G.completed) {
    VF_CANARY("the continuation can be the last one");
    if (G.fd_state == FD_DELIVERED) { VF_CANARY("the accepted descriptor can be delivered"); }
    if (G.fd_state == FD_CLOSED) { VF_CANARY("the accepted descriptor can be closed by its temporary owner"); }
    if (G.cqe_res >= 0 && G.stop_requested) { VF_CANARY("a connection accepted despite a stop request is delivered"); }
  } else { VF_CANARY("the continuation can leave the completion to the other CQE"); }
}

/* ======================= accept_sender::operation ======================= */
static void AC_start_io_populate(struct io_op* self, struct io_uring_sqe* sqe_p)
/*@BODY AC_start_io_populate*/
static void AC_cancel_populate(struct io_op* self, struct io_uring_sqe* sqe_p)
/*@BODY AC_cancel_populate*/

/* start_io (I/O thread): takes an SQE for the accept and registers the stop callback; without ring space the operation waits in the
 * pending-I/O queue and start_io is retried.  Either the SQE is in flight (continuation on_accept) or the item is queued - never both.
 * Also entered as the retry of a parked operation (AC_STARTABLE: whatever callback state the first attempt left) */
#define AC_STARTABLE (QUIET && (G.cb_state == CB_NONE || G.cb_state == CB_CONSTRUCTED) && G.constructs == (G.cb_state == CB_NONE ? 0 : 1) && G.io_sqes == 0 && G.cancel_sqes == 0 && !G.io_inflight && !G.io_dispatched && !G.op_queued && !G.io_subbed && REF_OK && KERNEL_OK)
void AC_start_io(struct io_op* self)
__CPROVER_requires(self == &S && G.role == ROLE_IO && G.on_io_thread && AC_STARTABLE)
__CPROVER_assigns(S, G, SQE)
__CPROVER_ensures(G.completed == 0 && !G.dead) /* never completes inline */
__CPROVER_ensures(G.constructs <= 1 && G.cb_state == (G.constructs == 1 ? CB_CONSTRUCTED : CB_NONE) && (G.io_sqes == 1 ==> G.cb_state == CB_CONSTRUCTED)) /* ONE stop callback at most, and it is registered whenever the accept's SQE is in flight (a stop request then finds something to cancel) */
__CPROVER_ensures(G.submit_calls >= 1 && (G.io_sqes == 1) != (G.sched_pending == 1)) /* exactly one of: SQE taken | parked for a retry */
__CPROVER_ensures(G.io_sqes == 1 ==> (G.io_inflight && !G.op_queued && S.cb.base.execute_ == (exec_fn)&AC_on_accept)) /* submitted: the CQE will run on_accept */
__CPROVER_ensures(G.io_sqes == 0 ==> (G.op_queued && !G.io_inflight && G.sched_fn == (exec_fn)&AC_on_schedule_complete && S.cb.base.execute_ == (exec_fn)&AC_on_schedule_complete)) /* parked: FIFO retry through on_schedule_complete */
__CPROVER_ensures(G.cancel_cas == 1 ==> (G.io_sqes == 1 && ((G.cancel_sqes == 1) != (G.cop_pending == 1)) && G.cop_remote == 0)) /* C04: a stop request that was already there started ONE cancellation, behind the accept's SQE */
__CPROVER_ensures(REF_OK && KERNEL_OK && G_FRAME) /* the count still says what is owed */
__CPROVER_ensures(G.sched_pending <= 1 && G.sched_remote == 0 && G.io_sqes <= 1 && G.fd_state == FD_NONE)
/*@BODY AC_start_io*/

/* start: on the I/O thread the submission is attempted at once, from any other thread the operation is handed to the context (remote queue) and nothing else happens */
void AC_start(struct io_op* self)
__CPROVER_requires(self == &S && G.role == ROLE_IO && FRESH)
__CPROVER_assigns(S, G, SQE)
__CPROVER_ensures(__CPROVER_old(G.on_io_thread) ==> (G.constructs <= 1 && (G.io_sqes == 1 ==> G.cb_state == CB_CONSTRUCTED) && ((G.io_sqes == 1) != (G.sched_pending == 1)) && G.sched_remote == 0))
__CPROVER_ensures(!__CPROVER_old(G.on_io_thread) ==> (G.sched_remote == 1 && G.sched_fn == (exec_fn)&AC_on_schedule_complete && G.constructs == 0 && G.io_sqes == 0 && G.submit_calls == 0 \
                   && G.dead && OP_UNTOUCHED)) /* the I/O thread may already be running the operation: not touched after it was published */
__CPROVER_ensures(G.completed == 0)
/*@BODY AC_start*/

/* on_schedule_complete: continuation of a remote start and of a parked operation's retry = start_io of the same operation */
void AC_on_schedule_complete(struct operation_base* op)
__CPROVER_requires(op == &S.cb.base && G.role == ROLE_IO && G.on_io_thread && AC_STARTABLE)
__CPROVER_assigns(S, G, SQE)
__CPROVER_ensures(G.completed == 0 && G.submit_calls >= 1 && ((G.io_sqes == 1) != (G.sched_pending == 1)))
__CPROVER_ensures(G.constructs <= 1 && (G.io_sqes == 1 ==> G.cb_state == CB_CONSTRUCTED)) /* C04/C14: however often the submission is retried, ONE stop callback, registered once the SQE exists */
__CPROVER_ensures(REF_OK && KERNEL_OK)
/*@BODY AC_on_schedule_complete*/

/* the operation as the stop callback can find it: callback registered, not completed */
#define AC_STOPPABLE (self == &S && G.cb_state == CB_CONSTRUCTED && G.completed == 0 && !G.dead && REF_OK && KERNEL_OK && G.cop_remote == 0 && G.cop_pending == 0 && G.cancel_sqes == 0)

/* request_stop_local (I/O thread; the cancellation is registered in the count): ONE ASYNC_CANCEL naming the accept's SQE, or - without ring space - the cancel item waits in the pending-I/O queue */
void AC_request_stop_local(struct io_op* self)
__CPROVER_requires(AC_STOPPABLE && G.on_io_thread && G.cancel_cas == 1 && !G.cancel_subbed && !G.cancel_inflight && !G.cop_queued)
__CPROVER_assigns(S.cop_.cb.base, SQE, G.submit_calls, G.cancel_sqes, G.cancel_inflight, G.cop_queued, G.cop_pending, G.cop_sched_fn)
__CPROVER_ensures(G.submit_calls == __CPROVER_old(G.submit_calls) + 1 && (G.cancel_sqes == 1) != (G.cop_pending == 1)) /* exactly one of: cancel SQE taken | parked */
__CPROVER_ensures(G.cop_pending == 0 ==> (G.cancel_inflight && !G.cop_queued && S.cop_.cb.base.execute_ == (exec_fn)&AC_cop_on_stop_complete))
__CPROVER_ensures(G.cop_pending == 1 ==> (G.cop_queued && !G.cancel_inflight && G.cop_sched_fn == (exec_fn)&AC_cop_on_schedule_stop_complete && G.cancel_sqes == 0))
__CPROVER_ensures(REF_OK && KERNEL_OK && !G.dead && G.completed == 0 && G.cop_pending <= 1 && G.cancel_sqes <= 1)
/*@BODY AC_request_stop_local*/

/* request_stop_remote (any other thread): the cancel item goes to the I/O thread, which runs request_stop_local */
void AC_request_stop_remote(struct io_op* self)
__CPROVER_requires(AC_STOPPABLE && !G.on_io_thread && G.cancel_cas == 1 && !G.cancel_subbed && !G.cancel_inflight && !G.cop_queued)
__CPROVER_assigns(S, G.cop_queued, G.cop_remote, G.cop_sched_fn, G.dead, G.snap)
__CPROVER_ensures(G.cop_remote == 1 && G.cop_sched_fn == (exec_fn)&AC_cop_on_schedule_stop_complete && G.cop_queued)
__CPROVER_ensures(G.dead && OP_UNTOUCHED) /* nothing is touched after the item was published */
/*@BODY AC_request_stop_remote*/

/* request_stop (the stop callback, any thread): registers ONE more CQE to wait for (CAS 1 -> 2) unless the accept's CQE has already been
 * counted (then it does nothing at all); the winner starts the cancellation exactly once */
void AC_request_stop(struct io_op* self)
__CPROVER_requires(AC_STOPPABLE && G.role == ROLE_CANCEL && G.cancel_cas == 0)
__CPROVER_assigns(S, SQE, G.cancel_cas, G.io_inflight, G.io_dispatched, G.io_subbed, G.submit_calls, G.cancel_sqes, G.cancel_inflight, G.cop_queued, G.cop_remote, G.cop_pending, G.cop_sched_fn, G.dead, G.snap)
__CPROVER_ensures(G.cancel_cas <= 1)
__CPROVER_ensures(G.cancel_cas == 0 ==> (G.io_subbed && G.cancel_sqes == 0 && G.cop_remote == 0 && G.cop_pending == 0 && G.submit_calls == __CPROVER_old(G.submit_calls) && !G.dead && S.refCount_ == 0)) /* lost the race with on_accept: nothing happens */
__CPROVER_ensures(G.cancel_cas == 1 ==> ((G.cancel_sqes == 1 ? 1 : 0) + G.cop_pending + G.cop_remote == 1 && G.cancel_sqes <= 1)) /* won: the cancellation is started exactly once */
__CPROVER_ensures((G.cancel_cas == 1 && G.on_io_thread) ==> (G.cop_remote == 0 && REF_OK && KERNEL_OK && !G.dead)) /* on the I/O thread: directly (SQE or pending-I/O queue) */
__CPROVER_ensures((G.cancel_cas == 1 && !G.on_io_thread) ==> (G.cop_remote == 1 && G.cancel_sqes == 0 && G.dead && OP_UNTOUCHED)) /* elsewhere: through the remote queue; the operation is not touched afterwards */
__CPROVER_ensures(G.completed == 0)
/*@BODY AC_request_stop*/

/* on_accept: a CQE owed to this operation has been consumed (its own, or - through on_stop_complete - the cancel's).  Exactly one count
 * step; only the step that reaches zero destroys the stop callback and completes the receiver, with the decoded result of the ACCEPT's CQE;
 * a descriptor that CQE carried is delivered or closed */
#define AC_CQE_STATE (G.role == ROLE_IO && G.on_io_thread && G.completed == 0 && G.value == 0 && G.error == 0 && G.exc_error == 0 && G.done == 0 && !G.dead && G.subs == 0 && G.polls == 0 && !G.stop_seen \
                      && G.cb_state == CB_CONSTRUCTED && REF_OK && KERNEL_OK && G.sched_remote == 0 && G.sched_pending == 0 && G.fd_wraps == 0 \
                      && (G.path == PATH_IO_CQE ? (G.io_dispatched && !G.io_subbed && !G.io_inflight && !G.op_queued && S.cb.result_ == G.cqe_res) \
                                                : (G.path == PATH_CANCEL_CQE && G.cancel_cas == 1 && !G.cancel_subbed && !G.cancel_inflight && !G.cop_queued)) \
                      && (G.io_dispatched ? (S.cb.result_ == G.cqe_res && G.fd_state == FD_KERNEL(G.cqe_res)) : G.fd_state == FD_NONE))
void AC_on_accept(struct operation_base* op)
__CPROVER_requires(op == &S.cb.base && AC_CQE_STATE)
__CPROVER_assigns(S, G)
__CPROVER_ensures(G.subs == 1 && (G.path == PATH_IO_CQE ? G.io_subbed : G.cancel_subbed)) /* this CQE is counted, once */
__CPROVER_ensures(G.completed == (G.sub_old == 1 ? 1 : 0)) /* C14: exactly one continuation finishes the operation: the one that counted the last CQE owed */
__CPROVER_ensures(G.completed == 0 ==> (!G.dead && REF_OK && KERNEL_OK && S.refCount_ >= 1 && G.cb_state == CB_CONSTRUCTED && G.polls == 0 && S.cb.result_ == __CPROVER_old(S.cb.result_) \
                   && G.fd_state == __CPROVER_old(G.fd_state) && G.fd_wraps == 0 && G.value + G.error + G.exc_error + G.done == 0)) /* not the last: nothing else happens, the result (and the descriptor) waits */
__CPROVER_ensures(G.completed == 1 ==> (G.cb_state == CB_DESTRUCTED && DECODED && ONE_SIGNAL)) /* the last: callback destroyed first, then ONE signal: the decoded result of the accept's CQE */
__CPROVER_ensures(G.completed == 1 ==> FD_SETTLED) /* C14: no leaked OS resource: an accepted descriptor was wrapped once and then delivered or closed */
__CPROVER_ensures(G.dead ==> OP_UNTOUCHED) /* nothing is touched after the receiver was completed */
__CPROVER_ensures(G_FRAME && G.completed <= 1)
/*@BODY AC_on_complete*/

/* cancel_operation::on_stop_complete (the cancel's CQE) = on_accept of the parent operation */
void AC_cop_on_stop_complete(struct operation_base* op)
__CPROVER_requires(op == &S.cop_.cb.base && G.path == PATH_CANCEL_CQE && AC_CQE_STATE)
__CPROVER_assigns(S, G)
__CPROVER_ensures(G.subs == 1 && G.cancel_subbed && G.completed == (G.sub_old == 1 ? 1 : 0))
__CPROVER_ensures(G.completed == 1 ==> (G.cb_state == CB_DESTRUCTED && DECODED && ONE_SIGNAL && FD_SETTLED)) /* the value delivered is the ACCEPT's result, not the cancel's */
__CPROVER_ensures(G.dead ==> OP_UNTOUCHED)
/*@BODY AC_cop_on_stop_complete*/

/* cancel_operation::on_schedule_stop_complete (the cancel item, dequeued on the I/O thread) = request_stop_local of the parent operation */
void AC_cop_on_schedule_stop_complete(struct operation_base* op)
__CPROVER_requires(op == &S.cop_.cb.base && G.cb_state == CB_CONSTRUCTED && G.completed == 0 && !G.dead && REF_OK && KERNEL_OK && G.cop_remote == 0 && G.cop_pending == 0 && G.cancel_sqes == 0 \
                   && G.on_io_thread && G.cancel_cas == 1 && !G.cancel_subbed && !G.cancel_inflight && !G.cop_queued)
__CPROVER_assigns(S.cop_.cb.base, SQE, G.submit_calls, G.cancel_sqes, G.cancel_inflight, G.cop_queued, G.cop_pending, G.cop_sched_fn)
__CPROVER_ensures(G.submit_calls == __CPROVER_old(G.submit_calls) + 1 && (G.cancel_sqes == 1) != (G.cop_pending == 1))
__CPROVER_ensures(REF_OK && KERNEL_OK && !G.dead && G.completed == 0)
/*@BODY AC_cop_on_schedule_stop_complete*/

/* ---- harnesses ---- */
void h_ac_start_io(void) { h_fresh(); AC_start_io(&S); start_io_canaries(); }
void h_ac_start(void) { h_fresh(); G.on_io_thread = VF_nondet_bool(); AC_start(&S); VF_CANARY("after start"); if (G.sched_remote) { VF_CANARY("start can go through the remote queue"); } }
void h_ac_on_schedule_complete(void) { h_fresh(); AC_on_schedule_complete(&S.cb.base); VF_CANARY("after on_schedule_complete"); }
void h_ac_on_schedule_complete_retry(void) { h_parked(); AC_on_schedule_complete(&S.cb.base); VF_CANARY("after a retried on_schedule_complete"); if (G.io_sqes == 1) { VF_CANARY("the retry can submit the accept"); } else { VF_CANARY("the retry can park again"); } }
void h_ac_request_stop_local(void) { h_stop_registered(1); AC_request_stop_local(&S); stop_local_canaries(); }
void h_ac_request_stop_remote(void) { h_stop_registered(0); AC_request_stop_remote(&S); VF_CANARY("after request_stop_remote"); }
void h_ac_request_stop(void) { h_stoppable(); AC_request_stop(&S); stop_canaries(); }
void h_ac_on_accept(void) { h_cqe(VF_nondet_bool() ? PATH_IO_CQE : PATH_CANCEL_CQE); AC_on_accept(&S.cb.base); on_complete_canaries(); }
void h_ac_on_stop_complete(void) { h_cqe(PATH_CANCEL_CQE); AC_cop_on_stop_complete(&S.cop_.cb.base); on_complete_canaries(); }
void h_ac_on_schedule_stop_complete(void) { h_stop_registered(1); AC_cop_on_schedule_stop_complete(&S.cop_.cb.base); stop_local_canaries(); }

/* ---------------- M4 lemmas over the contracts ---------------- */
void lemma_uac_init(void) {
  h_fresh();
  VF_P(S.refCount_ == 1 && REF_OK && KERNEL_OK, "lemma: a fresh operation owes exactly one CQE (its own) and nothing references it");
  VF_P(FRESH && AC_STARTABLE, "lemma: the harness's fresh state is the contracts' FRESH, and FRESH is startable");
  VF_CANARY("lemma_uac_init reachable");
}
/* every step any party can take (as allowed by the contracts / stub obligations above) keeps REF_OK and KERNEL_OK, and with them: when the count
 * reaches zero nothing of the operation is in flight or queued, and it reaches zero exactly once */
void lemma_uac_refcount(void) {
  G.cancel_cas = VF_nondet_bool() ? 1 : 0; G.io_subbed = VF_nondet_bool(); G.cancel_subbed = VF_nondet_bool();
  G.io_inflight = VF_nondet_bool(); G.cancel_inflight = VF_nondet_bool(); G.io_dispatched = VF_nondet_bool(); G.op_queued = VF_nondet_bool(); G.cop_queued = VF_nondet_bool();
  G.io_sqes = VF_nondet_bool() ? 1 : 0; G.cb_state = VF_nondet_bool() ? CB_CONSTRUCTED : (VF_nondet_bool() ? CB_NONE : CB_DESTRUCTED);
  { uint8_t c = VF_nondet_u8(); __CPROVER_assume(c <= 100); S.refCount_ = (char)c; } S.cop_.op_ = &S;
  __CPROVER_assume(REF_OK && KERNEL_OK);
  VF_P(S.refCount_ >= 0 && S.refCount_ <= 2, "lemma: the count is 0, 1 or 2");
  VF_P(S.refCount_ == 0 ==> (!G.io_inflight && !G.cancel_inflight && !G.op_queued && !G.cop_queued), "lemma (C14): when the count is zero no SQE referring to the operation is in flight and none of its items is queued");
  int step = VF_nondet_int();
  __CPROVER_assume(step >= 0 && step <= 5);
  int before = S.refCount_; int zero_steps = 0;
  if (step == 0) { __CPROVER_assume(G.io_sqes == 0 && !G.op_queued && !G.io_subbed && !G.io_dispatched); G.io_sqes = 1; G.io_inflight = 1; }                       /* start_io takes the SQE (stub obligation) */
  else if (step == 1) { __CPROVER_assume(G.io_inflight); G.io_inflight = 0; G.io_dispatched = 1; G.op_queued = 1; }                                              /* the loop consumes the accept's CQE and queues the item */
  else if (step == 2) { __CPROVER_assume(G.io_dispatched && !G.io_subbed && G.op_queued); G.op_queued = 0; G.io_subbed = 1; S.refCount_--; if (S.refCount_ == 0) { zero_steps++; } }   /* on_accept for the accept's CQE */
  else if (step == 3) { __CPROVER_assume(G.cb_state == CB_CONSTRUCTED && G.cancel_cas == 0 && S.refCount_ == 1); S.refCount_ = 2; G.cancel_cas = 1; G.cop_queued = VF_nondet_bool(); G.cancel_inflight = !G.cop_queued; }   /* request_stop wins */
  else if (step == 4) { __CPROVER_assume(G.cop_queued); G.cop_queued = 0; G.cancel_inflight = 1; }                                                                /* the parked / remote cancel item gets its SQE */
  else { __CPROVER_assume(G.cancel_inflight); G.cancel_inflight = 0; G.cancel_subbed = 1; S.refCount_--; if (S.refCount_ == 0) { zero_steps++; } }                  /* on_stop_complete */
  VF_CANARY("lemma premises satisfiable");
  VF_P(REF_OK && KERNEL_OK, "lemma: every step keeps the count equal to the CQEs owed and every kernel / queue reference covered by the count");
  VF_P(before == 0 ==> (step == 0 ? 0 : 1) == 0 || S.refCount_ == 0, "lemma: zero is absorbing: no step revives a finished operation");
  VF_P(zero_steps == 1 ==> (G.io_subbed && (G.cancel_cas == 1 ==> G.cancel_subbed) && !G.io_inflight && !G.cancel_inflight && !G.op_queued && !G.cop_queued), "lemma (C14): the step that reaches zero is the last CQE owed: exactly one continuation completes, with nothing in flight");
}
/* the environment step used as the rely of the I/O-thread functions is a behaviour of request_stop's contract */
void lemma_uac_env_cancel(void) {
  h_stoppable();
  __CPROVER_assume(!G.on_io_thread && REF_OK && KERNEL_OK);
  G.cb_fired = 0;
  env_cancel();
  VF_CANARY("lemma premises satisfiable");
  VF_P(G.cancel_cas <= 1 && REF_OK && KERNEL_OK, "lemma: the environment's stop request registers at most one more CQE and keeps the count exact");
  VF_P(G.cancel_cas == 1 ==> (G.cop_queued && S.cop_.cb.base.execute_ == ON_SCHEDULE_STOP_FN && !G.cancel_inflight), "lemma: a winning remote canceller has queued the cancel item with on_schedule_stop_complete (request_stop / request_stop_remote contracts)");
  VF_P(G.cancel_cas == 0 ==> (G.io_subbed && S.refCount_ == 0 && !G.cop_queued), "lemma: a remote canceller that comes too late does nothing");
}
/* the descriptor clause as a consequence of the contracts: the documented decoding (DECODED) together with the value stub's ownership rule leaves no
 * descriptor open and unowned; the weaker decoding "done whenever stop was requested" does not have this property unless the operation closes the descriptor itself */
void lemma_uac_fd(void) {
  G.cqe_res = cqe_res_any(); G.io_dispatched = 1; G.fd_state = FD_KERNEL(G.cqe_res); G.fd_wraps = 0;
  G.value = 0; G.error = 0; G.exc_error = 0; G.done = 0; VF_CFG_nothrow = VF_nondet_bool();
  int sig = VF_nondet_int(); __CPROVER_assume(sig >= 0 && sig <= 3);
  if (sig == 0) { __CPROVER_assume(G.cqe_res >= 0); G.fd_wraps++; G.fd_state = FD_TEMP; G.value = 1; fd_temp_end(); }                                 /* set_value(file{res}) */
  else if (sig == 1) { __CPROVER_assume(G.cqe_res >= 0 && !VF_CFG_nothrow); G.fd_wraps++; G.fd_state = FD_TEMP; fd_temp_end(); G.exc_error = 1; }   /* set_value threw, then set_error(exception) */
  else if (sig == 2) { G.done = 1; }
  else { G.error = 1; }
  VF_CANARY("lemma premises satisfiable");
  VF_P(DECODED ==> FD_SETTLED, "lemma (C14): the documented decoding leaves no accepted descriptor open and unowned");
  VF_P((G.done == 1 && G.cqe_res >= 0) ==> G.fd_state == FD_RAW, "lemma: completing with done although the CQE carried a descriptor leaks it (unless the operation closes it first)");
}
