CPP = 'source/linux/io_uring_context.cpp'
H = 'include/unifex/linux/io_uring_context.hpp'
SENDER = r'class io_uring_context::schedule_at_sender \{'
OPCLS = r'struct operation : schedule_at_operation \{'
SAO = r'struct schedule_at_operation : operation_base \{'
OPBASE = r'struct operation_base \{'
CTXC = r'class io_uring_context \{'
W = [SENDER, OPCLS]

RCV = r'std::move\(timerOp\)\.receiver_'
LOGS = [(r'\bLOGX?\([^;]*\);', '')]

# schedule_at_sender::operation<Receiver> (header)
op_pre = [
    (r'schedule_at_operation::(\w+)', r'TM_\1'),
    # operation : schedule_at_operation : operation_base  (single inheritance: the down-cast is the identity)
    (r'auto& timerOp = \*static_cast<operation\*>\(op\);', 'struct timer_op* timerOp = (struct timer_op*)op;'),
    (r'static_cast<operation\*>\(op\)->start_local\(\)', 'TM_start_local((struct timer_op*)op)'),
    (r'noexcept\(unifex::set_value\(std::move\(timerOp\)\.receiver_\)\)', 'VF_CFG_nothrow'),
    # UNIFEX_TRY { may-throw stub } UNIFEX_CATCH(...) { B }  ->  { if (stub) goto vf_catch; } if (0) { vf_catch: ; B }   (general rule missing from the table)
    (r'UNIFEX_TRY\s*\{\s*unifex::set_value\(' + RCV + r'\);\s*\}\s*UNIFEX_CATCH\s*\(\.\.\.\)\s*\{', '{ if (EV_set_value_maythrow(timerOp)) goto vf_catch; } if (0) { vf_catch: ;'),
    (r'unifex::set_value\(' + RCV + r'\)', 'EV_set_value(timerOp)'),
    (r'unifex::set_error\(\s*' + RCV + r',\s*std::current_exception\(\)\)', 'EV_set_error_exception(timerOp)'),
    (r'unifex::set_done\(' + RCV + r'\)', 'EV_set_done(timerOp)'),
    (r'get_stop_token\(timerOp\.receiver_\)\.stop_requested\(\)', 'EV_stop_requested(timerOp)'),
    (r'get_stop_token\(receiver_\)\.stop_requested\(\)', 'EV_stop_requested(this)'),
    (r'stopCallback_\.construct\(\s*get_stop_token\(receiver_\), cancel_callback\{\*this\}\)', 'EV_cb_construct(this)'),
    (r'timerOp\.stopCallback_\.destruct\(\)', 'EV_cb_destruct(timerOp)'),
    (r'(?<![\w.>])stopCallback_\.destruct\(\)', 'EV_cb_destruct(this)'),
    # static sibling call
    (r'(?<![\w:&])complete_with_done\(op\)', 'TM_complete_with_done(op)'),
    # the context (contracts: CTX_* below in the same group; scheduling: specs/uring_queue/uq_contract.h)
    (r'timerOp\.context_\.is_running_on_io_thread\(\)', 'EV_on_io_thread(timerOp)'),
    (r'(?:this->)?context_\.is_running_on_io_thread\(\)', 'EV_on_io_thread(this)'),
    (r'timerOp\.context_\.remove_timer\(&timerOp\)', 'CTX_remove_timer(timerOp->context_, timerOp)'),
    (r'(?:this->)?context_\.remove_timer\(this\)', 'CTX_remove_timer(this->context_, this)'),
    (r'(?:this->)?context_\.schedule_at_impl\(this\)', 'CTX_schedule_at_impl(this->context_, this)'),
    (r'(?:this->)?context_\.schedule_local\(this\)', 'EV_schedule_local(this, &this->base)'),
    (r'(?:this->)?context_\.schedule_remote\(this\)', 'EV_schedule_remote(this, &this->base)'),
    (r'this->execute_', 'this->base.execute_'),
    (r'&operation::(\w+)', r'&TM_\1'),
    (r'\btimerOp\.', 'timerOp->'),
]
op_ctx = dict(cls='TM', members=['receiver_', 'stopCallback_', 'state_', 'context_'],
              methods=['start_local', 'start_remote', 'request_stop_local', 'request_stop_remote'],
              atomic=['state_'], pre=op_pre)

# io_uring_context (source): timers_ is an intrusive_heap keyed by dueTime_ (stubbed: HEAP_*), currentDueTime_ a std::optional<time_point>
LAMBDA_I = r'auto populateSqe = \[&\]\(io_uring_sqe& sqe\) noexcept '
cx_ctx = dict(cls='CTX', members=['timers_', 'currentDueTime_', 'timersAreDirty_', 'activeTimerCount_', 'time_'],
              methods=['is_running_on_io_thread', 'try_submit_timer_io', 'try_submit_timer_io_cancel', 'timer_user_data', 'remove_timer_user_data'],
              obj_methods={'insert': 'HEAP_insert', 'remove': 'HEAP_remove', 'pop': 'HEAP_pop', 'top': 'HEAP_top', 'empty': 'HEAP_empty'},
              atomic=['state_'],
              typemap=[(r'\bschedule_at_operation\*', 'struct timer_op*'), (r'\btime_point\b(?!\{)', 'int64_t'), (r'(?<!struct )\bio_uring_sqe\b', 'struct io_uring_sqe')],
              pre=LOGS + [
                  (r'schedule_at_operation::(\w+)', r'TM_\1'),
                  (r'monotonic_clock::now\(\)', 'VF_now()'),
                  (r'\bschedule_local\(item\)', 'EV_timer_schedule_local(this, item)'),
                  # std::optional<time_point> currentDueTime_
                  (r'currentDueTime_\.has_value\(\)', 'OPT_has(&currentDueTime_)'),
                  (r'if \(currentDueTime_\)', 'if (OPT_has(&currentDueTime_))'),
                  (r'currentDueTime_\.reset\(\)', 'OPT_reset(&currentDueTime_)'),
                  (r'\*currentDueTime_', 'OPT_value(&currentDueTime_)'),
                  (r'currentDueTime_ = earliestDueTime;', 'OPT_set(&currentDueTime_, earliestDueTime);'),
                  (r'constexpr auto threshold = std::chrono::microseconds\((\d+)\);', r'const int64_t threshold = VF_MICROSECONDS(\1);'),
                  # time_point accessors used by the timeout lambda
                  (r'dueTime\.seconds_part\(\)', 'TP_SECONDS_PART(dueTime)'), (r'dueTime\.nanoseconds_part\(\)', 'TP_NANOSECONDS_PART(dueTime)'),
              ])
# the populateSqe lambdas of try_submit_timer_io / try_submit_timer_io_cancel are extracted as functions and deleted from the enclosing bodies
drop_lambda = (r'(?s)' + LAMBDA_I + r'\{.*?\n  \};', '')
tsti_ctx = dict(cx_ctx, pre=[drop_lambda, (r'\btry_submit_io\(populateSqe\)', 'EV_try_submit_io(this, POP_TIMER, dueTime)')] + cx_ctx['pre'])
tstc_ctx = dict(cx_ctx, pre=[drop_lambda, (r'\btry_submit_io\(populateSqe\)', 'EV_try_submit_io(this, POP_TIMER_REMOVE, 0)')] + cx_ctx['pre'])
lam_ctx = dict(cx_ctx, pre=[(r'\bsqe\.', 'sqe_p->')] + cx_ctx['pre'])
TSTI = r'bool io_uring_context::try_submit_timer_io\(const time_point& dueTime\) noexcept'
TSTC = r'bool io_uring_context::try_submit_timer_io_cancel\(\) noexcept'

SPEC = dict(
    properties=['C07', 'C04'],
    ctx=op_ctx,
    extracts={
        'ob_next_init': dict(file=H, kind='expr', within=[CTXC, OPBASE], sig=r'operation_base\* next_\s*(=?[^;]*);'),
        'ob_execute_init': dict(file=H, kind='expr', within=[CTXC, OPBASE], sig=r'void \(\*execute_\)\(operation_base\*\) noexcept\s*(=?[^;]*);'),
        'timer_elapsed_flag': dict(file=H, kind='expr', within=SAO, sig=r'static constexpr std::uint32_t timer_elapsed_flag = ([^;]*);'),
        'cancel_pending_flag': dict(file=H, kind='expr', within=SAO, sig=r'static constexpr std::uint32_t cancel_pending_flag = ([^;]*);'),
        'state_init': dict(file=H, kind='expr', within=SAO, sig=r'std::atomic<std::uint32_t> state_ = ([^;]*);'),
        'start': dict(file=H, within=W, sig=r'void start\(\) noexcept'),
        'on_schedule_complete': dict(file=H, within=W, sig=r'static void on_schedule_complete\(operation_base\* op\) noexcept'),
        'complete_with_done': dict(file=H, within=W, sig=r'static void complete_with_done\(operation_base\* op\) noexcept'),
        'maybe_complete_with_value': dict(file=H, within=W, sig=r'static void maybe_complete_with_value\(operation_base\* op\) noexcept'),
        'remove_timer_and_done': dict(file=H, within=W, sig=r'static void remove_timer_from_queue_and_complete_with_done\(\s*operation_base\* op\) noexcept'),
        'start_local': dict(file=H, within=W, sig=r'void start_local\(\) noexcept'),
        'start_remote': dict(file=H, within=W, sig=r'void start_remote\(\) noexcept'),
        'request_stop': dict(file=H, within=W, sig=r'void request_stop\(\) noexcept'),
        'request_stop_local': dict(file=H, within=W, sig=r'void request_stop_local\(\) noexcept'),
        'request_stop_remote': dict(file=H, within=W, sig=r'void request_stop_remote\(\) noexcept'),
        'schedule_at_impl': dict(file=CPP, ctx=cx_ctx, sig=r'void io_uring_context::schedule_at_impl\(schedule_at_operation\* op\) noexcept'),
        'remove_timer': dict(file=CPP, ctx=cx_ctx, sig=r'void io_uring_context::remove_timer\(schedule_at_operation\* op\) noexcept'),
        'update_timers': dict(file=CPP, ctx=cx_ctx, sig=r'void io_uring_context::update_timers\(\) noexcept', outline={0: 'VF_UT_LOOP;'}),
        'try_submit_timer_io': dict(file=CPP, ctx=tsti_ctx, sig=TSTI),
        'tsti_populate': dict(file=CPP, ctx=lam_ctx, sig=LAMBDA_I, within=TSTI),
        'try_submit_timer_io_cancel': dict(file=CPP, ctx=tstc_ctx, sig=TSTC),
        'tstc_populate': dict(file=CPP, ctx=lam_ctx, sig=LAMBDA_I, within=TSTC),
        'timer_user_data': dict(file=H, ctx=cx_ctx, sig=r'std::uintptr_t timer_user_data\(\) const', within=CTXC),
        'remove_timer_user_data': dict(file=H, ctx=cx_ctx, sig=r'std::uintptr_t remove_timer_user_data\(\) const', within=CTXC),
    },
    closed_world=[
        dict(file=H, members=['state_', 'stopCallback_'], within=SENDER,
             allow=[r'(?s)manual_lifetime<typename stop_token_type_t<\s*Receiver>::template callback_type<cancel_callback>>\s*stopCallback_;']),
        dict(file=H, members=['state_', 'canBeCancelled_'], within=SAO,
             allow=[r'std::atomic<std::uint32_t> state_ = 0;', r'bool canBeCancelled_;', r', canBeCancelled_\(canBeCancelled\) \{\}']),
        dict(file=CPP, members=['timers_', 'timersAreDirty_', 'currentDueTime_', 'activeTimerCount_', 'time_'],
             allow=[r'(?s)void io_uring_context::run_impl\(const bool& shouldStop\) \{.*?\n\}',                 # reads timersAreDirty_, calls update_timers (group uring_queue)
                    r'(?s)void io_uring_context::acquire_completion_queue_items\(\) noexcept \{.*?\n\}']),      # the timeout CQE: --activeTimerCount_; timersAreDirty_ = true; currentDueTime_.reset() (group uring_queue: acquire_body)
    ],
    units=[
        dict(name='start', harness='h_start', enforce='TM_start', replace=['TM_start_local', 'TM_start_remote']),
        dict(name='start_remote', harness='h_start_remote', enforce='TM_start_remote'),
        dict(name='on_schedule_complete', harness='h_on_schedule_complete', enforce='TM_on_schedule_complete', replace=['TM_start_local']),
        dict(name='start_local', harness='h_start_local', enforce='TM_start_local', replace=['CTX_schedule_at_impl', 'TM_request_stop']),
        dict(name='complete_with_done', harness='h_complete_with_done', enforce='TM_complete_with_done'),
        dict(name='maybe_complete_with_value', harness='h_maybe_complete_with_value', enforce='TM_maybe_complete_with_value', replace=['TM_complete_with_done']),
        dict(name='remove_timer_and_done', harness='h_remove_timer_and_done', enforce='TM_remove_timer_from_queue_and_complete_with_done', replace=['CTX_remove_timer']),
        dict(name='request_stop', harness='h_request_stop', enforce='TM_request_stop', replace=['TM_request_stop_local', 'TM_request_stop_remote']),
        dict(name='request_stop_local', harness='h_request_stop_local', enforce='TM_request_stop_local', replace=['CTX_remove_timer']),
        dict(name='request_stop_remote', harness='h_request_stop_remote', enforce='TM_request_stop_remote'),
        dict(name='schedule_at_impl', harness='h_schedule_at_impl', enforce='CTX_schedule_at_impl', props=['C07']),
        dict(name='remove_timer', harness='h_remove_timer', enforce='CTX_remove_timer', props=['C07']),
        dict(name='try_submit_timer_io', harness='h_try_submit_timer_io', enforce='CTX_try_submit_timer_io', props=['C07']),
        dict(name='try_submit_timer_io_cancel', harness='h_try_submit_timer_io_cancel', enforce='CTX_try_submit_timer_io_cancel', props=['C07']),
        dict(name='update_timers', harness='h_update_timers', enforce='CTX_update_timers', replace=['CTX_try_submit_timer_io', 'CTX_try_submit_timer_io_cancel'], props=['C07']),
        dict(name='update_timers_body', harness='h_ut_loop0_body', enforce='ut__loop0_body', props=['C07']),
        dict(name='lemma_timer_init', harness='lemma_timer_init', mode='lemma'),
        dict(name='lemma_timer_election', harness='lemma_timer_election', mode='lemma'),
        dict(name='lemma_timer_env', harness='lemma_timer_env', mode='lemma'),
    ],
    assumptions=[
        'intrusive_heap<schedule_at_operation, timerNext_, timerPrev_, time_point, dueTime_> (insert / remove / pop / top / empty) is an event-stub model: a set with '
        'a minimum; "top() is an element with the least dueTime_, ties in insertion order" (C07-2) is established in group intrusive_heap, not here',
        'monotonic_clock::time_point is represented by an order-isomorphic int64 (DESIGN C07-5: clock lemmas, group monotonic_clock), |t| < 2^62; monotonic_clock::now() is a non-decreasing ghost clock; '
        'std::chrono::microseconds(1) is 1000 units of that scalar; std::optional<time_point> is a (has, value) pair; seconds_part() / nanoseconds_part() are modelled by an injective split of that scalar',
        'kernel model: try_submit_io is an event stub checked against specs/uring_queue/uq_contract.h (enforced on the real body in group uring_queue) that may find no room; an IORING_OP_TIMEOUT with '
        'IORING_TIMEOUT_ABS arms one timeout that fires (one CQE with the timer user_data) not before its absolute time; IORING_OP_TIMEOUT_REMOVE disarms the timeout named by addr (whose CQE then carries '
        '-ECANCELED) and is processed before any later SQE; the CQE side (--activeTimerCount_, timersAreDirty_, currentDueTime_.reset()) is under contract in group uring_queue (acquire_body); '
        'real timer accuracy is not modelled; activeTimerCount_ < 1000 (no overflow of the counter)',
        'schedule_local / schedule_remote are event stubs checked against specs/uring_queue/uq_contract.h plus the ghost "the item is in no queue of the context" (io_uring_context::operation_base has no enqueued_ flag)',
        'the stop callback is invoked at most once, only between its construction and the return of its destructor (C03, group stop_token); request_stop is reached only through '
        'it; the token\'s stop_requested() is monotone; canBeCancelled_ == get_stop_token(r).stop_possible() == is_stop_ever_possible for the tokens reached (constructor, not extracted)',
        'start() is called once per operation; maybe_complete_with_value / complete_with_done / remove_timer_from_queue_and_complete_with_done / on_schedule_complete are entered '
        'only through the context\'s queues with the item dequeued: contract of execute_pending_local, group uring_queue',
        'rely of the I/O-thread functions: a remote canceller performs request_stop_remote() as summarised by its contract (lemma_timer_env); rely of request_stop_remote: the I/O '
        'thread may pop the timer and take its election step once (update_timers\' loop body contract)',
        'atomics sequentially consistent',
    ],
    drops=['memory orders', 'noexcept', 'LOG/LOGX statements', 'template genericity (Receiver): if constexpr(is_stop_ever_possible), if constexpr(noexcept(set_value(...))) -> both branches (symbolic configuration)',
           'operation : schedule_at_operation : operation_base -> one struct with the operation_base as first member (down-casts are the identity)',
           'receiver completion signals, stop-token query, stopCallback_.construct/destruct -> event stubs; cancel_callback::operator() (one line) not extracted',
           'timers_.insert/remove/pop/top/empty -> event stubs HEAP_*; optional<time_point> operations -> OPT_*; time_point accessors -> TP_*',
           'the populateSqe lambdas of try_submit_timer_io / try_submit_timer_io_cancel are extracted as functions of their own and deleted from the enclosing bodies (spec-level regex); try_submit_io(lambda) -> event stub '
           'that runs the extracted lambda on a zeroed SQE when it chooses "room"',
           'UNIFEX_TRY/UNIFEX_CATCH made explicit by a spec-level regex (goto vf_catch at the may-throw stub)'],
)
