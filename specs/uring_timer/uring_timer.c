/* C07 (election, never early, kernel timeout bookkeeping) and C04 (items 1 and 3) for io_uring_context:
 * schedule_at_sender::operation (include/unifex/linux/io_uring_context.hpp): start, start_local, start_remote, on_schedule_complete,
 * maybe_complete_with_value, complete_with_done, remove_timer_from_queue_and_complete_with_done, request_stop, request_stop_local,
 * request_stop_remote;  source/linux/io_uring_context.cpp: schedule_at_impl, remove_timer, update_timers, try_submit_timer_io,
 * try_submit_timer_io_cancel (+ their populateSqe lambdas).
 *
 * state_ = timer_elapsed_flag (added once by the I/O thread when it pops the due timer) | cancel_pending_flag (added once by a
 * REMOTE stop request).  Whoever does not see the other's flag in the value it replaced schedules the completion:
 *   timer side  : update_timers -> schedule_local(item)  -> maybe_complete_with_value -> set_value (or done if stop was requested)
 *   cancel side : request_stop_remote -> schedule_remote(item) -> remove_timer_from_queue_and_complete_with_done -> set_done
 * A stop request on the I/O thread (request_stop_local) needs no election: it removes the timer and queues complete_with_done.
 * Kernel: ONE IORING_OP_TIMEOUT (absolute) armed for currentDueTime_; it is removed (IORING_OP_TIMEOUT_REMOVE) before an earlier one
 * is submitted; activeTimerCount_ counts the timeout SQEs whose CQE has not been consumed (the CQE side is in group uring_queue).
 * Bodies marked @BODY/@EXPR/@LOOP* are extracted from the source tree on every run; everything else is specification. */
#include <stddef.h>
#include <stdint.h>
#include <string.h>
#include <linux/io_uring.h>

struct operation_base { struct operation_base* next_; void (*execute_)(struct operation_base*); };   /* io_uring_context::operation_base: no enqueued_ flag (ghost G.queued) */
typedef void (*exec_fn)(struct operation_base*);
struct opt_tp { _Bool has; int64_t val; };                     /* std::optional<time_point> */
struct heap { int opaque; };                                   /* intrusive_heap<schedule_at_operation, ...> (event-stub model) */
struct vf_kernel_timespec { int64_t tv_sec; long long tv_nsec; };   /* io_uring_context::__kernel_timespec */
struct io_uring_context { struct heap timers_; struct opt_tp currentDueTime_; _Bool timersAreDirty_; uint32_t activeTimerCount_; struct vf_kernel_timespec time_; };
struct timer_op {                                              /* operation<Receiver> : schedule_at_operation : operation_base */
  struct operation_base base;
  struct timer_op* timerNext_; struct timer_op* timerPrev_; struct io_uring_context* context_; int64_t dueTime_; _Bool canBeCancelled_;
  uint32_t state_; int receiver_; int stopCallback_;
};

enum { CB_NONE, CB_CONSTRUCTED, CB_DESTRUCTED };
enum { ROLE_IO, ROLE_CANCEL };
struct vf_ghost {
  int role; _Bool on_io_thread;
  _Bool queued;                /* the operand's queue item is in a queue of the context (io_uring_context::operation_base has no flag for this) */
  _Bool cancellable;           /* the operand's canBeCancelled_ (== stop_possible of its token) */
  _Bool cb_fired_locally;      /* the callback was invoked inline on the I/O thread (it cannot fire again) */
  _Bool remote_may_run;        /* an item handed to the remote queue may be executed (and its operation destroyed) at once */
  /* timer heap model: is the operand in it, what is its minimum */
  _Bool in_heap; struct timer_op* top; unsigned inserts, removes, pops; struct timer_op* popped;
  int64_t now;                 /* the value monotonic_clock::now() returned */
  /* OS timer (timerfd) */
  _Bool os_armed; int64_t os_due;        /* a kernel timeout is armed (submitted, neither fired nor removed), and for when */
  unsigned submits, timer_sqes, remove_sqes; _Bool room;   /* try_submit_io calls / timeout SQEs / timeout-remove SQEs taken by the verified call */
  /* stop token and callback */
  int cb_state; _Bool stop_requested; unsigned polls; _Bool stop_seen;
  /* election */
  uint32_t e_old, c_old; unsigned elapsed_adds, cancel_adds;
  /* scheduling of the operand's queue item */
  unsigned sched_local, sched_remote; struct operation_base* sched_item; exec_fn sched_fn;
  _Bool due_reached;           /* the operand was put on the ready queue by update_timers, after dueTime_ <= now was evaluated */
  /* completion */
  unsigned completed, value, exc_error, done; _Bool dead; struct timer_op snap;
};
static struct vf_ghost G;
static struct io_uring_context S;
static struct timer_op OP;         /* the operand */
static struct timer_op T1;         /* another timer in the heap */
static _Bool VF_CFG_stop_possible; /* is_stop_ever_possible */
static _Bool VF_CFG_nothrow;       /* is_nothrow_receiver_of_v<Receiver> */
#define is_stop_ever_possible VF_CFG_stop_possible
#define IFF(a, b) (((a) && (b)) || (!(a) && !(b)))   /* logical equivalence (a havocked _Bool need not be 0/1) */
#define VF_TIME_ZERO ((int64_t)0)
#define VF_MICROSECONDS(n) ((int64_t)(n) * 1000)
#define VF_TIME_BOUND ((int64_t)1 << 62)

static void vf_guarantee(void* p, uint32_t o, uint32_t n);
#define VF_G(p, o, n) vf_guarantee((void*)(p), (uint32_t)(o), (uint32_t)(n))
#include "vf.h"
#include "../uring_queue/uq_contract.h"
#define EQ_REQ_SCHEDULE(it) (UQ_REQ_SCHEDULE(it) && !G.queued)   /* uq_contract.h + "the item is in no queue of the context" (ghost: io_uring_context has no flag for it) */

static const uint32_t TM_timer_elapsed_flag = /*@EXPR timer_elapsed_flag*/;
static const uint32_t TM_cancel_pending_flag = /*@EXPR cancel_pending_flag*/;
static void operation_base_init(struct operation_base* b) { struct operation_base* vf_n /*@EXPR ob_next_init*/; exec_fn vf_e /*@EXPR ob_execute_init*/; b->next_ = vf_n; b->execute_ = vf_e; }
static void timer_op_init(struct timer_op* self) { operation_base_init(&self->base); self->state_ = /*@EXPR state_init*/; }

void TM_start(struct timer_op* self);
void TM_start_local(struct timer_op* self);
void TM_start_remote(struct timer_op* self);
void TM_on_schedule_complete(struct operation_base* op);
void TM_complete_with_done(struct operation_base* op);
void TM_maybe_complete_with_value(struct operation_base* op);
void TM_remove_timer_from_queue_and_complete_with_done(struct operation_base* op);
void TM_request_stop(struct timer_op* self);
void TM_request_stop_local(struct timer_op* self);
void TM_request_stop_remote(struct timer_op* self);
void CTX_schedule_at_impl(struct io_uring_context* self, struct timer_op* op);
void CTX_remove_timer(struct io_uring_context* self, struct timer_op* op);

/* ---------------- protocol predicates (specification, from the property statement) ---------------- */
#define ELAPSED(s)  (((s) & TM_timer_elapsed_flag) != 0)
#define CANCELLED(s) (((s) & TM_cancel_pending_flag) != 0)
/* the timer side schedules the completion iff it does not see a pending remote cancellation (always, for a non-cancellable timer) */
#define TIMER_WON  (G.pops == 1 && G.popped == &OP && (!OP_CANCELLABLE || (G.elapsed_adds == 1 && !CANCELLED(G.e_old))))
#define CANCEL_WON (G.cancel_adds == 1 && !ELAPSED(G.c_old))
#define OP_CANCELLABLE (G.cancellable)
#define STATE_OK (G.elapsed_adds <= 1 && G.cancel_adds <= 1 && OP.state_ == (G.elapsed_adds ? TM_timer_elapsed_flag : 0) + (G.cancel_adds ? TM_cancel_pending_flag : 0) \
                  && (G.elapsed_adds == 1 ==> (G.e_old == 0 || (G.e_old == TM_cancel_pending_flag && G.cancel_adds == 1))) \
                  && (G.cancel_adds == 1 ==> (G.c_old == 0 || (G.c_old == TM_timer_elapsed_flag && G.elapsed_adds == 1))) \
                  && ((G.elapsed_adds == 1 && G.cancel_adds == 1) ==> ((G.e_old == 0) != (G.c_old == 0))))
#define OP_UNTOUCHED (OP.base.next_ == G.snap.base.next_ && OP.base.execute_ == G.snap.base.execute_ && OP.timerNext_ == G.snap.timerNext_ \
   && OP.timerPrev_ == G.snap.timerPrev_ && OP.context_ == G.snap.context_ && OP.dueTime_ == G.snap.dueTime_ && OP.canBeCancelled_ == G.snap.canBeCancelled_ && OP.state_ == G.snap.state_ \
   && OP.receiver_ == G.snap.receiver_ && OP.stopCallback_ == G.snap.stopCallback_)

/* guarantee: the I/O thread's only write to state_ adds timer_elapsed_flag, a remote canceller's adds cancel_pending_flag, once each */
static void vf_guarantee(void* p, uint32_t o, uint32_t n) {
  VF_P(p == (void*)&OP.state_, "guarantee: state_ of the timer being handled is the only atomic word written");
  if (G.role == ROLE_IO) {
    VF_P(n == o + TM_timer_elapsed_flag && G.elapsed_adds == 0, "guarantee: the I/O thread adds timer_elapsed_flag, once, when it pops the timer");
    VF_P(G.popped == &OP && !G.in_heap, "guarantee: the elapsed flag is set for the timer that was just popped from the heap");
    G.e_old = o; G.elapsed_adds++;
  } else {
    VF_P(n == o + TM_cancel_pending_flag && G.cancel_adds == 0, "guarantee: a remote stop request adds cancel_pending_flag, once");
    G.c_old = o; G.cancel_adds++;
  }
}

/* ---------------- rely ---------------- */
/* request_stop_remote() by a remote canceller, as summarised by its contract (lemma_timer_env) */
static void env_cancel(void) {
  uint32_t o = OP.state_;
  OP.state_ = o + TM_cancel_pending_flag; G.c_old = o; G.cancel_adds++;
  if (!ELAPSED(o)) {
    OP.base.execute_ = &TM_remove_timer_from_queue_and_complete_with_done; G.queued = 1;
    G.sched_remote++; G.sched_item = &OP.base; G.sched_fn = &TM_remove_timer_from_queue_and_complete_with_done;
  }
}
/* the I/O thread pops the due timer and takes its election step (update_timers' loop body, by its contract) */
static void env_elapse(void) {
  G.in_heap = 0;
  uint32_t o = OP.state_;
  OP.state_ = o + TM_timer_elapsed_flag; G.e_old = o; G.elapsed_adds++;
  if (!CANCELLED(o)) { G.queued = 1; G.due_reached = 1; }
}
static void vf_interfere(void) {
  if (G.role == ROLE_IO) {
    /* a stop request can arrive at any time from another thread; the callback can fire only while it is registered, once */
    if (VF_CFG_stop_possible && !G.stop_requested && VF_nondet_bool()) { G.stop_requested = 1; }
    if (G.stop_requested && G.cb_state == CB_CONSTRUCTED && G.cancel_adds == 0 && !G.cb_fired_locally && VF_nondet_bool()) { env_cancel(); }
  } else {
    if (G.on_io_thread) { return; }    /* the callback runs on the I/O thread itself: nobody else acts for it */
    if (G.in_heap && G.elapsed_adds == 0 && VF_nondet_bool()) { env_elapse(); }
  }
}

/* ---------------- event stubs ---------------- */
static _Bool EV_on_io_thread(struct timer_op* self) { return G.on_io_thread; }
static _Bool CTX_is_running_on_io_thread(struct io_uring_context* self) { return G.on_io_thread; }
static int64_t VF_now(void) { return G.now; }
static _Bool EV_stop_requested(struct timer_op* self) {
  VF_P(self == &OP && !G.dead, "the stop token of a live operation is queried");
  vf_interfere();
  G.polls++;
  if (G.stop_requested) { G.stop_seen = 1; }
  return G.stop_requested;
}
/* stopCallback_.construct(token, cancel_callback{*this}): registration is atomic with respect to a stop request: either the
 * callback is registered (a later request invokes it), or stop was already requested and the constructor invokes it inline */
static void EV_cb_construct(struct timer_op* self) {
  VF_P(self == &OP && VF_CFG_stop_possible && G.cb_state == CB_NONE && !G.dead, "the stop callback is constructed at most once, only for stoppable tokens");
  VF_P(G.on_io_thread, "start_local runs on the I/O thread");
  vf_interfere();
  G.cb_state = CB_CONSTRUCTED;
  if (G.stop_requested) {
    VF_CANARY("stop already requested when the callback is constructed");
    G.cb_fired_locally = 1; G.role = ROLE_CANCEL;
    TM_request_stop(self);
    G.role = ROLE_IO;
  }
}
/* stopCallback_.destruct(): deregisters, or waits for an invocation running on another thread to return; from inside the
 * callback itself (request_stop_local) it only marks the callback as removed */
static void EV_cb_destruct(struct timer_op* self) {
  VF_P(self == &OP && !G.dead, "the callback of a live operation is destroyed");
  vf_interfere();
  VF_P(G.cb_state == CB_CONSTRUCTED, "only a constructed stop callback is destroyed, once");
  G.cb_state = CB_DESTRUCTED;
}
/* timer heap (event-stub model of intrusive_heap: a set with a minimum) */
#define TOP_DUE (G.top == &OP ? OP.dueTime_ : T1.dueTime_)
static _Bool HEAP_empty(struct heap* h) { return G.top == NULL; }
static struct timer_op* HEAP_top(struct heap* h) { VF_P(G.top != NULL, "P-int: top() of a non-empty heap"); return G.top; }
static struct timer_op* HEAP_pop(struct heap* h) {
  VF_P(G.top != NULL, "P-int: pop() of a non-empty heap");
  struct timer_op* t = G.top; int64_t d = TOP_DUE;
  G.pops++; G.popped = t;
  if (t == &OP) { G.in_heap = 0; }
  /* the new minimum is one of the remaining elements and is not earlier than the one removed */
  if (VF_nondet_bool()) { G.top = NULL; __CPROVER_assume(!G.in_heap); }
  else if (G.in_heap && VF_nondet_bool()) { G.top = &OP; __CPROVER_assume(OP.dueTime_ >= d); }
  else { T1.dueTime_ = VF_nondet_i64(); __CPROVER_assume(T1.dueTime_ >= d && T1.dueTime_ < VF_TIME_BOUND && (!G.in_heap || T1.dueTime_ <= OP.dueTime_)); G.top = &T1; }
  return t;
}
static void HEAP_insert(struct heap* h, struct timer_op* it) {
  VF_P(it == &OP && !G.in_heap && !G.dead, "a timer is inserted into the heap once, while its operation is alive");
  G.inserts++; G.in_heap = 1;
  if (G.top == NULL || OP.dueTime_ < TOP_DUE) { G.top = &OP; }
}
static void HEAP_remove(struct heap* h, struct timer_op* it) {
  VF_P(it == &OP && G.in_heap, "only a timer that is in the heap is removed from it");
  G.removes++; G.in_heap = 0;
  if (G.top == &OP) { if (VF_nondet_bool()) { G.top = NULL; } else { T1.dueTime_ = VF_nondet_i64(); __CPROVER_assume(T1.dueTime_ >= OP.dueTime_ && T1.dueTime_ < VF_TIME_BOUND); G.top = &T1; } }
}
/* std::optional<time_point> */
static _Bool OPT_has(struct opt_tp* o) { return o->has; }
static void OPT_reset(struct opt_tp* o) { o->has = 0; }
static int64_t OPT_value(struct opt_tp* o) { VF_P(o->has, "P-int: optional dereferenced only when engaged"); return o->val; }
static void OPT_set(struct opt_tp* o, int64_t v) { o->has = 1; o->val = v; }
/* time_point -> (seconds, nanoseconds): any injective split serves as the model of seconds_part() / nanoseconds_part() (the real ones: group monotonic_clock) */
#define TP_SECONDS_PART(d) ((int64_t)((d) >> 30))
#define TP_NANOSECONDS_PART(d) ((long long)((d) & (((int64_t)1 << 30) - 1)))
enum { POP_TIMER = 1, POP_TIMER_REMOVE = 2 };
static struct io_uring_sqe SQE;      /* the submission entry try_submit_io hands to the populate lambda */
uintptr_t CTX_timer_user_data(struct io_uring_context* self)
/*@BODY timer_user_data*/
uintptr_t CTX_remove_timer_user_data(struct io_uring_context* self)
/*@BODY remove_timer_user_data*/
/* the populateSqe lambdas of try_submit_timer_io / try_submit_timer_io_cancel */
static void TSTI_populate(struct io_uring_context* self, struct io_uring_sqe* sqe_p, int64_t dueTime)
/*@BODY tsti_populate*/
static void TSTC_populate(struct io_uring_context* self, struct io_uring_sqe* sqe_p)
/*@BODY tstc_populate*/
/* try_submit_io(populateSqe) (contract: specs/uring_queue/uq_contract.h): if there is room the lambda runs once on the zeroed slot, which is then published.
 * Kernel: IORING_OP_TIMEOUT arms a timeout; IORING_OP_TIMEOUT_REMOVE (processed first: SQEs are consumed in order) disarms the one named by addr */
static _Bool EV_try_submit_io(struct io_uring_context* self, int kind, int64_t due) {
  VF_P(self == &S && G.on_io_thread, "try_submit_io: on the I/O thread");
  G.submits++;
  _Bool room = VF_nondet_bool() ? 1 : 0;
  unsigned calls = 0;
  if (room) {
    memset(&SQE, 0, sizeof(SQE));
    calls = 1;
    if (kind == POP_TIMER) {
      TSTI_populate(self, &SQE, due);
      VF_P(SQE.opcode == IORING_OP_TIMEOUT && SQE.addr == (uint64_t)(uintptr_t)&S.time_ && SQE.len == 1 && SQE.timeout_flags == IORING_TIMEOUT_ABS, "C07: the kernel timeout is an ABSOLUTE timeout reading the context's timespec");
      VF_P(SQE.user_data == (uint64_t)(uintptr_t)&S.timers_, "the timeout's CQE carries the timer user_data (acquire_completion_queue_items counts it)");
      VF_P(S.time_.tv_sec == TP_SECONDS_PART(due) && S.time_.tv_nsec == TP_NANOSECONDS_PART(due), "C07: the kernel timeout is armed for exactly the due time asked for");
      VF_P(!G.os_armed, "C07: a kernel timeout is cancelled before it is replaced (at most one is armed)");
      G.timer_sqes++; G.os_armed = 1; G.os_due = due;
    } else {
      VF_P(kind == POP_TIMER_REMOVE, "the two populate lambdas");
      TSTC_populate(self, &SQE);
      VF_P(SQE.opcode == IORING_OP_TIMEOUT_REMOVE && SQE.addr == (uint64_t)(uintptr_t)&S.timers_, "the removal names the timeout by its user_data");
      VF_P(SQE.user_data == (uint64_t)(uintptr_t)&S.currentDueTime_, "the removal's own CQE carries the remove-timer user_data (ignored by acquire_completion_queue_items)");
      G.remove_sqes++; G.os_armed = 0;
    }
  }
  VF_A(UQ_ENS_TRY_SUBMIT(room, room, calls, 1, 1), "the stub is a behaviour of try_submit_io's contract (uq_contract.h)");
  return room;
}
#define TIME_IN_RANGE(t) ((t) > -VF_TIME_BOUND && (t) < VF_TIME_BOUND)
#define SUBMIT_GHOSTS G.submits, G.timer_sqes, G.remove_sqes, G.os_armed, G.os_due

/* try_submit_timer_io(due): ONE absolute kernel timeout for `due`, counted in activeTimerCount_ iff it was submitted */
_Bool CTX_try_submit_timer_io(struct io_uring_context* self, int64_t dueTime)
__CPROVER_requires(!G.os_armed) /*P*/ /* C07: a kernel timeout is cancelled before it is replaced */
__CPROVER_requires(self == &S && G.on_io_thread && TIME_IN_RANGE(dueTime) && S.activeTimerCount_ < 1000)
__CPROVER_assigns(S.activeTimerCount_, S.time_, SQE, SUBMIT_GHOSTS)
__CPROVER_ensures(__CPROVER_return_value == 0 || __CPROVER_return_value == 1)
__CPROVER_ensures(G.submits == __CPROVER_old(G.submits) + 1 && G.remove_sqes == __CPROVER_old(G.remove_sqes))
__CPROVER_ensures(__CPROVER_return_value ==> (G.timer_sqes == __CPROVER_old(G.timer_sqes) + 1 && S.activeTimerCount_ == __CPROVER_old(S.activeTimerCount_) + 1 && G.os_armed && G.os_due == dueTime)) /* submitted: armed for `due`, one more CQE to come */
__CPROVER_ensures(!__CPROVER_return_value ==> (G.timer_sqes == __CPROVER_old(G.timer_sqes) && S.activeTimerCount_ == __CPROVER_old(S.activeTimerCount_) && !G.os_armed)) /* no ring space: nothing armed, nothing counted */
/*@BODY try_submit_timer_io*/

/* try_submit_timer_io_cancel(): ONE removal of the kernel timeout (its -ECANCELED CQE still comes: activeTimerCount_ unchanged) */
_Bool CTX_try_submit_timer_io_cancel(struct io_uring_context* self)
__CPROVER_requires(self == &S && G.on_io_thread)
__CPROVER_assigns(SQE, SUBMIT_GHOSTS)
__CPROVER_ensures(__CPROVER_return_value == 0 || __CPROVER_return_value == 1)
__CPROVER_ensures(G.submits == __CPROVER_old(G.submits) + 1 && G.timer_sqes == __CPROVER_old(G.timer_sqes) && G.os_due == __CPROVER_old(G.os_due))
__CPROVER_ensures(__CPROVER_return_value ==> (G.remove_sqes == __CPROVER_old(G.remove_sqes) + 1 && !G.os_armed))
__CPROVER_ensures(!__CPROVER_return_value ==> (G.remove_sqes == __CPROVER_old(G.remove_sqes) && IFF(G.os_armed, __CPROVER_old(G.os_armed))))
/*@BODY try_submit_timer_io_cancel*/

/* schedule_local / schedule_remote of the operand's queue item: preconditions = specs/uring_queue/uq_contract.h + ghost "in no queue" */
static void EV_schedule_local(struct timer_op* self, struct operation_base* it) {
  VF_P(self == &OP && it == &OP.base && !G.dead && G.on_io_thread, "the live operand is queued on the I/O thread");
  VF_P(EQ_REQ_SCHEDULE(it), "precondition of schedule_local: the item has a continuation and is in no queue of the context");
  VF_P(G.sched_local + G.sched_remote == 0, "C07-4: the completion of a timer is scheduled by exactly one party");
  G.sched_local++; G.sched_item = it; G.sched_fn = it->execute_; G.queued = 1;
}
static void EV_schedule_remote(struct timer_op* self, struct operation_base* it) {
  VF_P(self == &OP && it == &OP.base && !G.dead, "the live operand is handed to the remote queue");
  VF_P(EQ_REQ_SCHEDULE(it), "precondition of schedule_remote: the item has a continuation and is in no queue of the context");
  VF_P(G.sched_local + G.sched_remote == 0, "C07-4: the completion of a timer is scheduled by exactly one party");
  G.sched_remote++; G.sched_item = it; G.sched_fn = it->execute_; G.queued = 1;
  if (G.remote_may_run) { struct timer_op f; OP = f; G.dead = 1; G.snap = OP; }
}
/* update_timers: schedule_local(item) for the timer just popped */
static void EV_timer_schedule_local(struct io_uring_context* self, struct timer_op* item) {
  VF_CANARY("a due timer can be put on the ready queue");
  VF_P(item == G.popped && item == &OP && G.pops == 1, "the timer made ready is the one just popped from the top of the heap");
  VF_P(item->dueTime_ <= G.now, "C07-1: a timer is made ready only after its due time was compared with the clock (never early)");
  VF_P(EQ_REQ_SCHEDULE(&item->base), "precondition of schedule_local: the item has a continuation and is in no queue of the context");
  VF_P(G.sched_local + G.sched_remote == 0 || (G.sched_remote == 1 && !CANCEL_WON), "C07-4: the completion of a timer is scheduled by exactly one party");
  G.sched_local++; G.sched_item = &item->base; G.sched_fn = item->base.execute_; G.queued = 1; G.due_reached = 1;
}
/* completion signals */
static void ev_complete(struct timer_op* self) {
  VF_P(self == &OP && !G.dead, "the completion signal is sent on behalf of the live operand");
  VF_P(G.completed == 0, "C07: a timer operation completes exactly once");
  VF_P(!G.in_heap, "C07: at completion the context retains no reference: the timer is not in the heap");
  VF_P(!G.queued, "C07: at completion the operation's queue item is in no queue of the context");
  VF_P(G.cb_state != CB_CONSTRUCTED, "C04-1: the stop callback is destroyed (deregistered, not running elsewhere) before the receiver is completed");
  G.completed++;
  { struct timer_op f; OP = f; G.dead = 1; G.snap = OP; }
}
static void EV_set_value(struct timer_op* self) {
  VF_CANARY("set_value reachable");
  VF_P(G.due_reached, "C07-1: set_value only for a timer that the loop found due");
  VF_P(!G.stop_seen, "C07-3: done, not value, once a stop request has been observed");
  ev_complete(self); G.value++;
}
static _Bool EV_set_value_maythrow(struct timer_op* self) {
  VF_P(G.due_reached, "C07-1: set_value only for a timer that the loop found due");
  VF_P(!G.stop_seen, "C07-3: done, not value, once a stop request has been observed");
  if (VF_nondet_bool()) { return 1; }
  ev_complete(self); G.value++;
  return 0;
}
static void EV_set_error_exception(struct timer_op* self) { ev_complete(self); G.exc_error++; }
static void EV_set_done(struct timer_op* self) {
  VF_CANARY("set_done reachable");
  VF_P(VF_CFG_stop_possible && G.stop_requested, "C07-3: done only because stop was requested");
  ev_complete(self); G.done++;
}

/* ---------------- functions under contract: the context ---------------- */
#define HEAP_OK ((G.in_heap ==> (G.top != NULL && TOP_DUE <= OP.dueTime_)) && (G.top == &OP ==> G.in_heap) && (G.top == NULL || G.top == &OP || G.top == &T1) \
                 && OP.dueTime_ > -VF_TIME_BOUND && OP.dueTime_ < VF_TIME_BOUND && T1.dueTime_ > -VF_TIME_BOUND && T1.dueTime_ < VF_TIME_BOUND)

/* schedule_at_impl: the timer enters the heap once; if it is the new minimum the OS timer has to be re-armed (timersAreDirty_) */
void CTX_schedule_at_impl(struct io_uring_context* self, struct timer_op* op)
__CPROVER_requires(G.on_io_thread) /*P*/ /* the timer heap belongs to the I/O thread */
__CPROVER_requires(self == &S && op == &OP && !G.in_heap && HEAP_OK && G.inserts == 0 && !G.dead)
__CPROVER_assigns(G.in_heap, G.top, G.inserts, S.timersAreDirty_)
__CPROVER_ensures(G.inserts == 1 && G.in_heap && HEAP_OK) /* inserted exactly once */
__CPROVER_ensures(G.top == &OP ==> S.timersAreDirty_) /* a new earliest timer forces the OS timer to be re-armed: it cannot fire late because of a later one */
__CPROVER_ensures(G.top != &OP ==> S.timersAreDirty_ == __CPROVER_old(S.timersAreDirty_))
/*@BODY schedule_at_impl*/

/* remove_timer: the timer leaves the heap once; if it was the minimum the OS timer is re-evaluated */
void CTX_remove_timer(struct io_uring_context* self, struct timer_op* op)
__CPROVER_requires(G.in_heap) /*P*/ /* C07-4: only a timer that has not elapsed (is still in the heap) is removed from it */
__CPROVER_requires(self == &S && op == &OP && HEAP_OK && !G.dead && G.on_io_thread)
__CPROVER_assigns(G.in_heap, G.top, G.removes, S.timersAreDirty_, T1.dueTime_)
__CPROVER_ensures(G.removes == __CPROVER_old(G.removes) + 1 && !G.in_heap && G.top != &OP)
__CPROVER_ensures(__CPROVER_old(G.top) == &OP ==> S.timersAreDirty_)
__CPROVER_ensures(__CPROVER_old(G.top) != &OP ==> (S.timersAreDirty_ == __CPROVER_old(S.timersAreDirty_) && G.top == __CPROVER_old(G.top)))
/*@BODY remove_timer*/

/* update_timers: (1) reap every timer that is due (loop at cut points), (2) keep the OS timer in step with the earliest pending one */
#define UT_INV (G.on_io_thread && G.role == ROLE_IO && HEAP_OK)
static void ut__loop0(struct io_uring_context* self, int64_t now) {
  VF_P(UT_INV && now == G.now, "cut point (reap loop head): heap consistent, clock value fixed");
  /* arbitrary number of iterations later */
  int k = VF_nondet_int();
  if (k == 0) { G.top = NULL; G.in_heap = 0; }
  else if (k == 1 && G.in_heap) { G.top = &OP; }
  else { T1.dueTime_ = VF_nondet_i64(); G.top = &T1; }
  __CPROVER_assume(UT_INV && !(/*@LOOPCOND update_timers.loop0.cond*/));
}
#define VF_UT_LOOP ut__loop0(self, now)
/* the recorded due time is exactly what the kernel timeout is armed for; nothing recorded <=> nothing armed */
#define OS_IN_STEP (IFF(S.currentDueTime_.has, G.os_armed) && (S.currentDueTime_.has ==> G.os_due == S.currentDueTime_.val))

void CTX_update_timers(struct io_uring_context* self)
__CPROVER_requires(S.timersAreDirty_) /*P*/ /* update_timers is called because the timers are dirty (run_impl); a failed attempt leaves them dirty for the next round */
__CPROVER_requires(self == &S && UT_INV && OS_IN_STEP && (S.currentDueTime_.has ==> TIME_IN_RANGE(S.currentDueTime_.val)) && G.now > 0 && G.now < VF_TIME_BOUND && S.activeTimerCount_ < 1000)
__CPROVER_assigns(G.top, G.in_heap, T1.dueTime_, S.currentDueTime_, S.timersAreDirty_, S.activeTimerCount_, S.time_, SQE, SUBMIT_GHOSTS)
__CPROVER_ensures(G.top == NULL || TOP_DUE > G.now) /* every timer that is due has been reaped */
__CPROVER_ensures(OS_IN_STEP) /* the recorded due time is what the kernel timeout is armed for */
__CPROVER_ensures((!S.timersAreDirty_ && G.top != NULL) ==> (S.currentDueTime_.has && S.currentDueTime_.val - VF_MICROSECONDS(1) <= TOP_DUE)) /* the dirty flag is cleared only with the kernel timeout armed for (within 1us of) the earliest pending timer: no timer waits behind a later one */
__CPROVER_ensures(G.top == NULL ==> (!S.currentDueTime_.has || (S.timersAreDirty_ && G.remove_sqes == __CPROVER_old(G.remove_sqes)))) /* no pending timer: the kernel timeout is removed (or, without ring space, the timers stay dirty for the next round) */
__CPROVER_ensures(G.timer_sqes <= __CPROVER_old(G.timer_sqes) + 1 && G.remove_sqes <= __CPROVER_old(G.remove_sqes) + 1 && S.activeTimerCount_ == __CPROVER_old(S.activeTimerCount_) + (G.timer_sqes - __CPROVER_old(G.timer_sqes))) /* activeTimerCount_ counts the timeouts submitted */
__CPROVER_ensures(G.timer_sqes == __CPROVER_old(G.timer_sqes) + 1 ==> (G.top != NULL && G.os_due == TOP_DUE && S.currentDueTime_.has && !S.timersAreDirty_ \
                   && (__CPROVER_old(S.currentDueTime_.has) ==> G.remove_sqes == __CPROVER_old(G.remove_sqes) + 1))) /* a new kernel timeout is for the EARLIEST pending timer, and an armed one was removed first */
__CPROVER_ensures((G.top != NULL && __CPROVER_old(S.currentDueTime_.has) && TOP_DUE < __CPROVER_old(S.currentDueTime_.val) - VF_MICROSECONDS(1)) ==> (S.timersAreDirty_ || (G.remove_sqes == __CPROVER_old(G.remove_sqes) + 1 && G.timer_sqes == __CPROVER_old(G.timer_sqes) + 1))) /* re-armed when the earliest due time moved forward */
/*@BODY update_timers*/

/* one iteration of the reap loop: the head of the heap is due: pop it; a cancellable timer takes the election step; the
 * timer is put on the ready queue unless a remote cancellation is pending (which then owns the completion) */
int ut__loop0_body(struct io_uring_context* self, int64_t now)
__CPROVER_requires(self == &S && UT_INV && now == G.now && (/*@LOOPCOND update_timers.loop0.cond*/) && G.top == &OP && G.pops == 0 && G.elapsed_adds == 0 && STATE_OK && !G.dead \
                   && OP.canBeCancelled_ == G.cancellable && (G.cancel_adds == 1 ==> G.cancellable) && G.sched_local == 0 && (G.sched_remote == (CANCEL_WON ? 1 : 0)) \
                   && (CANCEL_WON ? G.queued : !G.queued) && OP.base.execute_ != NULL && !G.due_reached \
                   && G.cb_state == (G.cancellable ? CB_CONSTRUCTED : CB_NONE) && VF_CFG_stop_possible == G.cancellable)
__CPROVER_assigns(G, OP.state_, OP.base.execute_, T1.dueTime_)
__CPROVER_ensures(__CPROVER_return_value == VF_X_CONTINUE)
__CPROVER_ensures(G.pops == 1 && G.popped == &OP && !G.in_heap && HEAP_OK) /* exactly the head is removed */
__CPROVER_ensures(G.elapsed_adds == (G.cancellable ? 1 : 0)) /* one election step for a cancellable timer */
__CPROVER_ensures(G.sched_local == (TIMER_WON ? 1 : 0)) /* C07-4: made ready by the timer side iff no remote cancellation was pending at its step */
__CPROVER_ensures(G.sched_local + G.sched_remote == 1) /* C07-4: exactly one of {timer thread, remote canceller} has scheduled the completion */
__CPROVER_ensures(G.sched_local == 1 ==> (G.due_reached && OP.dueTime_ <= G.now)) /* C07-1: never early */
/*@LOOPBODY update_timers.loop0.body*/

/* ---------------- functions under contract: the operation ---------------- */
#define QUIET (G.completed == 0 && G.value == 0 && G.exc_error == 0 && G.done == 0 && !G.dead && G.sched_local == 0 && G.sched_remote == 0 && G.inserts == 0 && G.removes == 0 && G.pops == 0 \
               && G.polls == 0 && !G.stop_seen && !G.cb_fired_locally)
#define FRESH (QUIET && OP.state_ == 0 && G.elapsed_adds == 0 && G.cancel_adds == 0 && G.cb_state == CB_NONE && !G.in_heap && !G.due_reached && !G.queued \
               && OP.canBeCancelled_ == VF_CFG_stop_possible && G.cancellable == VF_CFG_stop_possible && OP.context_ == &S && HEAP_OK && (G.stop_requested ==> VF_CFG_stop_possible))
#define PENDING_TIMER (G.in_heap && !G.queued && OP.base.execute_ == &TM_maybe_complete_with_value)

/* start_local (I/O thread).  C04-3: with stop already requested the timer is NOT added: complete_with_done is queued instead.
 * Otherwise the timer enters the heap once and the stop callback is registered AFTER that (a request that is already there
 * then finds the timer and removes it) */
void TM_start_local(struct timer_op* self)
__CPROVER_requires(self == &OP && G.role == ROLE_IO && G.on_io_thread && FRESH && !G.remote_may_run)
__CPROVER_assigns(OP, G, S.timersAreDirty_, T1.dueTime_)
__CPROVER_ensures(G.completed == 0) /* never completes inline */
__CPROVER_ensures((VF_CFG_stop_possible && G.polls == 1 && G.stop_seen && G.inserts == 0) ? (!G.in_heap && G.cb_state == CB_NONE && G.sched_local == 1 && G.sched_fn == &TM_complete_with_done) : (G.inserts == 1)) /* C04-3: stop requested before start: the timer is not added */
__CPROVER_ensures(VF_CFG_stop_possible ==> G.polls == 1)
__CPROVER_ensures((VF_CFG_stop_possible && G.stop_seen) ==> G.inserts == 0) /* C04-3: a stop request that start_local has observed keeps the timer out of the heap */
__CPROVER_ensures((G.inserts == 1 && VF_CFG_stop_possible) ==> G.cb_state != CB_NONE) /* an added timer of a stoppable operation has its stop callback */
__CPROVER_ensures((G.inserts == 1 && G.sched_local + G.sched_remote == 0) ==> (PENDING_TIMER && G.cancel_adds == 0 && (VF_CFG_stop_possible ==> G.cb_state == CB_CONSTRUCTED))) /* pending: in the heap, waiting for its due time */
__CPROVER_ensures((G.inserts == 1 && G.sched_local == 1) ==> (!G.in_heap && G.removes == 1 && G.cb_state == CB_DESTRUCTED && G.sched_fn == &TM_complete_with_done)) /* a stop request that arrived in the window is honoured at once: removed again, done queued */
__CPROVER_ensures(G.sched_local + G.sched_remote <= 1 && G.sched_remote == (CANCEL_WON ? 1 : 0))
/*@BODY start_local*/

void TM_start_remote(struct timer_op* self)
__CPROVER_requires(self == &OP && !G.on_io_thread && FRESH && G.remote_may_run)
__CPROVER_assigns(OP, G.queued, G.sched_remote, G.sched_item, G.sched_fn, G.dead, G.snap)
__CPROVER_ensures(G.sched_remote == 1 && G.sched_item == &OP.base && G.sched_fn == &TM_on_schedule_complete) /* handed to the I/O thread, which runs start_local */
__CPROVER_ensures(G.dead && OP_UNTOUCHED) /* the I/O thread may already have run (and completed) the operation */
/*@BODY start_remote*/

void TM_start(struct timer_op* self)
__CPROVER_requires(self == &OP && G.role == ROLE_IO && FRESH && IFF(G.remote_may_run, !G.on_io_thread))
__CPROVER_assigns(OP, G, S.timersAreDirty_, T1.dueTime_)
__CPROVER_ensures(__CPROVER_old(G.on_io_thread) ==> (G.sched_remote == (CANCEL_WON ? 1 : 0) && (G.inserts == 1 || G.sched_local == 1))) /* on the I/O thread: start_local */
__CPROVER_ensures(!__CPROVER_old(G.on_io_thread) ==> (G.sched_remote == 1 && G.sched_fn == &TM_on_schedule_complete && G.inserts == 0 && G.polls == 0)) /* elsewhere: through the remote queue */
/*@BODY start*/

void TM_on_schedule_complete(struct operation_base* op)
__CPROVER_requires(op == &OP.base && G.role == ROLE_IO && G.on_io_thread && FRESH && !G.remote_may_run)
__CPROVER_assigns(OP, G, S.timersAreDirty_, T1.dueTime_)
__CPROVER_ensures(G.completed == 0 && (G.inserts == 1 || G.sched_local == 1)) /* continuation of a remote start = start_local of the same operation */
/*@BODY on_schedule_complete*/

/* complete_with_done: the continuation queued by start_local (stop before start) and by request_stop_local */
void TM_complete_with_done(struct operation_base* op)
__CPROVER_requires(op == &OP.base && G.on_io_thread && G.role == ROLE_IO && VF_CFG_stop_possible && G.stop_requested && G.completed == 0 && G.done == 0 && !G.dead && !G.in_heap && !G.queued \
                   && G.cb_state != CB_CONSTRUCTED)
__CPROVER_assigns(OP, G.completed, G.done, G.dead, G.snap)
__CPROVER_ensures(G.completed == 1 && G.done == 1)
__CPROVER_ensures(G.dead && OP_UNTOUCHED)
/*@BODY complete_with_done*/

/* maybe_complete_with_value: the timer was found due and is at the front of the ready queue: destroy the callback first,
 * then done if stop has been requested meanwhile, else value */
void TM_maybe_complete_with_value(struct operation_base* op)
__CPROVER_requires(op == &OP.base && G.on_io_thread && G.role == ROLE_IO && G.completed == 0 && G.value == 0 && G.exc_error == 0 && G.done == 0 && !G.dead && G.polls == 0 && !G.stop_seen \
                   && !G.in_heap && G.due_reached && !G.queued && G.cb_state == (VF_CFG_stop_possible ? CB_CONSTRUCTED : CB_NONE) && G.cancellable == VF_CFG_stop_possible \
                   && STATE_OK && G.elapsed_adds == (G.cancellable ? 1 : 0) && !CANCELLED(G.e_old) && G.sched_remote == 0 && !G.cb_fired_locally && (G.stop_requested ==> VF_CFG_stop_possible) \
                   && (G.cancel_adds == 1 ==> G.stop_requested))
__CPROVER_assigns(OP, G)
__CPROVER_ensures(G.completed == 1) /* exactly one completion */
__CPROVER_ensures(VF_CFG_stop_possible ==> (G.polls == 1 && (G.done == 1) == G.stop_seen && G.cb_state == CB_DESTRUCTED)) /* C07-3: done iff a stop request was observed */
__CPROVER_ensures(!VF_CFG_stop_possible ==> (G.value == 1 || (!VF_CFG_nothrow && G.exc_error == 1)))
__CPROVER_ensures(G.sched_remote == 0 && G.sched_local == __CPROVER_old(G.sched_local)) /* a remote cancellation that comes now has lost: it schedules nothing */
__CPROVER_ensures(G.dead && OP_UNTOUCHED)
/*@BODY maybe_complete_with_value*/

/* remove_timer_from_queue_and_complete_with_done: continuation scheduled by a winning remote cancellation.  C07-4: removes the
 * timer from the heap iff it has not elapsed (has not been popped), then done */
#define IN_HEAP_IFF_NOT_ELAPSED IFF(G.in_heap, !ELAPSED(OP.state_))
void TM_remove_timer_from_queue_and_complete_with_done(struct operation_base* op)
__CPROVER_requires(op == &OP.base && G.on_io_thread && G.role == ROLE_IO && VF_CFG_stop_possible && G.cancellable && G.stop_requested && G.completed == 0 && G.done == 0 && !G.dead \
                   && !G.queued && G.cb_state == CB_CONSTRUCTED && STATE_OK && CANCEL_WON && IN_HEAP_IFF_NOT_ELAPSED && HEAP_OK && G.removes == 0 && OP.context_ == &S)
__CPROVER_assigns(OP, G, S.timersAreDirty_, T1.dueTime_)
__CPROVER_ensures(G.completed == 1 && G.done == 1)
__CPROVER_ensures(G.removes == (__CPROVER_old(G.in_heap) ? 1 : 0) && !G.in_heap) /* removed iff it had not elapsed */
__CPROVER_ensures(G.cb_state == CB_DESTRUCTED)
__CPROVER_ensures(G.dead && OP_UNTOUCHED)
/*@BODY remove_timer_and_done*/

/* the timer as the stop callback can find it: started, callback constructed, not yet completed; cancellable timers satisfy
 * "in the heap <=> not elapsed"; an elapsed timer that won sits in the ready queue with maybe_complete_with_value */
#define STARTED (VF_CFG_stop_possible && G.cancellable && OP.canBeCancelled_ && G.cb_state == CB_CONSTRUCTED && G.stop_requested && G.completed == 0 && !G.dead && STATE_OK && IN_HEAP_IFF_NOT_ELAPSED \
                 && HEAP_OK && OP.context_ == &S && G.cancel_adds == 0 && G.sched_remote == 0 && G.removes == 0 \
                 && (G.in_heap ? (!G.queued && G.sched_local == 0) : (G.queued && G.due_reached)) && OP.base.execute_ == &TM_maybe_complete_with_value)

/* request_stop_local (stop callback on the I/O thread): no election needed.  Not elapsed: removed from the heap, done queued.
 * Elapsed: already in the ready queue: its continuation becomes complete_with_done.  Either way exactly one queue entry, and it delivers done */
void TM_request_stop_local(struct timer_op* self)
__CPROVER_requires(self == &OP && G.on_io_thread && STARTED && G.sched_local == 0)
__CPROVER_assigns(OP.base, G.queued, G.cb_state, G.in_heap, G.top, G.removes, G.sched_local, G.sched_item, G.sched_fn, S.timersAreDirty_, T1.dueTime_, G.stop_requested)
__CPROVER_ensures(G.cb_state == CB_DESTRUCTED) /* C04-1: the callback is destroyed before anything is completed */
__CPROVER_ensures(OP.base.execute_ == &TM_complete_with_done && G.queued) /* exactly one queue entry, delivering done */
__CPROVER_ensures(__CPROVER_old(G.in_heap) ? (G.removes == 1 && !G.in_heap && G.sched_local == 1 && G.sched_fn == &TM_complete_with_done) : (G.removes == 0 && G.sched_local == 0)) /* C07-3/4: removed from the heap iff not elapsed */
__CPROVER_ensures(G.cancel_adds == 0 && OP.state_ == __CPROVER_old(OP.state_))
/*@BODY request_stop_local*/

/* request_stop_remote (stop callback on another thread): ONE election step; if the timer had not elapsed the canceller
 * schedules remove_timer_from_queue_and_complete_with_done; otherwise the timer side already owns the completion */
void TM_request_stop_remote(struct timer_op* self)
__CPROVER_requires(self == &OP && !G.on_io_thread && G.role == ROLE_CANCEL && STARTED && !G.remote_may_run)
__CPROVER_assigns(OP.state_, OP.base, G.queued, G.c_old, G.cancel_adds, G.e_old, G.elapsed_adds, G.in_heap, G.due_reached, G.sched_remote, G.sched_item, G.sched_fn, G.dead, G.snap)
__CPROVER_ensures(G.cancel_adds == 1 && STATE_OK)
__CPROVER_ensures(CANCEL_WON ==> (G.sched_remote == 1 && G.sched_item == &OP.base && G.sched_fn == &TM_remove_timer_from_queue_and_complete_with_done)) /* C07-4: the canceller schedules the completion iff it did not see the elapsed flag */
__CPROVER_ensures(!CANCEL_WON ==> (G.sched_remote == 0 && OP.base.execute_ == __CPROVER_old(OP.base.execute_))) /* ... otherwise it leaves the operation to the timer side */
__CPROVER_ensures(IN_HEAP_IFF_NOT_ELAPSED && !G.dead)
/*@BODY request_stop_remote*/

/* request_stop: local or remote by thread identity */
void TM_request_stop(struct timer_op* self)
__CPROVER_requires(self == &OP && G.role == ROLE_CANCEL && G.sched_local == 0 && !G.remote_may_run)
__CPROVER_requires(VF_CFG_stop_possible && G.cancellable && OP.canBeCancelled_ && G.cb_state == CB_CONSTRUCTED && G.stop_requested)
__CPROVER_requires(G.completed == 0 && !G.dead && STATE_OK && IN_HEAP_IFF_NOT_ELAPSED)
__CPROVER_requires(HEAP_OK && OP.context_ == &S && G.cancel_adds == 0 && G.sched_remote == 0 && G.removes == 0)
__CPROVER_requires((G.in_heap ? (!G.queued && G.sched_local == 0) : (G.queued && G.due_reached)) && OP.base.execute_ == &TM_maybe_complete_with_value)
__CPROVER_assigns(OP.state_, OP.base, G.queued, G.c_old, G.cancel_adds, G.e_old, G.elapsed_adds, G.in_heap, G.due_reached, G.top, G.removes, G.cb_state, G.sched_local, G.sched_remote, G.sched_item, G.sched_fn, G.dead, G.snap, S.timersAreDirty_, T1.dueTime_, G.stop_requested)
__CPROVER_ensures(G.on_io_thread ==> (G.cancel_adds == 0 && G.cb_state == CB_DESTRUCTED && OP.base.execute_ == &TM_complete_with_done && G.queued && G.sched_remote == 0 \
                   && (__CPROVER_old(G.in_heap) ? (G.removes == 1 && !G.in_heap && G.sched_local == 1 && G.sched_fn == &TM_complete_with_done) : (G.removes == 0 && G.sched_local == 0))))
__CPROVER_ensures(!G.on_io_thread ==> (G.cancel_adds == 1 && STATE_OK && G.cb_state == CB_CONSTRUCTED && G.sched_local == 0 && G.removes == 0 && G.sched_remote == (CANCEL_WON ? 1 : 0) \
                   && (CANCEL_WON ==> G.sched_fn == &TM_remove_timer_from_queue_and_complete_with_done)))
__CPROVER_ensures(!G.dead && G.completed == 0)
/*@BODY request_stop*/

/* ---------------- harnesses ---------------- */
static void h_heap(void) {
  OP.dueTime_ = VF_nondet_i64(); T1.dueTime_ = VF_nondet_i64();
  __CPROVER_assume(OP.dueTime_ > -VF_TIME_BOUND && OP.dueTime_ < VF_TIME_BOUND && T1.dueTime_ > -VF_TIME_BOUND && T1.dueTime_ < VF_TIME_BOUND);
  G.now = VF_nondet_i64(); __CPROVER_assume(G.now > 0 && G.now < VF_TIME_BOUND);   /* CLOCK_MONOTONIC: time since boot, never the zero time_point */
  int k = VF_nondet_int();
  G.top = k == 0 ? NULL : k == 1 ? &T1 : (G.in_heap ? &OP : &T1);
  __CPROVER_assume(HEAP_OK);
}
static void h_fresh(void) {
  G.role = ROLE_IO; G.on_io_thread = 1; G.remote_may_run = 0; G.queued = 0;
  G.in_heap = 0; G.inserts = 0; G.removes = 0; G.pops = 0; G.popped = NULL;
  G.os_armed = VF_nondet_bool(); G.os_due = VF_nondet_i64(); G.submits = 0; G.timer_sqes = 0; G.remove_sqes = 0; S.activeTimerCount_ = VF_nondet_u32(); __CPROVER_assume(S.activeTimerCount_ < 1000);
  G.cb_state = CB_NONE; G.polls = 0; G.stop_seen = 0; G.cb_fired_locally = 0;
  G.e_old = 0; G.c_old = 0; G.elapsed_adds = 0; G.cancel_adds = 0;
  G.sched_local = 0; G.sched_remote = 0; G.sched_item = NULL; G.sched_fn = NULL; G.due_reached = 0;
  G.completed = 0; G.value = 0; G.exc_error = 0; G.done = 0; G.dead = 0;
  VF_CFG_stop_possible = VF_nondet_bool(); VF_CFG_nothrow = VF_nondet_bool();
  G.cancellable = VF_CFG_stop_possible;
  G.stop_requested = VF_CFG_stop_possible ? VF_nondet_bool() : 0;
  timer_op_init(&OP); OP.context_ = &S; OP.canBeCancelled_ = VF_CFG_stop_possible; OP.receiver_ = VF_nondet_int(); OP.stopCallback_ = VF_nondet_int();
  OP.timerNext_ = NULL; OP.timerPrev_ = NULL;
  S.timersAreDirty_ = VF_nondet_bool(); S.currentDueTime_.has = VF_nondet_bool(); S.currentDueTime_.val = VF_nondet_i64();
  h_heap();
}
/* a started, cancellable timer with its callback registered and stop requested: still in the heap, or popped by the I/O thread (which won) */
static void h_started(void) {
  h_fresh(); VF_CFG_stop_possible = 1; G.cancellable = 1; OP.canBeCancelled_ = 1; G.stop_requested = 1; G.cb_state = CB_CONSTRUCTED;
  OP.base.execute_ = &TM_maybe_complete_with_value;
  if (VF_nondet_bool()) { G.in_heap = 1; h_heap(); }
  else { G.in_heap = 0; h_heap(); OP.state_ = TM_timer_elapsed_flag; G.e_old = 0; G.elapsed_adds = 1; G.queued = 1; G.due_reached = 1; }
}
void h_schedule_at_impl(void) { h_fresh(); CTX_schedule_at_impl(&S, &OP); VF_CANARY("after schedule_at_impl"); if (G.top == &OP) { VF_CANARY("a timer can become the earliest"); } else { VF_CANARY("a timer can be inserted behind others"); } }
void h_remove_timer(void) { h_fresh(); G.in_heap = 1; h_heap(); CTX_remove_timer(&S, &OP); VF_CANARY("after remove_timer"); }
void h_update_timers(void) {
  h_fresh(); G.in_heap = VF_nondet_bool(); h_heap(); S.timersAreDirty_ = 1;
  G.os_armed = S.currentDueTime_.has ? 1 : 0; G.os_due = S.currentDueTime_.val;
  __CPROVER_assume(S.currentDueTime_.val > -VF_TIME_BOUND && S.currentDueTime_.val < VF_TIME_BOUND);
  CTX_update_timers(&S);
  VF_CANARY("after update_timers");
  if (!S.timersAreDirty_ && G.top != NULL) { VF_CANARY("the OS timer can be armed for the earliest timer"); }
  if (G.top == NULL) { VF_CANARY("update_timers can end with no timers"); }
  if (G.timer_sqes && G.remove_sqes) { VF_CANARY("the kernel timeout can be replaced by an earlier one"); }
}
void h_try_submit_timer_io(void) {
  h_fresh(); G.os_armed = 0; int64_t due = VF_nondet_i64(); __CPROVER_assume(TIME_IN_RANGE(due));
  _Bool r = CTX_try_submit_timer_io(&S, due);
  VF_CANARY("after try_submit_timer_io");
  if (r) { VF_CANARY("a kernel timeout can be submitted"); } else { VF_CANARY("the ring can be full"); }
}
void h_try_submit_timer_io_cancel(void) { h_fresh(); _Bool r = CTX_try_submit_timer_io_cancel(&S); VF_CANARY("after try_submit_timer_io_cancel"); if (r) { VF_CANARY("a removal can be submitted"); } }
void h_ut_loop0_body(void) {
  struct io_uring_context* self = &S; int64_t now;
  h_fresh(); G.cancellable = VF_CFG_stop_possible; G.in_heap = 1; h_heap(); G.top = &OP; now = G.now;
  OP.base.execute_ = &TM_maybe_complete_with_value;
  G.cb_state = G.cancellable ? CB_CONSTRUCTED : CB_NONE;
  if (G.cancellable && VF_nondet_bool()) { G.stop_requested = 1; env_cancel(); }     /* a remote cancellation may already be pending */
  __CPROVER_assume(HEAP_OK && (/*@LOOPCOND update_timers.loop0.cond*/));
  int r = ut__loop0_body(&S, now);
  VF_CANARY("after one reap iteration");
  if (G.sched_local) { VF_CANARY("the timer side can win"); } else { VF_CANARY("the timer side can lose"); }
}
void h_start_local(void) {
  h_fresh(); TM_start_local(&OP);
  VF_CANARY("after start_local");
  if (G.inserts == 0) { VF_CANARY("start_local can find stop already requested"); }
  if (G.inserts == 1 && G.sched_local == 1) { VF_CANARY("a stop request can arrive between the check and the registration"); }
  if (G.inserts == 1 && G.sched_local + G.sched_remote == 0) { VF_CANARY("start_local can leave the timer pending"); }
}
void h_start_remote(void) { h_fresh(); G.on_io_thread = 0; G.remote_may_run = 1; TM_start_remote(&OP); VF_CANARY("after start_remote"); }
void h_start(void) { h_fresh(); G.on_io_thread = VF_nondet_bool(); G.remote_may_run = !G.on_io_thread; TM_start(&OP); VF_CANARY("after start"); if (G.sched_remote && !CANCEL_WON) { VF_CANARY("start can go through the remote queue"); } }
void h_on_schedule_complete(void) { h_fresh(); TM_on_schedule_complete(&OP.base); VF_CANARY("after on_schedule_complete"); }
void h_complete_with_done(void) {
  h_fresh(); VF_CFG_stop_possible = 1; G.cancellable = 1; G.stop_requested = 1; G.cb_state = VF_nondet_bool() ? CB_NONE : CB_DESTRUCTED;
  TM_complete_with_done(&OP.base); VF_CANARY("after complete_with_done");
}
void h_maybe_complete_with_value(void) {
  h_fresh(); G.due_reached = 1; G.cb_state = VF_CFG_stop_possible ? CB_CONSTRUCTED : CB_NONE;
  if (G.cancellable) { OP.state_ = TM_timer_elapsed_flag; G.e_old = 0; G.elapsed_adds = 1; }
  if (G.cancellable && G.stop_requested && VF_nondet_bool()) { env_cancel(); }    /* a remote cancellation may already have run (and lost) */
  TM_maybe_complete_with_value(&OP.base);
  VF_CANARY("after maybe_complete_with_value");
  if (G.done) { VF_CANARY("a due timer can still complete with done"); }
}
void h_remove_timer_and_done(void) {
  h_started();
  G.queued = 0; G.due_reached = 0;
  if (!G.in_heap) { G.elapsed_adds = 0; OP.state_ = 0; }
  env_cancel();                                                                /* the remote canceller won ... */
  if (VF_nondet_bool() && G.in_heap) { G.role = ROLE_CANCEL; G.on_io_thread = 0; env_elapse(); G.role = ROLE_IO; G.on_io_thread = 1; if (G.top == &OP) { G.top = NULL; } }   /* ... and the timer may have been popped afterwards (and lost) */
  G.queued = 0; OP.base.execute_ = NULL;                              /* dequeued for execution */
  __CPROVER_assume(HEAP_OK);
  TM_remove_timer_from_queue_and_complete_with_done(&OP.base);
  VF_CANARY("after remove_timer_from_queue_and_complete_with_done");
  if (G.removes) { VF_CANARY("the cancelled timer can still be in the heap"); } else { VF_CANARY("the cancelled timer can already have been popped"); }
}
void h_request_stop_local(void) { h_started(); G.role = ROLE_CANCEL; TM_request_stop_local(&OP); VF_CANARY("after request_stop_local"); if (G.removes) { VF_CANARY("a pending timer can be cancelled locally"); } else { VF_CANARY("an elapsed timer can be cancelled locally"); } }
void h_request_stop_remote(void) {
  h_started(); G.role = ROLE_CANCEL; G.on_io_thread = 0;
  TM_request_stop_remote(&OP);
  VF_CANARY("after request_stop_remote");
  if (CANCEL_WON) { VF_CANARY("the remote canceller can win"); } else { VF_CANARY("the remote canceller can lose"); }
}
void h_request_stop(void) { h_started(); G.role = ROLE_CANCEL; G.on_io_thread = VF_nondet_bool(); TM_request_stop(&OP); VF_CANARY("after request_stop"); }

/* ---------------- M4 lemmas over the contracts ---------------- */
void lemma_timer_init(void) {
  h_fresh();
  VF_P(OP.state_ == 0 && STATE_OK, "lemma: a fresh timer's state_ is 0");
  VF_P(!G.queued, "lemma: a fresh operation's queue item is in no queue");
  VF_P(TM_timer_elapsed_flag != 0 && TM_cancel_pending_flag != 0 && (TM_timer_elapsed_flag & TM_cancel_pending_flag) == 0
       && TM_timer_elapsed_flag + TM_cancel_pending_flag == (TM_timer_elapsed_flag | TM_cancel_pending_flag), "lemma: the two flags are distinct bits: one add per side never disturbs the other's bit");
  VF_CANARY("lemma_timer_init reachable");
}
void lemma_timer_election(void) {
  _Bool timer_runs = VF_nondet_bool(), cancel_runs = VF_nondet_bool(), timer_first = VF_nondet_bool();
  uint32_t s = 0; G.elapsed_adds = 0; G.cancel_adds = 0; G.e_old = 0; G.c_old = 0; G.cancellable = 1; G.pops = 0; G.popped = NULL;
  if (timer_runs && timer_first) { G.e_old = s; s += TM_timer_elapsed_flag; G.elapsed_adds = 1; G.pops = 1; G.popped = &OP; }
  if (cancel_runs) { G.c_old = s; s += TM_cancel_pending_flag; G.cancel_adds = 1; }
  if (timer_runs && !timer_first) { G.e_old = s; s += TM_timer_elapsed_flag; G.elapsed_adds = 1; G.pops = 1; G.popped = &OP; }
  OP.state_ = s;
  VF_CANARY("lemma premises satisfiable");
  VF_P(STATE_OK, "lemma: the ghost counters describe the word after any order of the two steps");
  VF_P((timer_runs && cancel_runs) ==> (TIMER_WON != CANCEL_WON), "lemma (C07-4): when the timer elapses and a remote stop arrives, exactly one of them schedules the completion");
  VF_P((timer_runs && !cancel_runs) ==> (TIMER_WON && !CANCEL_WON), "lemma: without a remote stop the timer side schedules the completion");
  VF_P((!timer_runs && cancel_runs) ==> (CANCEL_WON && !TIMER_WON), "lemma: a remote stop before expiry schedules the completion (prompt cancellation: it does not wait for the due time)");
}
/* the environment step used as the rely of the I/O-thread functions is a behaviour of request_stop_remote's contract */
void lemma_timer_env(void) {
  h_started(); G.role = ROLE_CANCEL; G.on_io_thread = 0;
  env_cancel();
  VF_CANARY("lemma premises satisfiable");
  VF_P(G.cancel_adds == 1 && STATE_OK, "lemma: the environment's remote cancellation is one election step");
  VF_P(CANCEL_WON ==> (G.sched_remote == 1 && G.sched_item == &OP.base && G.sched_fn == &TM_remove_timer_from_queue_and_complete_with_done), "lemma: a winning remote canceller schedules remove_timer_from_queue_and_complete_with_done (request_stop_remote's contract)");
  VF_P(!CANCEL_WON ==> (G.sched_remote == 0 && OP.base.execute_ == &TM_maybe_complete_with_value), "lemma: a losing remote canceller leaves the operation alone");
  VF_P(IN_HEAP_IFF_NOT_ELAPSED, "lemma: ... and does not touch the heap");
}
