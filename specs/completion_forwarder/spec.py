H = 'include/unifex/detail/completion_forwarder.hpp'
CLS = r'class completion_forwarder \{'
RCV = r'struct receiver \{'
ctx = dict(cls='cf', members=['inner_', 'started_'],
           pre=[(r'static_assert\([^;]*\);', ''),
                (r'(?s)inner_\.construct_with\(\[&outer\]\(\) noexcept \{\s*return unifex::connect\(\s*schedule\(get_scheduler\(outer\.get_receiver\(\)\)\), receiver\{outer\}\);\s*\}\);', 'EV_connect_schedule(this, outer);'),
                (r'unifex::start\(inner_\.get\(\)\)', 'EV_start_schedule(this)'),
                (r'inner_\.destruct\(\)', 'EV_inner_destruct(this)')])
rcv_ctx = dict(cls='cf_receiver', members=['outer_'],
               pre=[(r'static_assert\([^;]*\);', ''),
                    (r'outer_\.forward_set_value\(\)', 'EV_forward_set_value(outer_)'),
                    (r'unifex::set_error\(\s*std::move\(outer_\.get_receiver\(\)\), std::forward<Error>\(error\)\)', 'EV_set_error(outer_)'),
                    (r'unifex::set_done\(std::move\(outer_\.get_receiver\(\)\)\)', 'EV_set_done(outer_)'),
                    (r'return \{\};', 'return TOKEN_UNSTOPPABLE;'),
                    (r'return get_stop_token\([^;]*\);', 'return TOKEN_OF_FINAL_RECEIVER;')])
SPEC = dict(
    properties=['C15', 'C16'],
    ctx=ctx,
    extracts={
        'started_init': dict(file=H, kind='expr', sig=r'bool started_\{([^}]*)\}', within=CLS),
        'start': dict(file=H, sig=r'void start\(OpState& outer\) noexcept', within=CLS),
        'dtor': dict(file=H, sig=r'~completion_forwarder\(\) noexcept', within=CLS),
        'rcv_set_value': dict(file=H, sig=r'void set_value\(\) noexcept', within=[CLS, RCV], ctx=rcv_ctx),
        'rcv_set_error': dict(file=H, sig=r'void set_error\(Error&& error\) noexcept', within=[CLS, RCV], ctx=rcv_ctx),
        'rcv_set_done': dict(file=H, sig=r'void set_done\(\) noexcept', within=[CLS, RCV], ctx=rcv_ctx),
        'rcv_stop_token': dict(file=H, sig=r'tag_invoke\(tag_t<get_stop_token>, const receiver&\) noexcept', within=[CLS, RCV], ctx=rcv_ctx),
    },
    units=[
        dict(name='start', harness='h_start', enforce='cf_start'),
        dict(name='dtor', harness='h_dtor', enforce='cf_dtor'),
        dict(name='lemma_cf', harness='lemma_cf', mode='lemma'),
    ],
    assumptions=[
        'a scheduler completes schedule() with done only when the stop token it was given is stoppable and stop has been requested (inline_scheduler, the loops and pools of C06); it may complete inline inside start() or later, or fail with an error of its own',
        'the outer operation calls completion_forwarder::start exactly once, after its outcome has been decided (v2 async_mutex resume_ after try_complete, async_pass after the payload transfer): proved in groups mutex_v2 / async_pass as the reschedule event',
        'that the rescheduled completion runs on the scheduler\'s context (thread identity) is not expressed',
    ],
    drops=['connect(schedule(get_scheduler(receiver)), receiver{outer}) -> event stub EV_connect_schedule; the receiver object is a single static', 'query forwarding other than get_stop_token (type-level)', 'payload of set_error'],
)
