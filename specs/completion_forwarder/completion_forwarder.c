/* C15 / C16: detail/completion_forwarder.hpp -- reschedules an ALREADY DECIDED completion (a mutex waiter that owns the
 * lock, an async_pass call whose payload was accepted) onto the final receiver's scheduler.  The decided value must
 * reach the receiver: the schedule operation must not be cancellable by the final receiver's stop token. */
#include <stddef.h>
enum { TOKEN_UNSTOPPABLE, TOKEN_OF_FINAL_RECEIVER };
struct outer_op { int receiver_; };
struct cf { int inner_; _Bool started_; };
struct cf_receiver { struct outer_op* outer_; };
struct vf_ghost {
  _Bool inner_alive; unsigned connects, starts, destructs;
  unsigned fwd_value, set_error, set_done;   /* what finally reaches the outer operation / final receiver */
  _Bool stop_requested;                      /* the final receiver's stop token has fired (any time) */
  _Bool sched_error;                         /* the scheduler fails on its own */
};
static struct vf_ghost G;
#include "vf.h"
static void vf_interfere(void) {}
static struct cf F;
static struct outer_op OUT;
static struct cf_receiver R;

static void EV_forward_set_value(struct outer_op* o) { VF_CANARY("forward_set_value reachable"); VF_P(o == &OUT && G.fwd_value + G.set_error + G.set_done == 0, "the decided completion is delivered exactly once"); G.fwd_value++; }
static void EV_set_error(struct outer_op* o) { VF_P(o == &OUT && G.fwd_value + G.set_error + G.set_done == 0, "the decided completion is delivered exactly once"); G.set_error++; }
static void EV_set_done(struct outer_op* o) { VF_P(o == &OUT && G.fwd_value + G.set_error + G.set_done == 0, "the decided completion is delivered exactly once"); G.set_done++; }

void cf_receiver_set_value(struct cf_receiver* self)
/*@BODY rcv_set_value*/
void cf_receiver_set_error(struct cf_receiver* self, int error)
/*@BODY rcv_set_error*/
void cf_receiver_set_done(struct cf_receiver* self)
/*@BODY rcv_set_done*/
int cf_receiver_get_stop_token(const struct cf_receiver* r)
/*@BODY rcv_stop_token*/

static void EV_connect_schedule(struct cf* self, struct outer_op* outer) {
  VF_P(!G.inner_alive && G.connects == 0, "the schedule operation is connected once, into empty storage");
  R.outer_ = outer; G.inner_alive = 1; G.connects++;
}
/* the schedule operation runs: it sees the token the forwarder's receiver answers get_stop_token with; it may complete
 * inline (here) or later (same calls, later): value, its own error, or done iff that token is stoppable and stop fired */
static void EV_start_schedule(struct cf* self) {
  VF_P(G.inner_alive && G.starts == 0, "the schedule operation is started once, after it was connected");
  VF_P(F.started_, "started_ is set before the schedule operation runs (it may complete and have the forwarder destroyed inside start)");
  G.starts++;
  int tok = cf_receiver_get_stop_token(&R);
  if (G.sched_error) { cf_receiver_set_error(&R, 0); }
  else if (tok != TOKEN_UNSTOPPABLE && G.stop_requested) { cf_receiver_set_done(&R); }
  else { cf_receiver_set_value(&R); }
}
static void EV_inner_destruct(struct cf* self) { VF_P(G.inner_alive, "the schedule operation is destroyed only if it was constructed, once"); G.inner_alive = 0; G.destructs++; }

void cf_start(struct cf* self, struct outer_op* outer)
__CPROVER_requires(self == &F && outer == &OUT && !F.started_ && !G.inner_alive && G.connects == 0 && G.starts == 0 && G.fwd_value + G.set_error + G.set_done == 0)
__CPROVER_assigns(F, R, G)
__CPROVER_ensures(G.connects == 1 && G.starts == 1 && F.started_ && G.inner_alive)
__CPROVER_ensures(G.fwd_value + G.set_error + G.set_done == 1)
__CPROVER_ensures(!G.sched_error ==> (G.fwd_value == 1 && G.set_done == 0)) /* a decided completion is never turned into done by the final receiver's stop token (a waiter that owns the lock gets its value and can unlock) */
/*@BODY start*/

void cf_dtor(struct cf* self)
__CPROVER_requires(self == &F && G.inner_alive == F.started_ && G.destructs == 0)
__CPROVER_assigns(G.inner_alive, G.destructs)
__CPROVER_ensures(!G.inner_alive && G.destructs == (F.started_ ? 1u : 0u)) /* the schedule operation is destroyed exactly once iff it was constructed */
/*@BODY dtor*/

static void h_init(void) {
  F.started_ = /*@EXPR started_init*/; G.inner_alive = 0; G.connects = 0; G.starts = 0; G.destructs = 0; G.fwd_value = 0; G.set_error = 0; G.set_done = 0;
  G.stop_requested = VF_nondet_bool(); G.sched_error = VF_nondet_bool();
}
void h_start(void) { h_init(); cf_start(&F, &OUT); VF_CANARY("after start"); if (G.stop_requested && !G.sched_error) { VF_CANARY("reschedule with stop already requested on the final receiver"); } }
void h_dtor(void) { h_init(); if (VF_nondet_bool()) { F.started_ = 1; G.inner_alive = 1; } cf_dtor(&F); VF_CANARY("after dtor"); }
void lemma_cf(void) { h_init(); VF_P(!F.started_, "lemma: a fresh forwarder has not started (its destructor destroys nothing)"); VF_CANARY("lemma reachable"); }
