CPP = 'source/timed_single_thread_context.cpp'
H = 'include/unifex/timed_single_thread_context.hpp'
TB = r'struct task_base \{'
CTX = r'class timed_single_thread_context \{'
TM = [(r'(?<!struct )\btask_base\*', 'struct task_base*')]
NOW = [(r'clock_t::now\(\)', 'VF_now()')]
ctx = dict(cls='ctx', members=['mutex_', 'cv_', 'head_', 'stop_'], typemap=TM, obj_methods={'execute': 'EV_execute'}, pre=NOW)
cb_ctx = dict(cls='cancel_callback', members=['task_'], typemap=TM, pre=NOW + [(r'task_->context_->enqueue\(task_\)', 'ctx_enqueue(task_->context_, task_)')])
def opx(kind):
    return dict(cls=kind, members=['duration_', 'receiver_', 'cancelCallback_', 'context_'], typemap=TM,
                pre=NOW + [(r'auto& self = \*static_cast<type\*>\((\w)\);', r'struct top* self = (struct top*)\1;'),
                           (r'self\.cancelCallback_\.destruct\(\)', 'EV_cb_destruct(self)'),
                           (r'cancelCallback_\.construct\(get_stop_token\(receiver_\), cancel_callback\{this\}\)', 'EV_cb_construct(this)'),
                           (r'is_stop_never_possible_v<stop_token_type_t<Receiver&>>', 'VF_CFG_stop_never_possible'),
                           (r'get_stop_token\(self\.receiver_\)\.stop_requested\(\)', 'EV_stop_requested(self)'),
                           (r'unifex::set_value\(static_cast<Receiver&&>\(self\.receiver_\)\)', 'EV_set_value(self)'),
                           (r'unifex::set_done\(static_cast<Receiver&&>\(self\.receiver_\)\)', 'EV_set_done(self)'),
                           (r'this->dueTime_', 'this->base.dueTime_'),
                           (r'this->context_->enqueue\(this\)', 'ctx_enqueue(this->base.context_, &this->base)'),
                           (r'(?<![\w>.])context_->enqueue\(this\)', 'ctx_enqueue(this->base.context_, &this->base)')])
AFTER = r'class _after_op<Duration, Receiver>::type final : task_base \{'
AT = r'class _at_op<Receiver>::type final : task_base \{'
SPEC = dict(
    properties=['C07', 'C04', 'C06', 'C01'],
    ctx=ctx,
    extracts={
        'next_init': dict(file=H, kind='expr', sig=r'task_base\* next_\s*(=?[^;]*);', within=TB),
        'prevNextPtr_init': dict(file=H, kind='expr', sig=r'task_base\*\* prevNextPtr_\s*(=?[^;]*);', within=TB),
        'head_init': dict(file=H, kind='expr', sig=r'task_base\* head_ = ([^;]*);', within=CTX),
        'stop_init': dict(file=H, kind='expr', sig=r'bool stop_ = ([^;]*);', within=CTX),
        'enqueue': dict(file=CPP, sig=r'void timed_single_thread_context::enqueue\(task_base\* task\) noexcept', outline={0: 'VF_LOOP0;'}),
        'enqueue_full': dict(file=CPP, sig=r'void timed_single_thread_context::enqueue\(task_base\* task\) noexcept'),
        'run': dict(file=CPP, sig=r'void timed_single_thread_context::run\(\)', outline={0: 'VF_RLOOP;'}),
        'dtor': dict(file=CPP, sig=r'timed_single_thread_context::~timed_single_thread_context\(\)', ctx=dict(ctx, pre=NOW + [(r'thread_\.join\(\);', 'EV_join();')])),
        'cancel_callback': dict(file=CPP, sig=r'void _timed_single_thread_context::cancel_callback::operator\(\)\(\) noexcept', ctx=cb_ctx),
        'after_start': dict(file=H, sig=r'inline void _after_op<Duration, Receiver>::type::start\(\) noexcept', ctx=opx('after')),
        'at_start': dict(file=H, sig=r'inline void _at_op<Receiver>::type::start\(\) noexcept', ctx=opx('at')),
        'after_execute_impl': dict(file=H, sig=r'static void execute_impl\(task_base\* t\) noexcept', within=AFTER, ctx=opx('after')),
        'at_execute_impl': dict(file=H, sig=r'static void execute_impl\(task_base\* p\) noexcept', within=AT, ctx=opx('at')),
    },
    closed_world=[
        dict(file=CPP, members=['head_', 'prevNextPtr_', 'stop_'], allow=[r'(?s)timed_single_thread_context::timed_single_thread_context\(\)\s*:.*?\{\s*\}']),
    ],
    units=[
        dict(name='enqueue', harness='h_enqueue', enforce='ctx_enqueue', defines=['VF_VERIFY_ENQUEUE'], props=['C07']),
        dict(name='enqueue_walk_step', harness='h_enqueue_loop0_body', enforce='enqueue__loop0_body', defines=['VF_VERIFY_ENQUEUE'], props=['C07']),
        dict(name='enqueue_bounded', harness='h_enqueue_bounded', mode='bounded', unwind=6, defines=['VF_VERIFY_ENQUEUE', 'VF_BOUNDED', 'NB=4'], props=['C07'], timeout=600),
        dict(name='enqueue_bounded_thorough', harness='h_enqueue_bounded', mode='bounded', unwind=10, defines=['VF_VERIFY_ENQUEUE', 'VF_BOUNDED', 'NB=8'], props=['C07'], timeout=3000, tier='thorough'),
        dict(name='cancel_callback', harness='h_cancel_callback', enforce='cancel_callback_call', replace=['ctx_enqueue'], props=['C07', 'C01']),
        dict(name='run', harness='h_run', enforce='ctx_run', props=['C07', 'C06', 'C01']),
        dict(name='run_body', harness='h_run_body', enforce='run__loop0_body', props=['C07', 'C06', 'C01']),
        dict(name='dtor', harness='h_dtor', enforce='ctx_dtor', props=['C06']),
        dict(name='after_start', harness='h_after_start', enforce='after_start', replace=['ctx_enqueue', 'cancel_callback_call'], props=['C07', 'C04', 'C01']),
        dict(name='at_start', harness='h_at_start', enforce='at_start', replace=['ctx_enqueue', 'cancel_callback_call'], props=['C07', 'C04', 'C01']),
        dict(name='after_execute_impl', harness='h_after_execute_impl', enforce='after_execute_impl', props=['C07', 'C04', 'C06', 'C01']),
        dict(name='at_execute_impl', harness='h_at_execute_impl', enforce='at_execute_impl', props=['C07', 'C04', 'C06', 'C01']),
        dict(name='lemma_timed_ctx', harness='lemma_timed_ctx', mode='lemma'),
    ],
    assumptions=[
        'std::mutex + std::condition_variable behave as a monitor; wait_until returns at the deadline or when notified (spurious wake-ups allowed); one waiter (the context thread)',
        'steady_clock::time_point is represented by an order-isomorphic int64 scalar; now() is non-decreasing; now() + duration_ does not overflow',
        'M2 meta-argument: the successor of a list member is a member; inserting x between adjacent a <= x < b of a sorted list keeps it sorted with x after every equal element (FIFO ties); cross-checked by the bounded global unit enqueue_bounded (labelled bounded)',
        'the stop callback is invoked at most once per registration (C03); an operation is started at most once; operations outstanding when the context is destroyed are the user\'s responsibility (the destructor asserts an empty queue)',
        'std::thread creation / join is not reached',
    ],
    drops=['std::chrono time_point -> int64 scalar', 'std::unique_lock / lock_guard RAII release made explicit at every exit', 'task->execute() -> event stub EV_execute (may destroy the task)',
           'manual_lifetime construct/destruct of the stop callback -> EV_cb_construct / EV_cb_destruct', 'receiver completion signals, stop-token query -> event stubs; if constexpr -> symbolic config',
           'member default initialisers read from the class body (a member without one is left nondeterministic)'],
)
