/* C07 / C04 / C06: timed_single_thread_context (source/timed_single_thread_context.cpp,
 * include/unifex/timed_single_thread_context.hpp): monitor (mutex_/cv_) over a sorted timer list head_ / next_ /
 * prevNextPtr_ (nullptr == dequeued) and stop_.  time_point is an order-isomorphic int64 (assumption). */
#include <stddef.h>
#include <stdint.h>
struct ctx;
struct task_base { struct ctx* context_; struct task_base* next_; struct task_base** prevNextPtr_; int64_t dueTime_; };
struct top { struct task_base base; int64_t duration_; int receiver_; int cancelCallback_; };
struct cancel_callback { struct task_base* task_; };
enum { CB_NONE, CB_REGISTERED, CB_DESTROYED };
enum { MODE_ENQ, MODE_CANCEL, MODE_RUN, MODE_DTOR };
enum { REL_NONE, REL_UNCHANGED, REL_INSERTED, REL_UNLINKED, REL_POPPED };
struct vf_ghost {
  int mode;
  int64_t now;
  /* protected state as the last acquire found it */
  struct task_base* acq_head; struct task_base* acq_head_next; _Bool acq_stop;
  _Bool t_may_be_queued;    /* the operand has been handed to enqueue() before (a fresh operation cannot be in the list) */
  _Bool t_was_queued; struct task_base** t_link0; struct task_base* t_next0;
  int rel_kind; _Bool rel_stop; unsigned releases;
  unsigned enq_calls; _Bool cur_is_c; struct task_base* cur_next0;
  unsigned exec; struct task_base* exec_task; _Bool dead; struct task_base snap;
  int cb_state; unsigned cb_inline_runs;
  unsigned completed, value, done, polls; _Bool stop_seen;
  unsigned joins;
};
static struct vf_ghost G;
#include "vf.h"
#include "vf_monitor.h"
static void vf_interfere(void) {}

struct ctx { struct vf_mutex mutex_; struct vf_cv cv_; struct task_base* head_; _Bool stop_; };
static struct ctx L;
static struct top OPX;
#define T (OPX.base)
static struct task_base W0, W1, W2, C, N, PN, S;
static struct cancel_callback CBK;
static char vf_opaque_obj;
#define OPAQUE ((struct task_base*)&vf_opaque_obj)
#define OPAQUE_LINK ((struct task_base**)&vf_opaque_obj)
static _Bool VF_CFG_stop_never_possible;
#define TIME_MAX ((int64_t)1 << 62)
#define NOTIFIES (L.cv_.notify_one + L.cv_.notify_all)

static int64_t VF_now(void) { int64_t t = VF_nondet_i64(); __CPROVER_assume(t >= G.now && t < TIME_MAX); G.now = t; return t; }
#define NOT_LINKED_T (L.head_ != &T && W0.next_ != &T && W1.next_ != &T && C.next_ != &T && N.next_ != &T && PN.next_ != &T && S.next_ != &T)
#define HP (G.exec ? &W2 : &W0)     /* the object standing for "whatever task is at the head now": fresh after an execution */

/* ---- acquire: other threads ran (the context thread pops due timers, other threads enqueue / cancel) ---- */
static void list_build(struct task_base* h) {   /* sorted consistent list: empty | [h] | [h, W1, ...] */
  if (VF_nondet_bool()) { L.head_ = NULL; return; }
  L.head_ = h; h->prevNextPtr_ = &L.head_; h->dueTime_ = VF_nondet_i64();
  if (VF_nondet_bool()) { h->next_ = NULL; }
  else { h->next_ = &W1; W1.prevNextPtr_ = &h->next_; W1.next_ = VF_nondet_bool() ? OPAQUE : NULL; W1.dueTime_ = VF_nondet_i64(); __CPROVER_assume(h->dueTime_ <= W1.dueTime_); }
}
static void vf_monitor_enter(struct vf_mutex* m) {
  L.stop_ = G.acq_stop ? 1 : VF_nondet_bool();
  if (G.mode == MODE_CANCEL) {
    /* the operand is still queued (at the head or after some member) or has been dequeued by the context thread / not queued yet */
    G.t_was_queued = G.t_may_be_queued && VF_nondet_bool();
    if (G.t_was_queued) {
      T.next_ = VF_nondet_bool() ? &S : NULL; S.prevNextPtr_ = &T.next_; S.next_ = VF_nondet_bool() ? OPAQUE : NULL; S.dueTime_ = VF_nondet_i64();
      if (VF_nondet_bool()) { L.head_ = &T; T.prevNextPtr_ = &L.head_; }
      else { PN.next_ = &T; T.prevNextPtr_ = &PN.next_; PN.dueTime_ = VF_nondet_i64(); if (VF_nondet_bool()) { L.head_ = &PN; PN.prevNextPtr_ = &L.head_; } else { L.head_ = &W0; W0.prevNextPtr_ = &L.head_; W0.next_ = OPAQUE; PN.prevNextPtr_ = OPAQUE_LINK; } }
    } else { T.prevNextPtr_ = NULL; list_build(&W0); }
    G.t_link0 = T.prevNextPtr_; G.t_next0 = T.next_;
  } else if (G.mode == MODE_DTOR) {
    L.stop_ = 0;      /* only the destructor ever sets stop_ (closed-world scan) */
    L.head_ = NULL;   /* operations outstanding at destruction are the user's responsibility (the destructor asserts it) */
  } else {
    list_build(HP);
  }
  G.acq_head = L.head_; G.acq_head_next = (L.head_ != NULL) ? L.head_->next_ : NULL; G.acq_stop = L.stop_;
}

#define SUCC_OK(x) (T.next_ == &(x) && (x).prevNextPtr_ == &T.next_ && T.dueTime_ < (x).dueTime_)
#define ENQ_HEAD(h0) (L.head_ == &T && T.prevNextPtr_ == &L.head_ && T.next_ == (h0) && ((h0) == NULL || SUCC_OK(W0) || SUCC_OK(W2) || SUCC_OK(S) || SUCC_OK(PN)))
#define AFTER_NODE(x) ((x).next_ == &T && T.prevNextPtr_ == &(x).next_ && (x).dueTime_ <= T.dueTime_)
#define ENQ_AFTER(h0) (L.head_ == (h0) && (h0) != NULL && (G.cur_is_c ? AFTER_NODE(C) : AFTER_NODE(W0)) && T.next_ == G.cur_next0 && (T.next_ == NULL || SUCC_OK(N)))
#define HEAD_SAME (L.head_ == G.acq_head && (G.acq_head == NULL || (G.acq_head->next_ == G.acq_head_next && G.acq_head->prevNextPtr_ == &L.head_)))
static void vf_monitor_exit(struct vf_mutex* m) {
  VF_P(!G.acq_stop || L.stop_, "stop_ never reverts");
  G.releases++; G.rel_stop = L.stop_;
  if (G.mode == MODE_ENQ) {
    VF_P(ENQ_HEAD(G.acq_head) || ENQ_AFTER(G.acq_head), "monitor invariant at release (enqueue): the task is linked exactly once, in due-time order behind every task with an equal or earlier due time, all back pointers consistent");
    VF_P(L.head_ != &T || NOTIFIES >= 1, "a task that becomes the new earliest deadline wakes the context thread before the lock is released");
    G.rel_kind = REL_INSERTED;
  } else if (G.mode == MODE_CANCEL) {
    _Bool unchanged = T.prevNextPtr_ == G.t_link0 && T.next_ == G.t_next0 && L.head_ == G.acq_head;
    _Bool unlinked = G.t_was_queued && T.prevNextPtr_ == NULL && *G.t_link0 == G.t_next0 && (G.t_next0 == NULL || S.prevNextPtr_ == G.t_link0);
    VF_P(unchanged || unlinked, "monitor invariant at release (cancel): the task is untouched, or unlinked with both neighbours re-linked and marked dequeued");
    G.rel_kind = unlinked ? REL_UNLINKED : REL_UNCHANGED;
  } else if (G.mode == MODE_RUN) {
    _Bool popped = G.acq_head != NULL && L.head_ == G.acq_head_next && (L.head_ == NULL || (L.head_ == &W1 && W1.prevNextPtr_ == &L.head_)) && G.acq_head->prevNextPtr_ == NULL;
    VF_P(HEAD_SAME || popped, "monitor invariant at release (run): the list is untouched, or has lost exactly its head (new head points back at head_, popped task marked dequeued)");
    G.rel_kind = HEAD_SAME ? REL_UNCHANGED : REL_POPPED;
  } else {
    VF_P(HEAD_SAME, "monitor invariant at release (destructor): list untouched");
    G.rel_kind = REL_UNCHANGED;
  }
}
static void vf_cv_wait_check(struct vf_cv* cv, struct vf_mutex* m) {
  VF_CANARY("cv_.wait reachable");
  VF_P(L.head_ == NULL && !L.stop_ && HEAD_SAME, "the context thread blocks without deadline only while no timer is queued and stop was not requested, checked under the lock");
}
static void vf_cv_wait_until_check(struct vf_cv* cv, struct vf_mutex* m, int64_t deadline) {
  VF_CANARY("cv_.wait_until reachable");
  VF_P(!L.stop_ && L.head_ != NULL && HEAD_SAME && deadline == L.head_->dueTime_ && deadline > G.now - 0 - (G.now - G.now), "the context thread sleeps only until the earliest queued deadline, and only while that deadline is still in the future");
}

/* ---------------- enqueue ---------------- */
#ifdef VF_VERIFY_ENQUEUE
static void enqueue__loop0(struct ctx* self, struct task_base* task, struct task_base** queuedTask_p) {
  VF_P(*queuedTask_p == &W0 && L.head_ == &W0 && W0.dueTime_ <= T.dueTime_ && L.mutex_.held, "cut point (insertion walk head): the walk starts at the head, whose due time is not later than the new task's, under the lock");
  struct task_base* cur;
  if (VF_nondet_bool()) { G.cur_is_c = 0; cur = &W0; }
  else { G.cur_is_c = 1; cur = &C; C.dueTime_ = VF_nondet_i64(); C.prevNextPtr_ = OPAQUE_LINK; __CPROVER_assume(W0.dueTime_ <= C.dueTime_ && C.dueTime_ <= T.dueTime_); }
  cur->next_ = VF_nondet_bool() ? &N : NULL;
  N.prevNextPtr_ = &cur->next_; N.next_ = VF_nondet_bool() ? OPAQUE : NULL; N.dueTime_ = VF_nondet_i64();
  __CPROVER_assume(cur->dueTime_ <= N.dueTime_);
  *queuedTask_p = cur;
  G.cur_next0 = cur->next_;
  if (!G.cur_is_c) G.acq_head_next = W0.next_;
  struct task_base* queuedTask = *queuedTask_p;
  __CPROVER_assume(!(/*@LOOPCOND enqueue.loop0.cond*/));
}
#define VF_LOOP0 enqueue__loop0(self, task, &queuedTask)
#endif

void ctx_enqueue(struct ctx* self, struct task_base* task)
__CPROVER_requires(NOT_LINKED_T && T.prevNextPtr_ == NULL) /*P*/ /* a task is never linked into the timer list twice */
__CPROVER_requires(self == &L && task == &T && !L.mutex_.held && G.enq_calls < 1000)
__CPROVER_assigns(L, OPX.base.next_, OPX.base.prevNextPtr_, W0, W1, W2, C, N, PN, S, G.mode, G.acq_head, G.acq_head_next, G.acq_stop, G.rel_kind, G.rel_stop, G.releases, G.cur_is_c, G.cur_next0, G.enq_calls)
__CPROVER_ensures(!L.mutex_.held && G.rel_kind == REL_INSERTED) /* linked exactly once, in order (checked at the release), lock released */
__CPROVER_ensures(G.enq_calls == __CPROVER_old(G.enq_calls) + 1 && T.dueTime_ == __CPROVER_old(T.dueTime_) && T.prevNextPtr_ != NULL)
#ifdef VF_VERIFY_ENQUEUE
{
  G.enq_calls++; G.mode = MODE_ENQ;
  {
/*@BODY enqueue*/
  }
}

int enqueue__loop0_body(struct ctx* self, struct task_base* task, struct task_base** queuedTask_p)
__CPROVER_requires(self == &L && task == &T && *queuedTask_p == &C && C.next_ == &N && C.dueTime_ <= T.dueTime_ && N.dueTime_ <= T.dueTime_)
__CPROVER_assigns(*queuedTask_p)
__CPROVER_ensures(__CPROVER_return_value == VF_X_CONTINUE)
__CPROVER_ensures(*queuedTask_p == &N && N.dueTime_ <= T.dueTime_)
{
#define queuedTask (*queuedTask_p)
/*@LOOPBODY enqueue.loop0.body*/
#undef queuedTask
}
#ifdef VF_BOUNDED
/* bounded stand-in: the lock is a no-op, the list is concrete */
#undef VF_ACQUIRE
#undef VF_SCOPE_EXIT
#define VF_ACQUIRE(m) ((void)0)
#define VF_SCOPE_EXIT(m) ((void)0)
void ctx_enqueue_full(struct ctx* self, struct task_base* task)
/*@BODY enqueue_full*/
#endif
#else
;
#endif

/* ---------------- cancel callback ---------------- */
void cancel_callback_call(struct cancel_callback* self)
__CPROVER_requires(self == &CBK && CBK.task_ == &T && T.context_ == &L && !L.mutex_.held && G.enq_calls == 0 && G.releases == 0 && G.now >= 0 && G.now < TIME_MAX)
__CPROVER_assigns(L, OPX.base.dueTime_, OPX.base.next_, OPX.base.prevNextPtr_, W0, W1, W2, G.mode, G.now, G.acq_head, G.acq_head_next, G.acq_stop, G.t_was_queued, G.t_link0, G.t_next0, G.rel_kind, G.rel_stop, G.releases;
                  G.t_may_be_queued: C, N, PN, S, G.cur_is_c, G.cur_next0, G.enq_calls)
__CPROVER_ensures(!L.mutex_.held && G.now >= __CPROVER_old(G.now) && G.now < TIME_MAX)
__CPROVER_ensures(!G.t_may_be_queued ==> (!G.t_was_queued && T.prevNextPtr_ == NULL && NOT_LINKED_T && G.enq_calls == __CPROVER_old(G.enq_calls))) /* a task that was never queued is not touched apart from its due time */
__CPROVER_ensures(T.dueTime_ <= __CPROVER_old(T.dueTime_) && T.dueTime_ <= G.now) /* after a stop request the task is due at once */
__CPROVER_ensures((G.t_was_queued && T.dueTime_ < __CPROVER_old(T.dueTime_)) ==> G.enq_calls == 1) /* a queued task is moved: unlinked under the lock, re-queued exactly once */
__CPROVER_ensures((!G.t_was_queued || T.dueTime_ == __CPROVER_old(T.dueTime_)) ==> (G.enq_calls == 0 && G.rel_kind == REL_UNCHANGED))
{
  G.mode = MODE_CANCEL;
  {
/*@BODY cancel_callback*/
  }
}

/* ---------------- run ---------------- */
static void EV_execute(struct task_base* t) {
  VF_CANARY("timer execution reachable");
  VF_P(!L.mutex_.held, "tasks are executed outside the lock");
  VF_P(G.rel_kind == REL_POPPED && t == G.acq_head, "the task executed is the one popped from the head of the sorted list (earliest deadline first)");
  VF_P(G.acq_head->dueTime_ <= G.now, "a timer never fires before its due time according to the context's clock");
  VF_P(G.exec == 0, "a dequeued task is executed exactly once");
  G.exec_task = t; G.exec++;
  struct task_base f; t->next_ = f.next_; t->prevNextPtr_ = f.prevNextPtr_; t->dueTime_ = f.dueTime_; G.dead = 1; G.snap = *t;
}
#define RUN_INV (L.mutex_.held && HEAD_SAME && L.stop_ == G.acq_stop && G.mode == MODE_RUN)
static void run__loop0(struct ctx* self) {
  VF_P(RUN_INV, "cut point (run loop head): lock held, timer list consistent");
  vf_monitor_enter(&L.mutex_);
  __CPROVER_assume(RUN_INV && !(/*@LOOPCOND run.loop0.cond*/));
}
#define VF_RLOOP run__loop0(self)

void ctx_run(struct ctx* self)
__CPROVER_requires(self == &L && !L.mutex_.held && G.now >= 0 && G.now < TIME_MAX && G.exec == 0 && G.mode == MODE_RUN)
__CPROVER_assigns(L, W0, W1, W2, G)
__CPROVER_ensures(!L.mutex_.held && G.rel_stop) /* the context thread leaves only after observing stop_ under the lock */
/*@BODY run*/

int run__loop0_body(struct ctx* self)
__CPROVER_requires(self == &L && RUN_INV && (/*@LOOPCOND run.loop0.cond*/) && G.now >= 0 && G.now < TIME_MAX && G.exec == 0 && !G.dead)
__CPROVER_assigns(L, W0, W1, W2, G)
__CPROVER_ensures(__CPROVER_return_value == VF_X_CONTINUE && RUN_INV)
__CPROVER_ensures(G.exec <= 1 && (G.exec == 1 ==> G.exec_task == &W0))
__CPROVER_ensures(!G.dead || (W0.next_ == G.snap.next_ && W0.prevNextPtr_ == G.snap.prevNextPtr_ && W0.dueTime_ == G.snap.dueTime_)) /* the executed task may be gone: never touched afterwards */
/*@LOOPBODY run.loop0.body*/

static void EV_join(void) { VF_P(!L.mutex_.held, "the destructor does not join while holding the lock"); VF_P(G.rel_stop && NOTIFIES >= 1, "the context thread is told to stop and woken before it is joined"); G.joins++; }
void ctx_dtor(struct ctx* self)
__CPROVER_requires(self == &L && !L.mutex_.held && G.mode == MODE_DTOR)
__CPROVER_assigns(L, W0, W1, W2, G)
__CPROVER_ensures(G.joins == 1 && !L.mutex_.held)
/*@BODY dtor*/

/* ---------------- operations ---------------- */
static void EV_cb_construct(struct top* self) {
  VF_P(G.cb_state == CB_NONE, "the stop callback is registered once");
  G.cb_state = CB_REGISTERED;
  if (VF_nondet_bool()) { G.cb_inline_runs++; CBK.task_ = &T; cancel_callback_call(&CBK); }
}
static void EV_cb_destruct(struct top* self) { VF_P(G.cb_state == CB_REGISTERED, "the stop callback is deregistered exactly once"); VF_P(G.completed == 0, "deregistration happens before the receiver is completed"); G.cb_state = CB_DESTROYED; }
static _Bool EV_stop_requested(struct top* self) { G.polls++; _Bool r = VF_nondet_bool(); if (r) G.stop_seen = 1; return r; }
static void EV_set_value(struct top* self) { VF_CANARY("set_value reachable"); VF_P(G.completed == 0, "exactly one completion signal"); VF_P(G.cb_state == CB_DESTROYED, "the stop callback is deregistered before the receiver is completed"); VF_P(!G.stop_seen, "done instead of value when stop was requested"); G.completed++; G.value++; }
static void EV_set_done(struct top* self) { VF_CANARY("set_done reachable"); VF_P(G.completed == 0, "exactly one completion signal"); VF_P(G.cb_state == CB_DESTROYED, "the stop callback is deregistered before the receiver is completed"); VF_P(G.stop_seen, "done only when a stop request was observed"); G.completed++; G.done++; }

#define START_REQ(self) ((self) == &OPX && T.context_ == &L && NOT_LINKED_T && !L.mutex_.held && G.enq_calls == 0 && G.releases == 0 && G.cb_state == CB_NONE && G.now >= 0 && G.now < TIME_MAX && G.completed == 0 && !G.t_may_be_queued)
#define START_ASSIGNS L, OPX.base.dueTime_, OPX.base.next_, OPX.base.prevNextPtr_, W0, W1, W2, C, N, PN, S, G.mode, G.now, G.acq_head, G.acq_head_next, G.acq_stop, G.t_was_queued, G.t_link0, G.t_next0, G.rel_kind, G.rel_stop, G.releases, G.cur_is_c, G.cur_next0, G.enq_calls, G.cb_state, G.cb_inline_runs, CBK.task_
void after_start(struct top* self)
__CPROVER_requires(START_REQ(self) && OPX.duration_ > -TIME_MAX && OPX.duration_ < TIME_MAX)
__CPROVER_assigns(START_ASSIGNS)
__CPROVER_ensures(G.enq_calls == 1 && G.cb_state == CB_REGISTERED && G.completed == 0) /* queued exactly once, whether or not the stop callback ran during its registration; start() completes nothing */
__CPROVER_ensures(T.dueTime_ <= G.now + OPX.duration_)
__CPROVER_ensures(G.cb_inline_runs > 0 ==> T.dueTime_ <= G.now) /* C07: stop already requested when start() registers the callback: the task is queued as due at once */
/*@BODY after_start*/
void at_start(struct top* self)
__CPROVER_requires(START_REQ(self))
__CPROVER_assigns(START_ASSIGNS)
__CPROVER_ensures(G.enq_calls == 1 && G.cb_state == CB_REGISTERED && G.completed == 0)
__CPROVER_ensures(T.dueTime_ <= __CPROVER_old(T.dueTime_))
__CPROVER_ensures(G.cb_inline_runs > 0 ==> T.dueTime_ <= G.now) /* C07: same for schedule_at */
/*@BODY at_start*/

#define EXEC_REQ (G.completed == 0 && G.value == 0 && G.done == 0 && G.polls == 0 && !G.stop_seen && G.cb_state == CB_REGISTERED)
#define EXEC_ENS (G.completed == 1 && G.cb_state == CB_DESTROYED && (VF_CFG_stop_never_possible ? G.value == 1 : (G.polls == 1 && (G.done == 1) == G.stop_seen)))
void after_execute_impl(struct task_base* t)
__CPROVER_requires(t == &OPX.base && EXEC_REQ)
__CPROVER_assigns(G.completed, G.value, G.done, G.polls, G.stop_seen, G.cb_state)
__CPROVER_ensures(EXEC_ENS)
/*@BODY after_execute_impl*/
void at_execute_impl(struct task_base* p)
__CPROVER_requires(p == &OPX.base && EXEC_REQ)
__CPROVER_assigns(G.completed, G.value, G.done, G.polls, G.stop_seen, G.cb_state)
__CPROVER_ensures(EXEC_ENS)
/*@BODY at_execute_impl*/

/* ---------------- harnesses ---------------- */
static void h_init(int mode) {
  G.mode = mode; G.now = VF_nondet_i64(); __CPROVER_assume(G.now >= 0 && G.now < TIME_MAX);
  G.acq_stop = VF_nondet_bool(); G.rel_kind = REL_NONE; G.rel_stop = 0; G.releases = 0; G.enq_calls = 0; G.cur_is_c = 0; G.cur_next0 = NULL;
  G.exec = 0; G.exec_task = NULL; G.dead = 0; G.cb_state = CB_NONE; G.cb_inline_runs = 0; G.joins = 0; G.t_was_queued = 0; G.t_may_be_queued = 0;
  G.completed = 0; G.value = 0; G.done = 0; G.polls = 0; G.stop_seen = 0;
  L.mutex_.held = 0; L.mutex_.acquired = 0; L.mutex_.released = 0; L.cv_.notify_one = 0; L.cv_.notify_all = 0; L.cv_.waits = 0;
  L.head_ = /*@EXPR head_init*/; L.stop_ = /*@EXPR stop_init*/;
  { struct task_base* vf_n /*@EXPR next_init*/; struct task_base** vf_p /*@EXPR prevNextPtr_init*/; T.next_ = vf_n; T.prevNextPtr_ = vf_p; }
  T.context_ = &L; T.dueTime_ = VF_nondet_i64(); __CPROVER_assume(T.dueTime_ > -TIME_MAX && T.dueTime_ < TIME_MAX);
  OPX.duration_ = VF_nondet_i64();
  W0.next_ = NULL; W1.next_ = NULL; W2.next_ = NULL; C.next_ = NULL; N.next_ = NULL; PN.next_ = NULL; S.next_ = NULL;
  W0.prevNextPtr_ = NULL; W1.prevNextPtr_ = NULL; W2.prevNextPtr_ = NULL; C.prevNextPtr_ = NULL; N.prevNextPtr_ = NULL; PN.prevNextPtr_ = OPAQUE_LINK; S.prevNextPtr_ = NULL;
}
#ifdef VF_VERIFY_ENQUEUE
void h_enqueue(void) { h_init(MODE_ENQ); ctx_enqueue(&L, &T); VF_CANARY("after enqueue"); if (L.head_ == &T) { VF_CANARY("enqueue at the head"); } else { VF_CANARY("enqueue after a member"); } }
void h_enqueue_loop0_body(void) { h_init(MODE_ENQ); struct task_base* cur = &C; C.next_ = &N; C.dueTime_ = VF_nondet_i64(); N.dueTime_ = VF_nondet_i64(); N.next_ = VF_nondet_bool() ? OPAQUE : NULL;
  __CPROVER_assume(C.dueTime_ <= T.dueTime_ && N.dueTime_ <= T.dueTime_); enqueue__loop0_body(&L, &T, &cur); VF_CANARY("after walk step"); }
#ifdef VF_BOUNDED
#ifndef NB
#define NB 4
#endif
static struct task_base P[NB];
static unsigned vf_n;
void h_enqueue_bounded(void) {
  h_init(MODE_ENQ);
  unsigned n = VF_nondet_u32(); __CPROVER_assume(n <= NB);
  L.head_ = n ? &P[0] : NULL;
  for (unsigned i = 0; i < NB; i++) {
    if (i < n) { P[i].dueTime_ = VF_nondet_i64(); P[i].next_ = (i + 1 < n) ? &P[i + 1] : NULL; P[i].prevNextPtr_ = i ? &P[i - 1].next_ : &L.head_; if (i) __CPROVER_assume(P[i - 1].dueTime_ <= P[i].dueTime_); }
  }
  ctx_enqueue_full(&L, &T);
  struct task_base* it = L.head_; struct task_base** link = &L.head_; unsigned k = 0, seen_t = 0, idx = 0; _Bool ok = 1;
  while (it != NULL && k <= NB + 1) {
    ok = ok && (it->prevNextPtr_ == link);
    if (it == &T) { seen_t++; ok = ok && (idx == n || T.dueTime_ < P[idx].dueTime_) && (idx == 0 || P[idx - 1].dueTime_ <= T.dueTime_); }
    else { ok = ok && (idx < n && it == &P[idx]); idx++; }
    link = &it->next_; it = it->next_; k++;
  }
  VF_P(ok && seen_t == 1 && idx == n && it == NULL && k == n + 1, "bounded global check: after enqueue the list is the old list with the new task inserted once, sorted, behind all equal due times, all back pointers consistent");
  VF_P((L.head_ == &T) ==> (NOTIFIES >= 1), "bounded global check: a new earliest deadline wakes the context thread");
  VF_CANARY("after bounded enqueue");
}
#endif
#endif
#ifndef VF_VERIFY_ENQUEUE
void h_cancel_callback(void) { h_init(MODE_CANCEL); G.t_may_be_queued = VF_nondet_bool(); if (G.t_may_be_queued) { T.prevNextPtr_ = NULL; } CBK.task_ = &T; cancel_callback_call(&CBK); VF_CANARY("after cancel callback"); if (G.t_was_queued && G.enq_calls) { VF_CANARY("cancel of a queued timer re-queues it"); } if (!G.t_was_queued) { VF_CANARY("cancel of a timer that is not queued"); } }
void h_run(void) { h_init(MODE_RUN); ctx_run(&L); VF_CANARY("after run"); }
void h_run_body(void) { h_init(MODE_RUN); L.mutex_.held = 1; vf_monitor_enter(&L.mutex_); __CPROVER_assume(!L.stop_); run__loop0_body(&L); VF_CANARY("after run loop body"); if (G.exec) { VF_CANARY("run loop body can execute a timer"); } }
void h_dtor(void) { h_init(MODE_DTOR); ctx_dtor(&L); VF_CANARY("after destructor"); }
void h_after_start(void) { h_init(MODE_ENQ); after_start(&OPX); VF_CANARY("after _after_op::start"); if (G.cb_inline_runs) { VF_CANARY("start with an already stopped token"); } }
void h_at_start(void) { h_init(MODE_ENQ); at_start(&OPX); VF_CANARY("after _at_op::start"); if (G.cb_inline_runs) { VF_CANARY("start with an already stopped token"); } }
void h_after_execute_impl(void) { h_init(MODE_RUN); G.cb_state = CB_REGISTERED; VF_CFG_stop_never_possible = VF_nondet_bool(); after_execute_impl(&OPX.base); VF_CANARY("after execute_impl"); }
void h_at_execute_impl(void) { h_init(MODE_RUN); G.cb_state = CB_REGISTERED; VF_CFG_stop_never_possible = VF_nondet_bool(); at_execute_impl(&OPX.base); VF_CANARY("after execute_impl"); }
void lemma_timed_ctx(void) {
  h_init(MODE_RUN);
  VF_P(L.head_ == NULL && !L.stop_, "lemma: a fresh context has no timers and stop not requested");
  VF_P(T.prevNextPtr_ == NULL && T.next_ == NULL, "lemma: a freshly constructed task is marked not-queued (its links are initialised)");
  VF_CANARY("lemma reachable");
}
#endif
