H = 'include/unifex/canary.hpp'
CANARY = r'class canary \{'
GUARD = r'class guard \{'
WATCHER = r'class watcher \{'

# names / types shared by every extract.  The two tagged pointers are uintptr_t words in the C text (the lock bit is
# part of the word); `this` used as a value becomes the word VF_THIS = (uintptr_t)self.
PRE = [
    (r'(?<![\w.>])_lock\(', 'canary_lock('),
    (r'(?<![\w.>])_unlock\(', 'canary_unlock('),
    (r'(?<![\w.>])_is_locked\(', 'canary_is_locked('),
    (r'\b(?:canary|watcher)\s*\*\s*expected\b', 'uintptr_t expected'),
    (r'\bauto old\b', 'uint8_t old'),
    (r'(?<![\w.>])guard\{([^{}]*)\}', r'guard_ctor(\1)'),
    (r'return watcher\{\*this\};', 'watcher_ctor(vf_ret, self); return;'),
    (r'\bthis\b(?!\s*->)', 'VF_THIS'),
]
# instrumentation only (no statement is changed): an access through the peer pointer asserts that it is the peer and that the
# peer's destructor cannot have returned; the loads a party waits on are tagged (own word / state byte)
POST = [
    (r'\bNULL\b', '0'),
    (r'\bw->', 'VF_W(w)->'),
    (r'\bc->', 'VF_C(c)->'),
    (r'VF_LOAD\(&\(self->watcher_\)', 'VF_LOAD_OWN(&(self->watcher_)'),
    (r'VF_LOAD\(&\(self->canary_\)', 'VF_LOAD_OWN(&(self->canary_)'),
    (r'VF_LOAD\(&\(VF_W\(w\)->state_\)', 'VF_LOAD_ST(&(VF_W(w)->state_)'),
]
TYPEMAP = [(r'\bT\s*\*', 'uintptr_t')]
ATOMIC = ['watcher_', 'canary_', 'state_']

ctx = dict(cls='canary', members=['watcher_'], methods=[], atomic=ATOMIC, pre=PRE, post=POST, typemap=TYPEMAP)
w_ctx = dict(cls='watcher', members=['canary_', 'state_'])
g_ctx = dict(cls='guard', members=['state_'], pre=[(r'\bother\.', 'other->')])
wctor_ctx = dict(cls='watcher', members=['canary_', 'state_'], pre=[(r'&c\b', 'c'), (r'\bc\.', 'c->')], post=[(r'\bVF_C\(c\)->', 'c->')])

# every interference point writes the peer's words, the peer's ghosts and (dead-object havoc) the peer object
C_LOOP = '__CPROVER_assigns(C.watcher_, W, G.wp, G.gh, G.st_fin, G.w_snap)\n'
W_LOOP0 = '__CPROVER_assigns(C, W.canary_, W.state_, G.cp, G.c_snap)\n'
W_LOOP1 = '__CPROVER_assigns(expected, C, W.canary_, W.state_, G.cp, G.c_snap, G.wp, G.clr, G.c_writes)\n'

SPEC = dict(
    properties=['C19', 'C02'],
    ctx=ctx,
    extracts={
        'alive': dict(file=H, kind='expr', sig=r'static constexpr uint8_t _alive = ([^;]*);'),
        'guarded': dict(file=H, kind='expr', sig=r'static constexpr uint8_t _guarded = ([^;]*);'),
        'dead': dict(file=H, kind='expr', sig=r'static constexpr uint8_t _dead = ([^;]*);'),
        'done': dict(file=H, kind='expr', sig=r'static constexpr uint8_t _done = ([^;]*);'),
        'lock_bit': dict(file=H, kind='expr', sig=r'static constexpr uintptr_t _lock_bit = ([^;]*);'),
        'lock': dict(file=H, sig=r'static T\* _lock\(T\* p\) noexcept', within=CANARY),
        'unlock': dict(file=H, sig=r'static T\* _unlock\(T\* p\) noexcept', within=CANARY),
        'is_locked': dict(file=H, sig=r'static bool _is_locked\(T\* p\) noexcept', within=CANARY),
        'state_init': dict(file=H, kind='expr', sig=r'std::atomic<uint8_t> state_\{([^}]*)\};'),
        'watcher_init': dict(file=H, kind='expr', sig=r'std::atomic<watcher\*> watcher_\{([^}]*)\};'),
        'watcher_ctor_init': dict(file=H, kind='expr', sig=r'explicit watcher\(canary& c\) noexcept : canary_\(([^)]*)\)', ctx=wctor_ctx),
        'watcher_ctor': dict(file=H, sig=r'explicit watcher\(canary& c\) noexcept : canary_\(&c\)', within=WATCHER, ctx=wctor_ctx, must_contain=[r'watcher_\.store']),
        'watch': dict(file=H, sig=r'\[\[nodiscard\]\] watcher watch\(\) noexcept', within=CANARY),
        'canary_dtor': dict(file=H, sig=r'~canary\(\) noexcept', within=CANARY, must_contain=[r'_dead', r'watcher_\.store\(nullptr'],
                            loops={0: C_LOOP + '__CPROVER_loop_invariant(C_SPIN_YIELD_INV)', 1: C_LOOP + '__CPROVER_loop_invariant(C_SPIN_STATE_INV)'}),
        'watcher_dtor': dict(file=H, sig=r'~watcher\(\) noexcept', within=WATCHER, ctx=w_ctx, must_contain=[r'compare_exchange_weak'],
                             loops={0: W_LOOP0 + '__CPROVER_loop_invariant(W_SPIN_OWN_INV)', 1: W_LOOP1 + '__CPROVER_loop_invariant(W_CLEAR_INV)'}),
        'alive_fn': dict(file=H, sig=r'\[\[nodiscard\]\] guard alive\(\) noexcept', within=WATCHER, ctx=w_ctx),
        'guard_ctor_init': dict(file=H, kind='expr', sig=r'explicit guard\(std::atomic<uint8_t>\* state\) noexcept : state_\(([^)]*)\)'),
        'guard_move_init': dict(file=H, kind='expr', sig=r'guard\(guard&& other\) noexcept\s*: state_\(((?:[^()]|\([^()]*\))*)\)', ctx=g_ctx),
        'guard_bool': dict(file=H, sig=r'explicit operator bool\(\) const noexcept', within=GUARD, ctx=g_ctx),
        'guard_dtor': dict(file=H, sig=r'~guard\(\) noexcept', within=GUARD, ctx=g_ctx),
    },
    closed_world=[dict(file=H, members=['watcher_', 'canary_', 'state_'], within=CANARY,
                       allow=[r'guard\(guard&& other\) noexcept\s*: state_\([^{};]*\) \{\}',
                              r'explicit guard\(std::atomic<uint8_t>\* state\) noexcept : state_\(state\) \{\}',
                              r'std::atomic<uint8_t>\* state_;',
                              r'std::atomic<canary\*> canary_;',
                              r'std::atomic<uint8_t> state_\{_alive\};',
                              r'std::atomic<watcher\*> watcher_\{nullptr\};'])],
    units=[
        dict(name='canary_dtor', harness='h_canary_dtor', enforce='canary_dtor', expect_loop_obligations=True, props=['C19', 'C02']),
        dict(name='watcher_dtor', harness='h_watcher_dtor', enforce='watcher_dtor', expect_loop_obligations=True, props=['C19', 'C02']),
        dict(name='watcher_alive', harness='h_watcher_alive', enforce='watcher_alive', props=['C19']),
        dict(name='guard_dtor', harness='h_guard_dtor', enforce='guard_dtor', props=['C19']),
        dict(name='guard_move', harness='h_guard_move', enforce='guard_move', props=['C19']),
        dict(name='canary_watch', harness='h_canary_watch', enforce='canary_watch', props=['C19']),
        dict(name='lemma_canary_protocol', harness='lemma_canary_protocol', mode='lemma', props=['C19', 'C02']),
        dict(name='lemma_canary_rely', harness='lemma_canary_rely', mode='lemma', props=['C19']),
        dict(name='lemma_canary_progress', harness='lemma_canary_progress', mode='lemma', props=['C19']),
        dict(name='lemma_canary_word', harness='lemma_canary_word', mode='lemma', props=['C19']),
    ],
    assumptions=[
        'one canary owner and one watcher owner: ~canary runs at most once; alive(), the guard and ~watcher are used by the watcher\'s owner in program order (a guard is destroyed before its watcher: it points into it)',
        'watch() / the watcher constructor do not run concurrently with ~canary, and only while no other watcher is attached (asserted by watch(), documented)',
        'alignof(canary) >= 2 and alignof(watcher) >= 2 (static_asserts in the header): the low bit of both pointers is free',
        'partial correctness only: the three spin loops and the CAS retry loop are not shown to terminate; what is shown instead: a party never waits on its own word while holding the lock on it, the canary waits on the state byte only after it found a guard, and from the state "both pointers locked" the canary\'s yield step and then the watcher\'s clear step are enabled (lemma_canary_progress)',
        'atomics sequentially consistent',
    ],
    drops=['memory orders', 'template genericity of _lock/_unlock/_is_locked (T* -> uintptr_t word; one C function for both instantiations)',
           'pointer-typed atomics -> uintptr_t words; `this` as a value -> (uintptr_t)self', 'guard{...} temporaries -> guard_ctor(); returned watcher (guaranteed elision) -> out parameter',
           'deleted move operations, operator= , static_asserts'],
)
