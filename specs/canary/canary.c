/* C19 (+ C02: neither object is touched after its destructor returned): include/unifex/canary.hpp --
 * ~canary, ~watcher, watcher::alive, guard::{~guard, move constructor, operator bool}, canary::watch + watcher constructor,
 * the tagged-pointer helpers _lock/_unlock/_is_locked.  Bodies marked @BODY/@EXPR are extracted from /repo on every run.
 *
 * Two parties: the canary's owner (runs ~canary once) and the watcher's owner (alive(), guards, then ~watcher).
 * Words: C.watcher_ in {0, W, W|1}, W.canary_ in {0, C, C|1}, W.state_ in {alive, guarded, dead, done}.
 *
 *   ~canary : IDLE -lock own-> L1 -lock peer-> L2 -state:=dead-> DEAD -(no guard) peer:=0-> REL -own:=0-> FIN -> returned (RETF)
 *                              L1 -(peer word locked by the watcher) own:=W-> YIELD -(own word seen 0)-> returned (RETE)
 *             IDLE -(own word seen 0)-> returned (RETE)
 *   ~watcher: IDLE -lock own-> L1 -(canary's word W) :=0-> CLR -own:=0-> FIN -> returned (RETC)
 *             IDLE -(own word seen 0)-> returned (RETS)
 *   alive() : state alive -> guarded (guard held);  ~guard: state := done (guard released)                                  */
#include <stddef.h>
#include <stdint.h>

struct canary { uintptr_t watcher_; };
struct watcher { uintptr_t canary_; uint8_t state_; };
struct guard { uint8_t* state_; };

enum { CP_IDLE, CP_L1, CP_YIELD, CP_L2, CP_DEAD, CP_REL, CP_FIN, CP_RETF, CP_RETE };
enum { WP_IDLE, WP_L1, WP_CLR, WP_FIN, WP_RETC, WP_RETS };
enum { P_C, P_W, P_N };     /* who runs: ~canary / the watcher's owner / construction (nothing concurrent) */

struct proto { uintptr_t cw, wc; uint8_t st, cp, wp; _Bool gh; };
struct vf_ghost {
  int me;
  uint8_t cp, wp;           /* progress of ~canary / ~watcher */
  _Bool gh;                 /* a truthy guard exists */
  uint8_t st_fin;           /* state byte of a watcher whose destructor has returned (its storage is gone) */
  struct watcher w_snap; struct canary c_snap;   /* dead-object snapshots */
  /* effects of the call under verification */
  unsigned c_writes, w_writes;                   /* its writes to the canary's word / to the watcher's words */
  unsigned dead_stores, rel_stores, yields, clr, done_stores, guard_cas, attach;
  uint8_t xchg_old;
};
static struct vf_ghost G;
static struct canary C;
static struct watcher W;
static struct guard GD, GD2;

static void vf_guar(void* p, uint64_t o, uint64_t n);
#define VF_G(p, o, n) vf_guar((void*)(p), (uint64_t)(o), (uint64_t)(n))
#include "vf.h"

static const uint8_t _alive = /*@EXPR alive*/;
static const uint8_t _guarded = /*@EXPR guarded*/;
static const uint8_t _dead = /*@EXPR dead*/;
static const uint8_t _done = /*@EXPR done*/;
static const uintptr_t _lock_bit = /*@EXPR lock_bit*/;
static uintptr_t canary_lock(uintptr_t p)
/*@BODY lock*/
static uintptr_t canary_unlock(uintptr_t p)
/*@BODY unlock*/
static _Bool canary_is_locked(uintptr_t p)
/*@BODY is_locked*/

/* ---------------- protocol predicates (specification) ---------------- */
#define IMP(a, b) (!(a) || (b))
#define WU ((uintptr_t)&W)
#define WL (((uintptr_t)&W) | (uintptr_t)1)
#define CU ((uintptr_t)&C)
#define CL (((uintptr_t)&C) | (uintptr_t)1)
#define C_GONE_P(cp) ((cp) >= CP_RETF)
#define W_GONE_P(wp) ((wp) >= WP_RETC)
#define C_FULL(cp) ((cp) == CP_L2 || (cp) == CP_DEAD || (cp) == CP_REL || (cp) == CP_FIN || (cp) == CP_RETF)   /* the canary got both locks */
#define C_MARKED(cp) ((cp) == CP_DEAD || (cp) == CP_REL || (cp) == CP_FIN || (cp) == CP_RETF)                   /* ... and stored dead */
#define W_OWN(wp) ((wp) == WP_L1 || (wp) == WP_CLR || (wp) == WP_FIN || (wp) == WP_RETC)                        /* the watcher got its own lock */
#define W_CLEARED(wp) ((wp) == WP_CLR || (wp) == WP_FIN || (wp) == WP_RETC)                                     /* ... and cleared the canary's pointer */
/* the words are a function of the two program counters; at most one party gets past the peer's word */
#define INVV(cw, wc, st, cp, wp, gh) ( (cp) <= CP_RETE && (wp) <= WP_RETS && (st) <= 3 \
  && ((cw) == 0 || (cw) == WU || (cw) == WL) && ((wc) == 0 || (wc) == CU || (wc) == CL) \
  && (((cw) == WL) == ((cp) == CP_L1 || (cp) == CP_L2 || (cp) == CP_DEAD || (cp) == CP_REL)) \
  && (((cw) == 0) == (W_CLEARED(wp) || (cp) == CP_FIN || (cp) == CP_RETF)) \
  && (((wc) == CL) == ((cp) == CP_L2 || (cp) == CP_DEAD || (wp) == WP_L1 || (wp) == WP_CLR)) \
  && (((wc) == 0) == ((cp) == CP_REL || (cp) == CP_FIN || (cp) == CP_RETF || (wp) == WP_FIN || (wp) == WP_RETC)) \
  && !(C_FULL(cp) && W_OWN(wp)) \
  && IMP((cp) == CP_L1, (wp) == WP_IDLE || (wp) == WP_L1) \
  && IMP((cp) == CP_YIELD, W_OWN(wp)) && IMP((cp) == CP_RETE, W_CLEARED(wp)) \
  && IMP((wp) == WP_RETS, (cp) == CP_REL || (cp) == CP_FIN || (cp) == CP_RETF) \
  && IMP((gh), ((st) == _guarded || (st) == _dead) && (wp) == WP_IDLE && ((cp) == CP_IDLE || (cp) == CP_L1 || (cp) == CP_L2 || (cp) == CP_DEAD)) \
  && IMP((st) == _guarded, (gh)) \
  && IMP((st) == _dead, C_MARKED(cp)) && IMP(C_MARKED(cp), (st) == _dead || (st) == _done) )
#define INV(p) INVV((p).cw, (p).wc, (p).st, (p).cp, (p).wp, (p).gh)
/* logical values: the words of an object whose destructor has returned are its last values (the storage itself is havocked) */
#define LOG_CW (C_GONE_P(G.cp) ? (uintptr_t)0 : C.watcher_)
#define LOG_WC (W_GONE_P(G.wp) ? (uintptr_t)0 : W.canary_)
#define LOG_ST (W_GONE_P(G.wp) ? G.st_fin : W.state_)
#define INV_NOW INVV(LOG_CW, LOG_WC, LOG_ST, G.cp, G.wp, G.gh)
#define PROTO_NOW(p) do { (p).cw = LOG_CW; (p).wc = LOG_WC; (p).st = LOG_ST; (p).cp = G.cp; (p).wp = G.wp; (p).gh = G.gh; } while (0)

/* reachability between program counters (transitive closure of the arrows in the header comment) */
#define REACH_C(x, y) ( (x) == (y) || (x) == CP_IDLE || ((x) == CP_L1 && (y) >= CP_YIELD) || ((x) == CP_YIELD && (y) == CP_RETE) \
  || ((x) >= CP_L2 && (x) <= CP_FIN && (y) > (x) && (y) <= CP_RETF) )
#define REACH_W(x, y) ( (x) == (y) || (x) == WP_IDLE || ((x) >= WP_L1 && (x) <= WP_FIN && (y) > (x) && (y) <= WP_RETC) )

/* environment of ~CANARY: the watcher's owner.  It moves the watcher's program counter forward; takes a guard only from `alive`
 * and releases it by storing `done`; uses alive()/guards only before ~watcher; everything else follows from the invariant
 * (in particular: it does not write a word the canary has locked, and ~watcher returns only with its word cleared). */
#define RELY_C(a, b) ( INV(b) && (b).cp == (a).cp && REACH_W((a).wp, (b).wp) \
  && ( ((b).st == (a).st && (b).gh == (a).gh) || ((a).st == _alive && (b).st == _guarded && (b).gh) || ((a).st == _alive && (b).st == _done && !(b).gh) \
       || (((a).st == _guarded || (a).st == _dead) && (a).gh && (b).st == _done && !(b).gh) ) \
  && IMP((a).wp != WP_IDLE, (b).st == (a).st && (b).gh == (a).gh) )
/* environment of the WATCHER'S OWNER (alive, ~guard, ~watcher): ~canary.  It moves the canary's program counter forward and
 * stores `dead` once, when it passes L2 -> DEAD. */
#define RELY_W(a, b) ( INV(b) && (b).wp == (a).wp && (b).gh == (a).gh && REACH_C((a).cp, (b).cp) \
  && ( (b).st == (a).st || ((b).st == _dead && ((a).cp == CP_IDLE || (a).cp == CP_L1 || (a).cp == CP_L2) && C_MARKED((b).cp)) ) )

/* what the property demands of a return from each destructor */
#define RET_C_OK(cw, wc, cp, wp, gh) ( (cw) == 0 && !(gh) && (wp) != WP_L1 && IMP((wp) == WP_IDLE, (wc) == 0) && ((cp) == CP_FIN || (cp) == CP_IDLE || (cp) == CP_YIELD) )
#define RET_W_OK(cw, wc, cp, wp) ( (wc) == 0 && (cp) != CP_L1 && (cp) != CP_L2 && (cp) != CP_DEAD && IMP((cp) == CP_IDLE, (cw) == 0) && ((wp) == WP_FIN || (wp) == WP_IDLE) )

#define W_EQ_SNAP (W.canary_ == G.w_snap.canary_ && W.state_ == G.w_snap.state_)
#define C_EQ_SNAP (C.watcher_ == G.c_snap.watcher_)
static void vf_w_dies(uint8_t last_state) {
  struct watcher f;
  G.st_fin = last_state;
  W.canary_ = f.canary_; W.state_ = f.state_;
  G.w_snap = W;
}
static void vf_c_dies(void) {
  struct canary f;
  C.watcher_ = f.watcher_;
  G.c_snap = C;
}

static uintptr_t nondet_cw(void) { switch (VF_nondet_u8() & 3) { case 0: return 0; case 1: return WU; default: return WL; } }
static uintptr_t nondet_wc(void) { switch (VF_nondet_u8() & 3) { case 0: return 0; case 1: return CU; default: return CL; } }
static struct proto any_proto(void) {
  struct proto p;
  p.cw = nondet_cw(); p.wc = nondet_wc(); p.st = VF_nondet_u8(); p.cp = VF_nondet_u8(); p.wp = VF_nondet_u8(); p.gh = VF_nondet_bool() ? 1 : 0;
  return p;
}
static void vf_interfere(void) {
  if (G.me == P_N) return;
  struct proto a, b;
  PROTO_NOW(a);
  b = any_proto();
  if (G.me == P_C) {
    __CPROVER_assume(RELY_C(a, b));
    C.watcher_ = b.cw; G.wp = b.wp; G.gh = b.gh;
    if (W_GONE_P(b.wp)) { if (!W_GONE_P(a.wp)) vf_w_dies(b.st); }
    else { W.canary_ = b.wc; W.state_ = b.st; }
  } else {
    __CPROVER_assume(RELY_W(a, b));
    W.canary_ = b.wc; W.state_ = b.st; G.cp = b.cp;
    if (C_GONE_P(b.cp)) { if (!C_GONE_P(a.cp)) vf_c_dies(); }
    else { C.watcher_ = b.cw; }
  }
}

/* guarantee: every write is one of the arrows of the header comment, taken from the right program counter */
static void vf_guar(void* p, uint64_t o, uint64_t n) {
  if (G.me == P_C) {
    if (p == (void*)&C.watcher_) {
      G.c_writes++;
      if (G.cp == CP_IDLE) {
        VF_P(o == WU && n == WL, "guarantee: the canary locks its own pointer first (W -> W|1)");
        G.cp = CP_L1;
      } else if (G.cp == CP_L1) {
        VF_P(o == WL && n == WU && LOG_WC == CL && G.wp == WP_L1, "guarantee: the canary gives its lock back only on deadlock (the watcher holds the lock on canary_): W|1 -> W");
        G.cp = CP_YIELD; G.yields++;
      } else {
        VF_P(G.cp == CP_REL && o == WL && n == 0, "guarantee: the canary clears its own pointer last, after it released the watcher");
        G.cp = CP_FIN;
      }
    } else if (p == (void*)&W.canary_) {
      VF_P(!W_GONE_P(G.wp), "no write to the watcher after ~watcher may have returned");
      G.w_writes++;
      if (G.cp == CP_L1) {
        VF_P(o == CU && n == CL, "guarantee: the canary locks the watcher's pointer second (C -> C|1), only from the unlocked value");
        G.cp = CP_L2;
      } else {
        VF_P(G.cp == CP_DEAD && o == CL && n == 0, "guarantee: the canary releases the watcher (canary_ := 0) only after it stored dead, holding both locks");
        VF_P(!G.gh, "the canary lets go of the watcher only when no guard is held (alive() true => ~canary blocks until the guard is released)");
        G.cp = CP_REL; G.rel_stores++;
      }
    } else if (p == (void*)&W.state_) {
      VF_P(!W_GONE_P(G.wp), "no write to the watcher after ~watcher may have returned");
      VF_P(G.cp == CP_L2 && G.dead_stores == 0, "guarantee: the canary writes the state byte once, holding both locks");
      VF_P(n == _dead, "guarantee: the canary writes only `dead` (never back to alive)");
      G.cp = CP_DEAD; G.xchg_old = (uint8_t)o; G.dead_stores++; G.w_writes++;
    } else {
      VF_P(0, "atomic write to an unexpected location");
    }
  } else if (G.me == P_W) {
    if (p == (void*)&W.canary_) {
      G.w_writes++;
      if (G.wp == WP_IDLE) {
        VF_P(o == CU && n == CL, "guarantee: the watcher locks its own pointer first (C -> C|1)");
        VF_P(!G.gh, "~watcher runs after its guard was destroyed");
        G.wp = WP_L1;
      } else {
        VF_P(G.wp == WP_CLR && o == CL && n == 0, "guarantee: the watcher clears its own pointer last, after it cleared the canary's");
        G.wp = WP_FIN;
      }
    } else if (p == (void*)&C.watcher_) {
      VF_P(!C_GONE_P(G.cp), "no write to the canary after ~canary may have returned");
      VF_P(G.wp == WP_L1 && o == WU && n == 0, "guarantee: the watcher clears the canary's pointer only holding its own lock, only from the unlocked value W");
      G.wp = WP_CLR; G.clr++; G.c_writes++;
    } else if (p == (void*)&W.state_) {
      G.w_writes++;
      if (n == _guarded) {
        VF_P(o == _alive && G.wp == WP_IDLE, "guarantee: a guard is taken only from `alive` (once dead/done is reported it is never alive again)");
        VF_P(!C_GONE_P(G.cp), "alive() is truthy only while the canary exists");
        G.gh = 1; G.guard_cas++;
      } else {
        VF_P(n == _done && G.gh, "guarantee: the watcher's owner writes the state byte only to take a guard or to release the guard it holds (done)");
        G.gh = 0; G.done_stores++;
      }
    } else {
      VF_P(0, "atomic write to an unexpected location");
    }
  } else {
    VF_P(p == (void*)&C.watcher_ && o == 0 && n == WU, "construction: the watcher attaches itself to a canary that has no watcher");
    G.attach++;
  }
}

/* instrumentation of accesses (spec.py POST) */
#define VF_THIS ((uintptr_t)self)
#define VF_W(w) ({ VF_P((w) == WU, "the canary dereferences only the watcher it locked"); VF_P(!W_GONE_P(G.wp), "no access to the watcher after ~watcher may have returned"); &W; })
#define VF_C(c) ({ VF_P((c) == CU, "the watcher dereferences only the canary it locked"); VF_P(!C_GONE_P(G.cp), "no access to the canary after ~canary may have returned"); &C; })
#define VF_LOAD_OWN(p, ...) ({ VF_P(G.me == P_N || (G.me == P_C ? (G.cp == CP_IDLE || G.cp == CP_YIELD) : G.wp == WP_IDLE), "a party reads (waits on) its own word only while it does not hold the lock on it: a party that gives up has released what it holds"); VF_LOAD(p, __VA_ARGS__); })
#define VF_LOAD_ST(p, ...) ({ VF_P(G.cp == CP_DEAD && G.xchg_old == _guarded, "the canary waits on the state byte only if it found a guard (it blocks destruction only while a guard is held)"); VF_LOAD(p, __VA_ARGS__); })

/* ---------------- functions under contract ---------------- */
#define COUNTERS_ZERO (G.c_writes == 0 && G.w_writes == 0 && G.dead_stores == 0 && G.rel_stores == 0 && G.yields == 0 && G.clr == 0 && G.done_stores == 0 && G.guard_cas == 0 && G.attach == 0)
#define W_DEAD_OK (!W_GONE_P(G.wp) || W_EQ_SNAP)
#define C_DEAD_OK (!C_GONE_P(G.cp) || C_EQ_SNAP)
/* loop invariants of ~canary */
#define C_SPIN_YIELD_INV (INV_NOW && G.me == P_C && self == &C && G.cp == CP_YIELD && G.c_writes == 2 && G.w_writes == 0 && G.dead_stores == 0 && G.rel_stores == 0 && G.yields == 1 && W_DEAD_OK)
#define C_SPIN_STATE_INV (INV_NOW && G.me == P_C && self == &C && w == WU && G.cp == CP_DEAD && G.xchg_old == _guarded && old == _guarded && G.c_writes == 1 && G.w_writes == 2 && G.dead_stores == 1 && G.rel_stores == 0 && G.yields == 0)
/* loop invariants of ~watcher */
#define W_SPIN_OWN_INV (INV_NOW && G.me == P_W && self == &W && G.wp == WP_IDLE && !G.gh && G.c_writes == 0 && G.w_writes == 0 && G.clr == 0 && C_DEAD_OK)
#define W_CLEAR_INV (INV_NOW && G.me == P_W && self == &W && c == CU && expected == WU && G.wp == WP_L1 && !G.gh && G.c_writes == 0 && G.w_writes == 1 && G.clr == 0)

void canary_dtor(struct canary* self)
__CPROVER_requires(self == &C && G.me == P_C && INV_NOW && G.cp == CP_IDLE && COUNTERS_ZERO && W_DEAD_OK)
__CPROVER_assigns(C, W, G)
/* the destructor does not return while a guard is held */
__CPROVER_ensures(!G.gh)
/* it returns with its own word cleared, and no step of the watcher's owner that touches the canary is enabled now or later */
__CPROVER_ensures(RET_C_OK(C.watcher_, LOG_WC, G.cp, G.wp, G.gh))
/* either it owned the watcher (both locks): marked it dead once and released it once; or it wrote nothing into the watcher */
__CPROVER_ensures(G.cp == CP_FIN ==> (G.dead_stores == 1 && G.rel_stores == 1 && G.w_writes == 3 && G.yields == 0 && (LOG_ST == _dead || LOG_ST == _done)))
__CPROVER_ensures(G.cp != CP_FIN ==> (G.w_writes == 0 && G.dead_stores == 0 && G.rel_stores == 0))
__CPROVER_ensures(G.cp == CP_IDLE ==> G.c_writes == 0)
__CPROVER_ensures(W_DEAD_OK)                       /* a watcher that is gone is never written */
__CPROVER_ensures(INV_NOW)
/*@BODY canary_dtor*/

void watcher_dtor(struct watcher* self)
__CPROVER_requires(self == &W && G.me == P_W && INV_NOW && G.wp == WP_IDLE && !G.gh && COUNTERS_ZERO && C_DEAD_OK)
__CPROVER_assigns(C, W, G)
/* it returns with its own word cleared, and no step of ~canary that touches the watcher is enabled now or later */
__CPROVER_ensures(RET_W_OK(LOG_CW, W.canary_, G.cp, G.wp))
/* either it cleared the canary's pointer (once, under its own lock), or the canary had released it and it touched nothing */
__CPROVER_ensures(G.wp == WP_FIN ==> (G.clr == 1 && G.c_writes == 1 && G.w_writes == 2))
__CPROVER_ensures(G.wp == WP_IDLE ==> (G.c_writes == 0 && G.w_writes == 0 && (G.cp == CP_REL || G.cp == CP_FIN || G.cp == CP_RETF)))
__CPROVER_ensures(G.done_stores == 0 && G.guard_cas == 0)
__CPROVER_ensures(C_DEAD_OK)                       /* a canary that is gone is never written */
__CPROVER_ensures(INV_NOW)
/*@BODY watcher_dtor*/

static struct guard guard_ctor(uint8_t* state) {
  struct guard g;
  g.state_ = /*@EXPR guard_ctor_init*/;
  return g;
}

struct guard watcher_alive(struct watcher* self)
__CPROVER_requires(self == &W && G.me == P_W && INV_NOW && G.wp == WP_IDLE && COUNTERS_ZERO && C_DEAD_OK)
__CPROVER_assigns(C, W, G)
/* truthy iff this call moved alive -> guarded; then the canary exists and cannot finish its destructor */
__CPROVER_ensures((__CPROVER_return_value.state_ != NULL) == (G.guard_cas == 1))
__CPROVER_ensures(__CPROVER_return_value.state_ != NULL ==> (__CPROVER_return_value.state_ == &W.state_ && G.gh && !C_GONE_P(G.cp) && G.cp != CP_REL && G.cp != CP_FIN && G.w_writes == 1))
__CPROVER_ensures(__CPROVER_return_value.state_ == NULL ==> (G.w_writes == 0 && G.gh == __CPROVER_old(G.gh)))
__CPROVER_ensures(G.c_writes == 0 && G.done_stores == 0 && G.wp == WP_IDLE)
__CPROVER_ensures(C_DEAD_OK)
__CPROVER_ensures(INV_NOW)
/*@BODY alive_fn*/

void guard_dtor(struct guard* self)
__CPROVER_requires(self == &GD && G.me == P_W && INV_NOW && G.wp == WP_IDLE && COUNTERS_ZERO && C_DEAD_OK)
__CPROVER_requires(GD.state_ == NULL || (GD.state_ == &W.state_ && G.gh))
__CPROVER_assigns(C, W, G)
/* a truthy guard releases exactly once (state := done: the canary's destructor is unblocked); a falsy one touches nothing */
__CPROVER_ensures(__CPROVER_old(GD.state_) != NULL ==> (G.done_stores == 1 && G.w_writes == 1 && !G.gh && LOG_ST == _done))
__CPROVER_ensures(__CPROVER_old(GD.state_) == NULL ==> (G.done_stores == 0 && G.w_writes == 0 && G.gh == __CPROVER_old(G.gh)))
__CPROVER_ensures(G.c_writes == 0 && G.guard_cas == 0)
__CPROVER_ensures(C_DEAD_OK)
__CPROVER_ensures(INV_NOW)
/*@BODY guard_dtor*/

static _Bool guard_bool(struct guard* self)
/*@BODY guard_bool*/

/* guard(guard&&): the responsibility to release moves; the source becomes falsy */
void guard_move(struct guard* self, struct guard* other)
__CPROVER_requires(self == &GD2 && other == &GD)
__CPROVER_assigns(GD, GD2)
__CPROVER_ensures(GD2.state_ == __CPROVER_old(GD.state_) && GD.state_ == NULL)
{
  self->state_ = /*@EXPR guard_move_init*/;
}

void watcher_ctor(struct watcher* self, struct canary* c)
{
  self->canary_ = (uintptr_t)(/*@EXPR watcher_ctor_init*/);
  self->state_ = /*@EXPR state_init*/;
  /*@BODY watcher_ctor*/
}

void canary_watch(struct canary* self, struct watcher* vf_ret)
__CPROVER_requires(self == &C && vf_ret == &W && G.me == P_N && COUNTERS_ZERO)
__CPROVER_requires(/*P*/ C.watcher_ == 0)          /* only one watcher at a time (documented; asserted by watch()) */
__CPROVER_assigns(C, W, G)
__CPROVER_ensures(C.watcher_ == WU && W.canary_ == CU && W.state_ == _alive && G.attach == 1)
__CPROVER_ensures(INVV(C.watcher_, W.canary_, W.state_, CP_IDLE, WP_IDLE, 0))     /* the attached pair starts in the protocol invariant */
/*@BODY watch*/

/* ---------------- harnesses ---------------- */
static void h_zero(int me) {
  G.me = me; G.c_writes = 0; G.w_writes = 0; G.dead_stores = 0; G.rel_stores = 0; G.yields = 0; G.clr = 0; G.done_stores = 0; G.guard_cas = 0; G.attach = 0; G.xchg_old = 0;
  GD.state_ = NULL; GD2.state_ = NULL;
}
static void h_any_state(void) {
  struct proto p = any_proto();
  __CPROVER_assume(INV(p));
  G.cp = p.cp; G.wp = p.wp; G.gh = p.gh; G.st_fin = p.st;
  if (C_GONE_P(p.cp)) vf_c_dies(); else C.watcher_ = p.cw;
  if (W_GONE_P(p.wp)) vf_w_dies(p.st); else { W.canary_ = p.wc; W.state_ = p.st; }
}
void h_canary_dtor(void) {
  h_zero(P_C);
  h_any_state();
  __CPROVER_assume(G.cp == CP_IDLE);
  canary_dtor(&C);
  VF_CANARY("after ~canary");
  if (G.cp == CP_FIN) { VF_CANARY("~canary can own the watcher and mark it dead"); }
  if (G.cp == CP_FIN && G.xchg_old == _guarded) { VF_CANARY("~canary can find a guard and wait for its release"); }
  if (G.cp == CP_YIELD) { VF_CANARY("~canary can yield on deadlock"); }
  if (G.cp == CP_IDLE && G.c_writes == 0) { VF_CANARY("~canary can find the watcher gone"); }
  if (W_GONE_P(G.wp)) { VF_CANARY("the watcher can be gone when ~canary returns"); }
  /* the facts the property is about are stable: nothing the watcher's owner may still do invalidates them */
  vf_interfere();
  VF_P(!G.gh, "after ~canary returned no guard can be (or become) held");
  VF_P(RET_C_OK(C.watcher_, LOG_WC, G.cp, G.wp, G.gh), "after ~canary returned the watcher's owner has no step left that touches the canary");
  VF_P(IMP(G.wp == WP_IDLE, LOG_ST == _dead || LOG_ST == _done), "after ~canary returned a watcher that is still in use reports dead");
}
void h_watcher_dtor(void) {
  h_zero(P_W);
  h_any_state();
  __CPROVER_assume(G.wp == WP_IDLE && !G.gh);
  watcher_dtor(&W);
  VF_CANARY("after ~watcher");
  if (G.wp == WP_FIN) { VF_CANARY("~watcher can clear the canary's pointer"); }
  if (G.wp == WP_IDLE) { VF_CANARY("~watcher can find itself released by the canary"); }
  if (C_GONE_P(G.cp)) { VF_CANARY("the canary can be gone when ~watcher returns"); }
  vf_interfere();
  VF_P(RET_W_OK(LOG_CW, W.canary_, G.cp, G.wp), "after ~watcher returned ~canary has no step left that touches the watcher");
}
void h_watcher_alive(void) {
  h_zero(P_W);
  h_any_state();
  __CPROVER_assume(G.wp == WP_IDLE);
  struct guard g = watcher_alive(&W);
  VF_CANARY("after alive()");
  if (guard_bool(&g)) {
    VF_CANARY("alive() can be truthy");
    /* while the guard exists the canary cannot finish its destructor */
    vf_interfere();
    VF_P(G.gh && !C_GONE_P(G.cp) && G.cp != CP_REL && G.cp != CP_FIN, "while the guard is held ~canary has not released the watcher, let alone returned");
    if (LOG_ST == _dead) { VF_CANARY("~canary can be blocked on the guard"); }
  } else {
    VF_CANARY("alive() can be falsy");
    if (C_GONE_P(G.cp)) { VF_CANARY("alive() can report a canary that is gone"); }
    vf_interfere();
    VF_P(LOG_ST != _alive || G.gh, "a falsy alive() is never followed by `alive` again");
  }
}
void h_guard_dtor(void) {
  h_zero(P_W);
  h_any_state();
  __CPROVER_assume(G.wp == WP_IDLE);
  if (G.gh && VF_nondet_bool()) GD.state_ = &W.state_;
  guard_dtor(&GD);
  VF_CANARY("after ~guard");
  if (G.done_stores) { VF_CANARY("a truthy guard releases"); }
  if (!G.done_stores) { VF_CANARY("a falsy guard does nothing"); }
}
void h_guard_move(void) {
  h_zero(P_W);
  GD.state_ = VF_nondet_bool() ? &W.state_ : NULL;
  guard_move(&GD2, &GD);
  VF_P(guard_bool(&GD2) == (GD2.state_ != NULL) && !guard_bool(&GD), "operator bool is `state_ != nullptr`; the moved-from guard is falsy");
  VF_CANARY("after guard(guard&&)");
}
void h_canary_watch(void) {
  h_zero(P_N);
  G.cp = CP_IDLE; G.wp = WP_IDLE; G.gh = 0;
  C.watcher_ = /*@EXPR watcher_init*/;
  canary_watch(&C, &W);
  VF_CANARY("after watch()");
}

/* ---------------- M4 lemmas over the contracts ---------------- */
enum { ST_C_LOCK1, ST_C_LOCK2, ST_C_YIELD, ST_C_MARK, ST_C_REL, ST_C_FIN, ST_C_RET, ST_W_ALIVE, ST_W_GREL, ST_W_LOCK1, ST_W_CLR, ST_W_FIN, ST_W_RET, ST_NKINDS };
#define IS_C_STEP(k) ((k) <= ST_C_RET)
/* the steps exactly as vf_guar (writes) and the ensures RET_*_OK (returns) admit them */
static _Bool step(int kind, struct proto a, struct proto* out) {
  struct proto b = a;
  _Bool en = 0;
  switch (kind) {
  case ST_C_LOCK1: en = a.cp == CP_IDLE && a.cw == WU; b.cw = WL; b.cp = CP_L1; break;
  case ST_C_LOCK2: en = a.cp == CP_L1 && a.wc == CU; b.wc = CL; b.cp = CP_L2; break;
  case ST_C_YIELD: en = a.cp == CP_L1 && a.cw == WL && a.wc == CL && a.wp == WP_L1; b.cw = WU; b.cp = CP_YIELD; break;
  case ST_C_MARK:  en = a.cp == CP_L2; b.st = _dead; b.cp = CP_DEAD; break;
  case ST_C_REL:   en = a.cp == CP_DEAD && a.wc == CL && !a.gh; b.wc = 0; b.cp = CP_REL; break;
  case ST_C_FIN:   en = a.cp == CP_REL && a.cw == WL; b.cw = 0; b.cp = CP_FIN; break;
  case ST_C_RET:   en = !C_GONE_P(a.cp) && RET_C_OK(a.cw, a.wc, a.cp, a.wp, a.gh); b.cp = (a.cp == CP_FIN) ? CP_RETF : CP_RETE; break;
  case ST_W_ALIVE: en = a.wp == WP_IDLE && a.st == _alive; b.st = _guarded; b.gh = 1; break;
  case ST_W_GREL:  en = a.gh; b.st = _done; b.gh = 0; break;
  case ST_W_LOCK1: en = a.wp == WP_IDLE && a.wc == CU && !a.gh; b.wc = CL; b.wp = WP_L1; break;
  case ST_W_CLR:   en = a.wp == WP_L1 && a.cw == WU; b.cw = 0; b.wp = WP_CLR; break;
  case ST_W_FIN:   en = a.wp == WP_CLR && a.wc == CL; b.wc = 0; b.wp = WP_FIN; break;
  case ST_W_RET:   en = !W_GONE_P(a.wp) && !a.gh && RET_W_OK(a.cw, a.wc, a.cp, a.wp); b.wp = (a.wp == WP_FIN) ? WP_RETC : WP_RETS; break;
  default: en = 0;
  }
  *out = b;
  return en;
}
/* a step that dereferences the peer */
#define C_TOUCHES_W(k) ((k) == ST_C_LOCK2 || (k) == ST_C_MARK || (k) == ST_C_REL)
#define W_TOUCHES_C(k) ((k) == ST_W_CLR)
void lemma_canary_protocol(void) {
  struct proto a = any_proto(), b;
  int kind = VF_nondet_int();
  __CPROVER_assume(kind >= 0 && kind < ST_NKINDS);
  __CPROVER_assume(INV(a));
  _Bool en = step(kind, a, &b);
  __CPROVER_assume(en);
  VF_CANARY("lemma premises satisfiable");
  if (kind == ST_C_YIELD) { VF_CANARY("lemma: the deadlock state is reachable in the invariant"); }
  if (kind == ST_C_RET && a.cp == CP_YIELD) { VF_CANARY("lemma: return after yielding"); }
  if (kind == ST_W_RET && a.wp == WP_IDLE) { VF_CANARY("lemma: watcher returns after being released"); }
  if (kind == ST_W_GREL && a.st == _dead) { VF_CANARY("lemma: guard released under a blocked canary"); }
  VF_P(INV(b), "lemma: every step of either party preserves the protocol invariant");
  /* guarantee of one party is within the rely of the other */
  if (IS_C_STEP(kind)) VF_P(RELY_W(a, b), "lemma: every step of ~canary is allowed by the rely of the watcher's owner");
  else VF_P(RELY_C(a, b), "lemma: every step of the watcher's owner is allowed by the rely of ~canary");
  /* no use after destruction */
  VF_P(IMP(C_TOUCHES_W(kind), !W_GONE_P(a.wp)), "lemma: ~canary dereferences the watcher only while ~watcher cannot have returned");
  VF_P(IMP(W_TOUCHES_C(kind), !C_GONE_P(a.cp)), "lemma: ~watcher dereferences the canary only while ~canary cannot have returned");
  VF_P(IMP(kind == ST_W_ALIVE || kind == ST_W_GREL, !W_GONE_P(a.wp)), "lemma: alive() and guards are used on a live watcher");
  /* once a destructor has returned, the peer has no enabled step (now or later: the facts are in the invariant) that touches the dead object */
  VF_P(IMP(C_GONE_P(b.cp), b.cw == 0 && !b.gh && b.wp != WP_L1 && IMP(b.wp == WP_IDLE, b.wc == 0) && b.wc != CU), "lemma: after ~canary returned the watcher never points (unlocked) at the canary and has no step that touches it");
  VF_P(IMP(W_GONE_P(b.wp), b.wc == 0 && b.cp != CP_L1 && b.cp != CP_L2 && b.cp != CP_DEAD && IMP(b.cp == CP_IDLE, b.cw == 0) && b.cw != WU), "lemma: after ~watcher returned the canary never points (unlocked) at the watcher and has no step that touches it");
  /* pointers mutually consistent unless one side is in its destructor */
  VF_P(IMP(b.cp == CP_IDLE && b.wp == WP_IDLE, b.cw == WU && b.wc == CU), "lemma: outside the destructors the two pointers point at each other, unlocked");
  /* guard */
  VF_P(IMP(b.gh, !C_GONE_P(b.cp) && b.cp != CP_REL && b.cp != CP_FIN), "lemma: while a guard is held ~canary has neither released the watcher nor returned");
  VF_P(IMP(a.st != _alive, b.st != _alive), "lemma: once the state byte has left `alive` it never returns (dead is never followed by alive)");
  VF_P(IMP(C_GONE_P(b.cp) && b.wp == WP_IDLE, b.st == _dead || b.st == _done), "lemma: a watcher in use whose canary is gone reports dead");
  VF_P(IMP(kind == ST_C_RET, !a.gh), "lemma: ~canary does not return while a guard is held");
}
void lemma_canary_rely(void) {
  struct proto a = any_proto(), b = any_proto(), c = any_proto();
  __CPROVER_assume(INV(a));
  if (VF_nondet_bool()) {
    VF_P(RELY_C(a, a), "lemma: RELY_C reflexive");
    __CPROVER_assume(RELY_C(a, b) && RELY_C(b, c));
    VF_CANARY("RELY_C premises satisfiable");
    VF_P(RELY_C(a, c), "lemma: RELY_C transitive");
  } else {
    VF_P(RELY_W(a, a), "lemma: RELY_W reflexive");
    __CPROVER_assume(RELY_W(a, b) && RELY_W(b, c));
    VF_CANARY("RELY_W premises satisfiable");
    VF_P(RELY_W(a, c), "lemma: RELY_W transitive");
  }
}
/* partial correctness only, but the lock order cannot wedge the step relation: from "both pointers locked by different parties" the canary's
 * only step is to give its lock back, after which the watcher can clear; every other waiting state has an enabled step of the party waited for */
void lemma_canary_progress(void) {
  struct proto a = any_proto(), b, c, d;
  __CPROVER_assume(INV(a));
  if (a.cw == WL && a.wc == CL && a.cp == CP_L1) {
    VF_CANARY("progress: deadlock state");
    VF_P(a.wp == WP_L1, "lemma: both locked with the canary at L1 means the watcher holds the other lock");
    VF_P(step(ST_C_YIELD, a, &b), "lemma: on deadlock the canary's yield step is enabled");
    VF_P(!step(ST_C_LOCK2, a, &c) && !step(ST_W_CLR, a, &c), "lemma: ... and it is the only way forward");
    VF_P(INV(b) && step(ST_W_CLR, b, &c) && step(ST_W_FIN, c, &d), "lemma: after the canary yielded the watcher can clear both pointers");
    VF_P(INV(d) && step(ST_C_RET, d, &b) && step(ST_W_RET, d, &b), "lemma: ... and then both destructors can return");
  }
  if (a.wp == WP_IDLE && a.wc == CL) {          /* ~watcher waits on its own word */
    VF_CANARY("progress: watcher waits for the canary");
    VF_P(a.cp == CP_L2 || a.cp == CP_DEAD, "lemma: the watcher waits on its own word only while the canary holds both locks");
    VF_P(a.cp == CP_L2 ? step(ST_C_MARK, a, &b) : (a.gh ? step(ST_W_GREL, a, &b) : step(ST_C_REL, a, &b)), "lemma: the canary (or, if it is blocked, the guard's release) can move");
  }
  if (a.cp == CP_YIELD && a.cw != 0) {          /* ~canary waits on its own word */
    VF_CANARY("progress: canary waits for the watcher");
    VF_P(a.wp == WP_L1 && a.cw == WU && step(ST_W_CLR, a, &b), "lemma: the canary that yielded waits only for a watcher whose clear step is enabled");
  }
  if (a.cp == CP_DEAD && a.gh) {
    VF_CANARY("progress: canary blocked on a guard");
    VF_P(step(ST_W_GREL, a, &b) && step(ST_C_REL, b, &c), "lemma: releasing the guard unblocks the canary");
  }
}
/* the tagged words: helpers extracted from the code agree with the specification's reading; initial values */
void lemma_canary_word(void) {
  VF_P(_lock_bit == 1, "lemma: the lock bit is the low bit");
  VF_P(canary_lock(WU) == WL && canary_lock(CU) == CL && canary_unlock(WL) == WU && canary_unlock(CL) == CU && canary_unlock(WU) == WU, "lemma: _lock/_unlock set and clear the low bit");
  VF_P(canary_is_locked(WL) && canary_is_locked(CL) && !canary_is_locked(WU) && !canary_is_locked(CU) && !canary_is_locked(0), "lemma: _is_locked reads the low bit (alignment leaves it free)");
  VF_P(WU != 0 && WL != WU && CU != 0 && CL != CU && WL != 0 && CL != 0, "lemma: null, unlocked and locked values are distinguishable");
  VF_P(_alive != _guarded && _alive != _dead && _alive != _done && _guarded != _dead && _guarded != _done && _dead != _done && _alive <= 3 && _guarded <= 3 && _dead <= 3 && _done <= 3, "lemma: four distinct states");
  uintptr_t w0 = /*@EXPR watcher_init*/;
  VF_P(w0 == 0, "lemma: a fresh canary has no watcher");
  VF_P(INVV(w0, (uintptr_t)0, _alive, CP_IDLE, WP_RETC, 0), "lemma: an unwatched canary satisfies the invariant (as if a previous watcher had gone)");
  struct guard g = guard_ctor(&W.state_);
  VF_P(g.state_ == &W.state_ && guard_bool(&g), "lemma: a guard built from the state byte is truthy and points at it");
  g = guard_ctor(NULL);
  VF_P(!guard_bool(&g), "lemma: guard{nullptr} is falsy");
  VF_CANARY("lemma_canary_word reachable");
}
